import Sigc.SlotGLemmasWF4
/-!
  What an operation can do to the registrations of connections: a registration of `c` on a valid representation
  after the operation was there before (unless the operation is the one that binds `c`), and a connection other
  than the one operated on keeps its target or is nulled.  From this: `connected_stays` — a connection that reports
  `connected()` after an operation reported it before, for the same variable holding the same representation.
-/
namespace Sigc.SlotG

/-- `c0`: the connection the operation itself (re)binds, if any -/
structure Frame (c0 : Option Nat) (s s' : State) : Prop where
  regs : ∀ x X' c, s'.reps x = some X' → c ∈ X'.cbs → some c ≠ c0 → X'.call = true →
    ∃ X, s.reps x = some X ∧ c ∈ X.cbs ∧ X.call = true
  conns : ∀ c, some c ≠ c0 → s'.conns c = s.conns c ∨ s'.conns c = some none ∨ s'.conns c = none

theorem Frame.refl (c0 : Option Nat) (s : State) : Frame c0 s s :=
  ⟨fun _ X' _ h hc _ hcall => ⟨X', h, hc, hcall⟩, fun _ _ => .inl rfl⟩

theorem Frame.trans {c0 : Option Nat} {s s1 s2 : State} (h1 : Frame c0 s s1) (h2 : Frame c0 s1 s2) :
    Frame c0 s s2 := by
  constructor
  · intro x X2 c hx hc hne hcall
    obtain ⟨X1, hX1, hc1, hcall1⟩ := h2.regs x X2 c hx hc hne hcall
    exact h1.regs x X1 c hX1 hc1 hne hcall1
  · intro c hne
    rcases h2.conns c hne with h | h
    · rw [h]; exact h1.conns c hne
    · exact .inr h

/-- the general recipe: every representation of `s'` is one of `s` with fewer registrations (apart from `c0`)
    and a `call_` that was not switched on, or has no registration at all -/
theorem frame_of_sub {c0 : Option Nat} {s s' : State}
    (hr : ∀ x X', s'.reps x = some X' → (∀ c, c ∈ X'.cbs → some c = c0) ∨
      ∃ X, s.reps x = some X ∧ (∀ c, c ∈ X'.cbs → some c ≠ c0 → c ∈ X.cbs) ∧ (X'.call = true → X.call = true))
    (hc : ∀ c, some c ≠ c0 → s'.conns c = s.conns c ∨ s'.conns c = some none ∨ s'.conns c = none) :
    Frame c0 s s' := by
  refine ⟨?_, hc⟩
  intro x X' c hx hm hne hcall
  rcases hr x X' hx with h | ⟨X, hX, h1, h2⟩
  · exact absurd (h c hm) hne
  · exact ⟨X, hX, h1 c hm hne, h2 hcall⟩

theorem frame_of_casc {s s' : State} (h : Casc s s') (c0 : Option Nat) : Frame c0 s s' := by
  refine frame_of_sub ?_ ?_
  · intro x X' hx
    obtain ⟨X, hX, -, -, hcall, hcbs⟩ := h.reps x X' hx
    refine .inr ⟨X, hX, by intro c hc _; exact hcbs c hc, ?_⟩
    intro h'; rcases hcall with h1 | h1
    · rw [← h1]; exact h'
    · rw [h1] at h'; cases h'
  · intro c _
    rcases h.conns c with h1 | ⟨h1, -⟩ | ⟨h1, -⟩
    · exact .inl h1
    · exact .inr (.inl h1)
    · exact .inr (.inr h1)

/-- a step that leaves representations and connections alone -/
theorem frame_of_eq {s s' : State} (hr : s'.reps = s.reps) (hc : s'.conns = s.conns) (c0 : Option Nat) :
    Frame c0 s s' := by
  refine frame_of_sub ?_ ?_
  · intro x X' hx; rw [hr] at hx; exact .inr ⟨X', hx, fun _ h _ => h, fun h => h⟩
  · intro c _; rw [hc]; exact .inl rfl

theorem frame_modRep_same (s : State) (n : Nat) (g : Rep → Rep) (hg1 : ∀ N, (g N).cbs = N.cbs)
    (hg2 : ∀ N, (g N).call = N.call) (c0 : Option Nat) : Frame c0 s (s.modRep n g) := by
  refine frame_of_sub ?_ ?_
  · intro x X' hx
    rw [reps_modRep] at hx
    by_cases hxn : x = n
    · subst hxn; simp only [if_true, Option.map_eq_some_iff] at hx
      obtain ⟨X, hX, rfl⟩ := hx
      exact .inr ⟨X, hX, by intro c h _; rw [hg1] at h; exact h, by intro h; rw [hg2] at h; exact h⟩
    · rw [if_neg hxn] at hx; exact .inr ⟨X', hx, fun _ h _ => h, fun h => h⟩
  · intro c _; rw [conns_modRep]; exact .inl rfl

theorem frame_allocRep_empty (R : Rep) (hR : R.cbs = []) (s : State) (c0 : Option Nat) :
    Frame c0 s (allocRep R s) := by
  refine frame_of_sub ?_ ?_
  · intro x X' hx
    rw [reps_allocRep] at hx
    split at hx
    · cases hx; left; intro c hc; rw [hR] at hc; simp at hc
    · exact .inr ⟨X', hx, fun _ h _ => h, fun h => h⟩
  · intro c _; exact .inl rfl

theorem frame_swapVar {s : State} (v q : Nat) (o : Option Nat) (c0 : Option Nat) :
    Frame c0 s (swapVar v q o s) := by
  refine frame_of_sub ?_ ?_
  · intro x X' hx
    rw [reps_swapVar] at hx
    split at hx
    · cases hx
    · exact .inr ⟨X', hx, fun _ h _ => h, fun h => h⟩
  · intro c _
    cases hq : s.reps q with
    | none =>
      left; unfold swapVar weakNotify; simp only [hq, slotg_simp]
    | some Q =>
      rw [conns_swapVar v q o s Q hq]
      split
      · cases hcc : s.conns c with
        | none => left; rfl
        | some p => right; left; rfl
      · exact .inl rfl

theorem frame_killVar {s : State} (v q : Nat) (c0 : Option Nat) : Frame c0 s (killVar v q s) := by
  refine frame_of_sub ?_ ?_
  · intro x X' hx
    rw [reps_killVar] at hx
    split at hx
    · cases hx
    · exact .inr ⟨X', hx, fun _ h _ => h, fun h => h⟩
  · intro c _
    cases hq : s.reps q with
    | none =>
      left; unfold killVar weakNotify; simp only [hq, slotg_simp]
    | some Q =>
      rw [conns_killVar v q s Q hq]
      split
      · cases hcc : s.conns c with
        | none => left; rfl
        | some p => right; left; rfl
      · exact .inl rfl

theorem frame_of_ext {s s' : State} (E : Ext s s') (c0 : Option Nat) : Frame c0 s s' := by
  refine frame_of_sub ?_ ?_
  · intro x X' hx
    by_cases hlt : x < s.nextRep
    · obtain ⟨X, hX, h1, -, h3⟩ := E.old x X' hx hlt
      exact .inr ⟨X, hX, by intro c' hc' _; rw [← h1]; exact hc', by intro h'; rw [← h3]; exact h'⟩
    · left; intro c hc
      rw [E.newCbs x X' hx (by omega)] at hc; simp at hc
  · intro c' _; rw [E.conns]; exact .inl rfl

theorem frame_cloneRep {s : State} (hw : WF s) (r : Nat) (c0 : Option Nat) : Frame c0 s (cloneRep r s) :=
  frame_of_ext (ext_cloneRep hw.inv hw.idle r) c0

theorem frame_eraseRep {s : State} (q : Nat) (c0 : Option Nat) : Frame c0 s (eraseRep q s) := by
  refine frame_of_sub ?_ ?_
  · intro x X' hx
    rw [reps_eraseRep] at hx
    split at hx
    · cases hx
    · exact .inr ⟨X', hx, fun _ h _ => h, fun h => h⟩
  · intro c _
    cases hq : s.reps q with
    | none =>
      left; unfold eraseRep weakNotify; simp only [hq, slotg_simp]
    | some Q =>
      rw [conns_eraseRep q s Q hq]
      split
      · cases hcc : s.conns c with
        | none => left; rfl
        | some p => right; left; rfl
      · exact .inl rfl

theorem frame_weakNotify (r : Nat) (s : State) (c0 : Option Nat) : Frame c0 s (weakNotify r s) := by
  refine frame_of_sub ?_ ?_
  · intro x X' hx
    rw [reps_weakNotify] at hx
    by_cases hxr : x = r
    · subst hxr; simp only [if_true, Option.map_eq_some_iff] at hx
      obtain ⟨X, -, rfl⟩ := hx
      left; intro c hc; simp at hc
    · rw [if_neg hxr] at hx; exact .inr ⟨X', hx, fun _ h _ => h, fun h => h⟩
  · intro c _
    cases hq : s.reps r with
    | none => left; unfold weakNotify; simp only [hq]
    | some Q =>
      rw [conns_weakNotify r s Q hq]
      split
      · cases hcc : s.conns c with
        | none => left; rfl
        | some p => right; left; rfl
      · exact .inl rfl

theorem frame_switchRep (s : State) (d n : Nat) (par : Option Nat) (c0 : Option Nat) :
    Frame c0 s (switchRep d n par s) :=
  (frame_modRep_same s n (fun N => { N with parent := par }) (fun _ => rfl) (fun _ => rfl) c0).trans
    (frame_of_eq (reps_modSlot _ _ _) (conns_modSlot _ _ _) c0)

theorem frame_exchange {s : State} (hI : Inv s) {d n : Nat} {N : Rep} (hn : s.reps n = some N)
    (hnc : N.cbs = []) (horph : Orphan s n) (c0 : Option Nat) : Frame c0 s (exchangeRep d n s) := by
  cases hq : repOf s d with
  | none =>
    rw [exchangeRep_eq]; simp only [hq]
    exact frame_of_eq (reps_modSlot _ _ _) (conns_modSlot _ _ _) c0
  | some q =>
    obtain ⟨Q, hQ⟩ := hI.repAlive d q hq
    have hne : n ≠ q := fun h => horph d (by rw [h]; exact hq)
    rw [exchangeRep_some hq hQ hne]
    have hI1 : Inv (weakNotify q s) := inv_weakNotify hI q
    have hq1 : repOf (weakNotify q s) d = some q := by rw [repOf_weakNotify]; exact hq
    have hQ1 : (weakNotify q s).reps q = some { Q with cbs := [] } := by
      rw [reps_weakNotify, if_pos rfl, hQ]; rfl
    have hn1 : (weakNotify q s).reps n = some N := by rw [reps_weakNotify, if_neg hne]; exact hn
    have horph1 : Orphan (weakNotify q s) n := by intro w; rw [repOf_weakNotify]; exact horph w
    obtain ⟨hI2, -, -⟩ := inv_switchRep (Q := { Q with cbs := [] }) hI1 hq1 hQ1 rfl hn1 hnc horph1
    obtain ⟨hC, -⟩ := destroyRep_spec (fuel (switchRep d n Q.parent (weakNotify q s))) q _ hI2
    exact (((frame_weakNotify q s c0).trans (frame_switchRep _ d n Q.parent c0)).trans
      (frame_of_casc hC c0)).trans (frame_eraseRep q c0)

theorem frame_deleteRepWithCheck {s : State} (hw : WF s) (v : Nat) (hnm : v < anonBase) (c0 : Option Nat)
    (he : (deleteRepWithCheck v s).err = false) : Frame c0 s (deleteRepWithCheck v s) := by
  have hI := hw.inv
  rw [deleteRepWithCheck_eq] at he ⊢
  cases hv : repOf s v with
  | none => exact Frame.refl c0 s
  | some r =>
    simp only [hv] at he ⊢
    by_cases ha : ((repDisconnect r s).reps r).isSome = true
    · simp only [ha, if_true] at he ⊢
      rw [err_eraseRep] at he
      have he1 : (repDisconnect r s).err = false := by
        cases hx : (repDisconnect r s).err with
        | false => rfl
        | true =>
          rw [destroyRep_err_true _ _ _ (by rw [err_weakNotify, err_modSlot]; exact hx)] at he
          exact absurd he (by simp)
      obtain ⟨hC1, hI1⟩ := repDisconnect_spec hI r he1
      have hv1 : repOf (repDisconnect r s) v = some r := by
        simp only [repOf, repDisconnect_slot hI hv hnm he1]; exact hv
      obtain ⟨R1, hR1⟩ := hI1.repAlive v r hv1
      rw [weakNotify_modSlot] at he ⊢
      have hI1' : Inv (weakNotify r (repDisconnect r s)) := inv_weakNotify hI1 r
      have hv1' : repOf (weakNotify r (repDisconnect r s)) v = some r := by rw [repOf_weakNotify]; exact hv1
      have hR1' : (weakNotify r (repDisconnect r s)).reps r = some { R1 with cbs := [] } := by
        rw [reps_weakNotify, if_pos rfl, hR1]; rfl
      obtain ⟨hI2, -⟩ := inv_unhold hI1' hv1' hR1' rfl
      obtain ⟨hC3, -⟩ := destroyRep_spec
        (fuel ((weakNotify r (repDisconnect r s)).modSlot v fun V => { V with rep := none })) r _ hI2
      exact ((((frame_of_casc hC1 c0).trans (frame_weakNotify r _ c0)).trans
        (frame_of_eq (reps_modSlot _ _ _) (conns_modSlot _ _ _) c0)).trans
        (frame_of_casc hC3 c0)).trans (frame_eraseRep r c0)
    · simp only [ha] at he ⊢
      obtain ⟨hC1, -⟩ := repDisconnect_spec hI r he
      exact frame_of_casc hC1 c0

theorem frame_setConn (s : State) (c : Nat) (o : Option (Option Nat)) : Frame (some c) s (s.setConn c o) := by
  refine frame_of_sub ?_ ?_
  · intro x X' hx; rw [reps_setConn] at hx; exact .inr ⟨X', hx, fun _ h _ => h, fun h => h⟩
  · intro c' hne
    have : c' ≠ c := fun h => hne (by rw [h])
    rw [conns_setConn, if_neg this]; exact .inl rfl

theorem frame_slotAddCb (v c : Nat) (s : State) : Frame (some c) s (slotAddCb v c s) := by
  rw [slotAddCb_eq]
  split
  · exact Frame.refl _ s
  · rename_i r _
    refine frame_of_sub ?_ ?_
    · intro x X' hx
      rw [reps_modRep] at hx
      by_cases hxr : x = r
      · subst hxr; simp only [if_true, Option.map_eq_some_iff] at hx
        obtain ⟨X, hX, rfl⟩ := hx
        refine .inr ⟨X, hX, ?_, fun h => h⟩
        intro c' hc' hne
        simp only [List.mem_append, List.mem_singleton] at hc'
        rcases hc' with h | h
        · exact h
        · exact absurd (by rw [h]) hne
      · rw [if_neg hxr] at hx; exact .inr ⟨X', hx, fun _ h _ => h, fun h => h⟩
    · intro c' _; rw [conns_modRep]; exact .inl rfl

theorem frame_slotRemCb (v c : Nat) (s : State) (c0 : Option Nat) : Frame c0 s (slotRemCb v c s) := by
  rw [slotRemCb_eq]
  split
  · exact Frame.refl _ s
  · rename_i r _
    refine frame_of_sub ?_ ?_
    · intro x X' hx
      rw [reps_modRep] at hx
      by_cases hxr : x = r
      · subst hxr; simp only [if_true, Option.map_eq_some_iff] at hx
        obtain ⟨X, hX, rfl⟩ := hx
        exact .inr ⟨X, hX, fun c' hc' _ => List.mem_of_mem_erase hc', fun h => h⟩
      · rw [if_neg hxr] at hx; exact .inr ⟨X', hx, fun _ h _ => h, fun h => h⟩
    · intro c' _; rw [conns_modRep]; exact .inl rfl

/-- the connection an operation (re)binds -/
def boundConn : Op → Option Nat
  | .connS c _ | .newC c | .cpC c _ | .asgC c _ | .delC c => some c
  | _ => none

theorem frame_apply {s : State} (hw : WF s) (op : Op) (hc' : check s op = none)
    (he : (apply op s).err = false) : Frame (boundConn op) s (apply op s) := by
  have hI := hw.inv
  obtain ⟨hn, hc⟩ := check_named hc'
  clear hc'
  cases op with
  | newT t => exact (by apply frame_of_eq <;> rfl)
  | delT t =>
    have he' : (trkNotify t s).err = false := he
    exact (frame_of_casc (trkNotify_spec hw t he').2.1 _).trans ((by apply frame_of_eq <;> rfl))
  | notifyT t => exact frame_of_casc (trkNotify_spec hw t he).2.1 _
  | mkS v f =>
    have h2 : specCheck s f = none := by
      simp only [check0] at hc
      split at hc
      · cases hc
      · exact hc
    simp only [Op.named, Op.names, List.all_cons, Bool.and_eq_true, decide_eq_true_eq, List.all_eq_true] at hn
    exact (frame_of_ext (ext_newRep hI hw.idle h2 hn.2) _).trans ((by apply frame_of_eq <;> rfl))
  | mkS0 v => exact (by apply frame_of_eq <;> rfl)
  | cpS j i =>
    simp only [apply]
    cases hi : s.slots i with
    | none => exact Frame.refl _ s
    | some X =>
      simp only []
      cases hr : X.rep with
      | none => exact (by apply frame_of_eq <;> rfl)
      | some r =>
        simp only []
        split
        · exact (by apply frame_of_eq <;> rfl)
        · exact (frame_cloneRep hw r _).trans ((by apply frame_of_eq <;> rfl))
  | mvS j i =>
    simp only [apply]
    cases hi : s.slots i with
    | none => exact Frame.refl _ s
    | some X =>
      simp only []
      cases hr : X.rep with
      | none => exact (by apply frame_of_eq <;> rfl)
      | some r =>
        simp only []
        obtain ⟨R, hR⟩ := hI.repAlive i r (repOf_eq.mpr ⟨X, hi, hr⟩)
        split
        · split
          · exact (by apply frame_of_eq <;> rfl)
          · exact (frame_cloneRep hw r _).trans ((by apply frame_of_eq <;> rfl))
        · exact ((frame_weakNotify r s _).trans ((by apply frame_of_eq <;> rfl))).trans ((by apply frame_of_eq <;> rfl))
  | asgS d x =>
    have hnd : d < anonBase := by
      have hn' : d < anonBase ∧ x < anonBase := by simpa [Op.named, Op.names] using hn
      exact hn'.1
    simp only [apply] at he ⊢
    cases hx : s.slots x with
    | none => exact Frame.refl _ s
    | some X =>
      simp only [hx] at he ⊢
      split
      · exact frame_of_eq (reps_modSlot _ _ _) (conns_modSlot _ _ _) _
      · rename_i hsame
        rw [if_neg hsame] at he
        split
        · rename_i hemp; rw [if_pos hemp] at he; exact frame_deleteRepWithCheck hw d hnd _ he
        · cases hr : X.rep with
          | none => exact Frame.refl _ s
          | some r =>
            simp only []
            obtain ⟨R, hR⟩ := hI.repAlive x r (repOf_eq.mpr ⟨X, hx, hr⟩)
            obtain ⟨N, hF⟩ := fresh_cloneRep hw r
            have hF' := fresh_modSlot_blocked hF d X.blocked
            exact ((frame_cloneRep hw r _).trans
              (frame_of_eq (reps_modSlot _ _ _) (conns_modSlot _ _ _) _)).trans
              (frame_exchange hF'.inv hF'.self hF'.cbs hF'.orph _)
  | masgS d x =>
    have hnd : d < anonBase := by
      have hn' : d < anonBase ∧ x < anonBase := by simpa [Op.named, Op.names] using hn
      exact hn'.1
    simp only [apply] at he ⊢
    cases hx : s.slots x with
    | none => exact Frame.refl _ s
    | some X =>
      simp only [hx] at he ⊢
      split
      · exact frame_of_eq (reps_modSlot _ _ _) (conns_modSlot _ _ _) _
      · rename_i hsame
        rw [if_neg hsame] at he
        split
        · rename_i hemp; rw [if_pos hemp] at he; exact frame_deleteRepWithCheck hw d hnd _ he
        · cases hr : X.rep with
          | none => exact Frame.refl _ s
          | some r =>
            simp only []
            have hrx : repOf s x = some r := repOf_eq.mpr ⟨X, hx, hr⟩
            obtain ⟨R, hR⟩ := hI.repAlive x r hrx
            have hw0 := wf_modSlot_blocked hw d X.blocked
            have hF0 : Frame none s (s.modSlot d fun D => { D with blocked := X.blocked }) :=
              frame_of_eq (reps_modSlot _ _ _) (conns_modSlot _ _ _) _
            have hR0 : (s.modSlot d fun D => { D with blocked := X.blocked }).reps r = some R := by
              rw [reps_modSlot]; exact hR
            split
            · obtain ⟨N, hF⟩ := fresh_cloneRep hw0 r
              have hnx : (s.modSlot d fun D => { D with blocked := X.blocked }).nextRep = s.nextRep :=
                nextRep_modSlot _ _ _
              refine (hF0.trans (frame_cloneRep hw0 r _)).trans ?_
              have := frame_exchange (d := d) hF.inv hF.self hF.cbs hF.orph none
              rw [hnx] at this
              exact this
            · rename_i hpar
              have hRp : R.parent = none := by
                cases hpp : R.parent with
                | none => rfl
                | some p => exact absurd ((hasParent_iff s x).mpr ⟨r, R, p, hrx, hR, hpp⟩) hpar
              obtain ⟨h1, -, -, h4, h5, -, -⟩ := moveOut_pre hw0
                (by rw [repOf_modSlot_blocked]; exact hrx) hR0 hRp
              have hFm : Frame none (s.modSlot d fun D => { D with blocked := X.blocked })
                  (moveOut x r (s.modSlot d fun D => { D with blocked := X.blocked })) :=
                (frame_weakNotify r _ _).trans (by apply frame_of_eq <;> rfl)
              exact (hF0.trans hFm).trans (frame_exchange h1 h4 rfl h5 _)
  | setS d f =>
    have hspec : specCheck s f = none := by
      simp only [check0] at hc
      split at hc
      · simp at hc
      · exact hc
    simp only [Op.named, Op.names, List.all_cons, Bool.and_eq_true, decide_eq_true_eq, List.all_eq_true] at hn
    obtain ⟨N, hF0⟩ := fresh_newRep hw hspec hn.2
    have hF := fresh_modSlot_blocked hF0 d false
    exact ((frame_of_ext (ext_newRep hI hw.idle hspec hn.2) _).trans
      (frame_of_eq (reps_modSlot _ _ _) (conns_modSlot _ _ _) _)).trans
      (frame_exchange hF.inv hF.self hF.cbs hF.orph _)
  | clrS d =>
    have hnd : d < anonBase := by simpa [Op.named, Op.names] using hn
    simp only [apply] at he ⊢
    split
    · exact frame_of_eq (reps_modSlot _ _ _) (conns_modSlot _ _ _) _
    · rename_i r hr; simp only [hr] at he; exact frame_deleteRepWithCheck hw d hnd _ he
  | delS v =>
    rw [apply_delS] at he ⊢
    cases hv : repOf s v with
    | none => exact (by apply frame_of_eq <;> rfl)
    | some r =>
      simp only []
      rw [deleteRep_setSlot]
      obtain ⟨hC, -⟩ := destroyRep_spec (fuel s) r s hI
      exact (frame_of_casc hC _).trans (frame_killVar v r _)
  | discS v =>
    simp only [apply] at he ⊢
    split
    · exact Frame.refl _ s
    · rename_i r hr; simp only [hr] at he; exact frame_of_casc (repDisconnect_spec hI r he).1 _
  | blockS v b => exact frame_of_eq (reps_modSlot _ _ _) (conns_modSlot _ _ _) _
  | unblockS v => exact frame_of_eq (reps_modSlot _ _ _) (conns_modSlot _ _ _) _
  | blockedS v => exact Frame.refl _ s
  | emptyS v => exact Frame.refl _ s
  | boolS v => exact Frame.refl _ s
  | parentS v => exact Frame.refl _ s
  | callS v a => exact Frame.refl _ s
  | connS c v => exact (frame_setConn s c _).trans (frame_slotAddCb v c _)
  | newC c => exact frame_setConn s c _
  | cpC j i =>
    simp only [apply]
    split
    · exact frame_setConn s j _
    · exact (frame_setConn s j _).trans (frame_slotAddCb _ j _)
  | asgC d x =>
    simp only [apply]
    have h1 : Frame (some d) s (match connTarget s d with | none => s | some v => slotRemCb v d s) := by
      split
      · exact Frame.refl _ s
      · exact frame_slotRemCb _ d s _
    split
    · exact h1.trans (frame_setConn _ d _)
    · exact (h1.trans (frame_setConn _ d _)).trans (frame_slotAddCb _ d _)
  | delC c =>
    simp only [apply]
    have h1 : Frame (some c) s (match connTarget s c with | none => s | some v => slotRemCb v c s) := by
      split
      · exact Frame.refl _ s
      · exact frame_slotRemCb _ c s _
    exact h1.trans (frame_setConn _ c _)
  | discC c =>
    simp only [apply] at he ⊢
    cases hv : connTarget s c with
    | none => exact Frame.refl _ s
    | some v =>
      simp only [hv] at he ⊢
      cases hr : repOf s v with
      | none => exact Frame.refl _ s
      | some r => simp only [hr] at he ⊢; exact frame_of_casc (repDisconnect_spec hI r he).1 _
  | connectedC c => exact Frame.refl _ s
  | emptyC c => exact Frame.refl _ s
  | blockedC c => exact Frame.refl _ s
  | blockC c b =>
    simp only [apply]
    split
    · exact Frame.refl _ s
    · exact frame_of_eq (reps_modSlot _ _ _) (conns_modSlot _ _ _) _
  | unblockC c =>
    simp only [apply]
    split
    · exact Frame.refl _ s
    · exact frame_of_eq (reps_modSlot _ _ _) (conns_modSlot _ _ _) _
  | live fid => exact Frame.refl _ s
  | bad => exact Frame.refl _ s

end Sigc.SlotG
