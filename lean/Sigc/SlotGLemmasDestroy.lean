import Sigc.SlotGLemmasConn2
/-!
  The cascades of the `SlotG` model preserve `Inv`, stay inside `Casc`, and leave what they were called for
  without a functor: `destroyRep_spec`, `notifyInv_spec`, `trkNotify_spec`.
-/
namespace Sigc.SlotG

/-! ### `delete` of an owned slot variable whose representation has been destroyed -/

/-- `~trackable` of the representation (notify the weak pointers), free it, free the variable -/
def killVar (h r' : Nat) (s : State) : State := ((weakNotify r' s).setRep r' none).setSlot h none

@[slotg_simp] theorem reps_killVar (h r' : Nat) (s : State) (x : Nat) :
    (killVar h r' s).reps x = if x = r' then none else s.reps x := by
  unfold killVar weakNotify
  split <;> simp only [slotg_simp, nullConns] <;> grind
@[slotg_simp] theorem slots_killVar (h r' : Nat) (s : State) (x : Nat) :
    (killVar h r' s).slots x = if x = h then none else s.slots x := by
  unfold killVar weakNotify
  split <;> simp only [slotg_simp, nullConns]
@[slotg_simp] theorem repOf_killVar (h r' : Nat) (s : State) (v : Nat) :
    repOf (killVar h r' s) v = if v = h then none else repOf s v := by
  simp only [repOf, slots_killVar]; by_cases h' : v = h <;> simp [h']
@[slotg_simp] theorem trks_killVar (h r' : Nat) (s : State) : (killVar h r' s).trks = s.trks := by
  unfold killVar weakNotify
  split <;> simp only [slotg_simp, nullConns]
@[slotg_simp] theorem nextRep_killVar (h r' : Nat) (s : State) : (killVar h r' s).nextRep = s.nextRep := by
  unfold killVar weakNotify
  split <;> simp only [slotg_simp, nullConns]
@[slotg_simp] theorem err_killVar (h r' : Nat) (s : State) : (killVar h r' s).err = s.err := by
  unfold killVar weakNotify
  split <;> simp only [slotg_simp, nullConns]
theorem conns_killVar (h r' : Nat) (s : State) (R' : Rep) (hr : s.reps r' = some R') (c : Nat) :
    (killVar h r' s).conns c = if c ∈ R'.cbs then (s.conns c).map (fun _ => none) else s.conns c := by
  unfold killVar weakNotify
  simp only [hr, slotg_simp, nullConns, List.contains_iff_mem]

theorem inv_killVar {s : State} (h : Inv s) {v r' : Nat} {R' : Rep} (hv : repOf s v = some r')
    (hr : s.reps r' = some R') (hfn : R'.fn = none) (hno : ¬ Owned s v) (hnp : ¬ Pinned s v) :
    Inv (killVar v r' s) := by
  have hc := conns_killVar v r' s R' hr
  unfold Pinned at hnp
  inv_auto h

theorem inv_kill0 {s : State} (h : Inv s) {v : Nat} (hv : repOf s v = none)
    (hno : ¬ Owned s v) (hnp : ¬ Pinned s v) : Inv (s.setSlot v none) := by
  unfold Pinned at hnp
  inv_auto h

theorem casc_killVar {s s3 : State} (hc : Casc s s3) {v r' : Nat} (ho : Owned s v)
    (hrep : repOf s3 v = some r') : Casc s (killVar v r' s3) := by
  have h1 := hc.nextRep; have h2 := hc.reps; have h3 := hc.slots; have h4 := hc.slotsKeep
  have h5 := hc.conns; have h6 := hc.trkDom; have h7 := hc.trkEnt; have h8 := hc.trkClr; have h9 := hc.err
  have h10 := hc.trkFlags; have h11 := hc.killed; have h12 := hc.orphanKeep
  constructor
  · st_simp; exact h1
  · intro x X' hx; st_simp; grind
  · intro w V' hw; st_simp; grind
  · intro w hw; st_simp; grind
  · intro c
    cases hr : s3.reps r' with
    | none =>
      have : (killVar v r' s3).conns c = s3.conns c := by
        unfold killVar weakNotify; simp only [hr, slotg_simp]
      rw [this]; exact h5 c
    | some R' =>
      rw [conns_killVar v r' s3 R' hr]
      by_cases hm : c ∈ R'.cbs
      · simp only [hm, if_true]
        rcases h5 c with h5c | ⟨h5c, w, hw⟩ | ⟨h5c, ho'⟩
        · cases hcc : s3.conns c with
          | none => left; rw [← h5c, hcc]; rfl
          | some o =>
            cases o with
            | none => left; rw [← h5c, hcc]; rfl
            | some w => right; left; exact ⟨rfl, w, by rw [← h5c, hcc]⟩
        · rw [h5c]; right; left; exact ⟨rfl, w, hw⟩
        · rw [h5c]; right; right; exact ⟨rfl, ho'⟩
      · simp only [hm, if_false]; exact h5 c
  · intro t; st_simp; exact h6 t
  · intro t T' x ht hx; st_simp; exact h7 t T' x ht hx
  · intro t T' x ht hx; st_simp; exact h10 t T' x ht hx
  · intro t T' ht; st_simp; exact h8 t T' ht
  · intro w x hw; st_simp; grind [repOf_eq]
  · intro x X hx ho; st_simp; grind [repOf_eq]
  · intro he; st_simp; exact h9 he

theorem casc_kill0 {s s3 : State} (hc : Casc s s3) {v : Nat} (ho : Owned s v)
    (hrep : repOf s3 v = none) : Casc s (s3.setSlot v none) := by
  have h1 := hc.nextRep; have h2 := hc.reps; have h3 := hc.slots; have h4 := hc.slotsKeep
  have h5 := hc.conns; have h6 := hc.trkDom; have h7 := hc.trkEnt; have h8 := hc.trkClr; have h9 := hc.err
  have h10 := hc.trkFlags; have h11 := hc.killed; have h12 := hc.orphanKeep
  casc_auto

/-! ### the Boolean scans of the model and their meaning -/

theorem anyRep_iff {s : State} (hb : ∀ r R, s.reps r = some R → r < s.nextRep) (p : Nat → Rep → Bool) :
    anyRep s p = true ↔ ∃ r R, s.reps r = some R ∧ p r R = true := by
  unfold anyRep
  rw [List.any_eq_true]
  constructor
  · rintro ⟨r, _, hr⟩
    cases hR : s.reps r with
    | none => simp [hR] at hr
    | some R => exact ⟨r, R, hR, by simpa [hR] using hr⟩
  · rintro ⟨r, R, hR, hp⟩
    exact ⟨r, List.mem_range.mpr (hb r R hR), by simpa [hR] using hp⟩

theorem ownedBy_iff {s : State} (hb : ∀ r R, s.reps r = some R → r < s.nextRep) (v : Nat) :
    ownedBy s v = true ↔ Owned s v := by
  unfold ownedBy Owned
  rw [anyRep_iff hb]
  constructor
  · rintro ⟨r, R, hR, hp⟩
    unfold Rep.ownsVar at hp
    split at hp
    · rename_i f hfn
      exact ⟨r, R, f, hR, hfn, by simpa using hp⟩
    · simp at hp
  · rintro ⟨r, R, f, hR, hf, hfo⟩
    exact ⟨r, R, hR, by simp [Rep.ownsVar, hf, hfo]⟩

theorem pinned_iff {s : State} (hb : ∀ r R, s.reps r = some R → r < s.nextRep) (v : Nat) :
    pinned s v = true ↔ Pinned s v := by
  unfold pinned Pinned
  rw [anyRep_iff hb]
  constructor
  · rintro ⟨r, R, hR, hp⟩
    unfold Rep.refs at hp
    split at hp
    · rename_i fid v' hfn
      exact ⟨r, R, fid, hR, by simp_all⟩
    · simp at hp
  · rintro ⟨r, R, fid, hR, hf⟩
    exact ⟨r, R, hR, by simp [Rep.refs, hf]⟩

theorem ownedCBy_iff {s : State} (hb : ∀ r R, s.reps r = some R → r < s.nextRep) (c : Nat) :
    ownedCBy s c = true ↔ OwnedC s c := by
  unfold ownedCBy OwnedC
  rw [anyRep_iff hb]
  constructor
  · rintro ⟨r, R, hR, hp⟩
    unfold Rep.ownsConn at hp
    split at hp
    · rename_i f hfn
      exact ⟨r, R, f, hR, hfn, by simpa using hp⟩
    · simp at hp
  · rintro ⟨r, R, f, hR, hf, hfo⟩
    exact ⟨r, R, hR, by simp [Rep.ownsConn, hf, hfo]⟩

/-! ### `destroyRep` -/

theorem destroyRep_zero (r : Nat) (s : State) : destroyRep 0 r s = { s with err := true } := rfl

theorem destroyRep_succ (k r : Nat) (s : State) : destroyRep (k + 1) r s =
    match s.reps r with
    | none => s
    | some R =>
      match R.fn with
      | none => s.setRep r (some { R with call := false })
      | some f =>
        match f.owns with
        | none =>
          (match f.ownsC with
           | none => dropFn r R f s
           | some c => if ownedCBy (dropFn r R f s) c then dropFn r R f s else killConn c (dropFn r R f s))
        | some h =>
          if ownedBy (dropFn r R f s) h then dropFn r R f s else
          match (dropFn r R f s).slots h with
          | none => dropFn r R f s
          | some V =>
            match V.rep with
            | none => (dropFn r R f s).setSlot h none
            | some r' => killVar h r' (destroyRep k r' (dropFn r R f s)) := rfl

theorem inv_err {s : State} (h : Inv s) (b : Bool) : Inv { s with err := b } :=
  ⟨h.repAlive, h.repUniq, h.connReg, h.cbsConn, h.regUniq, h.cbsNodup, h.parentOk, h.trkReg, h.trkEnt, h.trkNodup,
   h.refOk, h.ownOk, h.nestOk, h.anonBound, h.repBound, h.regHeld, h.ownCOk⟩

theorem casc_err (s : State) : Casc s { s with err := true } :=
  { nextRep := rfl
    reps := fun _ X' h => ⟨X', h, .inl rfl, .inl rfl, .inl rfl, fun _ hc => hc⟩
    slots := fun _ _ h => h
    slotsKeep := fun _ _ => rfl
    conns := fun _ => .inl rfl
    trkDom := fun _ => rfl
    trkEnt := fun _ T' _ h hx => ⟨T', h, hx⟩
    trkFlags := fun _ T' _ h hx => ⟨T', h, .inl hx⟩
    trkClr := fun _ T' h => ⟨T', h, rfl⟩
    killed := fun _ _ h => .inl h
    orphanKeep := fun _ X h _ => ⟨X, h⟩
    err := fun _ => rfl }

theorem dropFn_self {s : State} {r : Nat} {R : Rep} {f : Fun} (R' : Rep)
    (h : (dropFn r R f s).reps r = some R') : R'.fn = none := by
  unfold dropFn at h
  rw [reps_modRep] at h
  simp only [if_true] at h
  cases hx : (unbindFun r f (s.setRep r (some { R with call := false }))).reps r with
  | none => simp [hx] at h
  | some X => simp [hx] at h; rw [← h]

/-- `destroyRep` keeps the invariant, only does what cascades do, and leaves `r` without functor -/
theorem destroyRep_spec : ∀ (k r : Nat) (s : State), Inv s →
    Casc s (destroyRep k r s) ∧
    ((destroyRep k r s).err = false →
      Inv (destroyRep k r s) ∧ ∀ R', (destroyRep k r s).reps r = some R' → R'.fn = none) := by
  intro k
  induction k with
  | zero =>
    intro r s h
    rw [destroyRep_zero]
    exact ⟨casc_err s, fun he => by simp at he⟩
  | succ k ih =>
    intro r s h
    rw [destroyRep_succ]
    cases hr : s.reps r with
    | none => exact ⟨Casc.refl s, fun _ => ⟨h, fun R' h' => by simp [hr] at h'⟩⟩
    | some R =>
      simp only []
      cases hf : R.fn with
      | none =>
        simp only []
        refine ⟨casc_setRep_same hr (.inr rfl) (.inl rfl) (.inl (by simp [hf])) (fun _ hc => hc), fun _ =>
          ⟨inv_setRep_same h hr rfl (by simp [hf]) rfl, ?_⟩⟩
        intro R' h'
        simp only [reps_setRep, if_true, Option.some.injEq] at h'
        rw [← h']
      | some f =>
        simp only []
        have hI2 : Inv (dropFn r R f s) := inv_dropFn h hr hf
        have hC2 : Casc s (dropFn r R f s) := casc_dropFn hr h.trkNodup
        have hP2 : ∀ R', (dropFn r R f s).reps r = some R' → R'.fn = none := fun R' => dropFn_self R'
        cases ho : f.owns with
        | none =>
          simp only []
          cases hoc : f.ownsC with
          | none => exact ⟨hC2, fun _ => ⟨hI2, hP2⟩⟩
          | some c =>
            simp only []
            have hOwnC : OwnedC s c := ⟨r, R, f, hr, hf, hoc⟩
            by_cases hob : ownedCBy (dropFn r R f s) c = true
            · rw [if_pos hob]; exact ⟨hC2, fun _ => ⟨hI2, hP2⟩⟩
            · rw [if_neg hob]
              have hNO2 : ¬ OwnedC (dropFn r R f s) c := fun hh =>
                hob ((ownedCBy_iff hI2.repBound c).mpr hh)
              refine ⟨casc_killConn hC2 hOwnC, fun _ => ⟨inv_killConn hI2 hNO2, ?_⟩⟩
              intro R' h'
              obtain ⟨X, hX, -, -, hfn, -⟩ := reps_killConn_of c _ r R' h'
              rw [hfn]; exact hP2 X hX
        | some hv =>
          simp only []
          -- `f` is an owning functor for `hv`
          have hOwn : Owned s hv := ⟨r, R, f, hr, hf, ho⟩
          have hNP : ¬ Pinned s hv := by
            rintro ⟨x, X, fid, hx, hfx⟩
            exact (h.refOk x X fid hv hx hfx).2.2 hOwn
          by_cases hob : ownedBy (dropFn r R f s) hv = true
          · rw [if_pos hob]; exact ⟨hC2, fun _ => ⟨hI2, hP2⟩⟩
          · rw [if_neg hob]
            have hNO2 : ¬ Owned (dropFn r R f s) hv := fun hh =>
              hob ((ownedBy_iff hI2.repBound hv).mpr hh)
            have hNP2 : ¬ Pinned (dropFn r R f s) hv := fun hh => hNP (hC2.pinned hh)
            cases hs : (dropFn r R f s).slots hv with
            | none => exact ⟨hC2, fun _ => ⟨hI2, hP2⟩⟩
            | some V =>
              simp only []
              cases hvr : V.rep with
              | none =>
                simp only []
                have hrep : repOf (dropFn r R f s) hv = none := by simp [repOf, hs, hvr]
                refine ⟨casc_kill0 hC2 hOwn hrep, fun _ => ⟨inv_kill0 hI2 hrep hNO2 hNP2, ?_⟩⟩
                intro R' h'
                rw [reps_setSlot] at h'
                exact hP2 R' h'
              | some r' =>
                simp only []
                have hrep : repOf (dropFn r R f s) hv = some r' := by simp [repOf, hs, hvr]
                obtain ⟨hC3, hrest⟩ := ih r' (dropFn r R f s) hI2
                -- `hv` still holds `r'` after the nested cascade
                have hs3 : (destroyRep k r' (dropFn r R f s)).slots hv = (dropFn r R f s).slots hv :=
                  hC3.slotsKeep hv hNO2
                have hrep3 : repOf (destroyRep k r' (dropFn r R f s)) hv = some r' := by
                  simp [repOf, hs3, hs, hvr]
                refine ⟨casc_killVar (hC2.trans hC3) hOwn hrep3, ?_⟩
                intro he
                rw [err_killVar] at he
                obtain ⟨hI3, hP3⟩ := hrest he
                obtain ⟨R3, hR3⟩ := hI3.repAlive hv r' hrep3
                have hNO3 : ¬ Owned (destroyRep k r' (dropFn r R f s)) hv := fun hh => hNO2 (hC3.owned hh)
                have hNP3 : ¬ Pinned (destroyRep k r' (dropFn r R f s)) hv := fun hh => hNP2 (hC3.pinned hh)
                refine ⟨inv_killVar hI3 hrep3 hR3 (hP3 R3 hR3) hNO3 hNP3, ?_⟩
                intro R' h'
                rw [reps_killVar] at h'
                split at h'
                · simp at h'
                · obtain ⟨X, hX, hfn, -⟩ := hC3.reps r R' h'
                  have := hP2 X hX
                  grind

/-! ### `err` is sticky -/

theorem err_unbindFun (r : Nat) (f : Fun) (s : State) : (unbindFun r f s).err = s.err := by
  cases f with
  | fn fid => rfl
  | mem fid t => exact err_trkRemove t r s
  | sref fid v => exact err_unsetParentIf v r s
  | own fid v t =>
    cases t with
    | none => rfl
    | some t => exact err_trkRemove t r s
  | nest fid v d => exact err_unsetParentIf v r s
  | ownc fid c => rfl

theorem err_dropFn (r : Nat) (R : Rep) (f : Fun) (s : State) : (dropFn r R f s).err = s.err := by
  unfold dropFn; rw [err_modRep, err_unbindFun, err_setRep]

theorem destroyRep_err_true : ∀ (k r : Nat) (s : State), s.err = true → (destroyRep k r s).err = true := by
  intro k
  induction k with
  | zero => intro r s _; rfl
  | succ k ih =>
    intro r s he
    rw [destroyRep_succ]
    split
    · exact he
    · split
      · simpa [err_setRep] using he
      · have h2 : (dropFn r ‹Rep› ‹Fun› s).err = true := by rw [err_dropFn]; exact he
        split
        · split
          · exact h2
          · split
            · exact h2
            · rw [err_killConn]; exact h2
        · split
          · exact h2
          · split
            · exact h2
            · split
              · simpa [err_setSlot] using h2
              · rw [err_killVar]; exact ih _ _ h2

/-! ### `notifyInv` -/

/-- the tail of `notify_slot_rep_invalidated`: `if (notifier) self_->destroy();` -/
def notifyTail (r : Nat) (s2 : State) : State :=
  if (s2.reps r).isSome then destroyRep (fuel s2) r s2 else s2

theorem notifyInv_zero (r : Nat) (s : State) : notifyInv 0 r s = { s with err := true } := rfl

theorem notifyInv_succ (k r : Nat) (s : State) : notifyInv (k + 1) r s =
    match s.reps r with
    | none => s
    | some R =>
      notifyTail r (match R.parent with
        | none => s.setRep r (some { R with call := false, parent := none })
        | some p => notifyInv k p (s.setRep r (some { R with call := false, parent := none }))) := rfl

theorem notifyTail_err_true (r : Nat) (s : State) (he : s.err = true) : (notifyTail r s).err = true := by
  unfold notifyTail; split
  · exact destroyRep_err_true _ _ _ he
  · exact he

theorem notifyTail_spec {s : State} (h : Inv s) (r : Nat) (he : (notifyTail r s).err = false) :
    Casc s (notifyTail r s) ∧ Inv (notifyTail r s) ∧
      ∀ R', (notifyTail r s).reps r = some R' → R'.fn = none := by
  unfold notifyTail at he ⊢
  split
  · rename_i ha
    simp only [ha, if_true] at he
    obtain ⟨hC, hrest⟩ := destroyRep_spec (fuel s) r s h
    obtain ⟨hI, hP⟩ := hrest he
    exact ⟨hC, hI, hP⟩
  · rename_i ha
    refine ⟨Casc.refl s, h, ?_⟩
    intro R' hR'; simp [hR'] at ha

theorem notifyInv_err_true : ∀ (k r : Nat) (s : State), s.err = true → (notifyInv k r s).err = true := by
  intro k
  induction k with
  | zero => intro r s _; rfl
  | succ k ih =>
    intro r s he
    rw [notifyInv_succ]
    split
    · exact he
    · apply notifyTail_err_true
      split
      · simpa [err_setRep] using he
      · exact ih _ _ (by simpa [err_setRep] using he)

/-- `notifyInv` keeps the invariant, only does what cascades do, and leaves `r` invalid, parentless and
    without functor -/
theorem notifyInv_spec : ∀ (k r : Nat) (s : State), Inv s → (notifyInv k r s).err = false →
    Casc s (notifyInv k r s) ∧ Inv (notifyInv k r s) ∧
    ∀ R', (notifyInv k r s).reps r = some R' → R'.fn = none ∧ R'.parent = none ∧ R'.call = false := by
  intro k
  induction k with
  | zero => intro r s _ he; simp [notifyInv_zero] at he
  | succ k ih =>
    intro r s h he
    rw [notifyInv_succ] at he ⊢
    cases hr : s.reps r with
    | none => exact ⟨Casc.refl s, h, fun R' hR' => by simp [hr] at hR'⟩
    | some R =>
      simp only [hr] at he ⊢
      have hI1 := inv_setRep_noParent h hr false
      have hC1 : Casc s (s.setRep r (some { R with call := false, parent := none })) :=
        casc_setRep_noParent hr
      have hr1 : (s.setRep r (some { R with call := false, parent := none })).reps r =
          some { R with call := false, parent := none } := by simp [reps_setRep]
      -- the state the tail runs on
      have key : ∀ s2, Casc (s.setRep r (some { R with call := false, parent := none })) s2 → Inv s2 →
          (notifyTail r s2).err = false →
          Casc s (notifyTail r s2) ∧ Inv (notifyTail r s2) ∧
            ∀ R', (notifyTail r s2).reps r = some R' → R'.fn = none ∧ R'.parent = none ∧ R'.call = false := by
        intro s2 hC2 hI2 he2
        obtain ⟨hC3, hI3, hP3⟩ := notifyTail_spec hI2 r he2
        refine ⟨hC1.trans (hC2.trans hC3), hI3, ?_⟩
        intro R' hR'
        refine ⟨hP3 R' hR', ?_⟩
        obtain ⟨X, hX, -, hpar, hcall, -⟩ := (hC2.trans hC3).reps r R' hR'
        rw [hr1] at hX
        cases hX
        simp at hpar hcall
        exact ⟨hpar, hcall⟩
      cases hp : R.parent with
      | none =>
        simp only [hp] at he ⊢
        exact key _ (Casc.refl _) hI1 he
      | some p =>
        simp only [hp] at he ⊢
        have he2 : (notifyInv k p (s.setRep r (some { R with call := false, parent := none }))).err = false := by
          cases hx : (notifyInv k p (s.setRep r (some { R with call := false, parent := none }))).err with
          | false => rfl
          | true => rw [notifyTail_err_true _ _ hx] at he; exact absurd he (by simp)
        obtain ⟨hC2, hI2, -⟩ := ih p _ hI1 he2
        exact key _ hC2 hI2 he

/-! ### `trkNotify` -/

def trkStep (t : Nat) (s : State) (e : Nat × Bool) : State :=
  if entryActive s t e.1 then notifyInv (fuel s) e.1 s else s

theorem trkNotify_eq (t : Nat) (s : State) : trkNotify t s =
    match s.trks t with
    | none => s
    | some T =>
      (T.entries.foldl (trkStep t) (s.setTrk t (some { T with clearing := true }))).setTrk t (some ⟨[], false⟩) :=
  rfl

theorem entryActive_iff (s : State) (t r : Nat) :
    entryActive s t r = true ↔ ∃ T, s.trks t = some T ∧ (r, true) ∈ T.entries := by
  unfold entryActive
  split <;> simp_all

theorem trkStep_err_true (t : Nat) (s : State) (e : Nat × Bool) (he : s.err = true) :
    (trkStep t s e).err = true := by
  unfold trkStep; split
  · exact notifyInv_err_true _ _ _ he
  · exact he

theorem trkFold_err_true (t : Nat) : ∀ (l : List (Nat × Bool)) (s : State), s.err = true →
    (l.foldl (trkStep t) s).err = true := by
  intro l
  induction l with
  | nil => intro s he; exact he
  | cons e l ih => intro s he; exact ih _ (trkStep_err_true t s e he)

theorem trkFold_spec (t : Nat) : ∀ (l : List (Nat × Bool)) (s : State), Inv s →
    (l.foldl (trkStep t) s).err = false →
    Casc s (l.foldl (trkStep t) s) ∧ Inv (l.foldl (trkStep t) s) ∧
      ∀ e ∈ l, entryActive (l.foldl (trkStep t) s) t e.1 = false := by
  intro l
  induction l with
  | nil => intro s h _; exact ⟨Casc.refl s, h, by simp⟩
  | cons e l ih =>
    intro s h he
    simp only [List.foldl_cons] at he ⊢
    have he1 : (trkStep t s e).err = false := by
      cases hx : (trkStep t s e).err with
      | false => rfl
      | true => rw [trkFold_err_true t l _ hx] at he; exact absurd he (by simp)
    -- one step
    have step : Casc s (trkStep t s e) ∧ Inv (trkStep t s e) ∧ entryActive (trkStep t s e) t e.1 = false := by
      unfold trkStep at he1 ⊢
      by_cases ha : entryActive s t e.1 = true
      · simp only [ha, if_true] at he1 ⊢
        obtain ⟨hC, hI, hP⟩ := notifyInv_spec (fuel s) e.1 s h he1
        refine ⟨hC, hI, ?_⟩
        cases hact : entryActive (notifyInv (fuel s) e.1 s) t e.1 with
        | false => rfl
        | true =>
          obtain ⟨T, hT, hm⟩ := (entryActive_iff _ _ _).mp hact
          obtain ⟨R', f, hR', hf, -⟩ := hI.trkEnt t T e.1 hT hm
          have := (hP R' hR').1
          simp [hf] at this
      · simp only [ha] at he1 ⊢
        exact ⟨Casc.refl s, h, by simpa using ha⟩
    obtain ⟨hC1, hI1, hA1⟩ := step
    obtain ⟨hC2, hI2, hA2⟩ := ih _ hI1 he
    refine ⟨hC1.trans hC2, hI2, ?_⟩
    intro e' he'
    rcases List.mem_cons.mp he' with rfl | hm
    · cases hact : entryActive (l.foldl (trkStep t) (trkStep t s e')) t e'.1 with
      | false => rfl
      | true =>
        obtain ⟨T, hT, hm⟩ := (entryActive_iff _ _ _).mp hact
        obtain ⟨T1, hT1, hm1⟩ := hC2.trkEnt t T e'.1 hT hm
        have : entryActive (trkStep t s e') t e'.1 = true := (entryActive_iff _ _ _).mpr ⟨T1, hT1, hm1⟩
        rw [hA1] at this; exact absurd this (by simp)
    · exact hA2 e' hm

end Sigc.SlotG
