import Sigc.Run
/-!
# Sigc.Spec — the statement-level specification `S` of the runtime core

What the properties C01–C04, C06–C08, C12–C15, C17, C18 *say*, as an executable interpreter of the same
operation language as `Sigc.Model`, without any of the library's mechanism:

* a signal's slot list is a plain list of entries; disconnecting, invalidating or clearing removes
  entries **immediately**, also while an emission is running (no `exec_count_`, no `deferred_`, no
  sweep, no end marker, no parent records);
* an emission takes a **snapshot** of the entries present when it starts and offers each of them its
  turn in order; an entry is invoked iff, at its turn, it is still in the list, valid and unblocked;
* an accumulator walks that snapshot by index;
* the list lives while some signal object refers to it or an emission of it is running.

Observables the statements leave open are answered `*` ("any"): `size()/empty()/blocked()` of a signal
while one of its emissions runs, `blocked()`/`block()` through a connection whose slot is gone,
functor-copy counts while a functor is executing.  Slot values (`SlotB`), functor values (`Fun`),
signal objects (`Handle`) and the op language are shared with `Sigc.Model`.
-/
namespace Sigc.Spec
open Sigc.Model

structure LCell where
  id : Nat
  slot : SlotB
  marker : Bool := false      -- only with `k2`: the end marker of a running emission
  zombie : Bool := false      -- only with `k2`: left the list while an emission of it was running
deriving Repr, Inhabited

structure LSig where
  cells : List LCell := []
  active : Nat := 0           -- emissions of this list in progress
  dirty : Bool := false       -- only with `known.k1`: an entry left the list while an emission ran
  limbo : List SlotB := []    -- slots disconnected while an emission of the list ran: the statements let the
                              -- library keep their functor copies until no emission is in progress
deriving Repr, Inhabited

structure LSt where
  T : List (Nat × Nat) := []
  S : List (Nat × SlotVar) := []
  G : List (Nat × Handle) := []
  C : List (Nat × Option Nat) := []
  K : List (Nat × Option Nat) := []
  sigs : List (Nat × LSig) := []
  ownedT : List Nat := []
  ownedK : List (Nat × Option Nat) := []
  ownedG : List (Nat × Nat) := []
  next : Nat := 1
  depth : Nat := 0
  steps : Nat := 0
  trace : List Event := []
  err : Option String := none
  /-- known findings reproduced (both `false` = the specification proper):
      `k1` — `size()` counts a connected *empty* slot only until the next deferred sweep drops it;
      `k2` — the range of an accumulated emission nested in an emission of the same list also has
             one (never invoked) position per outer emission in progress -/
  k1 : Bool := false
  k2 : Bool := false
deriving Repr, Inhabited

def LSt.log (s : LSt) (e : Event) : LSt := { s with trace := e :: s.trace }
def LSt.fresh (s : LSt) : Nat × LSt := (s.next, { s with next := s.next + 1 })
def LSt.fail (s : LSt) (m : String) : LSt :=
  match s.err with
  | none => { s with err := some m }
  | some _ => s

def setSig (s : LSt) (i : Nat) (g : LSig) : LSt := { s with sigs := aset s.sigs i g }

def findSig (sigs : List (Nat × LSig)) (cid : Nat) : Option Nat :=
  match sigs with
  | [] => none
  | (i, g) :: t => if g.cells.any (fun c => c.id = cid && !c.zombie) then some i else findSig t cid

def getCell (s : LSt) (cid : Nat) : Option (Nat × LCell) :=
  match findSig s.sigs cid with
  | none => none
  | some i =>
    match aget s.sigs i with
    | none => none
    | some g => (g.cells.find? (fun c => c.id = cid && !c.zombie)).map (fun c => (i, c))

/-- with `k2`, an entry that leaves the list while an emission of it runs stays as a never-invoked
    position until the outermost emission has returned -/
def LSig.remove (g : LSig) (k1 k2 : Bool) (dropFn : Bool) (p : LCell → Bool) : LSig :=
  let hit := g.cells.any (fun c => p c && !c.zombie && !c.marker)
  let gone (c : LCell) : SlotB := if dropFn then c.slot.invalidate else c.slot.disconnectRep
  { g with
    cells := if k2 && g.active > 0 then
               g.cells.map (fun c => if p c && !c.marker && !c.zombie then { c with zombie := true, slot := gone c } else c)
             else g.cells.filter (fun c => !(p c) || c.marker),
    limbo := if !k2 && g.active > 0 && !dropFn then
               g.limbo ++ ((g.cells.filter (fun c => p c && !c.marker)).map (·.slot))
             else g.limbo,
    dirty := g.dirty || (k1 && g.active > 0 && hit) }

/-- the entry leaves its list -/
def removeCell (s : LSt) (cid : Nat) : LSt :=
  match findSig s.sigs cid with
  | none => s
  | some i =>
    match aget s.sigs i with
    | none => s
    | some g => setSig s i (g.remove s.k1 s.k2 false (·.id = cid))

def updCell (s : LSt) (cid : Nat) (f : LCell → LCell) : LSt :=
  match findSig s.sigs cid with
  | none => s
  | some i =>
    match aget s.sigs i with
    | none => s
    | some g => setSig s i { g with cells := g.cells.map (fun c => if c.id = cid then f c else c) }

/-- the list dies when no signal object refers to it and no emission of it is running -/
def gcSig (s : LSt) (i : Nat) : LSt :=
  match aget s.sigs i with
  | none => s
  | some g =>
    if g.active = 0 && !(s.G.any (fun p => p.2.impl = some i)) then { s with sigs := adel s.sigs i } else s

/-- a trackable object dies (or notifies): every slot referring to it becomes empty and leaves its signal -/
def invalidateTrackable (s : LSt) (t : Nat) : LSt :=
  let s := { s with S := amap s.S (fun v => if v.slot.tracksObj t then { v with slot := v.slot.invalidate } else v) }
  { s with sigs := amap s.sigs (fun g => g.remove s.k1 s.k2 true (fun c => c.slot.tracksObj t)) }

def ensureSig (s : LSt) (g : Nat) : Option (LSt × Nat) :=
  match aget s.G g with
  | none => none
  | some h =>
    match h.impl with
    | some i => some (s, i)
    | none =>
      let (i, s) := s.fresh
      some ({ s with sigs := aset s.sigs i {}, G := aset s.G g { h with impl := some i } }, i)

def insertCell (s : LSt) (i : Nat) (first : Bool) (sl : SlotB) : LSt × Nat :=
  let (cid, s) := s.fresh
  let sl := match sl.rep with
    | none => { sl with rep := some { call := false, fn := none } }
    | some _ => sl
  let c : LCell := { id := cid, slot := sl }
  match aget s.sigs i with
  | none => (s.fail "insert: no list", cid)
  | some g => (setSig s i { g with cells := if first then c :: g.cells else g.cells ++ [c] }, cid)

def specTaint (s : LSt) : FSpec → Int
  | .fwd g => match aget s.G g with
    | some h => h.lvl
    | none => -1
  | .nest sv => match aget s.S sv with
    | some v => v.taint
    | none => -1
  | _ => -1

def mkFun (s : LSt) (isVoid : Bool) : FSpec → Except String (Fun × LSt)
  | .fn fid => .ok (.leaf fid [], s)
  | .mem fid t | .bref fid t =>
    match aget s.T t with
    | none => .error "dead"
    | some o => .ok (.leaf fid [o], s)
  | .trk fid t1 t2 =>
    match aget s.T t1 with
    | none => .error "dead"
    | some o1 =>
      match t2 with
      | none => .ok (.leaf fid [o1], s)
      | some t2 =>
        match aget s.T t2 with
        | none => .error "dead"
        | some o2 => .ok (.leaf fid [o1, o2], s)
  | .nest sv =>
    match aget s.S sv with
    | none => .error "dead"
    | some v =>
      if !isVoid && v.isVoid then .error "badtype"
      else
        let inner := v.slot.copy
        .ok (.nest inner.blocked (match inner.rep with | some r => r.fn | none => none), s)
  | .fwd g =>
    match aget s.G g with
    | none => .error "dead"
    | some h =>
      if h.fl.isVoid != isVoid then .error "badtype"
      else if !h.fl.isTrackable && s.ownedG.any (fun p => p.2 = g) then .error "owned"
      else
        let s := { s with G := aset s.G g { h with everFwd := true } }
        .ok (.fwd h.obj (if h.fl.isTrackable then [h.trk] else []), s)
  | .ownT fid t =>
    match aget s.T t with
    | none => .error "dead"
    | some o => .ok (.owner fid [o] [], { s with T := adel s.T t, ownedT := o :: s.ownedT })
  | .ownK fid k =>
    match aget s.K k with
    | none => .error "dead"
    | some p =>
      let (id, s) := s.fresh
      .ok (.owner fid [] [id], { s with K := adel s.K k, ownedK := (id, p) :: s.ownedK })
  | .ownG fid g =>
    match aget s.G g with
    | none => .error "dead"
    | some h =>
      if h.everFwd && !h.fl.isTrackable then .error "pinned" else
      if s.ownedG.any (fun p => p.2 = g) then .error "owned" else
      let (id, s) := s.fresh
      .ok (.owner fid [] [id], { s with ownedG := (id, g) :: s.ownedG })
  | .bad => .error "badtype"

/-- connected(): the slot it was obtained for is still held by its signal and valid -/
def connConnected (s : LSt) (p : Option Nat) : Bool :=
  match p with
  | none => false
  | some cid =>
    match getCell s cid with
    | none => false
    | some (_, c) => !c.slot.empty

def connBlockedStr (s : LSt) (p : Option Nat) : String :=
  match p with
  | none => "0"
  | some cid =>
    match getCell s cid with
    | none => "*"          -- the slot is gone: blocked() is left open by the statements
    | some (_, c) => bstr c.slot.blocked

def heldT (s : LSt) (o : Nat) : Bool :=
  s.S.any (fun p => p.2.slot.holdsT o)
  || s.sigs.any (fun p => p.2.cells.any (fun c => c.slot.holdsT o) || p.2.limbo.any (fun sl => sl.holdsT o))

def heldK (s : LSt) (k : Nat) : Bool :=
  s.S.any (fun p => p.2.slot.holdsK k)
  || s.sigs.any (fun p => p.2.cells.any (fun c => c.slot.holdsK k) || p.2.limbo.any (fun sl => sl.holdsK k))

/-- the signal object named `g` is destroyed (what `delG` does when it does not refuse) -/
def dropHandle (s : LSt) (g : Nat) : LSt :=
  match aget s.G g with
  | none => s
  | some h =>
    let s := if h.fl.isTrackable then invalidateTrackable s h.trk else s
    let s := { s with G := adel s.G g }
    match h.impl with
    | some im => gcSig s im
    | none => s

/-- an object owned by functors dies with the last functor copy holding it: a trackable invalidates
    the slots referring to it, a scoped_connection disconnects its slot -/
def collectStep (s : LSt) : Option LSt :=
  match s.ownedT.find? (fun o => !heldT s o) with
  | some o => some (invalidateTrackable { s with ownedT := s.ownedT.filter (· ≠ o) } o)
  | none =>
    match s.ownedK.find? (fun p => !heldK s p.1) with
    | some (k, p) =>
      let s := { s with ownedK := s.ownedK.filter (fun q => q.1 ≠ k) }
      some (match p with
        | some cid => removeCell s cid
        | none => s)
    | none =>
      match s.ownedG.find? (fun p => !heldK s p.1) with
      | some (k, g) => some (dropHandle { s with ownedG := s.ownedG.filter (fun q => q.1 ≠ k) } g)
      | none => none

def collectN : Nat → LSt → LSt
  | 0, s => s
  | n+1, s =>
    match collectStep s with
    | some s' => collectN n s'
    | none => s

def collect (s : LSt) : LSt := collectN (s.ownedT.length + s.ownedK.length + s.ownedG.length) s

def liveCount (s : LSt) (fid : Nat) : Nat :=
  (s.S.map (fun p => p.2.slot.live fid)).sum
  + (s.sigs.map (fun p => (p.2.cells.map (fun c => c.slot.live fid)).sum)).sum

def liveTotal (s : LSt) : Nat :=
  (s.S.map (fun p => p.2.slot.liveAll)).sum
  + (s.sigs.map (fun p => (p.2.cells.map (fun c => c.slot.liveAll)).sum)).sum

def handleByObj (s : LSt) (o : Nat) : Option (Nat × Handle) :=
  s.G.find? (fun p => p.2.obj = o)

structure It where
  pos : Nat            -- index into the snapshot
  invoked : Bool := false
  buf : Nat := 0
deriving Repr, Inhabited

/-- the mode rule of the language (see `Model.Prog.owners`) -/
def modeRule (P : Prog) (s : LSt) (op : Op) : Option String :=
  match op with
  | .conn _ _ sv _ _ =>
    -- (the budget also stops the growth of slot lists: beyond it nothing is connected any more)
    if s.steps > P.maxsteps then some "budget" else
    if P.owners then
      match aget s.S sv with
      | some v => if v.slot.empty then some "emptyslot" else none
      | none => none
    else none
  | .connfn _ _ f _ =>
    if s.steps > P.maxsteps then some "budget" else
    if !P.owners && f.isOwner then some "noowner" else none
  | .mkS _ _ f | .setS _ f => if !P.owners && f.isOwner then some "noowner" else none
  | _ => none

/-- the operations that run no user code: one step of the interpreter without recursion -/
def stepSimple (s : LSt) (op : Op) : Option (LSt × String) :=
  let ok (s : LSt) (r : String) : Option (LSt × String) := some (s, r)
  let disconnect (s : LSt) (p : Option Nat) : LSt :=
    match p with
    | some cid => removeCell s cid
    | none => s
  match op with
  | .newT t =>
    match aget s.T t with
    | some _ => ok s "exists"
    | none => let (o, s) := s.fresh; ok { s with T := aset s.T t o } "ok"
  | .delT t =>
    match aget s.T t with
    | none => ok s "dead"
    | some o => ok (invalidateTrackable { s with T := adel s.T t } o) "ok"
  | .notifyT t =>
    match aget s.T t with
    | none => ok s "dead"
    | some o => ok (invalidateTrackable s o) "ok"
  | .cpT j i =>
    match aget s.T i with
    | none => ok s "dead"
    | some _ =>
      match aget s.T j with
      | some _ => ok s "exists"
      | none => let (o, s) := s.fresh; ok { s with T := aset s.T j o } "ok"
  | .mvT j i =>
    match aget s.T i with
    | none => ok s "dead"
    | some oi =>
      match aget s.T j with
      | some _ => ok s "exists"
      | none =>
        let (o, s) := s.fresh
        ok (invalidateTrackable { s with T := aset s.T j o } oi) "ok"
  | .asgT j i =>
    match aget s.T j, aget s.T i with
    | some oj, some _ => ok (if j = i then s else invalidateTrackable s oj) "ok"
    | _, _ => ok s "dead"
  | .masgT j i =>
    match aget s.T j, aget s.T i with
    | some oj, some oi => ok (if j = i then s else invalidateTrackable (invalidateTrackable s oj) oi) "ok"
    | _, _ => ok s "dead"
  | .mkS i ty spec =>
    match aget s.S i with
    | some _ => ok s "exists"
    | none =>
      if ty ≠ "I" && ty ≠ "V" then ok s "badtype" else
      let isVoid := ty = "V"
      match mkFun s isVoid spec with
      | .error e => ok s e
      | .ok (fn, s') =>
        let v : SlotVar := { isVoid := isVoid, slot := { blocked := false, rep := some { call := true, fn := some fn } },
                             taint := specTaint s spec }
        ok { s' with S := aset s'.S i v } "ok"
  | .mkS0 i ty =>
    match aget s.S i with
    | some _ => ok s "exists"
    | none =>
      if ty ≠ "I" && ty ≠ "V" then ok s "badtype" else
      ok { s with S := aset s.S i { isVoid := ty = "V", slot := {} } } "ok"
  | .cpS j i =>
    match aget s.S i with
    | none => ok s "dead"
    | some v =>
      match aget s.S j with
      | some _ => ok s "exists"
      | none => ok { s with S := aset s.S j { isVoid := v.isVoid, slot := v.slot.copy, taint := v.taint } } "ok"
  | .mvS j i =>
    match aget s.S i with
    | none => ok s "dead"
    | some v =>
      match aget s.S j with
      | some _ => ok s "exists"
      | none =>
        if v.incall > 0 then ok s "busy" else
        let (d, src) := v.slot.move
        ok { s with S := aset (aset s.S i { v with slot := src }) j { isVoid := v.isVoid, slot := d, taint := v.taint } } "ok"
  | .asgS j i =>
    match aget s.S j, aget s.S i with
    | some d, some v =>
      if d.isVoid != v.isVoid then ok s "badtype" else
      if d.incall > 0 then ok s "busy" else
      let taint := if d.taint < v.taint then v.taint else d.taint
      let sameRep := j = i || (d.slot.rep.isNone && v.slot.rep.isNone)
      let nd : SlotB :=
        if sameRep then { d.slot with blocked := v.slot.blocked }
        else if v.slot.empty then { d.slot with rep := none }
        else { blocked := v.slot.blocked, rep := v.slot.copy.rep }
      ok { s with S := aset s.S j { d with slot := nd, taint := taint } } "ok"
    | _, _ => ok s "dead"
  | .masgS j i =>
    match aget s.S j, aget s.S i with
    | some d, some v =>
      if d.isVoid != v.isVoid then ok s "badtype" else
      if d.incall > 0 || v.incall > 0 then ok s "busy" else
      let taint := if d.taint < v.taint then v.taint else d.taint
      let sameRep := j = i || (d.slot.rep.isNone && v.slot.rep.isNone)
      if sameRep then ok { s with S := aset s.S j { d with slot := { d.slot with blocked := v.slot.blocked }, taint := taint } } "ok"
      else if v.slot.empty then ok { s with S := aset s.S j { d with slot := { d.slot with rep := none }, taint := taint } } "ok"
      else
        let s := { s with S := aset s.S i { v with slot := { blocked := false, rep := none } } }
        ok { s with S := aset s.S j { d with slot := { blocked := v.slot.blocked, rep := v.slot.rep }, taint := taint } } "ok"
    | _, _ => ok s "dead"
  | .setS i spec =>
    match aget s.S i with
    | none => ok s "dead"
    | some d =>
      if d.incall > 0 then ok s "busy" else
      match mkFun s d.isVoid spec with
      | .error e => ok s e
      | .ok (fn, s') =>
        let t := specTaint s spec
        let taint := if d.taint < t then t else d.taint
        ok { s' with S := aset s'.S i { d with slot := { blocked := false, rep := some { call := true, fn := some fn } }, taint := taint } } "ok"
  | .delS i =>
    match aget s.S i with
    | none => ok s "dead"
    | some v => if v.incall > 0 then ok s "busy" else ok { s with S := adel s.S i } "ok"
  | .discS i =>
    match aget s.S i with
    | none => ok s "dead"
    | some v => ok { s with S := aset s.S i { v with slot := v.slot.disconnectRep } } "ok"
  | .blockS i b =>
    match aget s.S i with
    | none => ok s "dead"
    | some v => ok { s with S := aset s.S i { v with slot := { v.slot with blocked := b } } } (bstr v.slot.blocked)
  | .blockedSq i =>
    match aget s.S i with
    | none => ok s "dead"
    | some v => ok s (bstr v.slot.blocked)
  | .emptySq i =>
    match aget s.S i with
    | none => ok s "dead"
    | some v => ok s (bstr v.slot.empty)
  | .boolSq i =>
    -- `slot_base::operator bool()`: `rep_ != nullptr` (true also for an invalidated slot that still has its rep)
    match aget s.S i with
    | none => ok s "dead"
    | some v => ok s (bstr v.slot.rep.isSome)
  | .newG i fl =>
    match fl with
    | none => ok s "badtype"
    | some fl =>
      match aget s.G i with
      | some _ => ok s "exists"
      | none =>
        let (o, s) := s.fresh
        let (t, s) := s.fresh
        ok { s with G := aset s.G i { obj := o, fl := fl, impl := none, trk := t, lvl := i } } "ok"
  | .cpG j i =>
    match aget s.G i with
    | none => ok s "dead"
    | some _ =>
      match aget s.G j with
      | some _ => ok s "exists"
      | none =>
        match ensureSig s i with
        | none => ok s "dead"
        | some (s, im) =>
          match aget s.G i with
          | none => ok s "dead"
          | some h =>
            let (o, s) := s.fresh
            let (t, s) := s.fresh
            ok { s with G := aset s.G j { obj := o, fl := h.fl, impl := some im, trk := t, lvl := h.lvl } } "ok"
  | .mvG j i =>
    match aget s.G i with
    | none => ok s "dead"
    | some h0 =>
      match aget s.G j with
      | some _ => ok s "exists"
      | none =>
        if h0.fl.isAcc then
          match ensureSig s i with
          | none => ok s "dead"
          | some (s, im) =>
            let (o, s) := s.fresh
            let (t, s) := s.fresh
            ok { s with G := aset s.G j { obj := o, fl := h0.fl, impl := some im, trk := t, lvl := h0.lvl } } "ok"
        else
          let (o, s) := s.fresh
          let (t, s) := s.fresh
          let s := { s with G := aset (aset s.G i { h0 with impl := none }) j
                                { obj := o, fl := h0.fl, impl := h0.impl, trk := t, lvl := h0.lvl } }
          ok (if h0.fl.isTrackable then invalidateTrackable s h0.trk else s) "ok"
  | .asgG j i =>
    match aget s.G j, aget s.G i with
    | some d, some h =>
      if d.fl ≠ h.fl then ok s "badtype" else
      if d.lvl ≠ h.lvl then ok s "badlevel" else
      -- signal_base::operator=(const signal_base& src): `if (&src == this) return *this; impl_ = src.impl();`
      if j = i then ok s "ok" else
      match ensureSig s i with
      | none => ok s "dead"
      | some (s, im) =>
        if d.impl = some im then ok s "ok" else
        let s := { s with G := aset s.G j { d with impl := some im } }
        ok (match d.impl with | some old => gcSig s old | none => s) "ok"
    | _, _ => ok s "dead"
  | .masgG j i =>
    match aget s.G j, aget s.G i with
    | some d, some h =>
      if d.fl ≠ h.fl then ok s "badtype" else
      if d.lvl ≠ h.lvl then ok s "badlevel" else
      -- move assignment may assume that both objects outlive the call: refused when the old slot list, which the
      -- assignment releases, may own the source (any flavour) or the destination (read again by trackable_signal)
      if !h.fl.isAcc && (s.ownedG.any (fun p => p.2 = i) || s.ownedG.any (fun p => p.2 = j))
      then ok s "owned" else
      if h.fl.isAcc then
        if j = i then ok s "ok" else
        match ensureSig s i with
        | none => ok s "dead"
        | some (s, im) =>
          if d.impl = some im then ok s "ok" else
          let s := { s with G := aset s.G j { d with impl := some im } }
          ok (match d.impl with | some old => gcSig s old | none => s) "ok"
      else if j = i then ok s "ok" else
        let s := { s with G := aset (aset s.G j { d with impl := h.impl }) i { h with impl := none } }
        let s := match d.impl with | some old => gcSig s old | none => s
        ok (if h.fl.isTrackable && h.impl.isSome then invalidateTrackable s h.trk else s) "ok"
    | _, _ => ok s "dead"
  | .delG i =>
    match aget s.G i with
    | none => ok s "dead"
    | some h =>
      if h.everFwd && !h.fl.isTrackable then ok s "pinned" else
      if s.ownedG.any (fun p => p.2 = i) then ok s "owned" else
      let s := if h.fl.isTrackable then invalidateTrackable s h.trk else s
      let s := { s with G := adel s.G i }
      ok (match h.impl with | some im => gcSig s im | none => s) "ok"
  | .conn k g sv first mv =>
    match aget s.G g, aget s.S sv with
    | some h, some v =>
      if h.fl.isVoid != v.isVoid then ok s "badtype" else
      if v.taint ≥ (h.lvl : Int) then ok s "badorder" else
      if mv && v.incall > 0 then ok s "busy" else
      match ensureSig s g with
      | none => ok s "dead"
      | some (s, im) =>
        let (cellSlot, s) :=
          if mv then
            let (d, src) := v.slot.move
            (d, { s with S := aset s.S sv { v with slot := src } })
          else (v.slot.copy, s)
        let (s, cid) := insertCell s im first cellSlot
        ok { s with C := aset s.C k (some cid) } "ok"
    | _, _ => ok s "dead"
  | .connfn k g spec first =>
    match aget s.G g with
    | none => ok s "dead"
    | some h =>
      match mkFun s h.fl.isVoid spec with
      | .error e => ok s e
      | .ok (fn, s') =>
        if specTaint s spec ≥ (h.lvl : Int) then ok s' "badorder" else
        match ensureSig s' g with
        | none => ok s "dead"
        | some (s', im) =>
          let (s', cid) := insertCell s' im first { blocked := false, rep := some { call := true, fn := some fn } }
          ok { s' with C := aset s'.C k (some cid) } "ok"
  | .clear g =>
    match aget s.G g with
    | none => ok s "dead"
    | some h =>
      match h.impl with
      | none => ok s "ok"
      | some im =>
        match aget s.sigs im with
        | none => ok s "ok"
        | some x => ok (setSig s im (x.remove s.k1 s.k2 false (fun _ => true))) "ok"
  | .sizeq g =>
    match aget s.G g with
    | none => ok s "dead"
    | some h =>
      match h.impl with
      | none => ok s "0"
      | some im =>
        match aget s.sigs im with
        | none => ok s "0"
        | some x => ok s (if x.active > 0 then "*" else toString x.cells.length)
  | .emptyGq g =>
    match aget s.G g with
    | none => ok s "dead"
    | some h =>
      match h.impl with
      | none => ok s "1"
      | some im =>
        match aget s.sigs im with
        | none => ok s "1"
        | some x => ok s (if x.active > 0 then "*" else bstr x.cells.isEmpty)
  | .blockedGq g =>
    match aget s.G g with
    | none => ok s "dead"
    | some h =>
      match h.impl with
      | none => ok s "1"
      | some im =>
        match aget s.sigs im with
        | none => ok s "1"
        | some x => ok s (if x.active > 0 then "*" else bstr (x.cells.all (·.slot.blocked)))
  | .blockG g b =>
    match aget s.G g with
    | none => ok s "dead"
    | some h =>
      match h.impl with
      | none => ok s "ok"
      | some im =>
        match aget s.sigs im with
        | none => ok s "ok"
        | some x => ok (setSig s im { x with cells := x.cells.map (fun c => { c with slot := { c.slot with blocked := b } }) }) "ok"
  | .newC i =>
    match aget s.C i with
    | some _ => ok s "exists"
    | none => ok { s with C := aset s.C i none } "ok"
  | .cpC j i =>
    match aget s.C i with
    | none => ok s "dead"
    | some p =>
      match aget s.C j with
      | some _ => ok s "exists"
      | none => ok { s with C := aset s.C j p } "ok"
  | .asgC j i =>
    match aget s.C j, aget s.C i with
    | some _, some p => ok { s with C := aset s.C j p } "ok"
    | _, _ => ok s "dead"
  | .delC i =>
    match aget s.C i with
    | none => ok s "dead"
    | some _ => ok { s with C := adel s.C i } "ok"
  | .disc i =>
    match aget s.C i with
    | none => ok s "dead"
    | some p => ok (disconnect s p) "ok"
  | .connectedq i =>
    match aget s.C i with
    | none => ok s "dead"
    | some p => ok s (bstr (connConnected s p))
  | .emptyCq i =>
    match aget s.C i with
    | none => ok s "dead"
    | some p => ok s (bstr (!connConnected s p))
  | .blockedCq i =>
    match aget s.C i with
    | none => ok s "dead"
    | some p => ok s (connBlockedStr s p)
  | .blockC i b =>
    match aget s.C i with
    | none => ok s "dead"
    | some p => ok (match p with | some cid => updCell s cid (fun c => { c with slot := { c.slot with blocked := b } }) | none => s)
                   (connBlockedStr s p)
  | .newK0 i =>
    match aget s.K i with
    | some _ => ok s "exists"
    | none => ok { s with K := aset s.K i none } "ok"
  | .newK i c =>
    match aget s.C c with
    | none => ok s "dead"
    | some p =>
      match aget s.K i with
      | some _ => ok s "exists"
      | none => ok { s with K := aset s.K i p } "ok"
  | .asgKC i c =>
    match aget s.K i, aget s.C c with
    | some old, some p => ok { (disconnect s old) with K := aset s.K i p } "ok"
    | _, _ => ok s "dead"
  | .mvK j i =>
    match aget s.K i with
    | none => ok s "dead"
    | some p =>
      match aget s.K j with
      | some _ => ok s "exists"
      | none => ok { s with K := aset (aset s.K i none) j p } "ok"
  | .masgK j i =>
    match aget s.K j, aget s.K i with
    | some old, some p =>
      if j = i then ok s "self" else
      ok { (disconnect s old) with K := aset (aset s.K i none) j p } "ok"
    | _, _ => ok s "dead"
  | .swapK i j =>
    match aget s.K i, aget s.K j with
    | some a, some b => ok { s with K := aset (aset s.K i b) j a } "ok"
    | _, _ => ok s "dead"
  | .relK c k =>
    match aget s.K k with
    | none => ok s "dead"
    | some p => ok { s with K := aset s.K k none, C := aset s.C c p } "ok"
  | .discK i =>
    match aget s.K i with
    | none => ok s "dead"
    | some p => ok (disconnect s p) "ok"
  | .delK i =>
    match aget s.K i with
    | none => ok s "dead"
    | some p => ok (disconnect { s with K := adel s.K i } p) "ok"
  | .connectedKq i =>
    match aget s.K i with
    | none => ok s "dead"
    | some p => ok s (bstr (connConnected s p))
  | .blockedKq i =>
    match aget s.K i with
    | none => ok s "dead"
    | some p => ok s (connBlockedStr s p)
  | .blockK i b =>
    match aget s.K i with
    | none => ok s "dead"
    | some p => ok (match p with | some cid => updCell s cid (fun c => { c with slot := { c.slot with blocked := b } }) | none => s)
                   (connBlockedStr s p)
  | .liveq fid => ok s (if s.depth > 0 then "*" else toString (liveCount s fid))
  | .mark => ok s "ok"
  | .allocsq => ok s "*"
  | .bad => ok s "badop"
  | _ => none

mutual

def invokeFun : Nat → Prog → LSt → Fun → Nat → Option (LSt × Outcome × Nat)
  | 0, _, _, _, _ => none
  | f+1, P, s, fn, arg =>
    match fn with
    | .leaf fid _ | .owner fid _ _ =>
      let s := s.log (.call s.depth fid arg)
      match aget P.bodies fid with
      | none => some (s, .ok, resultOf fid arg)
      | some body =>
        match runBody f P { s with depth := s.depth + 1 } body with
        | none => none
        | some (s, o) => some ({ s with depth := s.depth - 1 }, o, resultOf fid arg)
    | .nest blocked inner =>
      match inner with
      | none => some (s, .ok, 0)
      | some g => if blocked then some (s, .ok, 0) else invokeFun f P s g arg
    | .fwd o _ =>
      match handleByObj s o with
      | none => some (s.fail "forward to a destroyed signal object", .ok, 0)
      | some (_, h) => emitSig f P s h.fl h.impl arg .sum

def runBody : Nat → Prog → LSt → List Line → Option (LSt × Outcome)
  | 0, _, _, _ => none
  | _+1, _, s, [] => some (s, .ok)
  | f+1, P, s, l :: ls =>
    match execLine f P s l with
    | none => none
    | some (s, .exc) => some (s, .exc)
    | some (s, .ok) => runBody f P s ls

def execLine : Nat → Prog → LSt → Line → Option (LSt × Outcome)
  | 0, _, _, _ => none
  | f+1, P, s, l =>
    let s := { s with steps := s.steps + 1 }
    match execOp f P s l.op with
    | none => none
    | some (s, .error _) => some (collect (s.log (.res s.depth l.text "exc")), .exc)
    | some (s, .ok r) => some (collect (s.log (.res s.depth l.text r)), .ok)

/-- one emission: snapshot, turns in order, result -/
def emitSig : Nat → Prog → LSt → Flavour → Option Nat → Nat → Strat → Option (LSt × Outcome × Nat)
  | 0, _, _, _, _, _, _ => none
  | f+1, P, s, fl, impl, arg, strat =>
    match impl with
    | none => some (s, .ok, 0)
    | some i =>
      match aget s.sigs i with
      | none => some (s.fail "emit: no list", .ok, 0)
      | some g =>
        if s.k2 && !fl.isAcc && g.cells.isEmpty then some (s, .ok, 0) else
        let snap := (g.cells.filter (fun c => (s.k2 && fl.isAcc) || (!c.marker && !c.zombie))).map (·.id)
        let (m, s) := s.fresh
        let s := setSig s i { g with active := g.active + 1,
                                     cells := if s.k2 then g.cells ++ [{ id := m, slot := {}, marker := true }] else g.cells }
        let r := if fl.isAcc then runStrat f P s i snap arg (strat.forFlavour fl)
                 else turns f P s i snap arg 0
        match r with
        | none => none
        | some (s, o, v) =>
          match aget s.sigs i with
          | none => some (s.fail "emit: list died during its emission", o, v)
          | some g2 =>
            let g3 := { g2 with active := g2.active - 1, cells := g2.cells.filter (·.id ≠ m) }
            let g3 := if g3.active = 0 then { g3 with cells := g3.cells.filter (fun c => !c.zombie), limbo := [] } else g3
            let g3 := if g3.active = 0 && g3.dirty then
                        { g3 with dirty := false, cells := g3.cells.filter (fun c => !c.slot.empty) }
                      else g3
            some (collect (gcSig (setSig s i g3) i), o, v)

/-- the turns of a non-accumulated emission over the snapshot; `r` = result of the last invoked slot -/
def turns : Nat → Prog → LSt → Nat → List Nat → Nat → Nat → Option (LSt × Outcome × Nat)
  | 0, _, _, _, _, _, _ => none
  | _+1, _, s, _, [], _, r => some (s, .ok, r)
  | f+1, P, s, i, cid :: rest, arg, r =>
    let cell := (aget s.sigs i).bind (fun g => g.cells.find? (·.id = cid))
    let step : Option (LSt × Outcome × Nat) :=
      match cell with
      | some { slot := { blocked := false, rep := some { call := true, fn := some fn } }, .. } => invokeFun f P s fn arg
      | _ => some (s, .ok, r)
    match step with
    | none => none
    | some (s, .exc, v) => some (s, .exc, v)
    | some (s, .ok, v) => turns f P s i rest arg v

/-- dereference position `it.pos` of the snapshot: invokes at most once per visit, never if the slot
    is gone, invalid or blocked -/
def deref : Nat → Prog → LSt → Nat → List Nat → It → Nat → Option (LSt × Outcome × It)
  | 0, _, _, _, _, _, _ => none
  | f+1, P, s, i, snap, it, arg =>
    match snap[it.pos]? with
    | none => some (s, .ok, it)
    | some cid =>
      let cell := (aget s.sigs i).bind (fun g => g.cells.find? (·.id = cid))
      match cell with
      | some { slot := { blocked := false, rep := some { call := true, fn := some fn } }, .. } =>
        if it.invoked then some (s, .ok, it) else
        match invokeFun f P s fn arg with
        | none => none
        | some (s, .exc, _) => some (s, .exc, it)
        | some (s, .ok, v) => some (s, .ok, { it with buf := v, invoked := true })
      | _ => some (s, .ok, it)

def accLoop : Nat → Prog → LSt → Nat → List Nat → It → Nat → Nat → Nat → Nat → Option (LSt × Outcome × Nat)
  | 0, _, _, _, _, _, _, _, _, _ => none
  | f+1, P, s, i, snap, it, arg, mode, k, r =>
    if it.pos ≥ snap.length then some (s, .ok, r) else
    if mode = 3 then accLoop f P s i snap { it with pos := it.pos + 1, invoked := false } arg mode k (r + 1) else
    match deref f P s i snap it arg with
    | none => none
    | some (s, .exc, _) => some (s, .exc, r)
    | some (s, .ok, it') =>
      let it := if mode = 4 then it else it'
      let r := r + it'.buf
      if mode = 1 && r ≥ k then some (s, .ok, r) else
      if mode = 2 then
        match deref f P s i snap it arg with
        | none => none
        | some (s, .exc, _) => some (s, .exc, r)
        | some (s, .ok, it) => accLoop f P s i snap { it with pos := it.pos + 1, invoked := false } arg mode k (r + it.buf)
      else accLoop f P s i snap { it with pos := it.pos + 1, invoked := false } arg mode k r

def revLoop : Nat → Prog → LSt → Nat → List Nat → It → Nat → Nat → Option (LSt × Outcome × Nat)
  | 0, _, _, _, _, _, _, _ => none
  | f+1, P, s, i, snap, it, arg, r =>
    if it.pos = 0 then some (s, .ok, r) else
    let it := { it with pos := it.pos - 1, invoked := false }
    match deref f P s i snap it arg with
    | none => none
    | some (s, .exc, _) => some (s, .exc, r)
    | some (s, .ok, it) => revLoop f P s i snap it arg (r + it.buf)

def walkLoop : Nat → Prog → LSt → Nat → List Nat → It → Nat → List Char → Nat → Option (LSt × Outcome × Nat)
  | 0, _, _, _, _, _, _, _, _ => none
  | _+1, _, s, _, _, _, _, [], r => some (s, .ok, r)
  | f+1, P, s, i, snap, it, arg, c :: cs, r =>
    let atEnd := it.pos ≥ snap.length
    if c = 'd' then
      if atEnd then walkLoop f P s i snap it arg cs r else
      match deref f P s i snap it arg with
      | none => none
      | some (s, .exc, _) => some (s, .exc, r)
      | some (s, .ok, it) => walkLoop f P s i snap it arg cs (r + it.buf)
    else if c = 'c' then
      if atEnd then walkLoop f P s i snap it arg cs r else
      match deref f P s i snap it arg with
      | none => none
      | some (s, .exc, _) => some (s, .exc, r)
      | some (s, .ok, cp) => walkLoop f P s i snap it arg cs (r + cp.buf)
    else if c = 'i' then
      if atEnd then walkLoop f P s i snap it arg cs r
      else walkLoop f P s i snap { it with pos := it.pos + 1, invoked := false } arg cs r
    else if c = 'x' then
      if it.pos = 0 then walkLoop f P s i snap it arg cs r
      else walkLoop f P s i snap { it with pos := it.pos - 1, invoked := false } arg cs r
    else walkLoop f P s i snap it arg cs r

def runStrat : Nat → Prog → LSt → Nat → List Nat → Nat → Strat → Option (LSt × Outcome × Nat)
  | 0, _, _, _, _, _, _ => none
  | f+1, P, s, i, snap, arg, strat =>
    match strat with
    | .sum => accLoop f P s i snap { pos := 0 } arg 0 0 0
    | .stop k => accLoop f P s i snap { pos := 0 } arg 1 k 0
    | .twice => accLoop f P s i snap { pos := 0 } arg 2 0 0
    | .never => accLoop f P s i snap { pos := 0 } arg 3 0 0
    | .postinc => accLoop f P s i snap { pos := 0 } arg 4 0 0
    | .rev => revLoop f P s i snap { pos := snap.length } arg 0
    | .walk ops => walkLoop f P s i snap { pos := 0 } arg ops 0

def execOp : Nat → Prog → LSt → Op → Option (LSt × Except Unit String)
  | 0, _, _, _ => none
  | f+1, P, s, op =>
    let ok (s : LSt) (r : String) : Option (LSt × Except Unit String) := some (s, .ok r)
    match op with
    | .callS i arg =>
      match aget s.S i with
      | none => ok s "dead"
      | some v =>
        if s.depth ≥ P.maxdepth then ok s "toodeep" else
        if s.steps > P.maxsteps then ok s "budget" else
        match v.slot.rep with
        | some { call := true, fn := some fn } =>
          if v.slot.blocked then ok s (showRes v.isVoid 0) else
          let s := { s with S := aset s.S i { v with incall := v.incall + 1 } }
          match invokeFun f P s fn arg with
          | none => none
          | some (s, o, r) =>
            let s := match aget s.S i with
              | some v2 => { s with S := aset s.S i { v2 with incall := v2.incall - 1 } }
              | none => s.fail "callS: slot variable destroyed during its own call"
            match o with
            | .exc => some (s, .error ())
            | .ok => ok s (showRes v.isVoid r)
        | _ => ok s (showRes v.isVoid 0)
    | .emit g arg strat try_ =>
      match aget s.G g with
      | none => ok s "dead"
      | some h =>
        if s.depth ≥ P.maxdepth then ok s "toodeep" else
        if s.steps > P.maxsteps then ok s "budget" else
        match emitSig f P s h.fl h.impl arg strat with
        | none => none
        | some (s, .exc, _) => if try_ then ok s "caught" else some (s, .error ())
        | some (s, .ok, r) => ok s (showRes h.fl.isVoid r)
    | .throw_ => some (s, .error ())
    | op =>
      match modeRule P s op with
      | some r => ok s r
      | none =>
        match stepSimple s op with
        | some (s, r) => ok s r
        | none => ok s "badop"

end

/-! ## runner -/

def runTop : Nat → Prog → LSt → List Line → Option LSt
  | _, _, s, [] => some s
  | f, P, s, l :: ls =>
    match execLine f P s l with
    | none => none
    | some (s, _) => runTop f P s ls

def teardown (f : Nat) (P : Prog) (s : LSt) : Option LSt :=
  let quiet (s : LSt) (op : Op) : Option LSt :=
    match execOp f P s op with
    | none => none
    | some (s, _) => some s
  let seq (s : Option LSt) (ops : List Op) : Option LSt :=
    ops.foldl (fun acc op => acc.bind (fun s => quiet s op)) s
  match seq (some s) ((sortedKeys s.K).map Op.delK) with
  | none => none
  | some s =>
    match seq (some s) ((sortedKeys s.C).map Op.delC ++ (sortedKeys s.S).map Op.delS
                          ++ (sortedKeys s.G).map Op.clear) with
    | none => none
    | some s =>
      let s := (sortedKeys s.G).foldl (fun s g =>
        match aget s.G g with
        | none => s
        | some h =>
          let s := if h.fl.isTrackable then invalidateTrackable s h.trk else s
          let s := { s with G := adel s.G g }
          match h.impl with
          | some im => gcSig s im
          | none => s) s
      seq (some s) ((sortedKeys s.T).map Op.delT)

/-- the specification's trace of a program text, in the harness's line format -/
def runProgram (k1 k2 : Bool) (lines : List String) : List String :=
  let P := parseProg lines
  match runTop defaultFuel P { k1 := k1, k2 := k2 } P.top with
  | none => ["SPEC-FUEL"]
  | some s =>
    match teardown defaultFuel P s with
    | none => ["SPEC-FUEL"]
    | some s =>
      let body := (s.trace.reverse.map renderEvent) ++ [s!"0 final live={liveTotal s}"]
      match s.err with
      | none => body
      | some e => body ++ [s!"SPEC-ERROR {e}"]

end Sigc.Spec
