import Sigc.TrkLemmas
/-!
  Safety on the wider domain `History.Domain2` (callback bodies may `rem` and `add`, no nested notify):
  a self-contained, much weaker invariant than `Inv` — only what `err = none` needs.
-/
namespace Sigc.Trk

/-- callbacks never call `notify_callbacks()` on the trackable being notified -/
def NoNotify (sc : Scripts) : Prop := ∀ k, ∀ b ∈ sc k, b.isNotify = false

theorem History.noNotify {h : History} (hd : h.Domain2 = true) : NoNotify h.sc := by
  intro k b hb
  unfold History.sc at hb
  unfold History.Domain2 at hd
  rw [List.all_eq_true] at hd
  rw [List.getD_eq_getElem?_getD] at hb
  cases hg : h.scripts[k]? with
  | none => rw [hg] at hb; cases hb
  | some body =>
    rw [hg] at hb
    have := hd _ (List.mem_of_getElem? hg)
    rw [List.all_eq_true] at this
    simpa using this b hb

/-- a list that is not being destroyed: distinct registration ids, all already handed out -/
def Good (n : Nat) (o : Option Trackable) : Prop :=
  ∀ l, o = some ⟨some l⟩ →
    l.clearing = false ∧ (l.entries.map (·.reg)).Nodup ∧ ∀ e ∈ l.entries, e.reg < n

theorem Good.mono {n m : Nat} {o : Option Trackable} (h : Good n o) (hnm : n ≤ m) : Good m o := by
  intro l hl
  obtain ⟨a, b, c⟩ := h l hl
  exact ⟨a, b, fun e he => Nat.lt_of_lt_of_le (c e he) hnm⟩

theorem good_nolist (n : Nat) : Good n (some ⟨none⟩) := by
  intro l hl; simp at hl
theorem good_dead (n : Nat) : Good n none := by
  intro l hl; cases hl

/-- invariant at operation boundaries (wider domain) -/
structure Inv2 (s : State) : Prop where
  noerr : s.err = none
  good  : ∀ t, Good s.nextReg (s.objs t)

/-- invariant inside the delivery round on `t`: the list is `clearing`, its nodes' ids are `regs` -/
structure LInv2 (t : Nat) (s : State) (regs : List Nat) : Prop where
  noerr  : s.err = none
  obj    : ∃ es, s.objs t = some ⟨some ⟨es, true⟩⟩ ∧ es.map (·.reg) = regs
  others : ∀ t', t' ≠ t → Good s.nextReg (s.objs t')

theorem removeLoop_false_sublist (d : Nat) (es : List Entry) : (removeLoop false d es).Sublist es := by
  induction es with
  | nil => simp [removeLoop]
  | cons e es ih =>
    simp only [removeLoop]
    split
    · simp
    · exact ih.cons_cons e

theorem bodyStep_LInv2 {t : Nat} {s : State} {regs : List Nat} (b : BodyOp) (hb : b.isNotify = false)
    (h : LInv2 t s regs) : LInv2 t (bodyStep t b s) regs := by
  obtain ⟨es, ho, hmap⟩ := h.obj
  cases b with
  | rem d =>
    have hs : removeDestroyNotify t d s =
        (s.emit (.rem t d)).upd t (some ⟨some ⟨removeLoop true d es, true⟩⟩) := by
      simp [removeDestroyNotify, ho, getList, CbList.removeCallback]
    simp only [bodyStep]
    rw [hs]
    refine ⟨by simpa using h.noerr, ⟨removeLoop true d es, by simp, by rw [map_reg_removeLoop_true, hmap]⟩, ?_⟩
    intro t' ht'
    simpa [upd_objs_other _ _ ht'] using h.others t' ht'
  | add d k =>
    have hs : addDestroyNotify t d k s =
        (({ s with nextReg := s.nextReg + 1 }).emit (.add s.nextReg t d)).upd t (some ⟨some ⟨es, true⟩⟩) := by
      simp [addDestroyNotify, ho, getList, CbList.addCallback]
    simp only [bodyStep]
    rw [hs]
    refine ⟨by simpa using h.noerr, ⟨es, by simp, hmap⟩, ?_⟩
    intro t' ht'
    have := (h.others t' ht').mono (Nat.le_succ _)
    simpa [upd_objs_other _ _ ht'] using this
  | notify => simp [BodyOp.isNotify] at hb

theorem body_LInv2 {t : Nat} {regs : List Nat} :
    ∀ (body : List BodyOp) (s : State), (∀ b ∈ body, b.isNotify = false) → LInv2 t s regs →
      LInv2 t (runBody t body s) regs := by
  intro body
  induction body with
  | nil => intro s _ h; exact h
  | cons b bs ih =>
    intro s hb h
    simp only [runBody, h.noerr, Option.isSome_none, Bool.false_eq_true, if_false]
    apply ih _ (fun b' hb' => hb b' (List.mem_cons_of_mem _ hb'))
    exact bodyStep_LInv2 b (hb b (List.mem_cons_self ..)) h

theorem call_LInv2 {sc : Scripts} (hsc : NoNotify sc) {t : Nat} {s : State} {regs : List Nat}
    (e : Entry) (h : LInv2 t s regs) : LInv2 t (callEntry sc t e s) regs := by
  unfold callEntry
  cases hf : e.func with
  | none => exact h
  | some k =>
    simp only
    apply body_LInv2 _ _ (hsc k)
    obtain ⟨es, ho, hmap⟩ := h.obj
    exact ⟨by simpa using h.noerr, ⟨es, by simpa using ho, hmap⟩, by simpa using h.others⟩

/-- the destructor loop reaches `end()` without error -/
theorem loop_LInv2 {sc : Scripts} (hsc : NoNotify sc) {t : Nat} :
    ∀ (rest dn : List Nat) (s : State) (f : Nat), LInv2 t s (dn ++ rest) → (dn ++ rest).Nodup →
      rest.length ≤ f → LInv2 t (roundLoop sc f t rest.head? s) (dn ++ rest) := by
  intro rest
  induction rest with
  | nil =>
    intro dn s f h _ _
    simpa only [List.head?_nil, roundLoop] using h
  | cons r rest ih =>
    intro dn s f h hnd hf
    obtain ⟨f', rfl⟩ : ∃ f', f = f' + 1 := ⟨f - 1, by simp at hf; omega⟩
    obtain ⟨es, ho, hmap⟩ := h.obj
    have hes : entriesOf s t = es := by simp [entriesOf, ho]
    obtain ⟨e, hfind, -, -⟩ : ∃ e, es.find? (fun e => e.reg == r) = some e ∧ e ∈ es ∧ e.reg = r :=
      find_reg (by rw [hmap]; simp)
    have h1 := call_LInv2 hsc e h
    obtain ⟨es1, ho1, hmap1⟩ := h1.obj
    have hes1 : entriesOf (callEntry sc t e s) t = es1 := by simp [entriesOf, ho1]
    have hr : r ∉ dn := by
      have := hnd
      rw [List.nodup_append] at this
      intro hm
      exact this.2.2 r hm r (List.mem_cons_self ..) rfl
    have hsucc : succOf r es1 = some rest.head? := succOf_spec es1 dn rest hmap1 hr
    simp only [List.head?_cons, roundLoop, hes, hfind, h1.noerr, hes1, hsucc, Option.isSome_none,
      Bool.false_eq_true, if_false]
    have := ih (dn ++ [r]) _ f' (by simpa using h1) (by simpa using hnd) (by simp at hf; omega)
    simpa using this

theorem notify_inv2 {sc : Scripts} (hsc : NoNotify sc) (t : Nat) {s : State} (h : Inv2 s) :
    Inv2 (notifyCallbacks sc t s) := by
  unfold notifyCallbacks
  cases ho : s.objs t with
  | none => exact h
  | some o =>
    obtain ⟨cbs⟩ := o
    cases cbs with
    | none =>
      simp only
      exact ⟨by simpa using h.noerr, by simpa using h.good⟩
    | some l =>
      obtain ⟨es, cl⟩ := l
      obtain ⟨hcl, hnd, -⟩ := h.good t ⟨es, cl⟩ (by rw [ho])
      simp only at hcl hnd
      subst hcl
      simp only [Bool.false_eq_true, if_false]
      have h0 : LInv2 t ((s.emit (.trig t)).upd t (some ⟨some ⟨es, true⟩⟩)) ([] ++ es.map (·.reg)) := by
        refine ⟨by simpa using h.noerr, ⟨es, by simp, by simp⟩, ?_⟩
        intro t' ht'
        simpa [upd_objs_other _ _ ht'] using h.good t'
      have h2 := loop_LInv2 hsc (es.map (·.reg)) [] _ es.length h0 (by simpa using hnd) (by simp)
      rw [List.head?_map] at h2
      generalize roundLoop sc es.length t (Option.map (fun x => x.reg) es.head?)
        ((s.emit (.trig t)).upd t (some ⟨some ⟨es, true⟩⟩)) = s2 at h2
      simp only [h2.noerr, Option.isSome_none, Bool.false_eq_true, if_false]
      refine ⟨by simpa using h2.noerr, ?_⟩
      intro t'
      by_cases ht : t' = t
      · subst ht; simpa using good_nolist _
      · simpa [upd_objs_other _ _ ht] using h2.others t' ht

theorem upd_nolist_inv2 {s : State} (h : Inv2 s) (t : Nat) : Inv2 (s.upd t (some ⟨none⟩)) := by
  refine ⟨by simpa using h.noerr, ?_⟩
  intro t'
  by_cases e : t' = t
  · subst e; simpa using good_nolist _
  · simpa [upd_objs_other _ _ e] using h.good t'

theorem upd_dead_inv2 {s : State} (h : Inv2 s) (t : Nat) : Inv2 (s.upd t none) := by
  refine ⟨by simpa using h.noerr, ?_⟩
  intro t'
  by_cases e : t' = t
  · subst e; simpa using good_dead _
  · simpa [upd_objs_other _ _ e] using h.good t'

theorem add_inv2 {s : State} (h : Inv2 s) (t d k : Nat) : Inv2 (addDestroyNotify t d k s) := by
  unfold addDestroyNotify
  cases ho : s.objs t with
  | none => exact h
  | some o =>
    simp only
    refine ⟨by simpa using h.noerr, ?_⟩
    intro t'
    by_cases e : t' = t
    · subst e
      simp only [upd_objs_same, upd_nextReg, emit_nextReg]
      intro l hl
      injection hl with hl
      injection hl with hl
      injection hl with hl
      subst hl
      obtain ⟨cbs⟩ := o
      cases cbs with
      | none =>
        simp [getList, CbList.addCallback]
      | some l0 =>
        obtain ⟨hcl, hnd, hlt⟩ := h.good t' l0 (by rw [ho])
        simp only [getList, Option.getD_some, CbList.addCallback, hcl, Bool.false_eq_true, if_false]
        refine ⟨trivial, ?_, ?_⟩
        · rw [List.map_append, List.nodup_append]
          refine ⟨hnd, by simp, ?_⟩
          intro a ha b hb hab
          simp at hb; subst hb; subst hab
          obtain ⟨x, hx, hxa⟩ := List.mem_map.1 ha
          have := hlt x hx
          omega
        · intro e he
          rcases List.mem_append.1 he with he | he
          · exact Nat.lt_succ_of_lt (hlt e he)
          · simp at he; subst he; simp
    · have := (h.good t').mono (Nat.le_succ s.nextReg)
      simpa [upd_objs_other _ _ e] using this

theorem rem_inv2 {s : State} (h : Inv2 s) (t d : Nat) : Inv2 (removeDestroyNotify t d s) := by
  unfold removeDestroyNotify
  cases ho : s.objs t with
  | none => exact h
  | some o =>
    simp only
    refine ⟨by simpa using h.noerr, ?_⟩
    intro t'
    by_cases e : t' = t
    · subst e
      simp only [upd_objs_same, upd_nextReg, emit_nextReg]
      intro l hl
      injection hl with hl
      injection hl with hl
      injection hl with hl
      subst hl
      obtain ⟨cbs⟩ := o
      cases cbs with
      | none =>
        simp [getList, CbList.removeCallback, removeLoop]
      | some l0 =>
        obtain ⟨hcl, hnd, hlt⟩ := h.good t' l0 (by rw [ho])
        simp only [getList, Option.getD_some, CbList.removeCallback, hcl]
        have hsub := removeLoop_false_sublist d l0.entries
        exact ⟨trivial, (hsub.map _).nodup hnd, fun e he => hlt e (hsub.subset he)⟩
    · simpa [upd_objs_other _ _ e] using h.good t'

theorem exec_inv2 {sc : Scripts} (hsc : NoNotify sc) {s : State} (h : Inv2 s) (op : Op) :
    Inv2 (exec sc op s) := by
  cases op with
  | new t => exact upd_nolist_inv2 h t
  | add t d k => exact add_inv2 h t d k
  | rem t d => exact rem_inv2 h t d
  | copyCtor src dst => exact upd_nolist_inv2 h dst
  | moveCtor src dst => exact notify_inv2 hsc src (upd_nolist_inv2 h dst)
  | assign dst src =>
    simp only [exec]
    split
    · exact notify_inv2 hsc dst h
    · exact h
  | moveAssign dst src =>
    simp only [exec]
    split
    · have h1 := notify_inv2 hsc dst h
      simp only [h1.noerr, Option.isSome_none, Bool.false_eq_true, if_false]
      exact notify_inv2 hsc src h1
    · exact h
  | notify t => exact notify_inv2 hsc t h
  | del t =>
    have h1 := notify_inv2 hsc t h
    simp only [exec, h1.noerr, Option.isSome_none, Bool.false_eq_true, if_false]
    exact upd_dead_inv2 h1 t

theorem step_inv2 {sc : Scripts} (hsc : NoNotify sc) {s : State} (h : Inv2 s) (op : Op) :
    Inv2 (step sc op s) := by
  unfold step
  simp only [h.noerr, Option.isSome_none, Bool.false_eq_true, if_false]
  split
  · exact exec_inv2 hsc h op
  · exact h

theorem runFrom_inv2 {sc : Scripts} (hsc : NoNotify sc) :
    ∀ (ops : List Op) (s : State), Inv2 s → Inv2 (runFrom sc ops s) := by
  intro ops
  induction ops with
  | nil => intro s h; exact h
  | cons op ops ih => intro s h; exact ih _ (step_inv2 hsc h op)

theorem init_inv2 : Inv2 State.init := ⟨rfl, fun _ => good_dead _⟩

theorem run_inv2 {h : History} (hd : h.Domain2 = true) : Inv2 (run h) :=
  runFrom_inv2 (History.noNotify hd) h.ops _ init_inv2

/-! ### deliveries stay distinct on the wider domain -/

theorem bodyStep_delivered (t : Nat) (b : BodyOp) (s : State) :
    delivered (bodyStep t b s).trace = delivered s.trace := by
  cases b with
  | rem d =>
    simp only [bodyStep, removeDestroyNotify]
    split <;> simp [delivered_snoc]
  | add d k =>
    simp only [bodyStep, addDestroyNotify]
    split <;> simp [delivered_snoc, State.emit]
  | notify => simp [bodyStep, State.fail]

theorem bodyStep_nextReg (t : Nat) (b : BodyOp) (s : State) : s.nextReg ≤ (bodyStep t b s).nextReg := by
  cases b with
  | rem d =>
    simp only [bodyStep, removeDestroyNotify]
    split <;> simp
  | add d k =>
    simp only [bodyStep, addDestroyNotify]
    split <;> simp [State.emit]
  | notify => simp [bodyStep, State.fail]

theorem runBody_delivered (t : Nat) : ∀ (body : List BodyOp) (s : State),
    delivered (runBody t body s).trace = delivered s.trace ∧ s.nextReg ≤ (runBody t body s).nextReg := by
  intro body
  induction body with
  | nil => intro s; exact ⟨rfl, Nat.le_refl _⟩
  | cons b bs ih =>
    intro s
    simp only [runBody]
    split
    · exact ⟨rfl, Nat.le_refl _⟩
    · obtain ⟨h1, h2⟩ := ih (bodyStep t b s)
      exact ⟨by rw [h1, bodyStep_delivered], Nat.le_trans (bodyStep_nextReg t b s) h2⟩

theorem callEntry_delivered (sc : Scripts) (t : Nat) (e : Entry) (s : State) :
    delivered (callEntry sc t e s).trace = delivered s.trace ++ (if e.func.isSome then [e.reg] else []) ∧
      s.nextReg ≤ (callEntry sc t e s).nextReg := by
  unfold callEntry
  cases hf : e.func with
  | none => simp
  | some k =>
    simp only
    obtain ⟨h1, h2⟩ := runBody_delivered t (sc k) (s.emit (.deliver e.reg e.data k))
    exact ⟨by rw [h1]; simp [delivered_snoc], by simpa using h2⟩

/-- what one round delivers: a sub-sequence of the nodes still ahead of the iterator -/
theorem loop_delivered {sc : Scripts} (hsc : NoNotify sc) {t : Nat} :
    ∀ (rest dn : List Nat) (s : State) (f : Nat), LInv2 t s (dn ++ rest) → (dn ++ rest).Nodup →
      rest.length ≤ f →
      s.nextReg ≤ (roundLoop sc f t rest.head? s).nextReg ∧
      ∃ ds, delivered (roundLoop sc f t rest.head? s).trace = delivered s.trace ++ ds ∧
        ds.Sublist rest := by
  intro rest
  induction rest with
  | nil =>
    intro dn s f _ _ _
    simp only [List.head?_nil, roundLoop]
    exact ⟨Nat.le_refl _, [], by simp, List.Sublist.refl _⟩
  | cons r rest ih =>
    intro dn s f h hnd hf
    obtain ⟨f', rfl⟩ : ∃ f', f = f' + 1 := ⟨f - 1, by simp at hf; omega⟩
    obtain ⟨es, ho, hmap⟩ := h.obj
    have hes : entriesOf s t = es := by simp [entriesOf, ho]
    obtain ⟨e, hfind, -, hreg⟩ : ∃ e, es.find? (fun e => e.reg == r) = some e ∧ e ∈ es ∧ e.reg = r :=
      find_reg (by rw [hmap]; simp)
    have h1 := call_LInv2 hsc e h
    obtain ⟨es1, ho1, hmap1⟩ := h1.obj
    have hes1 : entriesOf (callEntry sc t e s) t = es1 := by simp [entriesOf, ho1]
    have hr : r ∉ dn := by
      have := hnd
      rw [List.nodup_append] at this
      intro hm
      exact this.2.2 r hm r (List.mem_cons_self ..) rfl
    have hsucc : succOf r es1 = some rest.head? := succOf_spec es1 dn rest hmap1 hr
    simp only [List.head?_cons, roundLoop, hes, hfind, h1.noerr, hes1, hsucc, Option.isSome_none,
      Bool.false_eq_true, if_false]
    obtain ⟨hle, ds, hds, hsub⟩ :=
      ih (dn ++ [r]) _ f' (by simpa using h1) (by simpa using hnd) (by simp at hf; omega)
    obtain ⟨hcd, hcn⟩ := callEntry_delivered sc t e s
    refine ⟨Nat.le_trans hcn hle, (if e.func.isSome then [e.reg] else []) ++ ds, ?_, ?_⟩
    · rw [hds, hcd, List.append_assoc]
    · rw [hreg]
      cases e.func.isSome
      · simpa using hsub.cons r
      · simpa using hsub.cons_cons r

/-- frame of one `notify_callbacks()` on the wider domain -/
theorem notify_frame2 {sc : Scripts} (hsc : NoNotify sc) (t : Nat) {s : State} (h : Inv2 s) :
    ∃ ds, delivered (notifyCallbacks sc t s).trace = delivered s.trace ++ ds ∧ ds.Nodup ∧
      (∀ r ∈ ds, ∃ l, s.objs t = some ⟨some l⟩ ∧ ∃ e ∈ l.entries, e.reg = r) ∧
      (∀ t', t' ≠ t → (notifyCallbacks sc t s).objs t' = s.objs t') ∧
      (∀ l, (notifyCallbacks sc t s).objs t ≠ some ⟨some l⟩) ∧
      s.nextReg ≤ (notifyCallbacks sc t s).nextReg := by
  unfold notifyCallbacks
  cases ho : s.objs t with
  | none =>
    refine ⟨[], by simp, by simp, by simp, fun _ _ => rfl, ?_, Nat.le_refl _⟩
    intro l; rw [ho]; simp
  | some o =>
    obtain ⟨cbs⟩ := o
    cases cbs with
    | none =>
      simp only
      refine ⟨[], by simp [delivered], by simp, by simp, fun _ _ => rfl, ?_, by simp⟩
      intro l; simp [ho]
    | some l =>
      obtain ⟨es, cl⟩ := l
      obtain ⟨hcl, hnd, -⟩ := h.good t ⟨es, cl⟩ (by rw [ho])
      simp only at hcl hnd
      subst hcl
      simp only [Bool.false_eq_true, if_false]
      have h0 : LInv2 t ((s.emit (.trig t)).upd t (some ⟨some ⟨es, true⟩⟩)) ([] ++ es.map (·.reg)) := by
        refine ⟨by simpa using h.noerr, ⟨es, by simp, by simp⟩, ?_⟩
        intro t' ht'
        simpa [upd_objs_other _ _ ht'] using h.good t'
      have h2 := loop_LInv2 hsc (es.map (·.reg)) [] _ es.length h0 (by simpa using hnd) (by simp)
      obtain ⟨hle, ds, hds, hsub⟩ :=
        loop_delivered hsc (es.map (·.reg)) [] _ es.length h0 (by simpa using hnd) (by simp)
      have hext := roundLoop_ext sc t es.length ((es.map (·.reg)).head?)
        ((s.emit (.trig t)).upd t (some ⟨some ⟨es, true⟩⟩))
      rw [List.head?_map] at h2 hle hds hext
      generalize roundLoop sc es.length t (Option.map (fun x => x.reg) es.head?)
        ((s.emit (.trig t)).upd t (some ⟨some ⟨es, true⟩⟩)) = s2 at h2 hle hds hext
      simp only [h2.noerr, Option.isSome_none, Bool.false_eq_true, if_false]
      refine ⟨ds, ?_, hsub.nodup hnd, ?_, ?_, ?_, ?_⟩
      · simpa [delivered_snoc] using hds
      · intro r hr
        obtain ⟨e, he, her⟩ := List.mem_map.1 (hsub.subset hr)
        exact ⟨⟨es, false⟩, rfl, e, he, her⟩
      · intro t' ht'
        have := hext.2 t' ht'
        simpa [upd_objs_other _ _ ht'] using this
      · intro l; simp
      · simpa using hle

/-- invariant for distinct deliveries: what has been delivered is gone from every list, and the lists
    of different trackables share no registration -/
structure Inv3 (s : State) : Prop where
  base   : Inv2 s
  dnodup : (delivered s.trace).Nodup
  dfresh : ∀ r ∈ delivered s.trace, r < s.nextReg
  undel  : ∀ t l, s.objs t = some ⟨some l⟩ → ∀ e ∈ l.entries, e.reg ∉ delivered s.trace
  disj   : ∀ t t' l l', t ≠ t' → s.objs t = some ⟨some l⟩ → s.objs t' = some ⟨some l'⟩ →
             ∀ e ∈ l.entries, ∀ e' ∈ l'.entries, e.reg ≠ e'.reg

/-- a step that delivers nothing and touches only `t`, whose entries afterwards are old ones of `t`
    or carry fresh ids -/
theorem inv3_of_frame {s s' : State} {t : Nat} (h : Inv3 s) (hb : Inv2 s')
    (hd : delivered s'.trace = delivered s.trace) (hn : s.nextReg ≤ s'.nextReg)
    (ho : ∀ t', t' ≠ t → s'.objs t' = s.objs t')
    (ht : ∀ l', s'.objs t = some ⟨some l'⟩ → ∀ e' ∈ l'.entries,
      s.nextReg ≤ e'.reg ∨ ∃ l, s.objs t = some ⟨some l⟩ ∧ ∃ e ∈ l.entries, e.reg = e'.reg) :
    Inv3 s' := by
  have aux : ∀ t2 l1 l2, t2 ≠ t → s'.objs t = some ⟨some l1⟩ → s.objs t2 = some ⟨some l2⟩ →
      ∀ e1 ∈ l1.entries, ∀ e2 ∈ l2.entries, e1.reg ≠ e2.reg := by
    intro t2 l1 l2 hne h1 h2 e1 he1 e2 he2
    rcases ht l1 h1 e1 he1 with hlt | ⟨l, hl, e0, he0, hr⟩
    · have := (h.base.good t2 l2 h2).2.2 e2 he2
      omega
    · rw [← hr]
      exact h.disj t t2 l l2 (Ne.symm hne) hl h2 e0 he0 e2 he2
  refine ⟨hb, by rw [hd]; exact h.dnodup, ?_, ?_, ?_⟩
  · intro r hr
    rw [hd] at hr
    exact Nat.lt_of_lt_of_le (h.dfresh r hr) hn
  · intro t0 l0 h0 e he
    rw [hd]
    by_cases e0 : t0 = t
    · subst e0
      rcases ht l0 h0 e he with hlt | ⟨l, hl, e1, he1, hr⟩
      · intro hm
        have := h.dfresh _ hm
        omega
      · rw [← hr]
        exact h.undel t0 l hl e1 he1
    · rw [ho t0 e0] at h0
      exact h.undel t0 l0 h0 e he
  · intro t1 t2 l1 l2 hne h1 h2 e1 he1 e2 he2
    by_cases c1 : t1 = t
    · subst c1
      rw [ho t2 (Ne.symm hne)] at h2
      exact aux t2 l1 l2 (Ne.symm hne) h1 h2 e1 he1 e2 he2
    · by_cases c2 : t2 = t
      · subst c2
        rw [ho t1 c1] at h1
        exact Ne.symm (aux t1 l2 l1 c1 h2 h1 e2 he2 e1 he1)
      · rw [ho t1 c1] at h1
        rw [ho t2 c2] at h2
        exact h.disj t1 t2 l1 l2 hne h1 h2 e1 he1 e2 he2

theorem mem_addCallback {o : Trackable} {d k r : Nat} {e' : Entry}
    (h : e' ∈ ((getList o).addCallback d k r).entries) :
    e'.reg = r ∨ ∃ l, o = ⟨some l⟩ ∧ e' ∈ l.entries := by
  obtain ⟨cbs⟩ := o
  cases cbs with
  | none =>
    simp [getList, CbList.addCallback] at h
    left; rw [h]
  | some l =>
    cases hc : l.clearing with
    | true =>
      simp only [getList, Option.getD_some, CbList.addCallback, hc, if_true] at h
      exact .inr ⟨l, rfl, h⟩
    | false =>
      simp only [getList, Option.getD_some, CbList.addCallback, hc, Bool.false_eq_true, if_false] at h
      rcases List.mem_append.1 h with h | h
      · exact .inr ⟨l, rfl, h⟩
      · simp at h; left; rw [h]

theorem mem_removeCallback {o : Trackable} {d : Nat} {e' : Entry}
    (h : e' ∈ ((getList o).removeCallback d).entries) :
    ∃ l, o = ⟨some l⟩ ∧ ∃ e ∈ l.entries, e.reg = e'.reg := by
  obtain ⟨cbs⟩ := o
  cases cbs with
  | none => simp [getList, CbList.removeCallback, removeLoop] at h
  | some l =>
    simp only [getList, Option.getD_some, CbList.removeCallback] at h
    have hm : e'.reg ∈ (removeLoop l.clearing d l.entries).map (·.reg) := List.mem_map.2 ⟨e', h, rfl⟩
    cases hc : l.clearing with
    | false =>
      rw [hc] at hm
      obtain ⟨e, he, hr⟩ := List.mem_map.1 (((removeLoop_false_sublist d l.entries).map _).subset hm)
      exact ⟨l, rfl, e, he, hr⟩
    | true =>
      rw [hc, map_reg_removeLoop_true] at hm
      obtain ⟨e, he, hr⟩ := List.mem_map.1 hm
      exact ⟨l, rfl, e, he, hr⟩

theorem add_inv3 {s : State} (h : Inv3 s) (t d k : Nat) : Inv3 (addDestroyNotify t d k s) := by
  have hb := add_inv2 h.base t d k
  unfold addDestroyNotify at hb ⊢
  cases ho : s.objs t with
  | none => exact h
  | some o =>
    simp only [ho] at hb
    simp only
    refine inv3_of_frame (t := t) h hb (by simp [delivered_snoc, State.emit]) (by simp [State.emit])
      (fun t' ht' => by simp [upd_objs_other _ _ ht', State.emit]) ?_
    intro l' hl' e' he'
    simp only [upd_objs_same] at hl'
    injection hl' with hl'
    injection hl' with hl'
    injection hl' with hl'
    subst hl'
    rcases mem_addCallback he' with hr | ⟨l, hl, hm⟩
    · left; omega
    · right; subst hl; exact ⟨l, ho, e', hm, rfl⟩

theorem rem_inv3 {s : State} (h : Inv3 s) (t d : Nat) : Inv3 (removeDestroyNotify t d s) := by
  have hb := rem_inv2 h.base t d
  unfold removeDestroyNotify at hb ⊢
  cases ho : s.objs t with
  | none => exact h
  | some o =>
    simp only [ho] at hb
    simp only
    refine inv3_of_frame (t := t) h hb (by simp [delivered_snoc]) (by simp)
      (fun t' ht' => by simp [upd_objs_other _ _ ht']) ?_
    intro l' hl' e' he'
    simp only [upd_objs_same] at hl'
    injection hl' with hl'
    injection hl' with hl'
    injection hl' with hl'
    subst hl'
    obtain ⟨l, hl, e, he, hr⟩ := mem_removeCallback he'
    right; subst hl; exact ⟨l, ho, e, he, hr⟩

theorem upd_inv3 {s : State} (h : Inv3 s) (t : Nat) (o : Option Trackable)
    (hb : Inv2 (s.upd t o)) (hno : ∀ l, o ≠ some ⟨some l⟩) : Inv3 (s.upd t o) := by
  refine inv3_of_frame (t := t) h hb (by simp) (by simp) (fun t' ht' => upd_objs_other _ _ ht') ?_
  intro l' hl'
  simp only [upd_objs_same] at hl'
  exact absurd hl' (hno l')

theorem notify_inv3 {sc : Scripts} (hsc : NoNotify sc) (t : Nat) {s : State} (h : Inv3 s) :
    Inv3 (notifyCallbacks sc t s) := by
  have hb := notify_inv2 hsc t h.base
  obtain ⟨ds, hd, hdn, hds, hoth, hnl, hle⟩ := notify_frame2 hsc t h.base
  generalize notifyCallbacks sc t s = s' at hb hd hoth hnl hle
  refine ⟨hb, ?_, ?_, ?_, ?_⟩
  · rw [hd, List.nodup_append]
    refine ⟨h.dnodup, hdn, ?_⟩
    intro a ha b hb' hab
    subst hab
    obtain ⟨l, hl, e, he, hr⟩ := hds a hb'
    exact h.undel t l hl e he (hr ▸ ha)
  · intro r hr
    rw [hd] at hr
    rcases List.mem_append.1 hr with hr | hr
    · exact Nat.lt_of_lt_of_le (h.dfresh r hr) hle
    · obtain ⟨l, hl, e, he, her⟩ := hds r hr
      exact Nat.lt_of_lt_of_le (her ▸ (h.base.good t l hl).2.2 e he) hle
  · intro t0 l0 h0 e he
    by_cases c : t0 = t
    · subst c; exact absurd h0 (hnl l0)
    · rw [hoth t0 c] at h0
      rw [hd]
      intro hm
      rcases List.mem_append.1 hm with hm | hm
      · exact h.undel t0 l0 h0 e he hm
      · obtain ⟨l, hl, e1, he1, her⟩ := hds _ hm
        exact h.disj t0 t l0 l c h0 hl e he e1 he1 her.symm
  · intro t1 t2 l1 l2 hne h1 h2 e1 he1 e2 he2
    by_cases c1 : t1 = t
    · subst c1; exact absurd h1 (hnl l1)
    · by_cases c2 : t2 = t
      · subst c2; exact absurd h2 (hnl l2)
      · rw [hoth t1 c1] at h1
        rw [hoth t2 c2] at h2
        exact h.disj t1 t2 l1 l2 hne h1 h2 e1 he1 e2 he2

theorem exec_inv3 {sc : Scripts} (hsc : NoNotify sc) {s : State} (h : Inv3 s) (op : Op) :
    Inv3 (exec sc op s) := by
  cases op with
  | new t => exact upd_inv3 h t _ (upd_nolist_inv2 h.base t) (by intro l; simp)
  | add t d k => exact add_inv3 h t d k
  | rem t d => exact rem_inv3 h t d
  | copyCtor src dst => exact upd_inv3 h dst _ (upd_nolist_inv2 h.base dst) (by intro l; simp)
  | moveCtor src dst =>
    exact notify_inv3 hsc src (upd_inv3 h dst _ (upd_nolist_inv2 h.base dst) (by intro l; simp))
  | assign dst src =>
    simp only [exec]
    split
    · exact notify_inv3 hsc dst h
    · exact h
  | moveAssign dst src =>
    simp only [exec]
    split
    · have h1 := notify_inv3 hsc dst h
      simp only [h1.base.noerr, Option.isSome_none, Bool.false_eq_true, if_false]
      exact notify_inv3 hsc src h1
    · exact h
  | notify t => exact notify_inv3 hsc t h
  | del t =>
    have h1 := notify_inv3 hsc t h
    simp only [exec, h1.base.noerr, Option.isSome_none, Bool.false_eq_true, if_false]
    exact upd_inv3 h1 t _ (upd_dead_inv2 h1.base t) (by intro l; simp)

theorem step_inv3 {sc : Scripts} (hsc : NoNotify sc) {s : State} (h : Inv3 s) (op : Op) :
    Inv3 (step sc op s) := by
  unfold step
  simp only [h.base.noerr, Option.isSome_none, Bool.false_eq_true, if_false]
  split
  · exact exec_inv3 hsc h op
  · exact h

theorem runFrom_inv3 {sc : Scripts} (hsc : NoNotify sc) :
    ∀ (ops : List Op) (s : State), Inv3 s → Inv3 (runFrom sc ops s) := by
  intro ops
  induction ops with
  | nil => intro s h; exact h
  | cons op ops ih => intro s h; exact ih _ (step_inv3 hsc h op)

theorem init_inv3 : Inv3 State.init :=
  ⟨init_inv2, by simp [State.init], by simp [State.init],
    fun t l h => by simp [State.init] at h, fun t t' l l' _ h => by simp [State.init] at h⟩

theorem run_inv3 {h : History} (hd : h.Domain2 = true) : Inv3 (run h) :=
  runFrom_inv3 (History.noNotify hd) h.ops _ init_inv3

end Sigc.Trk
