import Sigc.SweepLLemmasSweep
/-!
  Lemmas about `Sigc/SweepL.lean`, part 2b: **what is disconnected stays disconnected, and the death of an owner
  functor disconnects what it owned.**  `Rel s s'`: the cells of `s'` descend from cells of `s` (same name, same
  owned list, not more connected), and whenever the cell named by the owner of a recorded `own` edge has left the
  list between `s` and `s'`, the owned cell is not connected in `s'`.  `Rel` is reflexive and transitive and
  holds across every primitive that runs inside a holder scope (`discUnder`, `dtor`, `eraseCell`, a pass of
  `sweep()`, the chain of sweeps, `unref`); the invariant `Own` is preserved along `Rel`.
-/
namespace Sigc.SweepL

/-- no *connected* cell is named `k` -/
def NoConn (k : Nat) (s : State) : Prop := ∀ c ∈ s.cells, c.id = k → c.conn = false

/-- every cell of `cs'` descends from a cell of `cs` -/
def DescL (cs cs' : List Cell) : Prop :=
  ∀ c' ∈ cs', ∃ c ∈ cs, c.id = c'.id ∧ c.owned = c'.owned ∧ (c'.conn = true → c.conn = true)

theorem DescL.refl (cs : List Cell) : DescL cs cs := fun c hc => ⟨c, hc, rfl, rfl, id⟩

theorem DescL.trans {a b c : List Cell} (h1 : DescL a b) (h2 : DescL b c) : DescL a c := by
  intro z hz
  obtain ⟨y, hy, e1, e2, e3⟩ := h2 z hz
  obtain ⟨x, hx, f1, f2, f3⟩ := h1 y hy
  exact ⟨x, hx, f1.trans e1, f2.trans e2, fun h => f3 (e3 h)⟩

theorem DescL.noConn {cs cs' : List Cell} (h : DescL cs cs') {k : Nat}
    (hn : ∀ c ∈ cs, c.id = k → c.conn = false) : ∀ c ∈ cs', c.id = k → c.conn = false := by
  intro c' hc' hid
  obtain ⟨c, hc, e1, _, e3⟩ := h c' hc'
  cases hcon : c'.conn with
  | false => rfl
  | true =>
    have := hn c hc (e1.trans hid)
    rw [e3 hcon] at this; cases this

theorem descL_setDisc (i : Nat) (cs : List Cell) : DescL cs (setDisc i cs) := by
  intro c' hc'
  rcases mem_setDisc hc' with ⟨hm, _⟩ | ⟨hcon, _, c0, hm, _, rfl⟩
  · exact ⟨c', hm, rfl, rfl, id⟩
  · exact ⟨c0, hm, rfl, rfl, fun h => by simp at h⟩

theorem descL_remove (i : Nat) (cs : List Cell) : DescL cs (remove i cs) := by
  intro c' hc'
  exact ⟨c', (mem_remove.1 hc').1, rfl, rfl, id⟩

structure Rel (s s' : State) : Prop where
  edges : s'.edges = s.edges
  used : s'.used = s.used
  desc : DescL s.cells s'.cells
  gone : ∀ e ∈ s.edges, (∃ c ∈ s.cells, c.id = e.1) → (∀ c' ∈ s'.cells, c'.id ≠ e.1) → NoConn e.2 s'

theorem Rel.refl (s : State) : Rel s s :=
  ⟨rfl, rfl, DescL.refl _, fun _ _ ⟨c, hc, hi⟩ hg => absurd hi (hg c hc)⟩

theorem Rel.trans {a b c : State} (h1 : Rel a b) (h2 : Rel b c) : Rel a c := by
  refine ⟨h2.edges.trans h1.edges, h2.used.trans h1.used, h1.desc.trans h2.desc, ?_⟩
  intro e he hpres hgone
  by_cases hb : ∃ c1 ∈ b.cells, c1.id = e.1
  · exact h2.gone e (h1.edges ▸ he) hb hgone
  · have hg : ∀ c' ∈ b.cells, c'.id ≠ e.1 := fun c' hc' hi => hb ⟨c', hc', hi⟩
    exact h2.desc.noConn (h1.gone e he hpres hg)

/-- a change that keeps every name in the list -/
theorem Rel.of_ids {s s' : State} (he : s'.edges = s.edges) (hu : s'.used = s.used)
    (hd : DescL s.cells s'.cells) (hi : ids s'.cells = ids s.cells) : Rel s s' := by
  refine ⟨he, hu, hd, ?_⟩
  intro e _ ⟨c, hc, hid⟩ hg
  have : e.1 ∈ ids s'.cells := by rw [hi]; exact mem_ids.2 ⟨c, hc, hid⟩
  obtain ⟨c', hc', hid'⟩ := mem_ids.1 this
  exact absurd hid' (hg c' hc')

/-- the `own` edges of the cells in the list are in their owned lists -/
def Held (s : State) : Prop := ∀ e ∈ s.edges, ∀ c ∈ s.cells, c.id = e.1 → e.2 ∈ c.owned

theorem Held.rel {s s' : State} (h : Held s) (r : Rel s s') : Held s' := by
  intro e he c' hc' hid
  obtain ⟨c, hc, e1, e2, _⟩ := r.desc c' hc'
  rw [← e2]; exact h e (r.edges ▸ he) c hc (e1.trans hid)

/-- ownership: both ends of an edge are names that were given; a living owner holds the edge in its owned list;
    **a dead owner's owned cells are not connected** -/
structure Own (s : State) : Prop where
  known : ∀ e ∈ s.edges, e.1 ∈ s.used ∧ e.2 ∈ s.used
  held : Held s
  released : ∀ e ∈ s.edges, (∀ c ∈ s.cells, c.id ≠ e.1) → NoConn e.2 s

theorem Own.rel {s s' : State} (h : Own s) (r : Rel s s') : Own s' := by
  refine ⟨?_, h.held.rel r, ?_⟩
  · intro e he; rw [r.used]; exact h.known e (r.edges ▸ he)
  · intro e he hg
    have he' : e ∈ s.edges := r.edges ▸ he
    by_cases hp : ∃ c ∈ s.cells, c.id = e.1
    · exact r.gone e he' hp hg
    · exact r.desc.noConn (h.released e he' (fun c hc hi => hp ⟨c, hc, hi⟩))

theorem Own.congr {s s' : State} (h : Own s) (h1 : s'.cells = s.cells) (h2 : s'.edges = s.edges)
    (h3 : s'.used = s.used) : Own s' :=
  h.rel ⟨h2, h3, by rw [h1]; exact DescL.refl _, fun _ _ ⟨c, hc, hi⟩ hg => absurd hi (hg c (h1 ▸ hc))⟩

/-! ### the primitives -/

theorem rel_setDisc (i : Nat) (s : State) (d : Bool) :
    Rel s { s with cells := setDisc i s.cells, deferred := d } :=
  Rel.of_ids rfl rfl (descL_setDisc i s.cells) (ids_setDisc i s.cells)

theorem rel_discUnder (i : Nat) (s : State) : Rel s (discUnder i s) := by
  unfold discUnder; split
  · split
    · exact rel_setDisc i s true
    · exact Rel.refl s
  · exact Rel.refl s

theorem noConn_discUnder (i : Nat) {s : State} (hb : Base s) : NoConn i (discUnder i s) := by
  unfold discUnder
  cases hf : find i s.cells with
  | none => intro c hc hi; exact absurd hi (find_none hf c hc)
  | some c0 =>
    simp only
    by_cases hc0 : c0.conn = true
    · rw [if_pos hc0]
      intro c hc hi
      rcases mem_setDisc hc with ⟨_, hne⟩ | ⟨hcon, _, _⟩
      · exact absurd hi hne
      · exact hcon
    · rw [if_neg hc0]
      intro c hc hi
      have := find_unique hb.nodup hf hc hi
      subst this
      simpa using hc0

theorem rel_dtor (owned : List Nat) (s : State) (he : s.exec ≠ 0) : Rel s (dtor owned s) := by
  induction owned generalizing s with
  | nil => exact Rel.refl s
  | cons v vs ih =>
    simp only [dtor, List.foldl_cons, he, ↓reduceIte]
    have := ih (discUnder v s) (by rw [(discUnder_same v s).exec]; exact he)
    simp only [dtor] at this
    exact (rel_discUnder v s).trans this

theorem noConn_dtor (owned : List Nat) (s : State) (hb : Base s) (he : s.exec ≠ 0) (v : Nat) (hv : v ∈ owned) :
    NoConn v (dtor owned s) := by
  induction owned generalizing s with
  | nil => cases hv
  | cons w ws ih =>
    have he' : (discUnder w s).exec ≠ 0 := by rw [(discUnder_same w s).exec]; exact he
    have hd : dtor (w :: ws) s = dtor ws (discUnder w s) := by
      simp only [dtor, List.foldl_cons, he, ↓reduceIte]
    rw [hd]
    cases hv with
    | head => exact (rel_dtor ws _ he').desc.noConn (noConn_discUnder _ hb)
    | tail _ hv' => exact ih (discUnder w s) (discUnder_base w hb) he' hv'

theorem eraseCell_base (i : Nat) {s : State} (hb : Base s) (he : s.exec ≠ 0) :
    Base (eraseCell i s) ∧ (eraseCell i s).exec = s.exec := by
  unfold eraseCell
  cases hf : find i s.cells with
  | none => exact ⟨hb, rfl⟩
  | some c =>
    simp only
    have hb1 := remove_base hb hf
    have hp1 : Pend (ids (remove i s.cells)) { s with cells := remove i s.cells, live := decLive c.kind s.live } :=
      fun c' hc' _ => Or.inr (mem_ids.2 ⟨c', hc', rfl⟩)
    obtain ⟨a, b, _⟩ := dtor_spec c.owned _ _ hb1 hp1 he
    exact ⟨b, a.exec⟩

theorem rel_eraseCell (i : Nat) {s : State} (hb : Base s) (he : s.exec ≠ 0) (hh : Held s) :
    Rel s (eraseCell i s) := by
  unfold eraseCell
  cases hf : find i s.cells with
  | none => exact Rel.refl s
  | some c =>
    simp only
    generalize hs1 : ({ s with cells := remove i s.cells, live := decLive c.kind s.live } : State) = s1
    have he1 : s1.exec ≠ 0 := by subst hs1; exact he
    have hb1 : Base s1 := by subst hs1; exact remove_base hb hf
    have r := rel_dtor c.owned s1 he1
    have hcells : s1.cells = remove i s.cells := by subst hs1; rfl
    have hedges : s1.edges = s.edges := by subst hs1; rfl
    have hused : s1.used = s.used := by subst hs1; rfl
    refine ⟨r.edges.trans hedges, r.used.trans hused, ?_, ?_⟩
    · have : DescL s.cells s1.cells := by rw [hcells]; exact descL_remove i s.cells
      exact this.trans r.desc
    · intro e hein ⟨c0, hc0, hid0⟩ hgone
      by_cases hei : e.1 = i
      · have hc := find_some hf
        have hv : e.2 ∈ c.owned := hh e hein c hc.1 (hc.2.trans hei.symm)
        exact noConn_dtor c.owned s1 hb1 he1 e.2 hv
      · have hc1 : c0 ∈ s1.cells := by
          rw [hcells]; exact mem_remove.2 ⟨hc0, fun h => hei (hid0.symm.trans h)⟩
        exact r.gone e (hedges ▸ hein) ⟨c0, hc1, hid0⟩ hgone

theorem rel_sweepIds (is : List Nat) (s : State) (hb : Base s) (he : s.exec ≠ 0) (hh : Held s) :
    Rel s (sweepIds is s) ∧ Base (sweepIds is s) ∧ (sweepIds is s).exec = s.exec := by
  induction is generalizing s with
  | nil => exact ⟨Rel.refl s, hb, rfl⟩
  | cons i is ih =>
    simp only [sweepIds]
    cases hf : find i s.cells with
    | none => exact ih s hb he hh
    | some c =>
      simp only
      by_cases hemp : c.isEmpty = true
      · simp only [hemp, ↓reduceIte]
        generalize hs1 : (if c.conn = true then { s with cells := setDisc i s.cells, deferred := true } else s) = s1
        have h1 : Rel s s1 ∧ Base s1 ∧ s1.exec = s.exec := by
          subst hs1
          by_cases hc : c.conn = true
          · rw [if_pos hc]; exact ⟨rel_setDisc i s true, setDisc_base hb true, rfl⟩
          · rw [if_neg hc]; exact ⟨Rel.refl s, hb, rfl⟩
        obtain ⟨r1, hb1, hex1⟩ := h1
        have he1 : s1.exec ≠ 0 := by rw [hex1]; exact he
        have r2 := rel_eraseCell i hb1 he1 (hh.rel r1)
        obtain ⟨hb2, hex2⟩ := eraseCell_base i hb1 he1
        have he2 : (eraseCell i s1).exec ≠ 0 := by rw [hex2]; exact he1
        obtain ⟨r3, hb3, hex3⟩ := ih (eraseCell i s1) hb2 he2 ((hh.rel r1).rel r2)
        exact ⟨(r1.trans r2).trans r3, hb3, hex3.trans (hex2.trans hex1)⟩
      · simp only [hemp]
        exact ih s hb he hh

theorem rel_sweep (n : Nat) (s : State) (hb : Base s) (hh : Held s) : Rel s (sweep n s) := by
  induction n generalizing s with
  | zero => exact Rel.of_ids rfl rfl (DescL.refl _) rfl
  | succ n ih =>
    simp only [sweep]
    split
    · exact Rel.of_ids rfl rfl (DescL.refl _) rfl
    · generalize hs1 : ({ s with exec := s.exec + 1, deferred := false } : State) = s1
      have r1 : Rel s s1 := by subst hs1; exact Rel.of_ids rfl rfl (DescL.refl _) rfl
      have hb1 : Base s1 := by subst hs1; exact hb.congr rfl rfl rfl
      have he1 : s1.exec ≠ 0 := by subst hs1; simp
      obtain ⟨r2, hb2, _⟩ := rel_sweepIds (ids s.cells) s1 hb1 he1 (hh.rel r1)
      have r3 : Rel (sweepIds (ids s.cells) s1)
          { sweepIds (ids s.cells) s1 with exec := (sweepIds (ids s.cells) s1).exec - 1 } :=
        Rel.of_ids rfl rfl (DescL.refl _) rfl
      split
      · exact ((r1.trans r2).trans r3).trans
          (ih _ (hb2.congr rfl rfl rfl) (((hh.rel r1).rel r2).rel r3))
      · exact (r1.trans r2).trans r3

theorem rel_unref (s : State) (hb : Base s) (hh : Held s) : Rel s (unref s) := by
  simp only [unref]
  have r1 : Rel s { s with exec := s.exec - 1 } := Rel.of_ids rfl rfl (DescL.refl _) rfl
  split
  · exact r1.trans (rel_sweep _ _ (hb.congr rfl rfl rfl) (hh.rel r1))
  · exact r1

/-! ### across operations that may also connect: nothing is ever re-connected, no name comes back -/

/-- every cell of `s'` descends from a cell of `s` (same name, not more connected) or carries a name that was
    not yet given in `s`; given names stay given -/
structure Keep (s s' : State) : Prop where
  desc : ∀ c' ∈ s'.cells, (∃ c ∈ s.cells, c.id = c'.id ∧ (c'.conn = true → c.conn = true)) ∨ c'.id ∉ s.used
  used : ∀ k ∈ s.used, k ∈ s'.used

theorem Keep.refl (s : State) : Keep s s := ⟨fun c hc => Or.inl ⟨c, hc, rfl, id⟩, fun _ h => h⟩

theorem Keep.trans {a b c : State} (h1 : Keep a b) (h2 : Keep b c) : Keep a c := by
  refine ⟨?_, fun k hk => h2.used k (h1.used k hk)⟩
  intro z hz
  rcases h2.desc z hz with ⟨y, hy, e1, e3⟩ | hn
  · rcases h1.desc y hy with ⟨x, hx, f1, f3⟩ | hn
    · exact Or.inl ⟨x, hx, f1.trans e1, fun h => f3 (e3 h)⟩
    · exact Or.inr (e1 ▸ hn)
  · exact Or.inr (fun h => hn (h1.used _ h))

theorem Keep.of_rel {s s' : State} (r : Rel s s') : Keep s s' :=
  ⟨fun c' hc' => let ⟨c, hc, e1, _, e3⟩ := r.desc c' hc'; Or.inl ⟨c, hc, e1, e3⟩, fun _ hk => r.used ▸ hk⟩

theorem Keep.of_eq {s s' : State} (h1 : s'.cells = s.cells) (h2 : s'.used = s.used) : Keep s s' :=
  ⟨fun c' hc' => Or.inl ⟨c', h1 ▸ hc', rfl, id⟩, fun _ hk => h2 ▸ hk⟩

/-- a name that was given and names no connected cell names no connected cell ever after -/
theorem Keep.noConn {s s' : State} (h : Keep s s') {k : Nat} (hk : k ∈ s.used) (hn : NoConn k s) :
    NoConn k s' := by
  intro c' hc' hid
  rcases h.desc c' hc' with ⟨c, hc, e1, e3⟩ | hnu
  · cases hcon : c'.conn with
    | false => rfl
    | true =>
      have := hn c hc (e1.trans hid)
      rw [e3 hcon] at this; cases this
  · exact absurd (hid ▸ hk) hnu

end Sigc.SweepL
