import Sigc.SweepLLemmas
/-!
  Lemmas about `Sigc/SweepL.lean`, part 2: one pass of `sweep()` (`sweepIds_spec`), the chain of sweeps with its
  fuel (`sweep_spec`: `cells.length + 1` suffices because a pass that leaves `deferred_` set has erased a cell),
  `unref`.
-/
namespace Sigc.SweepL

/-- the fields nothing below the operations touches (the execution counter is handled separately) -/
structure Frame (s s' : State) : Prop where
  marks : s'.marks = s.marks
  used : s'.used = s.used
  owners : s'.owners = s.owners
  out : s'.out = s.out

theorem Frame.rfl' {s : State} : Frame s s := ⟨rfl, rfl, rfl, rfl⟩
theorem Frame.trans {a b c : State} (h1 : Frame a b) (h2 : Frame b c) : Frame a c :=
  ⟨h2.marks.trans h1.marks, h2.used.trans h1.used, h2.owners.trans h1.owners, h2.out.trans h1.out⟩
theorem Same.frame {s s' : State} (h : Same s s') : Frame s s' := ⟨h.marks, h.used, h.owners, h.out⟩

theorem Base.congr {s s' : State} (hb : Base s) (h1 : s'.cells = s.cells) (h2 : s'.used = s.used)
    (h3 : s'.live = s.live) : Base s' :=
  ⟨by rw [h1]; exact hb.nodup, by rw [h1, h2]; exact hb.used, by rw [h1, h3]; exact hb.live⟩

theorem Pend.congr {todo : List Nat} {s s' : State} (hp : Pend todo s) (h1 : s'.cells = s.cells)
    (h2 : s'.deferred = s.deferred) : Pend todo s' := by
  intro c hc hcon; rw [h2]; rw [h1] at hc; exact hp c hc hcon

theorem find_setDisc (i : Nat) (cs : List Cell) :
    find i (setDisc i cs) = (find i cs).map fun c => { c with conn := false } := by
  induction cs with
  | nil => rfl
  | cons x xs ih =>
    simp only [setDisc, List.map_cons, find] at ih ⊢
    by_cases hx : x.id = i
    · simp [hx]
    · simp [hx, ih]

/-- one pass of `sweep()` -/
theorem sweepIds_spec (is : List Nat) (s : State) (hb : Base s) (hp : Pend is s) (he : s.exec ≠ 0) :
    Same s (sweepIds is s) ∧ Base (sweepIds is s) ∧ Pend [] (sweepIds is s) ∧ (sweepIds is s).err = s.err ∧
    (sweepIds is s).cells.length ≤ s.cells.length ∧
    ((sweepIds is s).deferred = true → s.deferred = true ∨ (sweepIds is s).cells.length < s.cells.length) := by
  induction is generalizing s with
  | nil => exact ⟨Same.rfl', hb, hp, rfl, Nat.le_refl _, fun h => Or.inl h⟩
  | cons i is ih =>
    simp only [sweepIds]
    cases hf : find i s.cells with
    | none =>
      simp only
      apply ih s hb _ he
      intro c hc hcon
      rcases hp c hc hcon with h | h
      · exact Or.inl h
      · cases h with
        | head => exact absurd rfl (find_none hf c hc)
        | tail _ h' => exact Or.inr h'
    | some c =>
      simp only
      by_cases hemp : c.isEmpty = true
      · simp only [hemp, ↓reduceIte]
        -- the state after `(*i).disconnect()`
        generalize hs1 : (if c.conn = true then { s with cells := setDisc i s.cells, deferred := true } else s) = s1
        have h1 : Base s1 ∧ Pend (i :: is) s1 ∧ s1.exec = s.exec ∧ Frame s s1 ∧ s1.err = s.err ∧
            s1.cells.length = s.cells.length ∧ (s.deferred = true → s1.deferred = true) ∧
            (∃ c1, find i s1.cells = some c1) := by
          subst hs1
          by_cases hc : c.conn = true
          · rw [if_pos hc]
            refine ⟨setDisc_base hb true, fun _ _ _ => Or.inl rfl, rfl, ⟨rfl, rfl, rfl, rfl⟩, rfl,
              length_setDisc _ _, fun _ => rfl, ?_⟩
            simp only [find_setDisc, hf, Option.map_some]
            exact ⟨_, rfl⟩
          · rw [if_neg hc]
            exact ⟨hb, hp, rfl, Frame.rfl', rfl, rfl, id, c, hf⟩
        obtain ⟨hb1, hp1, hex1, hfr1, herr1, hlen1, hdef1, c1, hf1⟩ := h1
        have he1 : s1.exec ≠ 0 := by rw [hex1]; exact he
        obtain ⟨a, b, c', d, e, f⟩ := eraseCell_spec i is s1 c1 hb1 hf1 hp1 he1
        have he2 : (eraseCell i s1).exec ≠ 0 := by rw [a.exec]; exact he1
        obtain ⟨a', b', c'', d', e', f'⟩ := ih (eraseCell i s1) b c' he2
        refine ⟨⟨a'.exec.trans (a.exec.trans hex1), a'.marks.trans (a.marks.trans hfr1.marks),
          a'.used.trans (a.used.trans hfr1.used), a'.owners.trans (a.owners.trans hfr1.owners),
          a'.out.trans (a.out.trans hfr1.out)⟩, b', c'', d'.trans (d.trans herr1), by omega, ?_⟩
        intro _; right; omega
      · simp only [hemp]
        apply ih s hb _ he
        intro c' hc' hcon
        rcases hp c' hc' hcon with h | h
        · exact Or.inl h
        · cases h with
          | head =>
            exfalso
            have := find_unique hb.nodup hf hc' rfl
            subst this
            simp [Cell.isEmpty, hcon] at hemp
          | tail _ h' => exact Or.inr h'

/-- the chain of sweeps: enough fuel, no error, the invariants back, `deferred_` clear when it ends at
    `exec_count_ == 0` -/
theorem sweep_spec (n : Nat) (s : State) (hn : s.cells.length < n) (hb : Base s) (hm : s.marks = 0) :
    Frame s (sweep n s) ∧ (sweep n s).exec = s.exec ∧ Base (sweep n s) ∧ Pend [] (sweep n s) ∧
    (sweep n s).err = s.err ∧ ((sweep n s).exec = 0 → (sweep n s).deferred = false) ∧
    (sweep n s).cells.length ≤ s.cells.length := by
  induction n generalizing s with
  | zero => omega
  | succ n ih =>
    simp only [sweep]
    rw [if_neg (show ¬ (s.marks ≠ 0) by simp [hm])]
    generalize hs1 : ({ s with exec := s.exec + 1, deferred := false } : State) = s1
    have hb1 : Base s1 := by subst hs1; exact hb.congr rfl rfl rfl
    have hp1 : Pend (ids s.cells) s1 := by
      subst hs1; intro c hc _; right; exact mem_ids.2 ⟨c, hc, rfl⟩
    have he1 : s1.exec ≠ 0 := by subst hs1; simp
    obtain ⟨a, b, c, d, e, f⟩ := sweepIds_spec (ids s.cells) s1 hb1 hp1 he1
    have hex : (sweepIds (ids s.cells) s1).exec - 1 = s.exec := by
      rw [a.exec]; subst hs1; simp
    have hlen1 : s1.cells.length = s.cells.length := by subst hs1; rfl
    have hfr : Frame s (sweepIds (ids s.cells) s1) := by
      have := a.frame; subst hs1
      exact ⟨this.marks, this.used, this.owners, this.out⟩
    have herr : (sweepIds (ids s.cells) s1).err = s.err := by rw [d]; subst hs1; rfl
    split
    · rename_i hcond
      have hlt : (sweepIds (ids s.cells) s1).cells.length < n := by
        rcases f hcond.2 with h | h
        · subst hs1; simp at h
        · omega
      have := ih { sweepIds (ids s.cells) s1 with exec := (sweepIds (ids s.cells) s1).exec - 1 } hlt
        (b.congr rfl rfl rfl) (hfr.marks.trans hm)
      obtain ⟨p, q, r, t, u, v, w⟩ := this
      refine ⟨hfr.trans ⟨p.marks, p.used, p.owners, p.out⟩, q.trans hex, r, t, u.trans herr, v, ?_⟩
      simp only at w; omega
    · rename_i hcond
      refine ⟨⟨hfr.marks, hfr.used, hfr.owners, hfr.out⟩, hex, b.congr rfl rfl rfl, c.congr rfl rfl, herr, ?_, ?_⟩
      · intro h0
        simp only at h0
        cases hd : (sweepIds (ids s.cells) s1).deferred with
        | false => rfl
        | true => exact absurd ⟨h0, hd⟩ hcond
      · simp only; omega

/-- `unreference_exec()` in a state whose disconnected cells are all covered by `deferred_` -/
theorem unref_spec (s : State) (hb : Base s) (hp : Pend [] s) (hm : s.marks ≤ s.exec - 1) :
    Frame s (unref s) ∧ (unref s).exec = s.exec - 1 ∧ Base (unref s) ∧ Pend [] (unref s) ∧
    (unref s).err = s.err ∧ ((unref s).exec = 0 → (unref s).deferred = false) ∧
    (unref s).cells.length ≤ s.cells.length := by
  simp only [unref]
  split
  · rename_i hcond
    have := sweep_spec (s.cells.length + 1) { s with exec := s.exec - 1 } (by simp) (hb.congr rfl rfl rfl)
      (by have := hcond.1; simp only at this ⊢; omega)
    obtain ⟨p, q, r, t, u, v, w⟩ := this
    exact ⟨⟨p.marks, p.used, p.owners, p.out⟩, q, r, t, u, v, w⟩
  · rename_i hcond
    refine ⟨⟨rfl, rfl, rfl, rfl⟩, rfl, hb.congr rfl rfl rfl, hp.congr rfl rfl, rfl, ?_, Nat.le_refl _⟩
    intro h0
    simp only at h0
    cases hd : s.deferred with
    | false => rfl
    | true => exact absurd ⟨h0, hd⟩ hcond

end Sigc.SweepL
