import Sigc.Basic
/-!
  Component model `SlotG` — object graphs *among slot variables*: `sigc::slot_base` / `slot_rep` /
  `typed_slot_rep` (`/repo/sigc++/functors/slot_base.{h,cc}`, `slot.h`), `sigc::connection` made from a slot
  variable (`connection.{h,cc}`, `weak_raw_ptr.h`) and `sigc::trackable` (`trackable.{h,cc}`) as far as slot
  representations register on it.  Language, totality rules and scope: `docs/SLOTG.md`.

  | C++                                                            | Lean                          |
  |----------------------------------------------------------------|-------------------------------|
  | `slot_rep {call_, parent_, cleanup_}` + `typed_slot_rep::functor_` + the rep's own `trackable` list | `Rep {call, parent, fn, cbs}` |
  | `slot_base {rep_, blocked_}` (heap allocated `slot<int(int)>`) | `SVar {rep, blocked}`         |
  | `trackable_callback_list {callbacks_, clearing_}`              | `Trk {entries, clearing}`     |
  | `connection {weak_raw_ptr<slot_base> slot_}`                   | `conns c : Option (Option Nat)` (`some none` = `p_ == nullptr`) |
  | `trackable_callback_list::add_callback` / `remove_callback`    | `trkAdd` / `removeLoop`,`trkRemove` |
  | `visit_each_trackable(slot_do_bind(rep), functor)`             | `bindFun` (`visitor<slot>`: `setParentIfNone`) |
  | `visit_each_trackable(slot_do_unbind(rep), functor)`           | `unbindFun` (`visitor<slot>`: `unsetParentIf`) |
  | `typed_slot_rep(const T_functor&)` + `call_ = address()`       | `newRep`                      |
  | `typed_slot_rep::clone()`                                      | `cloneRep`                    |
  | `typed_slot_rep::destroy()` + the functor's destructor (`shared_ptr<Holder>` release → `delete` of the owned slot variable → `~slot_base` → `delete rep_` …) | `destroyRep` |
  | `delete rep` = `~typed_slot_rep` (destroy) + `~trackable` (notify the weak pointers) + free | `deleteRep` = `destroyRep`, `weakNotify`, erase |
  | `trackable::notify_callbacks()` of a *rep* (only `weak_raw_ptr::notify_object_invalidated` entries) | `weakNotify` |
  | `slot_rep::disconnect()`                                       | `repDisconnect`               |
  | `slot_rep::notify_slot_rep_invalidated` (incl. the `weak_raw_ptr notifier` test) | `notifyInv`   |
  | `slot_base::delete_rep_with_check()`                           | `deleteRepWithCheck`          |
  | `trackable::notify_callbacks()` of a user trackable (`~trackable_callback_list` loop) | `trkNotify` |
  | `slot_base(const slot_base&)`, `slot_base(slot_base&&)`, both `operator=` | `Op.cpS`, `Op.mvS`, `Op.asgS`, `Op.masgS` cases of `apply` |
  | `slot::operator()`                                             | `callVar`                     |
  | `weak_raw_ptr(T*)`, copy ctor, `operator=`, dtor               | `slotAddCb` / `slotRemCb` in `connS`, `cpC`, `asgC`, `delC` |
  | `~connection` of a connection object owned (`shared_ptr`) by a functor, run by the functor's destructor | `killConn` (in `destroyRep`) |

  The `weak_raw_ptr notifier` local of `notify_slot_rep_invalidated` / `delete_rep_with_check` is modelled by
  its meaning (is the representation still allocated? — rep identities are never reused), not by a list entry.
  The `shared_ptr<Holder>` of an owning functor is modelled by its meaning too: the holder (and with it the owned
  slot variable) dies when the last functor copy naming it is destroyed (`ownedBy`).

  `err` is set when a cascade runs out of fuel (`fuel s = s.nextRep + 2` — cannot happen, see
  `Sigc/Props/SlotG.lean`).  The model follows the library after the fixes of findings F10, F11 and F12 (both
  `operator=` store the new representation in the variable before they delete the old one; the copy assignment
  reads `src.blocked_` before the exchange; `delete_rep_with_check()` clears `rep_` before it deletes) and of F14
  (8c41248: in these three places the observers of the old representation are notified — `notify_callbacks()` —
  after `rep_` was switched and before the old representation is deleted).  No proofs in this file.
-/
namespace Sigc.SlotG

/-- functor kinds (= functor specs of the language) -/
inductive Fun
  | fn (fid : Nat)                          -- `F(fid)`
  | mem (fid t : Nat)                       -- `bind(mem_fun(*T, &Trk::run), F(fid))`
  | sref (fid v : Nat)                      -- `bind(F2(fid), std::ref(*S'))`
  | own (fid v : Nat) (t : Option Nat)      -- `OwnF{fid, shared_ptr<Holder{S'}>}` [bound to a method of `*T`]
  | nest (fid v depth : Nat)                -- `bind(F3(fid), copy_of(*S'))`: a slot stored BY VALUE in the functor.
                                            -- As a spec `v` is the variable to copy; in a stored functor `v` is the
                                            -- anonymous variable that is the bound copy and `depth` (ghost) bounds the
                                            -- nesting depth below it
  | ownc (fid c : Nat)                      -- `OwnC{fid, shared_ptr<CHolder{C}>}`: the functor (its copies) owns the
                                            -- connection object `C`
deriving Repr, DecidableEq

def Fun.fid : Fun → Nat
  | .fn f | .mem f _ | .sref f _ | .own f _ _ | .nest f _ _ | .ownc f _ => f

/-- the trackable the functor refers to -/
def Fun.trk : Fun → Option Nat
  | .mem _ t => some t
  | .own _ _ t => t
  | _ => none

/-- the slot variable the functor visits (by reference: `sref`; its own bound copy: `nest`) -/
def Fun.ref : Fun → Option Nat
  | .sref _ v => some v
  | .nest _ v _ => some v
  | _ => none

/-- the slot variable that dies with the last copy of the functor (the holder's: `own`; the bound copy: `nest`) -/
def Fun.owns : Fun → Option Nat
  | .own _ v _ => some v
  | .nest _ v _ => some v
  | _ => none

/-- the connection object that dies with the last copy of the functor -/
def Fun.ownsC : Fun → Option Nat
  | .ownc _ c => some c
  | _ => none

def Fun.depth : Fun → Nat
  | .nest _ _ d => d
  | _ => 0

/-- slot variables with a name `< anonBase` are the program's; `anonBase + n` is the copy bound in the functor of
    representation `n` -/
def anonBase : Nat := 1000000

structure Rep where
  call   : Bool            -- `call_ != nullptr`
  parent : Option Nat      -- `parent_` (always a representation in this language)
  fn     : Option Fun      -- `functor_` (`none` after `destroy()`)
  cbs    : List Nat        -- the rep's own destroy-notify list: connections registered through `weak_raw_ptr`
deriving Repr, DecidableEq

structure SVar where
  rep     : Option Nat
  blocked : Bool
deriving Repr, DecidableEq

structure Trk where
  entries  : List (Nat × Bool)   -- `(data_ = rep, func_ != nullptr)`
  clearing : Bool
deriving Repr, DecidableEq

structure State where
  slots   : Nat → Option SVar
  reps    : Nat → Option Rep
  trks    : Nat → Option Trk
  conns   : Nat → Option (Option Nat)
  nextRep : Nat
  err     : Bool

def State.init : State := ⟨fun _ => none, fun _ => none, fun _ => none, fun _ => none, 0, false⟩

def State.setSlot (s : State) (v : Nat) (o : Option SVar) : State :=
  { s with slots := fun x => if x = v then o else s.slots x }
def State.setRep (s : State) (r : Nat) (o : Option Rep) : State :=
  { s with reps := fun x => if x = r then o else s.reps x }
def State.setTrk (s : State) (t : Nat) (o : Option Trk) : State :=
  { s with trks := fun x => if x = t then o else s.trks x }
def State.setConn (s : State) (c : Nat) (o : Option (Option Nat)) : State :=
  { s with conns := fun x => if x = c then o else s.conns x }

def State.modRep (s : State) (r : Nat) (g : Rep → Rep) : State :=
  match s.reps r with
  | some R => s.setRep r (some (g R))
  | none => s

def State.modSlot (s : State) (v : Nat) (g : SVar → SVar) : State :=
  match s.slots v with
  | some V => s.setSlot v (some (g V))
  | none => s

def fuel (s : State) : Nat := s.nextRep + 2

/-- `slot_base::rep_` of variable `v` -/
def repOf (s : State) (v : Nat) : Option Nat :=
  match s.slots v with
  | some V => V.rep
  | none => none

/-- the representation object of variable `v` -/
def repObj (s : State) (v : Nat) : Option Rep :=
  match repOf s v with
  | some r => s.reps r
  | none => none

/-- some allocated representation satisfies `p` -/
def anyRep (s : State) (p : Nat → Rep → Bool) : Bool :=
  (List.range s.nextRep).any fun r =>
    match s.reps r with
    | some R => p r R
    | none => false

def Rep.refs (R : Rep) (v : Nat) : Bool :=
  match R.fn with
  | some (.sref _ v') => v' == v
  | _ => false

def Rep.ownsVar (R : Rep) (v : Nat) : Bool :=
  match R.fn with
  | some f => f.owns == some v
  | none => false

def Rep.ownsConn (R : Rep) (c : Nat) : Bool :=
  match R.fn with
  | some f => f.ownsC == some c
  | none => false

/-- some live `sref` functor copy refers to `v` -/
def pinned (s : State) (v : Nat) : Bool := anyRep s fun _ R => R.refs v
/-- some live `sref` functor copy stored somewhere else than in `v`'s own representation refers to `v` -/
def pinnedOther (s : State) (v : Nat) : Bool := anyRep s fun r R => R.refs v && repOf s v != some r
/-- some live owning functor copy shares the holder of `v` (`use_count() > 0`) -/
def ownedBy (s : State) (v : Nat) : Bool := anyRep s fun _ R => R.ownsVar v
/-- some live functor copy shares the holder of connection `c` -/
def ownedCBy (s : State) (c : Nat) : Bool := anyRep s fun _ R => R.ownsConn c

def hasParent (s : State) (v : Nat) : Bool :=
  match repObj s v with
  | some R => R.parent.isSome
  | none => false

/-- `slot_base::empty()` -/
def emptyVar (s : State) (v : Nat) : Bool :=
  match repObj s v with
  | some R => !R.call
  | none => true

/-! ### trackable callback lists -/

/-- `trackable_callback_list::add_callback` -/
def trkAdd (t r : Nat) (s : State) : State :=
  match s.trks t with
  | none => s
  | some T => if T.clearing then s else s.setTrk t (some { T with entries := T.entries ++ [(r, true)] })

/-- the loop of `trackable_callback_list::remove_callback` -/
def removeLoop (clearing : Bool) (r : Nat) : List (Nat × Bool) → List (Nat × Bool)
  | [] => []
  | e :: es =>
    if e.1 = r ∧ e.2 = true then (if clearing then (r, false) :: es else es)
    else e :: removeLoop clearing r es

def trkRemove (t r : Nat) (s : State) : State :=
  match s.trks t with
  | none => s
  | some T => s.setTrk t (some { T with entries := removeLoop T.clearing r T.entries })

/-- `visitor<slot>::do_visit_each(limit_trackable_target<slot_do_bind>, target)` -/
def setParentIfNone (v r : Nat) (s : State) : State :=
  match repOf s v with
  | none => s
  | some q => s.modRep q fun Q => if Q.parent.isNone then { Q with parent := some r } else Q

/-- `visitor<slot>::do_visit_each(limit_trackable_target<slot_do_unbind>, target)` -/
def unsetParentIf (v r : Nat) (s : State) : State :=
  match repOf s v with
  | none => s
  | some q => s.modRep q fun Q => if Q.parent = some r then { Q with parent := none } else Q

/-- `visit_each_trackable(slot_do_bind(r), functor)` -/
def bindFun (r : Nat) : Fun → State → State
  | .fn _, s => s
  | .mem _ t, s => trkAdd t r s
  | .sref _ v, s => setParentIfNone v r s
  | .own _ _ (some t), s => trkAdd t r s
  | .own _ _ none, s => s
  | .nest _ v _, s => setParentIfNone v r s
  | .ownc _ _, s => s

/-- `visit_each_trackable(slot_do_unbind(r), functor)` -/
def unbindFun (r : Nat) : Fun → State → State
  | .fn _, s => s
  | .mem _ t, s => trkRemove t r s
  | .sref _ v, s => unsetParentIf v r s
  | .own _ _ (some t), s => trkRemove t r s
  | .own _ _ none, s => s
  | .nest _ v _, s => unsetParentIf v r s
  | .ownc _ _, s => s

/-- allocate representation `s.nextRep` -/
def allocRep (R : Rep) (s : State) : State :=
  { s.setRep s.nextRep (some R) with nextRep := s.nextRep + 1 }

/-- the last two steps of constructing a representation `n` whose functor binds a slot by value: the functor (with
    the bound copy `j`, already constructed) is stored, then `visit_each_trackable(slot_do_bind(n), functor)` makes
    `n` the parent of the copy's representation -/
def nestFinish (n fid dd j : Nat) (s : State) : State :=
  setParentIfNone j n (s.modRep n fun N => { N with fn := some (.nest fid j dd) })

/-- the bind visit of a clone.  `ext = false`: the clone is made while a *temporary* copy of the same slot is alive
    (`{ slot p(*S'); S = slot(bind(f, p)); }`: `p` was copy-constructed first, its functor took every free
    `parent_` link of the slot variables it refers to, and gives them back when it dies at the end of the
    statement) — so this clone's `sref` functor finds no free link: net effect, it binds nothing outside. -/
def bindFunX (ext : Bool) (r : Nat) (f : Fun) (s : State) : State :=
  match ext, f with
  | false, .sref _ _ => s
  | _, f => bindFun r f s

/-- `r->clone()` with nesting budget `d`; the new rep is `s.nextRep`.  For a functor that binds a slot by value:
    the representation object exists first (`slot_rep(call_)`), then the functor is copied — which copy-constructs
    the bound slot `anonBase + n` from the original's (`slot_base(const slot_base&)`: clone, or the default slot
    for an invalidated one) — then the bind visit. -/
def cloneRepD (ext : Bool) : Nat → Nat → State → State
  | d, r, s =>
    match s.reps r with
    | none => allocRep ⟨false, none, none, []⟩ s
    | some R =>
      match R.fn with
      | none => allocRep ⟨R.call, none, none, []⟩ s
      | some (.nest fid i dd) =>
        (match d with
         | 0 => allocRep ⟨R.call, none, none, []⟩ s
         | d' + 1 =>
           let s1 := allocRep ⟨R.call, none, none, []⟩ s
           let j := anonBase + s.nextRep
           nestFinish s.nextRep fid dd j
             (match s1.slots i with
              | none => s1.setSlot j (some ⟨none, false⟩)
              | some X =>
                match X.rep with
                | none => s1.setSlot j (some ⟨none, X.blocked⟩)
                | some q =>
                  if (match s1.reps q with | some Q => !Q.call | none => true)
                  then s1.setSlot j (some ⟨none, false⟩)
                  else (cloneRepD ext d' q s1).setSlot j (some ⟨some s1.nextRep, X.blocked⟩)))
      | some f => bindFunX ext s.nextRep f (allocRep ⟨R.call, none, some f, []⟩ s)

/-- nesting depth recorded in the functor of representation `r` -/
def depthOfRep (s : State) (r : Nat) : Nat :=
  match s.reps r with
  | some R => (match R.fn with | some f => f.depth | none => 0)
  | none => 0

/-- `r->clone()`; the new rep is `s.nextRep` -/
def cloneRep (r : Nat) (s : State) : State := cloneRepD true (depthOfRep s r) r s

/-- `new typed_slot_rep<T>(functor)` (+ `call_ = slot_call::address()`); the new rep is `s.nextRep`.  For the spec
    `nest:<fid>:S'` — `{ slot p(*S'); S = slot(bind(F(fid), p)); }` — the functor binds a copy of the named
    variable `S'`, made while the temporary `p` is alive (`bindFunX false`). -/
def newRep (f : Fun) (s : State) : State :=
  match f with
  | .nest fid i _ =>
    let s1 := allocRep ⟨true, none, none, []⟩ s
    let j := anonBase + s.nextRep
    match s1.slots i with
    | none => nestFinish s.nextRep fid 1 j (s1.setSlot j (some ⟨none, false⟩))
    | some X =>
      match X.rep with
      | none => nestFinish s.nextRep fid 1 j (s1.setSlot j (some ⟨none, X.blocked⟩))
      | some q =>
        if (match s1.reps q with | some Q => !Q.call | none => true)
        then nestFinish s.nextRep fid 1 j (s1.setSlot j (some ⟨none, false⟩))
        else nestFinish s.nextRep fid (depthOfRep s q + 1) j
          ((cloneRepD false (depthOfRep s q) q s1).setSlot j (some ⟨some s1.nextRep, X.blocked⟩))
  | f => bindFun s.nextRep f (allocRep ⟨true, none, some f, []⟩ s)

/-! ### the registration of a connection on a slot variable's representation -/

/-- `slot_base::add_destroy_notify_callback(&c.slot_, …)` on variable `v` -/
def slotAddCb (v c : Nat) (s : State) : State :=
  match repOf s v with
  | none => s
  | some r => s.modRep r fun R => { R with cbs := R.cbs ++ [c] }

/-- `slot_base::remove_destroy_notify_callback(&c.slot_)` on variable `v` -/
def slotRemCb (v c : Nat) (s : State) : State :=
  match repOf s v with
  | none => s
  | some r => s.modRep r fun R => { R with cbs := R.cbs.erase c }

/-- the slot variable connection `c` points to -/
def connTarget (s : State) (c : Nat) : Option Nat :=
  match s.conns c with
  | some p => p
  | none => none

/-- `~connection` = `~weak_raw_ptr`: `if (p_) p_->remove_destroy_notify_callback(this)` — through the slot
    variable's **current** `rep_` (`slot_base::remove_destroy_notify_callback`: `if (rep_) rep_->…`) — and the
    object is gone -/
def killConn (c : Nat) (s : State) : State :=
  (match connTarget s c with
   | none => s
   | some v => slotRemCb v c s).setConn c none

/-! ### destruction -/

/-- `weak_raw_ptr::notify_object_invalidated` for every connection in `cs` -/
def nullConns (cs : List Nat) (s : State) : State :=
  { s with conns := fun c => if cs.contains c then (s.conns c).map (fun _ => none) else s.conns c }

/-- `trackable::notify_callbacks()` of representation `r` -/
def weakNotify (r : Nat) (s : State) : State :=
  match s.reps r with
  | none => s
  | some R => (nullConns R.cbs s).setRep r (some { R with cbs := [] })

/-- `typed_slot_rep::destroy()`: invalidate, unbind, reset `functor_`, run the functor's destructor.  The
    destructor of the last owning functor copy deletes the holder, i.e. the owned slot variable: `~slot_base`
    → `delete rep_` (destroy, notify the weak pointers, free). -/
def destroyRep : Nat → Nat → State → State
  | 0, _, s => { s with err := true }
  | k + 1, r, s =>
    match s.reps r with
    | none => s
    | some R =>
      match R.fn with
      | none => s.setRep r (some { R with call := false })
      | some f =>
        let s1 := unbindFun r f (s.setRep r (some { R with call := false }))
        let s2 := s1.modRep r fun R' => { R' with fn := none }
        match f.owns with
        | none =>
          (match f.ownsC with
           | none => s2
           | some c => if ownedCBy s2 c then s2 else killConn c s2)   -- the last copy: `~CHolder` → `delete C`
        | some h =>
          if ownedBy s2 h then s2 else
          match s2.slots h with
          | none => s2
          | some V =>
            match V.rep with
            | none => s2.setSlot h none
            | some r' => (((weakNotify r' (destroyRep k r' s2)).setRep r' none)).setSlot h none

/-- `delete r` -/
def deleteRep (r : Nat) (s : State) : State :=
  (weakNotify r (destroyRep (fuel s) r s)).setRep r none

/-- `slot_rep::notify_slot_rep_invalidated(r)`: invalidate, `disconnect()` (tell the parent, which is a
    representation here), then — if `r` still exists — `destroy()` -/
def notifyInv : Nat → Nat → State → State
  | 0, _, s => { s with err := true }
  | k + 1, r, s =>
    match s.reps r with
    | none => s
    | some R =>
      let s1 := s.setRep r (some { R with call := false, parent := none })
      let s2 := match R.parent with
        | none => s1
        | some p => notifyInv k p s1
      if (s2.reps r).isSome then destroyRep (fuel s2) r s2 else s2

/-- `slot_rep::disconnect()` -/
def repDisconnect (r : Nat) (s : State) : State :=
  match s.reps r with
  | none => s
  | some R =>
    let s1 := s.setRep r (some { R with call := false, parent := none })
    match R.parent with
    | none => s1
    | some p => notifyInv (fuel s1) p s1

/-- `slot_base::delete_rep_with_check()` on variable `v`: `rep_->disconnect(); if (notifier) { auto old_rep_ =
    rep_; rep_ = nullptr; old_rep_->notify_callbacks(); delete old_rep_; }` -/
def deleteRepWithCheck (v : Nat) (s : State) : State :=
  match repOf s v with
  | none => s
  | some r =>
    let s1 := repDisconnect r s
    if (s1.reps r).isSome then deleteRep r (weakNotify r (s1.modSlot v fun V => { V with rep := none })) else s1

def entryActive (s : State) (t r : Nat) : Bool :=
  match s.trks t with
  | some T => T.entries.contains (r, true)
  | none => false

/-- `trackable::notify_callbacks()` of trackable `t` -/
def trkNotify (t : Nat) (s : State) : State :=
  match s.trks t with
  | none => s
  | some T =>
    let s1 := s.setTrk t (some { T with clearing := true })
    let s2 := T.entries.foldl
      (fun s e => if entryActive s t e.1 then notifyInv (fuel s) e.1 s else s) s1
    s2.setTrk t (some ⟨[], false⟩)

/-! ### connections -/

/-- `connection::connected()` -/
def connected (s : State) (c : Nat) : Bool :=
  match connTarget s c with
  | some v => !emptyVar s v
  | none => false

/-! ### invocation -/

def maxDepth : Nat := 4

def callLine (d fid a : Nat) : String :=
  toString d ++ " call f" ++ toString fid ++ " " ++ toString a

/-- `(*v)(a)` with `n` further nesting levels allowed; the log lines and the result -/
def callVar (s : State) : Nat → Nat → Nat → List String × Nat
  | n, v, a =>
    match s.slots v with
    | none => ([], 0)
    | some V =>
      if V.blocked then ([], 0) else
      match V.rep with
      | none => ([], 0)
      | some r =>
        match s.reps r with
        | none => ([], 0)
        | some R =>
          if !R.call then ([], 0) else
          match R.fn with
          | none => ([], 0)
          | some (.sref fid v') | some (.nest fid v' _) =>
            (match n with
             | 0 => ([callLine (maxDepth - n) fid a], (fid * 10 + a) % 97)
             | n' + 1 =>
               let res := callVar s n' v' a
               (callLine (maxDepth - n) fid a :: res.1, (fid * 10 + a + res.2) % 97))
          | some f => ([callLine (maxDepth - n) f.fid a], (f.fid * 10 + a) % 97)

/-! ### the operation language -/

inductive Op
  | newT (t : Nat) | delT (t : Nat) | notifyT (t : Nat)
  | mkS (v : Nat) (f : Fun) | mkS0 (v : Nat)
  | cpS (j i : Nat) | mvS (j i : Nat) | asgS (d x : Nat) | masgS (d x : Nat)
  | setS (d : Nat) (f : Fun) | clrS (d : Nat) | delS (v : Nat) | discS (v : Nat)
  | blockS (v : Nat) (b : Bool) | unblockS (v : Nat)
  | blockedS (v : Nat) | emptyS (v : Nat) | boolS (v : Nat) | parentS (v : Nat) | callS (v a : Nat)
  | connS (c v : Nat) | newC (c : Nat) | cpC (j i : Nat) | asgC (d x : Nat) | delC (c : Nat)
  | discC (c : Nat) | connectedC (c : Nat) | emptyC (c : Nat) | blockedC (c : Nat)
  | blockC (c : Nat) (b : Bool) | unblockC (c : Nat)
  | live (fid : Nat)
  | bad
deriving Repr, DecidableEq

def deadS (s : State) (v : Nat) : Bool := (s.slots v).isNone
def deadT (s : State) (t : Nat) : Bool := (s.trks t).isNone
def deadC (s : State) (c : Nat) : Bool := (s.conns c).isNone

def Fun.names : Fun → List Nat × List Nat     -- (slot names, trackable names)
  | .fn _ => ([], [])
  | .mem _ t => ([], [t])
  | .sref _ v => ([v], [])
  | .own _ v t => ([v], t.toList)
  | .nest _ v _ => ([v], [])
  | .ownc _ _ => ([], [])

/-- connection names a functor spec mentions -/
def Fun.cnames : Fun → List Nat
  | .ownc _ c => [c]
  | _ => []

/-- (slot, trackable, connection) names an operation mentions -/
def Op.names : Op → List Nat × List Nat × List Nat
  | .newT t | .delT t | .notifyT t => ([], [t], [])
  | .mkS v f | .setS v f => (v :: f.names.1, f.names.2, f.cnames)
  | .mkS0 v | .clrS v | .delS v | .discS v | .blockS v _ | .unblockS v | .blockedS v | .emptyS v
  | .boolS v | .parentS v | .callS v _ => ([v], [], [])
  | .cpS a b | .mvS a b | .asgS a b | .masgS a b => ([a, b], [], [])
  | .connS c v => ([v], [], [c])
  | .cpC a b | .asgC a b => ([], [], [a, b])
  | .newC c | .delC c | .discC c | .connectedC c | .emptyC c | .blockedC c | .blockC c _ | .unblockC c =>
    ([], [], [c])
  | .live _ | .bad => ([], [], [])

/-- every slot variable the operation names is one of the program's (not a bound copy inside a functor) -/
def Op.named (op : Op) : Bool := op.names.1.all (· < anonBase)

/-- may functor spec `f` be instantiated?  (`dead`, `owned`, `pinned`) -/
def specCheck (s : State) : Fun → Option String
  | .fn _ => none
  | .mem _ t => if deadT s t then some "dead" else none
  | .sref _ v => if deadS s v then some "dead" else if ownedBy s v then some "owned" else none
  | .own _ v t =>
    if deadS s v then some "dead" else
    if (match t with | some t' => deadT s t' | none => false) then some "dead" else
    if pinned s v then some "pinned" else none
  | .nest _ v _ => if deadS s v then some "dead" else none
  | .ownc _ c => if deadC s c then some "dead" else none

/-- the refusal of an operation on program variables, `none` = it is performed -/
def check0 (s : State) : Op → Option String
  | .newT t => if deadT s t then none else some "exists"
  | .delT t | .notifyT t => if deadT s t then some "dead" else none
  | .mkS v f => if !deadS s v then some "exists" else specCheck s f
  | .mkS0 v => if !deadS s v then some "exists" else none
  | .cpS j i | .mvS j i =>
    if deadS s i then some "dead" else if !deadS s j then some "exists" else none
  | .asgS d x | .masgS d x =>
    if deadS s d || deadS s x then some "dead"
    else if repOf s d == repOf s x then none
    else none
  | .setS d f =>
    if deadS s d then some "dead" else
    specCheck s f
  | .clrS d => if deadS s d then some "dead" else none
  | .delS v =>
    if deadS s v then some "dead" else if pinnedOther s v then some "pinned"
    else if ownedBy s v then some "owned" else none
  | .discS v | .blockS v _ | .unblockS v | .blockedS v | .emptyS v | .boolS v | .parentS v | .callS v _ =>
    if deadS s v then some "dead" else none
  | .connS c v =>
    if deadS s v then some "dead" else if !deadC s c then some "exists"
    else if (repOf s v).isNone then some "norep" else none
  | .newC c => if deadC s c then none else some "exists"
  | .cpC j i => if deadC s i then some "dead" else if !deadC s j then some "exists" else none
  | .asgC d x => if deadC s d || deadC s x then some "dead" else none
  | .delC c => if deadC s c then some "dead" else if ownedCBy s c then some "owned" else none
  | .discC c | .connectedC c | .emptyC c | .blockedC c | .blockC c _ | .unblockC c =>
    if deadC s c then some "dead" else none
  | .live _ => none
  | .bad => some "badop"

/-- the refusal of an operation, `none` = it is performed -/
def check (s : State) (op : Op) : Option String :=
  if op.named then check0 s op else some "badop"

/-- the tail shared by both assignment operators: `if (rep_) { new_rep_->set_parent(rep_->parent_, …);
    auto old_rep_ = rep_; rep_ = new_rep_; old_rep_->notify_callbacks(); delete old_rep_; } else rep_ = new_rep_;`
    (the observers of the old representation are told while they still exist: the old functor may own one) -/
def exchangeRep (d n : Nat) (s : State) : State :=
  match repOf s d with
  | none => s.modSlot d fun D => { D with rep := some n }
  | some q =>
    let par := match s.reps q with
      | some Q => Q.parent
      | none => none
    deleteRep q (weakNotify q
      ((s.modRep n fun N => { N with parent := par }).modSlot d fun D => { D with rep := some n }))

/-- the effect of an operation that is not refused -/
def apply : Op → State → State
  | .newT t, s => s.setTrk t (some ⟨[], false⟩)
  | .delT t, s => (trkNotify t s).setTrk t none
  | .notifyT t, s => trkNotify t s
  | .mkS v f, s => (newRep f s).setSlot v (some ⟨some s.nextRep, false⟩)
  | .mkS0 v, s => s.setSlot v (some ⟨none, false⟩)
  | .cpS j i, s =>
    match s.slots i with
    | none => s
    | some X =>
      match X.rep with
      | none => s.setSlot j (some ⟨none, X.blocked⟩)
      | some r =>
        if emptyVar s i then s.setSlot j (some ⟨none, false⟩)       -- `*this = slot_base()`
        else (cloneRep r s).setSlot j (some ⟨some s.nextRep, X.blocked⟩)
  | .mvS j i, s =>
    match s.slots i with
    | none => s
    | some X =>
      match X.rep with
      | none => s.setSlot j (some ⟨none, X.blocked⟩)
      | some r =>
        if hasParent s i then
          (if emptyVar s i then s.setSlot j (some ⟨none, false⟩)
           else (cloneRep r s).setSlot j (some ⟨some s.nextRep, X.blocked⟩))
        else ((weakNotify r s).setSlot i (some ⟨none, false⟩)).setSlot j (some ⟨some r, X.blocked⟩)
  | .asgS d x, s =>
    match s.slots x with
    | none => s
    | some X =>
      if repOf s d == X.rep then s.modSlot d fun D => { D with blocked := X.blocked }
      else if emptyVar s x then deleteRepWithCheck d s
      else match X.rep with
        | none => s
        | some r =>
          exchangeRep d s.nextRep ((cloneRep r s).modSlot d fun D => { D with blocked := X.blocked })
  | .masgS d x, s =>
    match s.slots x with
    | none => s
    | some X =>
      if repOf s d == X.rep then s.modSlot d fun D => { D with blocked := X.blocked }
      else if emptyVar s x then deleteRepWithCheck d s
      else match X.rep with
        | none => s
        | some r =>
          let s0 := s.modSlot d fun D => { D with blocked := X.blocked }
          if hasParent s x then exchangeRep d s.nextRep (cloneRep r s0)
          else exchangeRep d r ((weakNotify r s0).setSlot x (some ⟨none, false⟩))
  | .setS d f, s =>           -- `*d = slot(functor)`: move assignment from an unblocked, parentless temporary
    exchangeRep d s.nextRep ((newRep f s).modSlot d fun D => { D with blocked := false })
  | .clrS d, s =>             -- `*d = slot()`
    match repOf s d with
    | none => s.modSlot d fun D => { D with blocked := false }
    | some _ => deleteRepWithCheck d s
  | .delS v, s =>
    match repOf s v with
    | none => s.setSlot v none
    | some r => (deleteRep r s).setSlot v none
  | .discS v, s =>
    match repOf s v with
    | none => s
    | some r => repDisconnect r s
  | .blockS v b, s => s.modSlot v fun V => { V with blocked := b }
  | .unblockS v, s => s.modSlot v fun V => { V with blocked := false }
  | .connS c v, s => slotAddCb v c (s.setConn c (some (some v)))
  | .newC c, s => s.setConn c (some none)
  | .cpC j i, s =>
    match connTarget s i with
    | none => s.setConn j (some none)
    | some v => slotAddCb v j (s.setConn j (some (some v)))
  | .asgC d x, s =>
    let s1 := match connTarget s d with
      | none => s
      | some v => slotRemCb v d s
    match connTarget s x with
    | none => s1.setConn d (some none)
    | some v => slotAddCb v d (s1.setConn d (some (some v)))
  | .delC c, s =>
    (match connTarget s c with
     | none => s
     | some v => slotRemCb v c s).setConn c none
  | .discC c, s =>
    match connTarget s c with
    | none => s
    | some v => (match repOf s v with | none => s | some r => repDisconnect r s)
  | .blockC c b, s =>
    match connTarget s c with
    | none => s
    | some v => s.modSlot v fun V => { V with blocked := b }
  | .unblockC c, s =>
    match connTarget s c with
    | none => s
    | some v => s.modSlot v fun V => { V with blocked := false }
  | _, s => s

def b2s (b : Bool) : String := if b then "1" else "0"

def blockedVar (s : State) (v : Nat) : Bool :=
  match s.slots v with
  | some V => V.blocked
  | none => false

/-- live copies of user functor `fid` -/
def liveCount (s : State) (fid : Option Nat) : Nat :=
  ((List.range s.nextRep).filter fun r =>
    match s.reps r with
    | some R => (match R.fn with
                 | some f => (match fid with | some k => f.fid == k | none => true)
                 | none => false)
    | none => false).length

/-- the result text of a performed operation (computed on the state before it) -/
def result (s : State) : Op → String
  | .blockS v _ | .unblockS v | .blockedS v => b2s (blockedVar s v)
  | .emptyS v => b2s (emptyVar s v)
  | .boolS v => b2s (repOf s v).isSome
  | .parentS v => b2s (hasParent s v)
  | .callS v a => toString (callVar s maxDepth v a).2
  | .connectedC c => b2s (connected s c)
  | .emptyC c => b2s (!connected s c)
  | .blockedC c | .blockC c _ | .unblockC c =>
    (match connTarget s c with
     | some v => b2s (blockedVar s v)
     | none => "0")
  | .live fid => toString (liveCount s (some fid))
  | _ => "ok"

/-- the `call` lines an operation logs -/
def callLines (s : State) : Op → List String
  | .callS v a => (callVar s maxDepth v a).1
  | _ => []

/-- one operation: new state, its result text -/
def step (op : Op) (s : State) : State × String :=
  if s.err then (s, "fuel") else
  match check s op with
  | some e => (s, e)
  | none =>
    let s' := apply op s
    if s'.err then (s', "fuel") else (s', result s op)

def stepState (op : Op) (s : State) : State := (step op s).1

def run (ops : List Op) : State := ops.foldl (fun s op => stepState op s) State.init

/-! ### teardown: what the harness does with everything that is left -/

def upTo (xs : List Nat) : List Nat := List.range (xs.foldl max 0 + 1)

/-- connections, then every slot variable is emptied (`*s = slot()`), then destroyed, then the trackables, then
    the slot variables that were pinned or owned by something a trackable kept alive; refusals are skipped -/
def teardownOps (ops : List Op) : List Op :=
  let ss := upTo (ops.flatMap fun o => o.names.1)
  let ts := upTo (ops.flatMap fun o => o.names.2.1)
  let cs := upTo (ops.flatMap fun o => o.names.2.2)
  cs.map Op.delC ++ ss.map Op.clrS ++ ss.map Op.delS ++ ts.map Op.delT ++ ss.map Op.delS

def liveSlots (s : State) (ops : List Op) : Nat :=
  ((upTo (ops.flatMap fun o => o.names.1)).filter fun v => (s.slots v).isSome).length

/-! ### driver: text → operations → trace -/

def parseName (c : Char) (w : String) : Option Nat :=
  match w.toList with
  | c' :: rest => if c' = c ∧ !rest.isEmpty then (String.ofList rest).toNat? else none
  | [] => none

def parseFun (w : String) : Option Fun :=
  match w.splitOn ":" with
  | ["fn", f] => f.toNat?.map Fun.fn
  | ["mem", f, t] => do some (.mem (← f.toNat?) (← parseName 'T' t))
  | ["sref", f, v] => do some (.sref (← f.toNat?) (← parseName 'S' v))
  | ["own", f, v] => do some (.own (← f.toNat?) (← parseName 'S' v) none)
  | ["own", f, v, t] => do some (.own (← f.toNat?) (← parseName 'S' v) (some (← parseName 'T' t)))
  | ["nest", f, v] => do some (.nest (← f.toNat?) (← parseName 'S' v) 0)
  | ["ownc", f, c] => do some (.ownc (← f.toNat?) (← parseName 'C' c))
  | _ => none

def parseBool (w : String) : Option Bool :=
  if w = "0" then some false else if w = "1" then some true else none

def parseOp (line : String) : Op :=
  let S := parseName 'S'
  let T := parseName 'T'
  let C := parseName 'C'
  let r : Option Op :=
    match words line with
    | ["newT", t] => (T t).map .newT
    | ["delT", t] => (T t).map .delT
    | ["notifyT", t] => (T t).map .notifyT
    | ["mkS", v, f] => do some (.mkS (← S v) (← parseFun f))
    | ["mkS0", v] => (S v).map .mkS0
    | ["cpS", j, i] => do some (.cpS (← S j) (← S i))
    | ["mvS", j, i] => do some (.mvS (← S j) (← S i))
    | ["asgS", d, x] => do some (.asgS (← S d) (← S x))
    | ["masgS", d, x] => do some (.masgS (← S d) (← S x))
    | ["setS", d, f] => do some (.setS (← S d) (← parseFun f))
    | ["clrS", d] => (S d).map .clrS
    | ["delS", v] => (S v).map .delS
    | ["discS", v] => (S v).map .discS
    | ["blockS", v, b] => do some (.blockS (← S v) (← parseBool b))
    | ["unblockS", v] => (S v).map .unblockS
    | ["blockedS?", v] => (S v).map .blockedS
    | ["emptyS?", v] => (S v).map .emptyS
    | ["boolS?", v] => (S v).map .boolS
    | ["parentS?", v] => (S v).map .parentS
    | ["callS", v, a] => do some (.callS (← S v) (← a.toNat?))
    | ["connS", c, v] => do some (.connS (← C c) (← S v))
    | ["newC", c] => (C c).map .newC
    | ["cpC", j, i] => do some (.cpC (← C j) (← C i))
    | ["asgC", d, x] => do some (.asgC (← C d) (← C x))
    | ["delC", c] => (C c).map .delC
    | ["disc", c] => (C c).map .discC
    | ["connected?", c] => (C c).map .connectedC
    | ["emptyC?", c] => (C c).map .emptyC
    | ["blockedC?", c] => (C c).map .blockedC
    | ["blockC", c, b] => do some (.blockC (← C c) (← parseBool b))
    | ["unblockC", c] => (C c).map .unblockC
    | ["live?", f] => f.toNat?.map .live
    | _ => none
  r.getD .bad

/-- run the operations, one trace line per operation (after the `call` lines it logged) -/
def runTrace : List (String × Op) → State → List String → State × List String
  | [], s, out => (s, out)
  | (text, op) :: rest, s, out =>
    let calls := if s.err || (check s op).isSome then [] else callLines s op
    let (s', res) := step op s
    runTrace rest s' (out ++ calls ++ ["0 " ++ text ++ " => " ++ res])

def runProgram (lines : List String) : List String :=
  let progLines := (lines.map fun l => " ".intercalate (words l)).filter fun l => l ≠ "" ∧ !l.startsWith "#"
  let prog := progLines.map fun l => (l, parseOp l)
  let ops := prog.map (·.2)
  let (s, out) := runTrace prog State.init []
  let s' := (teardownOps ops).foldl (fun s op => stepState op s) s
  out ++ ["0 final live=" ++ toString (liveCount s' none) ++ " slots=" ++ toString (liveSlots s' ops)
          ++ (if s'.err then " fuel" else "")]

end Sigc.SlotG
