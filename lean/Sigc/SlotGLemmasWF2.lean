import Sigc.SlotGLemmasAlloc
/-!
  `WF` for the operations that create a representation: `mkS`, `cpS`, `mvS` (and the facts about `allocBind`
  the assignment operators need).
-/
namespace Sigc.SlotG

/-! ### the state in which a new representation exists but is not stored yet -/

/-- `sN` is `s` plus the new representation `s.nextRep` (record `N`), bound but not stored anywhere (and, for a
    functor that binds a slot by value, the representations of the bound copies, stored in anonymous variables) -/
structure Fresh (s sN : State) (N : Rep) : Prop where
  inv : Inv sN
  idle : Idle sN
  held : ∀ r R, sN.reps r = some R → (∃ w, repOf sN w = some r) ∨ r = s.nextRep
  self : sN.reps s.nextRep = some N
  par : N.parent = none
  cbs : N.cbs = []
  orph : ∀ w, repOf sN w ≠ some s.nextRep
  aliveS : ∀ w, w < anonBase → (sN.slots w).isSome = (s.slots w).isSome

theorem fresh_of_ext {s sN : State} (hw : WF s) (E : Ext s sN) : ∃ N, Fresh s sN N := by
  obtain ⟨N, hN, hp, hc⟩ := E.self
  refine ⟨N, E.inv, E.idle, E.heldAll hw, hN, hp, hc, E.orph hw.inv, ?_⟩
  intro w hlt
  rw [E.slots w (by omega)]

theorem fresh_cloneRep {s : State} (hw : WF s) (r : Nat) : ∃ N, Fresh s (cloneRep r s) N :=
  fresh_of_ext hw (ext_cloneRep hw.inv hw.idle r)

theorem fresh_newRep {s : State} (hw : WF s) {f : Fun} (hc : specCheck s f = none)
    (hnm : ∀ v, v ∈ f.names.1 → v < anonBase) : ∃ N, Fresh s (newRep f s) N :=
  fresh_of_ext hw (ext_newRep hw.inv hw.idle hc hnm)

theorem fresh_modSlot_blocked {s sN : State} {N : Rep} (h : Fresh s sN N) (d : Nat) (b : Bool) :
    Fresh s (sN.modSlot d fun D => { D with blocked := b }) N := by
  have hi := h.inv
  refine ⟨by inv_auto hi, ?_, ?_, ?_, h.par, h.cbs, ?_, ?_⟩
  · have := h.idle; unfold Idle at *; st_simp; exact this
  · have := h.held; st_simp; exact this
  · have := h.self; st_simp; exact this
  · have := h.orph; st_simp; exact this
  · intro w hlt
    rw [slots_modSlot, ← h.aliveS w hlt]
    by_cases hw : w = d <;> simp [hw]

/-- a state whose only unstored representation carries no registration satisfies the strong invariant -/
theorem invS_of_held_except {s : State} (hI : Inv s) {n : Nat} {N : Rep}
    (hheld : ∀ r R, s.reps r = some R → (∃ w, repOf s w = some r) ∨ r = n)
    (hn : s.reps n = some N) (hnc : N.cbs = []) : InvS s where
  repAlive := hI.repAlive
  repUniq := hI.repUniq
  connReg := fun c v hc => by
    obtain ⟨r, R, hR, hm, hor⟩ := hI.connReg c v hc
    rcases hor with hor | hor
    · exact ⟨r, R, hor, hR, hm⟩
    · rcases hheld r R hR with ⟨w, hw⟩ | hrn
      · exact absurd hw (hor w)
      · subst hrn; rw [hn] at hR; cases hR; rw [hnc] at hm; simp at hm
  cbsConn := fun r R c hR hm => by
    obtain ⟨v, hv, hor⟩ := hI.cbsConn r R c hR hm
    rcases hor with hor | hor
    · exact ⟨v, hv, hor⟩
    · rcases hheld r R hR with ⟨w, hw⟩ | hrn
      · exact absurd hw (hor w)
      · subst hrn; rw [hn] at hR; cases hR; rw [hnc] at hm; simp at hm
  cbsNodup := hI.cbsNodup
  parentOk := hI.parentOk
  trkReg := hI.trkReg
  trkEnt := hI.trkEnt
  trkNodup := hI.trkNodup
  refOk := hI.refOk
  ownOk := hI.ownOk
  nestOk := hI.nestOk
  anonBound := hI.anonBound
  repBound := hI.repBound
  ownCOk := hI.ownCOk

theorem wf_adoptSet {s : State} (hI : Inv s) (hidle : Idle s) {v n : Nat} {N : Rep} (b : Bool)
    (hheld : ∀ r R, s.reps r = some R → (∃ w, repOf s w = some r) ∨ r = n)
    (hn : s.reps n = some N) (hnp : N.parent = none) (hnc : N.cbs = []) (horph : ∀ w, repOf s w ≠ some n)
    (hv : s.slots v = none) (hnm : v < anonBase) : WF (s.setSlot v (some ⟨some n, b⟩)) := by
  have h := invS_of_held_except hI hheld hn hnc
  refine ⟨InvS.inv (by invs_auto h with [repOf_eq]), ?_, ?_⟩
  · unfold Idle at *; st_simp; exact hidle
  · unfold Held; intro r R hR; st_simp
    rcases hheld r R hR with ⟨w, hw⟩ | rfl
    · exact ⟨w, by grind [repOf_eq]⟩
    · exact ⟨v, by simp⟩

theorem wf_adopt_fresh {s sN : State} {N : Rep} (h : Fresh s sN N) {v : Nat} (b : Bool)
    (hv : s.slots v = none) (hnm : v < anonBase) : WF (sN.setSlot v (some ⟨some s.nextRep, b⟩)) := by
  refine wf_adoptSet h.inv h.idle b h.held h.self h.par h.cbs h.orph ?_ hnm
  have := h.aliveS v hnm
  rw [hv] at this
  cases hx : sN.slots v with
  | none => rfl
  | some V => rw [hx] at this; simp at this

/-! ### `mkS`, `cpS`, `mvS` -/

theorem wf_mkS {s : State} (hw : WF s) {v : Nat} {f : Fun} (hv : s.slots v = none)
    (hc : specCheck s f = none) (hnm : v < anonBase) (hnf : ∀ v, v ∈ f.names.1 → v < anonBase) :
    WF (apply (.mkS v f) s) := by
  obtain ⟨N, hF⟩ := fresh_newRep hw hc hnf
  exact wf_adopt_fresh hF false hv hnm

theorem wf_cpS {s : State} (hw : WF s) {j i : Nat} (hj : s.slots j = none) (hnm : j < anonBase) :
    WF (apply (.cpS j i) s) := by
  simp only [apply]
  cases hi : s.slots i with
  | none => exact hw
  | some X =>
    simp only []
    have hnone : ∀ b, WF (s.setSlot j (some ⟨none, b⟩)) := by
      intro b
      have h := hw.inv
      refine ⟨by inv_auto h with [repOf_eq], ?_, ?_⟩
      · have := hw.idle; unfold Idle at *; st_simp; exact this
      · have := hw.held; unfold Held at *; st_simp; grind [repOf_eq]
    cases hr : X.rep with
    | none => exact hnone _
    | some r =>
      simp only []
      split
      · exact hnone _
      · obtain ⟨N, hF⟩ := fresh_cloneRep hw r
        exact wf_adopt_fresh hF _ hj hnm

end Sigc.SlotG
