import Sigc.SlotGLemmasWF
/-!
  `WF` for the operations that create a representation: `mkS`, `cpS`, `mvS` (and the facts about `allocBind`
  the assignment operators need).
-/
namespace Sigc.SlotG

/-! ### facts about `allocBind` -/

theorem bindFun_frame (r : Nat) (f : Fun) (s : State) :
    (bindFun r f s).slots = s.slots ∧ (bindFun r f s).conns = s.conns ∧
    (bindFun r f s).nextRep = s.nextRep ∧ (bindFun r f s).err = s.err := by
  cases f with
  | fn fid => exact ⟨rfl, rfl, rfl, rfl⟩
  | mem fid t => exact ⟨slots_trkAdd _ _ _, conns_trkAdd _ _ _, nextRep_trkAdd _ _ _, err_trkAdd _ _ _⟩
  | sref fid v =>
    exact ⟨slots_setParentIfNone _ _ _, conns_setParentIfNone _ _ _, nextRep_setParentIfNone _ _ _,
      err_setParentIfNone _ _ _⟩
  | own fid v t =>
    cases t with
    | none => exact ⟨rfl, rfl, rfl, rfl⟩
    | some t => exact ⟨slots_trkAdd _ _ _, conns_trkAdd _ _ _, nextRep_trkAdd _ _ _, err_trkAdd _ _ _⟩

@[slotg_simp] theorem slots_allocBind (c : Bool) (f : Fun) (s : State) : (allocBind c f s).slots = s.slots := by
  unfold allocBind; rw [(bindFun_frame _ _ _).1]; rfl
@[slotg_simp] theorem conns_allocBind (c : Bool) (f : Fun) (s : State) : (allocBind c f s).conns = s.conns := by
  unfold allocBind; rw [(bindFun_frame _ _ _).2.1]; rfl
@[slotg_simp] theorem nextRep_allocBind (c : Bool) (f : Fun) (s : State) :
    (allocBind c f s).nextRep = s.nextRep + 1 := by
  unfold allocBind; rw [(bindFun_frame _ _ _).2.2.1]; rfl
@[slotg_simp] theorem err_allocBind (c : Bool) (f : Fun) (s : State) : (allocBind c f s).err = s.err := by
  unfold allocBind; rw [(bindFun_frame _ _ _).2.2.2]; rfl
@[slotg_simp] theorem repOf_allocBind (c : Bool) (f : Fun) (s : State) (v : Nat) :
    repOf (allocBind c f s) v = repOf s v := by
  simp only [repOf, slots_allocBind]

theorem reps_allocBind_self {s : State} (hI : Inv s) (c : Bool) (f : Fun) :
    (allocBind c f s).reps s.nextRep = some ⟨c, none, some f, []⟩ := by
  unfold allocBind
  cases f with
  | fn fid => simp [bindFun, reps_allocRep]
  | mem fid t => simp [bindFun, reps_trkAdd, reps_allocRep]
  | sref fid v =>
    simp only [bindFun, reps_setParentIfNone, repOf_allocRep, reps_allocRep, if_true]
    rw [if_neg (orphan_next hI v)]
  | own fid v t => cases t <;> simp [bindFun, reps_trkAdd, reps_allocRep]

theorem reps_allocBind_other (c : Bool) (f : Fun) (s : State) (x : Nat) (hx : x ≠ s.nextRep) :
    (allocBind c f s).reps x = s.reps x ∨
      ∃ X fid v, s.reps x = some X ∧ f = .sref fid v ∧ repOf s v = some x ∧
        (allocBind c f s).reps x = some (setPar s.nextRep X) := by
  unfold allocBind
  cases f with
  | fn fid => left; simp [bindFun, reps_allocRep, hx]
  | mem fid t => left; simp [bindFun, reps_trkAdd, reps_allocRep, hx]
  | sref fid v =>
    simp only [bindFun, reps_setParentIfNone, repOf_allocRep, reps_allocRep, hx, if_false]
    by_cases hv : repOf s v = some x
    · cases hX : s.reps x with
      | none => left; simp [hv]
      | some X => right; exact ⟨X, fid, v, rfl, rfl, hv, by simp [hv]⟩
    · left; simp [hv]
  | own fid v t => cases t <;> (left; simp [bindFun, reps_trkAdd, reps_allocRep, hx])

/-- an old representation after `allocBind`: unchanged except that it may have got the new one as parent -/
theorem allocBind_old (c : Bool) (f : Fun) {s : State} {x : Nat} {X : Rep} (hX : s.reps x = some X)
    (hx : x ≠ s.nextRep) :
    ∃ X', (allocBind c f s).reps x = some X' ∧ X'.fn = X.fn ∧ X'.cbs = X.cbs ∧ X'.call = X.call ∧
      (X'.parent = X.parent ∨ (X.parent = none ∧ X'.parent = some s.nextRep)) := by
  rcases reps_allocBind_other c f s x hx with h | ⟨X0, fid, v, hX0, -, -, h⟩
  · exact ⟨X, by rw [h]; exact hX, rfl, rfl, rfl, .inl rfl⟩
  · rw [hX] at hX0; cases hX0
    refine ⟨_, h, setPar_fn _ _, setPar_cbs _ _, setPar_call _ _, ?_⟩
    rw [setPar_parent]; cases hp : X.parent <;> simp

theorem allocBind_alive (c : Bool) (f : Fun) {s : State} {x : Nat} {X' : Rep}
    (hX' : (allocBind c f s).reps x = some X') (hx : x ≠ s.nextRep) : ∃ X, s.reps x = some X := by
  rcases reps_allocBind_other c f s x hx with h | ⟨X0, -, -, hX0, -, -, -⟩
  · exact ⟨X', by rw [← h]; exact hX'⟩
  · exact ⟨X0, hX0⟩

theorem idle_allocBind {s : State} (hi : Idle s) (c : Bool) (f : Fun) : Idle (allocBind c f s) := by
  unfold allocBind
  have key : ∀ t, Idle (trkAdd t s.nextRep (allocRep ⟨c, none, some f, []⟩ s)) := by
    intro t t' T hT
    rw [trks_trkAdd, trks_allocRep] at hT
    by_cases htt : t' = t
    · subst htt
      simp only [if_true, Option.map_eq_some_iff] at hT
      obtain ⟨T0, hT0, rfl⟩ := hT
      obtain ⟨h1, h2⟩ := hi t' T0 hT0
      refine ⟨by rw [addEntry_clearing]; exact h1, ?_⟩
      intro x hx
      rcases (mem_addEntry _ _ _ _).mp hx with h | ⟨-, -, h⟩
      · exact h2 x h
      · cases h
    · simp only [htt, if_false] at hT; exact hi t' T hT
  cases f with
  | fn fid => exact hi
  | mem fid t => exact key t
  | sref fid v =>
    intro t T hT
    simp only [bindFun, trks_setParentIfNone, trks_allocRep] at hT
    exact hi t T hT
  | own fid v t =>
    cases t with
    | none => exact hi
    | some t => exact key t

/-- everything the callers need about the state in which the new representation exists but is not stored yet -/
theorem allocBind_pre {s : State} (hw : WF s) (c : Bool) {f : Fun} (hf : FunOk s f) :
    Inv (allocBind c f s) ∧ Idle (allocBind c f s) ∧
    (∀ r R, (allocBind c f s).reps r = some R → (∃ w, repOf (allocBind c f s) w = some r) ∨ r = s.nextRep) ∧
    (allocBind c f s).reps s.nextRep = some ⟨c, none, some f, []⟩ ∧
    (∀ w, repOf (allocBind c f s) w ≠ some s.nextRep) := by
  refine ⟨inv_allocBind hw c hf, idle_allocBind hw.idle c f, ?_, reps_allocBind_self hw.inv c f, ?_⟩
  · intro r R hR
    by_cases hrn : r = s.nextRep
    · exact .inr hrn
    · obtain ⟨X, hX⟩ := allocBind_alive c f hR hrn
      obtain ⟨w, hw'⟩ := hw.held r X hX
      exact .inl ⟨w, by rw [repOf_allocBind]; exact hw'⟩
  · intro w; rw [repOf_allocBind]; exact orphan_next hw.inv w

/-- a functor that is stored in a representation may be instantiated again (`clone()`) -/
theorem funOk_of_inv {s : State} (h : Inv s) {r : Nat} {R : Rep} {f : Fun} (hR : s.reps r = some R)
    (hf : R.fn = some f) : FunOk s f := by
  refine ⟨?_, ?_, ?_⟩
  · intro t ht
    obtain ⟨T, hT, -⟩ := h.trkReg r R f t hR hf ht
    exact ⟨T, hT⟩
  · intro v hv
    cases f <;> simp [Fun.ref] at hv
    subst hv
    exact h.refOk r R _ _ hR hf
  · intro v hv
    cases f <;> simp [Fun.owns] at hv
    subst hv
    rename_i fid v t
    refine ⟨h.ownOk r R fid v t hR hf, ?_⟩
    rintro ⟨x, X, fid', hX, hfx⟩
    exact (h.refOk x X fid' v hX hfx).2 ⟨r, R, fid, t, hR, hf⟩

/-- `specCheck` passed: the functor of the spec may be instantiated -/
theorem funOk_of_spec {s : State} (h : Inv s) {f : Fun} (hc : specCheck s f = none) : FunOk s f := by
  cases f with
  | fn fid => exact ⟨by simp [Fun.trk], by simp [Fun.ref], by simp [Fun.owns]⟩
  | mem fid t =>
    simp only [specCheck, deadT] at hc
    refine ⟨?_, by simp [Fun.ref], by simp [Fun.owns]⟩
    intro t' ht'; simp [Fun.trk] at ht'; subst ht'
    cases hT : s.trks t with
    | none => simp [hT] at hc
    | some T => exact ⟨T, by first | rfl | exact hT⟩
  | sref fid v =>
    simp only [specCheck, deadS] at hc
    refine ⟨by simp [Fun.trk], ?_, by simp [Fun.owns]⟩
    intro v' hv'; simp [Fun.ref] at hv'; subst hv'
    cases hV : s.slots v with
    | none => simp [hV] at hc
    | some V =>
      refine ⟨⟨V, by first | rfl | exact hV⟩, ?_⟩
      intro ho
      rw [(ownedBy_iff h.repBound v).mpr ho] at hc
      simp [hV] at hc
  | own fid v t =>
    simp only [specCheck, deadS, deadT] at hc
    cases hV : s.slots v with
    | none => simp [hV] at hc
    | some V =>
      simp only [hV, Option.isNone_some, Bool.false_eq_true, if_false] at hc
      refine ⟨?_, by simp [Fun.ref], ?_⟩
      · intro t' ht'
        simp [Fun.trk] at ht'; subst ht'
        cases hT : s.trks t' with
        | none => simp [hT] at hc
        | some T => exact ⟨T, by first | rfl | exact hT⟩
      · intro v' hv'; simp [Fun.owns] at hv'; subst hv'
        refine ⟨⟨V, by first | rfl | exact hV⟩, ?_⟩
        intro hp
        rw [(pinned_iff h.repBound v).mpr hp] at hc
        split at hc
        · by_cases hh : s.trks ‹Nat› = none <;> simp [hh] at hc
        · simp at hc

/-! ### the state in which a new representation exists but is not stored yet -/

/-- `sN` is `s` plus the new representation `s.nextRep` (record `N`), bound but not stored anywhere -/
structure Fresh (s sN : State) (N : Rep) : Prop where
  inv : Inv sN
  idle : Idle sN
  held : ∀ r R, sN.reps r = some R → (∃ w, repOf sN w = some r) ∨ r = s.nextRep
  self : sN.reps s.nextRep = some N
  par : N.parent = none
  cbs : N.cbs = []
  orph : ∀ w, repOf sN w ≠ some s.nextRep
  repOf : ∀ w, repOf sN w = repOf s w
  aliveS : ∀ w, (sN.slots w).isSome = (s.slots w).isSome
  old : ∀ x X, s.reps x = some X → ∃ X', sN.reps x = some X' ∧ X'.fn = X.fn ∧ X'.cbs = X.cbs ∧
    X'.call = X.call ∧ (X'.parent = X.parent ∨ (X.parent = none ∧ X'.parent = some s.nextRep))
  alive : ∀ x X', sN.reps x = some X' → x ≠ s.nextRep → ∃ X, s.reps x = some X

theorem fresh_allocBind {s : State} (hw : WF s) (c : Bool) {f : Fun} (hf : FunOk s f) :
    Fresh s (allocBind c f s) ⟨c, none, some f, []⟩ := by
  obtain ⟨h1, h2, h3, h4, h5⟩ := allocBind_pre hw c hf
  refine ⟨h1, h2, h3, h4, rfl, rfl, h5, repOf_allocBind c f s, by intro w; rw [slots_allocBind], ?_, ?_⟩
  · intro x X hX
    exact allocBind_old c f hX (Nat.ne_of_lt (hw.inv.repBound x X hX))
  · intro x X' hX' hx
    exact allocBind_alive c f hX' hx

theorem fresh_allocNoFn {s : State} (hw : WF s) (c : Bool) :
    Fresh s (allocRep ⟨c, none, none, []⟩ s) ⟨c, none, none, []⟩ := by
  have h := hw.inv
  have horph := orphan_next h
  refine ⟨by inv_auto h, ?_, ?_, by simp [reps_allocRep], rfl, rfl, ?_, fun _ => rfl, fun _ => rfl, ?_, ?_⟩
  · have := hw.idle; unfold Idle at *; st_simp; exact this
  · intro r R hR
    rw [reps_allocRep] at hR
    by_cases hrn : r = s.nextRep
    · exact .inr hrn
    · rw [if_neg hrn] at hR
      obtain ⟨w, hw'⟩ := hw.held r R hR
      exact .inl ⟨w, hw'⟩
  · intro w; exact horph w
  · intro x X hX
    have hx : x ≠ s.nextRep := Nat.ne_of_lt (h.repBound x X hX)
    exact ⟨X, by rw [reps_allocRep, if_neg hx]; exact hX, rfl, rfl, rfl, .inl rfl⟩
  · intro x X' hX' hx
    rw [reps_allocRep, if_neg hx] at hX'
    exact ⟨X', hX'⟩

theorem cloneRep_eq {s : State} {r : Nat} {R : Rep} (hR : s.reps r = some R) : cloneRep r s =
    match R.fn with
    | none => allocRep ⟨R.call, none, none, []⟩ s
    | some f => allocBind R.call f s := by
  unfold cloneRep allocBind
  simp only [hR]
  cases R.fn <;> rfl

theorem fresh_cloneRep {s : State} (hw : WF s) {r : Nat} {R : Rep} (hR : s.reps r = some R) :
    ∃ N, N.fn = R.fn ∧ Fresh s (cloneRep r s) N := by
  rw [cloneRep_eq hR]
  cases hf : R.fn with
  | none => exact ⟨_, rfl, fresh_allocNoFn hw R.call⟩
  | some f => exact ⟨_, rfl, fresh_allocBind hw R.call (funOk_of_inv hw.inv hR hf)⟩

theorem fresh_modSlot_blocked {s sN : State} {N : Rep} (h : Fresh s sN N) (d : Nat) (b : Bool) :
    Fresh s (sN.modSlot d fun D => { D with blocked := b }) N := by
  have hi := h.inv
  refine ⟨by inv_auto hi, ?_, ?_, ?_, h.par, h.cbs, ?_, ?_, ?_, ?_, ?_⟩
  · have := h.idle; unfold Idle at *; st_simp; exact this
  · have := h.held; st_simp; exact this
  · have := h.self; st_simp; exact this
  · have := h.orph; st_simp; exact this
  · have := h.repOf; st_simp; exact this
  · intro w
    rw [slots_modSlot, ← h.aliveS w]
    by_cases hw : w = d <;> simp [hw]
  · have := h.old; st_simp; exact this
  · have := h.alive; st_simp; exact this

/-- a state whose only unstored representation carries no registration satisfies the strong invariant -/
theorem invS_of_held_except {s : State} (hI : Inv s) {n : Nat} {N : Rep}
    (hheld : ∀ r R, s.reps r = some R → (∃ w, repOf s w = some r) ∨ r = n)
    (hn : s.reps n = some N) (hnc : N.cbs = []) : InvS s where
  repAlive := hI.repAlive
  repUniq := hI.repUniq
  connReg := fun c v hc => by
    obtain ⟨r, R, hR, hm, hor⟩ := hI.connReg c v hc
    rcases hor with hor | hor
    · exact ⟨r, R, hor, hR, hm⟩
    · rcases hheld r R hR with ⟨w, hw⟩ | hrn
      · exact absurd hw (hor w)
      · subst hrn; rw [hn] at hR; cases hR; rw [hnc] at hm; simp at hm
  cbsConn := fun r R c hR hm => by
    obtain ⟨v, hv, hor⟩ := hI.cbsConn r R c hR hm
    rcases hor with hor | hor
    · exact ⟨v, hv, hor⟩
    · rcases hheld r R hR with ⟨w, hw⟩ | hrn
      · exact absurd hw (hor w)
      · subst hrn; rw [hn] at hR; cases hR; rw [hnc] at hm; simp at hm
  cbsNodup := hI.cbsNodup
  parentOk := hI.parentOk
  trkReg := hI.trkReg
  trkEnt := hI.trkEnt
  trkNodup := hI.trkNodup
  refOk := hI.refOk
  ownOk := hI.ownOk
  repBound := hI.repBound

theorem wf_adoptSet {s : State} (hI : Inv s) (hidle : Idle s) {v n : Nat} {N : Rep} (b : Bool)
    (hheld : ∀ r R, s.reps r = some R → (∃ w, repOf s w = some r) ∨ r = n)
    (hn : s.reps n = some N) (hnp : N.parent = none) (hnc : N.cbs = []) (horph : ∀ w, repOf s w ≠ some n)
    (hv : s.slots v = none) : WF (s.setSlot v (some ⟨some n, b⟩)) := by
  have h := invS_of_held_except hI hheld hn hnc
  refine ⟨InvS.inv (by invs_auto h with [repOf_eq]), ?_, ?_⟩
  · unfold Idle at *; st_simp; exact hidle
  · unfold Held; intro r R hR; st_simp
    rcases hheld r R hR with ⟨w, hw⟩ | rfl
    · exact ⟨w, by grind [repOf_eq]⟩
    · exact ⟨v, by simp⟩

theorem wf_adopt_fresh {s sN : State} {N : Rep} (h : Fresh s sN N) {v : Nat} (b : Bool)
    (hv : s.slots v = none) : WF (sN.setSlot v (some ⟨some s.nextRep, b⟩)) := by
  refine wf_adoptSet h.inv h.idle b h.held h.self h.par h.cbs h.orph ?_
  have := h.aliveS v
  rw [hv] at this
  cases hx : sN.slots v with
  | none => rfl
  | some V => rw [hx] at this; simp at this

/-! ### `mkS`, `cpS`, `mvS` -/

theorem wf_mkS {s : State} (hw : WF s) {v : Nat} {f : Fun} (hv : s.slots v = none)
    (hc : specCheck s f = none) : WF (apply (.mkS v f) s) :=
  wf_adopt_fresh (fresh_allocBind hw true (funOk_of_spec hw.inv hc)) false hv

theorem wf_cpS {s : State} (hw : WF s) {j i : Nat} (hj : s.slots j = none) : WF (apply (.cpS j i) s) := by
  simp only [apply]
  cases hi : s.slots i with
  | none => exact hw
  | some X =>
    simp only []
    have hnone : ∀ b, WF (s.setSlot j (some ⟨none, b⟩)) := by
      intro b
      have h := hw.inv
      refine ⟨by inv_auto h with [repOf_eq], ?_, ?_⟩
      · have := hw.idle; unfold Idle at *; st_simp; exact this
      · have := hw.held; unfold Held at *; st_simp; grind [repOf_eq]
    cases hr : X.rep with
    | none => exact hnone _
    | some r =>
      simp only []
      split
      · exact hnone _
      · obtain ⟨R, hR⟩ := hw.inv.repAlive i r (repOf_eq.mpr ⟨X, hi, hr⟩)
        obtain ⟨N, -, hF⟩ := fresh_cloneRep hw hR
        exact wf_adopt_fresh hF _ hj

end Sigc.SlotG
