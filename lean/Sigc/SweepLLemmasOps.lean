import Sigc.SweepLLemmasRel
/-!
  Lemmas about `Sigc/SweepL.lean`, part 3: the invariant `Inv` of the states between operations (at every
  depth) and its preservation by every operation, by an emission whose body operations preserve it, and — by
  induction on the nesting budget — by `step`.
-/
namespace Sigc.SweepL

/-- the invariant of every state in which an operation (top level or functor body) starts or ends:
    `Base`; a disconnected cell in the list ⇒ `deferred_` (so that the sweep is going to happen);
    `exec_count_ == 0` ⇒ `!deferred_`; no more placeholders than execution scopes; `Own`: the cells owned by
    an owner functor that has been destroyed are not connected -/
structure Inv (s : State) : Prop where
  base : Base s
  pend : Pend [] s
  quiet : s.exec = 0 → s.deferred = false
  marks : s.marks ≤ s.exec
  own : Own s

/-- what an operation keeps -/
structure Keeps (s s' : State) : Prop where
  exec : s'.exec = s.exec
  marks : s'.marks = s.marks
  err : s'.err = s.err
  keep : Keep s s'

theorem Keeps.rfl' {s : State} : Keeps s s := ⟨rfl, rfl, rfl, Keep.refl s⟩
theorem Keeps.trans {a b c : State} (h1 : Keeps a b) (h2 : Keeps b c) : Keeps a c :=
  ⟨h2.exec.trans h1.exec, h2.marks.trans h1.marks, h2.err.trans h1.err, h1.keep.trans h2.keep⟩

theorem Keep.congr_left {s0 s s' : State} (h : Keep s0 s') (h1 : s0.cells = s.cells) (h2 : s0.used = s.used) :
    Keep s s' :=
  (Keep.of_eq (s := s) (s' := s0) h1 h2).trans h

def Good (s s' : State) : Prop := Inv s' ∧ Keeps s s'

theorem Inv.congr {s s' : State} (h : Inv s) (h1 : s'.cells = s.cells) (h2 : s'.used = s.used)
    (h3 : s'.live = s.live) (h4 : s'.deferred = s.deferred) (h5 : s'.exec = s.exec) (h6 : s'.marks = s.marks)
    (h7 : s'.edges = s.edges) : Inv s' :=
  ⟨h.base.congr h1 h2 h3, h.pend.congr h1 h4, by rw [h5, h4]; exact h.quiet, by rw [h5, h6]; exact h.marks,
   h.own.congr h1 h7 h2⟩

theorem Inv.all_connected {s : State} (h : Inv s) (h0 : s.exec = 0) : ∀ c ∈ s.cells, c.conn = true := by
  intro c hc
  cases hcon : c.conn with
  | true => rfl
  | false =>
    rcases h.pend c hc hcon with hd | hd
    · rw [h.quiet h0] at hd; cases hd
    · cases hd

/-! ### `disconnect` -/

theorem disconnect_spec (i : Nat) {s : State} (h : Inv s) : Good s (disconnect i s) := by
  unfold disconnect
  cases hf : find i s.cells with
  | none => exact ⟨h, Keeps.rfl'⟩
  | some c =>
    simp only
    by_cases hc : c.conn = true
    · rw [if_pos hc]
      by_cases h0 : s.exec = 0
      · rw [if_pos h0]
        generalize hs1 : ({ s with cells := setDisc i s.cells, exec := 1 } : State) = s1
        have hb1 : Base s1 := by
          subst hs1
          have := setDisc_base (i := i) h.base s.deferred
          exact this.congr rfl rfl rfl
        have hp1 : Pend [i] s1 := by
          subst hs1
          intro c' hc' hcon
          rcases mem_setDisc hc' with ⟨hm, _⟩ | ⟨_, hid, _⟩
          · have := h.all_connected h0 c' hm
            rw [this] at hcon; cases hcon
          · right; rw [hid]; exact List.mem_cons_self
        have hf1 : ∃ c1, find i s1.cells = some c1 := by
          subst hs1
          simp only [find_setDisc, hf, Option.map_some]
          exact ⟨_, rfl⟩
        obtain ⟨c1, hf1⟩ := hf1
        have he1 : s1.exec ≠ 0 := by subst hs1; simp
        obtain ⟨a, b, c', d, _, _⟩ := eraseCell_spec i [] s1 c1 hb1 hf1 hp1 he1
        have hr1 : Rel s s1 := by
          subst hs1; exact Rel.of_ids rfl rfl (descL_setDisc i s.cells) (ids_setDisc i s.cells)
        have hr2 := rel_eraseCell i hb1 he1 (h.own.held.rel hr1)
        have hr3 := rel_unref (eraseCell i s1) b ((h.own.held.rel hr1).rel hr2)
        have hmm : (eraseCell i s1).marks ≤ (eraseCell i s1).exec - 1 := by
          rw [a.marks, a.exec]; subst hs1; have := h.marks; simp only; omega
        obtain ⟨p, q, r, t, u, v, _⟩ := unref_spec (eraseCell i s1) b c' hmm
        have hex : (unref (eraseCell i s1)).exec = 0 := by
          rw [q, a.exec]; subst hs1; rfl
        have hmk : (unref (eraseCell i s1)).marks = s.marks := by
          rw [p.marks, a.marks]; subst hs1; rfl
        have hm0 : s.marks = 0 := by have := h.marks; omega
        refine ⟨⟨r, t, v, by rw [hmk, hm0]; exact Nat.zero_le _, h.own.rel ((hr1.trans hr2).trans hr3)⟩,
          ⟨by rw [hex, h0], hmk, ?_, Keep.of_rel ((hr1.trans hr2).trans hr3)⟩⟩
        rw [u, d]; subst hs1; rfl
      · rw [if_neg h0]
        refine ⟨⟨setDisc_base h.base true, fun _ _ _ => Or.inl rfl, fun h0' => absurd h0' h0, h.marks,
          h.own.rel (rel_setDisc i s true)⟩, ⟨rfl, rfl, rfl, Keep.of_rel (rel_setDisc i s true)⟩⟩
    · rw [if_neg hc]; exact ⟨h, Keeps.rfl'⟩

/-! ### `insertCell` -/

theorem cnt_append (f : Nat) (xs ys : List Cell) : cnt f (xs ++ ys) = cnt f xs + cnt f ys := by
  induction xs with
  | nil => simp [cnt]
  | cons x xs ih => simp only [List.cons_append, cnt, ih]; omega

theorem ids_append (xs ys : List Cell) : ids (xs ++ ys) = ids xs ++ ids ys := by simp [ids]

theorem incLive_cnt (kd : Kind) (live : Nat → Nat) (f : Nat) :
    incLive kd live f = live f + (if kd.fid = some f then 1 else 0) := by
  unfold incLive
  cases hk : kd.fid with
  | none => simp
  | some g =>
    simp only
    by_cases hfg : f = g
    · subst hfg; simp
    · have : ¬ (g = f) := fun h => hfg h.symm
      simp [hfg, this]

theorem insertCell_spec (first : Bool) (k : Nat) (kd : Kind) {s : State} (h : Inv s) (hk : k ∉ s.used) :
    Good s (insertCell first k kd s) := by
  have hki : k ∉ ids s.cells := by
    intro hm; obtain ⟨c, hc, hi⟩ := mem_ids.1 hm
    exact hk (hi ▸ h.base.used c hc)
  unfold insertCell
  have hmem : ∀ c, c ∈ (if first = true then (⟨k, kd, true, []⟩ : Cell) :: s.cells else s.cells ++ [⟨k, kd, true, []⟩]) →
      c = ⟨k, kd, true, []⟩ ∨ c ∈ s.cells := by
    intro c hc
    cases first <;> simp at hc <;> rcases hc with hc | hc <;> simp [hc]
  have hsub : ∀ c, c ∈ s.cells →
      c ∈ (if first = true then (⟨k, kd, true, []⟩ : Cell) :: s.cells else s.cells ++ [⟨k, kd, true, []⟩]) := by
    intro c hc
    cases first <;> simp [hc]
  refine ⟨⟨⟨?_, ?_, ?_⟩, ?_, h.quiet, h.marks, ⟨?_, ?_, ?_⟩⟩, ⟨rfl, rfl, rfl, ⟨?_, fun k hk => List.mem_cons_of_mem _ hk⟩⟩⟩
  · cases first
    · simp only [Bool.false_eq_true, ↓reduceIte, ids_append]
      rw [List.nodup_append]
      refine ⟨h.base.nodup, by simp [ids], ?_⟩
      intro a ha b hb
      simp [ids] at hb
      subst hb
      intro hab; subst hab; exact hki ha
    · simp only [↓reduceIte, ids_cons, List.nodup_cons]
      exact ⟨hki, h.base.nodup⟩
  · intro c hc
    simp only at hc ⊢
    have : c = ⟨k, kd, true, []⟩ ∨ c ∈ s.cells := by
      cases first <;> simp at hc <;> rcases hc with hc | hc <;> simp [hc]
    rcases this with rfl | hm
    · exact List.mem_cons_self
    · exact List.mem_cons_of_mem _ (h.base.used c hm)
  · intro f
    simp only
    rw [incLive_cnt, h.base.live f]
    cases first
    · simp [cnt_append, cnt]
    · simp only [↓reduceIte, cnt]; omega
  · intro c hc hcon
    simp only at hc
    have : c = ⟨k, kd, true, []⟩ ∨ c ∈ s.cells := by
      cases first <;> simp at hc <;> rcases hc with hc | hc <;> simp [hc]
    rcases this with rfl | hm
    · cases hcon
    · exact h.pend c hm hcon
  · intro e he
    have := h.own.known e he
    exact ⟨List.mem_cons_of_mem _ this.1, List.mem_cons_of_mem _ this.2⟩
  · intro e he c hc hid
    rcases hmem c hc with rfl | hm
    · have hid' : k = e.1 := hid
      exact absurd (hid' ▸ (h.own.known e he).1) hk
    · exact h.own.held e he c hm hid
  · intro e he hg c hc hid
    rcases hmem c hc with rfl | hm
    · have hid' : k = e.2 := hid
      exact absurd (hid' ▸ (h.own.known e he).2) hk
    · exact h.own.released e he (fun c' hc' => hg c' (hsub c' hc')) c hm hid
  · intro c hc
    rcases hmem c hc with rfl | hm
    · exact Or.inr hk
    · exact Or.inl ⟨c, hm, rfl, id⟩

/-! ### `own` -/

theorem ids_addOwned (k v : Nat) (cs : List Cell) : ids (addOwned k v cs) = ids cs := by
  induction cs with
  | nil => rfl
  | cons x xs ih =>
    simp only [addOwned, List.map_cons, ids] at ih ⊢
    rw [ih]; split <;> rfl

theorem cnt_addOwned (f k v : Nat) (cs : List Cell) : cnt f (addOwned k v cs) = cnt f cs := by
  induction cs with
  | nil => rfl
  | cons x xs ih =>
    simp only [addOwned, List.map_cons, cnt] at ih ⊢
    rw [ih]; split <;> rfl

theorem mem_addOwned {k v : Nat} {cs : List Cell} {c : Cell} (h : c ∈ addOwned k v cs) :
    ∃ c0 ∈ cs, c0.id = c.id ∧ c0.conn = c.conn ∧ (∀ w ∈ c0.owned, w ∈ c.owned) ∧ (c.id = k → v ∈ c.owned) := by
  simp only [addOwned, List.mem_map] at h
  obtain ⟨c0, hm, rfl⟩ := h
  refine ⟨c0, hm, ?_⟩
  split
  · rename_i hk
    exact ⟨rfl, rfl, fun w hw => List.mem_append_left _ hw, fun _ => by simp⟩
  · rename_i hk
    exact ⟨rfl, rfl, fun w hw => hw, fun h => absurd h hk⟩

theorem addOwned_spec (k v : Nat) {s : State} (h : Inv s) (hk : k ∈ s.used) (hv : v ∈ s.used)
    (hf : ∃ c, find k s.cells = some c) :
    Good s { s with cells := addOwned k v s.cells, edges := (k, v) :: s.edges } := by
  have hback : ∀ c ∈ s.cells, ∃ c' ∈ addOwned k v s.cells, c'.id = c.id := by
    intro c hc
    have : c.id ∈ ids (addOwned k v s.cells) := by rw [ids_addOwned]; exact mem_ids.2 ⟨c, hc, rfl⟩
    exact mem_ids.1 this
  refine ⟨⟨⟨?_, ?_, ?_⟩, ?_, h.quiet, h.marks, ⟨?_, ?_, ?_⟩⟩, ⟨rfl, rfl, rfl, ⟨?_, fun _ hk => hk⟩⟩⟩
  · simpa [ids_addOwned] using h.base.nodup
  · intro c hc
    obtain ⟨c0, hm, hi, _, _⟩ := mem_addOwned hc
    rw [← hi]; exact h.base.used c0 hm
  · intro f; simpa [cnt_addOwned] using h.base.live f
  · intro c hc hcon
    obtain ⟨c0, hm, _, hcn, _⟩ := mem_addOwned hc
    exact (h.pend c0 hm (hcn.trans hcon)).elim (fun h => Or.inl h) (fun h => by cases h)
  · intro e he
    cases he with
    | head => exact ⟨hk, hv⟩
    | tail _ he' => exact h.own.known e he'
  · intro e he c hc hid
    obtain ⟨c0, hm, hi, _, hsub, hnew⟩ := mem_addOwned hc
    cases he with
    | head => exact hnew hid
    | tail _ he' => exact hsub _ (h.own.held e he' c0 hm (hi.trans hid))
  · intro e he hg c hc hid
    obtain ⟨c0, hm, hi, hcn, _, _⟩ := mem_addOwned hc
    cases he with
    | head =>
      exfalso
      obtain ⟨ck, hfk⟩ := hf
      obtain ⟨c', hc', hid'⟩ := hback ck (find_some hfk).1
      exact hg c' hc' (hid'.trans (find_some hfk).2)
    | tail _ he' =>
      have hg0 : ∀ c ∈ s.cells, c.id ≠ e.1 := by
        intro c1 hc1 hi1
        obtain ⟨c', hc', hid'⟩ := hback c1 hc1
        exact hg c' hc' (hid'.trans hi1)
      rw [← hcn]; exact h.own.released e he' hg0 c0 hm (hi.trans hid)
  · intro c hc
    obtain ⟨c0, hm, hi, hcn, _, _⟩ := mem_addOwned hc
    exact Or.inl ⟨c0, hm, hi, fun h => hcn.trans h⟩

/-! ### `clear` -/

theorem discAll_spec (is : List Nat) (s : State) (hb : Base s) (hp : Pend [] s) :
    Same s (is.foldl (fun s i => discUnder i s) s) ∧ Base (is.foldl (fun s i => discUnder i s) s) ∧
    Pend [] (is.foldl (fun s i => discUnder i s) s) ∧ (is.foldl (fun s i => discUnder i s) s).err = s.err ∧
    Rel s (is.foldl (fun s i => discUnder i s) s) := by
  induction is generalizing s with
  | nil => exact ⟨Same.rfl', hb, hp, rfl, Rel.refl s⟩
  | cons i is ih =>
    simp only [List.foldl_cons]
    obtain ⟨a, b, c, d, e⟩ := ih (discUnder i s) (discUnder_base i hb) (discUnder_pend i [] hp)
    exact ⟨(discUnder_same i s).trans a, b, c, d.trans (discUnder_err i s), (rel_discUnder i s).trans e⟩

theorem dtor_nil (owned : List Nat) (s : State) (hc : s.cells = []) (he : s.exec ≠ 0) : dtor owned s = s := by
  induction owned with
  | nil => rfl
  | cons v vs ih =>
    simp only [dtor, List.foldl_cons, he, ↓reduceIte]
    have : discUnder v s = s := by simp [discUnder, hc, find]
    rw [this]; exact ih

theorem decLive_cnt (kd : Kind) (live : Nat → Nat) (f : Nat) :
    decLive kd live f = live f - (if kd.fid = some f then 1 else 0) := by
  unfold decLive
  cases hk : kd.fid with
  | none => simp
  | some g =>
    simp only
    by_cases hfg : f = g
    · subst hfg; simp
    · have : ¬ (g = f) := fun h => hfg h.symm
      simp [hfg, this]

theorem destroyAll_spec (old : List Cell) (s : State) (hc : s.cells = []) (he : s.exec ≠ 0)
    (hl : ∀ f, s.live f = cnt f old) :
    Same s (destroyAll old s) ∧ (destroyAll old s).cells = [] ∧ (∀ f, (destroyAll old s).live f = 0) ∧
    (destroyAll old s).err = s.err ∧ (destroyAll old s).deferred = s.deferred ∧
    (destroyAll old s).edges = s.edges := by
  induction old generalizing s with
  | nil => exact ⟨Same.rfl', hc, fun f => by show s.live f = 0; simpa [cnt] using hl f, rfl, rfl, rfl⟩
  | cons x xs ih =>
    simp only [destroyAll, List.foldl_cons]
    have hd := dtor_nil x.owned { s with live := decLive x.kind s.live } hc he
    rw [hd]
    have := ih { s with live := decLive x.kind s.live } hc he (by
      intro f
      simp only
      rw [decLive_cnt, hl f]; simp only [cnt]; omega)
    simp only [destroyAll] at this
    obtain ⟨a, b, c, d, e, g⟩ := this
    exact ⟨⟨a.exec, a.marks, a.used, a.owners, a.out⟩, b, c, d, e, g⟩

theorem clear_spec {s : State} (h : Inv s) : Good s (clear s) ∧ (s.exec = 0 → (clear s).cells = []) := by
  unfold clear
  simp only
  generalize hs1 : ({ s with exec := s.exec + 1 } : State) = s1
  have hb1 : Base s1 := by subst hs1; exact h.base.congr rfl rfl rfl
  have hp1 : Pend [] s1 := by subst hs1; exact h.pend.congr rfl rfl
  have hcells : s1.cells = s.cells := by subst hs1; rfl
  rw [← hcells]
  obtain ⟨a, b, c, d, rel2⟩ := discAll_spec (ids s1.cells) s1 hb1 hp1
  generalize hs2 : (ids s1.cells).foldl (fun s i => discUnder i s) s1 = s2 at a b c d rel2
  have rel1 : Rel s s1 := by subst hs1; exact Rel.of_ids rfl rfl (DescL.refl _) rfl
  have own2 : Own s2 := h.own.rel (rel1.trans rel2)
  have hex2 : s2.exec = s.exec + 1 := by rw [a.exec]; subst hs1; rfl
  have hmk2 : s2.marks = s.marks := by rw [a.marks]; subst hs1; rfl
  have herr2 : s2.err = s.err := by rw [d]; subst hs1; rfl
  by_cases hdur : s.exec > 0
  · simp only [hdur, decide_true, ↓reduceIte]
    obtain ⟨p, q, r, t, u, v, _⟩ := unref_spec s2 b c (by rw [hmk2, hex2]; have := h.marks; omega)
    refine ⟨⟨⟨r, t, v, ?_, own2.rel (rel_unref s2 b own2.held)⟩,
      ⟨by rw [q, hex2]; omega, by rw [p.marks, hmk2], by rw [u, herr2],
       Keep.of_rel ((rel1.trans rel2).trans (rel_unref s2 b own2.held))⟩⟩, fun h0 => by omega⟩
    rw [p.marks, hmk2, q, hex2]; have := h.marks; omega
  · simp only [hdur, decide_false, Bool.false_eq_true, ↓reduceIte]
    have he3 : ({ s2 with deferred := s.deferred, cells := [] } : State).exec ≠ 0 := by
      simp only; omega
    obtain ⟨a', b', c', d', e', g'⟩ := destroyAll_spec s2.cells { s2 with deferred := s.deferred, cells := [] } rfl he3
      (fun f => b.live f)
    generalize hs3 : destroyAll s2.cells { s2 with deferred := s.deferred, cells := [] } = s3 at a' b' c' d' e' g'
    have own3 : Own s3 := by
      refine ⟨?_, ?_, ?_⟩
      · intro e he
        have he2 : e ∈ s2.edges := by rw [g'] at he; exact he
        have := own2.known e he2
        rw [a'.used]; exact this
      · intro e _ c hc; rw [b'] at hc; cases hc
      · intro e _ _ c hc; rw [b'] at hc; cases hc
    have hb3 : Base s3 := ⟨by rw [b']; simp [ids], by rw [b']; simp, by intro f; rw [c' f, b']; rfl⟩
    have hp3 : Pend [] s3 := by intro c hc; rw [b'] at hc; cases hc
    have hex3 : s3.exec = s.exec + 1 := by rw [a'.exec]; exact hex2
    have hmk3 : s3.marks = s.marks := by rw [a'.marks]; exact hmk2
    obtain ⟨p, q, r, t, u, v, w⟩ := unref_spec s3 hb3 hp3 (by rw [hmk3, hex3]; have := h.marks; omega)
    refine ⟨⟨⟨r, t, v, ?_, own3.rel (rel_unref s3 hb3 own3.held)⟩,
      ⟨by rw [q, hex3]; omega, by rw [p.marks, hmk3], by rw [u, d']; exact herr2, ⟨?_, ?_⟩⟩⟩, fun _ => ?_⟩
    · rw [p.marks, hmk3, q, hex3]; have := h.marks; omega
    · intro c' hc'
      obtain ⟨c, hc, _⟩ := (rel_unref s3 hb3 own3.held).desc c' hc'
      rw [b'] at hc; cases hc
    · intro k hk
      rw [p.used, a'.used]
      have : s2.used = s.used := by rw [a.used]; subst hs1; rfl
      simp only; rw [this]; exact hk
    · rw [b'] at w; exact List.eq_nil_of_length_eq_zero (by simpa using w)

/-! ### emission -/

theorem bodyFold_spec (body : Op → State → State) (hbody : ∀ op s, Inv s → Good s (body op s))
    (ops : List Op) (s : State) (h : Inv s) : Good s (ops.foldl (fun s op => body op s) s) := by
  induction ops generalizing s with
  | nil => exact ⟨h, Keeps.rfl'⟩
  | cons op ops ih =>
    simp only [List.foldl_cons]
    obtain ⟨a, b⟩ := hbody op s h
    obtain ⟨a', b'⟩ := ih (body op s) a
    exact ⟨a', b.trans b'⟩

theorem emission_spec (body : Op → State → State) (hbody : ∀ op s, Inv s → Good s (body op s))
    (P : Nat → List Op) (d a : Nat) {s : State} (h : Inv s) : Good s (emission body P d a s) := by
  unfold emission
  split
  · exact ⟨h, Keeps.rfl'⟩
  · simp only
    generalize hs1 : ({ s with exec := s.exec + 1, marks := s.marks + 1 } : State) = s1
    have h1 : Inv s1 := by
      subst hs1
      exact ⟨h.base.congr rfl rfl rfl, h.pend.congr rfl rfl, fun h0 => by simp at h0, by
        have := h.marks; simp only; omega, h.own.congr rfl rfl rfl⟩
    have hcells : s1.cells = s.cells := by subst hs1; rfl
    rw [← hcells]
    -- the loop
    have hloop : ∀ (is : List Nat) (s : State), Inv s → Good s (is.foldl (fun s i =>
        match find i s.cells with
        | some c =>
          if c.isEmpty then s
          else match c.kind.fid with
            | some f =>
              (P f).foldl (fun s op => body op s)
                { s with out := (toString (d + 1) ++ " call f" ++ toString f ++ " " ++ toString a) :: s.out }
            | none => s
        | none => s) s) := by
      intro is
      induction is with
      | nil => intro s hs; exact ⟨hs, Keeps.rfl'⟩
      | cons i is ih =>
        intro s hs
        simp only [List.foldl_cons]
        have hstep : Good s (match find i s.cells with
          | some c =>
            if c.isEmpty then s
            else match c.kind.fid with
              | some f =>
                (P f).foldl (fun s op => body op s)
                  { s with out := (toString (d + 1) ++ " call f" ++ toString f ++ " " ++ toString a) :: s.out }
              | none => s
          | none => s) := by
          split
          · split
            · exact ⟨hs, Keeps.rfl'⟩
            · split
              · rename_i f _
                have hs' : Inv { s with out := (toString (d + 1) ++ " call f" ++ toString f ++ " " ++ toString a) :: s.out } :=
                  hs.congr rfl rfl rfl rfl rfl rfl rfl
                obtain ⟨p, q⟩ := bodyFold_spec body hbody (P f) _ hs'
                exact ⟨p, ⟨q.exec, q.marks, q.err, q.keep.congr_left rfl rfl⟩⟩
              · exact ⟨hs, Keeps.rfl'⟩
          · exact ⟨hs, Keeps.rfl'⟩
        obtain ⟨p, q⟩ := hstep
        obtain ⟨p', q'⟩ := ih _ p
        exact ⟨p', q.trans q'⟩
    obtain ⟨h2, k2⟩ := hloop (ids s1.cells) s1 h1
    generalize hs2 : (ids s1.cells).foldl _ s1 = s2 at h2 k2
    have hex2 : s2.exec = s.exec + 1 := by rw [k2.exec]; subst hs1; rfl
    have hmk2 : s2.marks = s.marks + 1 := by rw [k2.marks]; subst hs1; rfl
    have herr2 : s2.err = s.err := by rw [k2.err]; subst hs1; rfl
    obtain ⟨p, q, r, t, u, v, _⟩ := unref_spec { s2 with marks := s2.marks - 1 } (h2.base.congr rfl rfl rfl)
      (h2.pend.congr rfl rfl) (by simp only; rw [hmk2, hex2]; have := h.marks; omega)
    have own2' : Own { s2 with marks := s2.marks - 1 } := h2.own.congr rfl rfl rfl
    refine ⟨⟨r, t, v, ?_, own2'.rel (rel_unref _ (h2.base.congr rfl rfl rfl) own2'.held)⟩,
      ⟨by rw [q]; simp only; omega, by rw [p.marks]; simp only; omega, by rw [u]; exact herr2, ?_⟩⟩
    · rw [p.marks, q]; simp only; have := h.marks; omega
    · have k1 : Keep s s1 := by subst hs1; exact Keep.of_eq rfl rfl
      have k3 : Keep s2 { s2 with marks := s2.marks - 1 } := Keep.of_eq rfl rfl
      exact ((k1.trans k2.keep).trans k3).trans
        (Keep.of_rel (rel_unref _ (h2.base.congr rfl rfl rfl) own2'.held))

/-! ### `step` -/

theorem log_spec (d : Nat) (t r : String) {s0 s : State} (h : Good s0 s) : Good s0 (log d t r s) :=
  ⟨h.1.congr rfl rfl rfl rfl rfl rfl rfl, ⟨h.2.exec, h.2.marks, h.2.err, h.2.keep.trans (Keep.of_eq rfl rfl)⟩⟩

theorem applyBase_spec (op : Op) {s : State} (h : Inv s) (hc : check s op = none) :
    Good s (applyBase op s).1 := by
  cases op with
  | conn first k kd =>
    simp only [check] at hc
    have hk : k ∉ s.used := by intro hk; simp [hk] at hc
    exact insertCell_spec first k kd h hk
  | own k v =>
    simp only [check] at hc
    split at hc
    · cases hc
    · rename_i h1
      split at hc
      · cases hc
      · split at hc
        · cases hc
        · split at hc
          · cases hc
          · rename_i c hfk
            have hk : k ∈ s.used := by
              cases Classical.em (k ∈ s.used) with
              | inl h => exact h
              | inr h => exact absurd (Or.inl h) h1
            have hv : v ∈ s.used := by
              cases Classical.em (v ∈ s.used) with
              | inl h => exact h
              | inr h => exact absurd (Or.inr h) h1
            exact addOwned_spec k v h hk hv ⟨c, hfk⟩
  | disc k => exact disconnect_spec k h
  | connected k => exact ⟨h, Keeps.rfl'⟩
  | clear => exact (clear_spec h).1
  | emit a => exact ⟨h, Keeps.rfl'⟩
  | size => exact ⟨h, Keeps.rfl'⟩
  | live f => exact ⟨h, Keeps.rfl'⟩
  | bad l => exact ⟨h, Keeps.rfl'⟩

theorem step_spec (P : Nat → List Op) (n : Nat) : ∀ (op : Op) (s : State), Inv s → Good s (step P n op s) := by
  induction n with
  | zero =>
    intro op s h
    unfold step
    simp only
    cases hc : check s op with
    | some r => exact log_spec _ _ _ ⟨h, Keeps.rfl'⟩
    | none =>
      simp only
      cases op with
      | emit a => exact log_spec _ _ _ ⟨h, Keeps.rfl'⟩
      | conn first k kd => exact log_spec _ _ _ (applyBase_spec _ h hc)
      | own k v => exact log_spec _ _ _ (applyBase_spec _ h hc)
      | disc k => exact log_spec _ _ _ (applyBase_spec _ h hc)
      | connected k => exact log_spec _ _ _ (applyBase_spec _ h hc)
      | clear => exact log_spec _ _ _ (applyBase_spec _ h hc)
      | size => exact log_spec _ _ _ (applyBase_spec _ h hc)
      | live f => exact log_spec _ _ _ (applyBase_spec _ h hc)
      | bad l => exact log_spec _ _ _ (applyBase_spec _ h hc)
  | succ n ih =>
    intro op s h
    unfold step
    simp only
    cases hc : check s op with
    | some r => exact log_spec _ _ _ ⟨h, Keeps.rfl'⟩
    | none =>
      simp only
      cases op with
      | emit a => exact log_spec _ _ _ (emission_spec (step P n) ih P _ a h)
      | conn first k kd => exact log_spec _ _ _ (applyBase_spec _ h hc)
      | own k v => exact log_spec _ _ _ (applyBase_spec _ h hc)
      | disc k => exact log_spec _ _ _ (applyBase_spec _ h hc)
      | connected k => exact log_spec _ _ _ (applyBase_spec _ h hc)
      | clear => exact log_spec _ _ _ (applyBase_spec _ h hc)
      | size => exact log_spec _ _ _ (applyBase_spec _ h hc)
      | live f => exact log_spec _ _ _ (applyBase_spec _ h hc)
      | bad l => exact log_spec _ _ _ (applyBase_spec _ h hc)

theorem init_inv : Inv State.init :=
  ⟨⟨(by simp [State.init, ids]), (by simp [State.init]), (by intro f; rfl)⟩, (by intro c hc; cases hc),
   (fun _ => rfl), Nat.le_refl _, ⟨(by intro e he; cases he), (by intro e he; cases he), (by intro e he; cases he)⟩⟩

theorem runOps_spec (P : Nat → List Op) (ops : List Op) (s : State) (h : Inv s) : Good s (runOps P ops s) := by
  induction ops generalizing s with
  | nil => exact ⟨h, Keeps.rfl'⟩
  | cons op ops ih =>
    simp only [runOps, List.foldl_cons]
    obtain ⟨a, b⟩ := step_spec P maxDepth op s h
    obtain ⟨a', b'⟩ := ih _ a
    exact ⟨a', b.trans b'⟩

/-! ### what `disconnect` and `clear` achieve -/

theorem disconnect_noConn (i : Nat) {s : State} (h : Inv s) : NoConn i (disconnect i s) := by
  unfold disconnect
  cases hf : find i s.cells with
  | none => intro c hc hi; exact absurd hi (find_none hf c hc)
  | some c0 =>
    simp only
    have hset : ∀ c ∈ setDisc i s.cells, c.id = i → c.conn = false := by
      intro c hc hi
      rcases mem_setDisc hc with ⟨_, hne⟩ | ⟨hcon, _, _⟩
      · exact absurd hi hne
      · exact hcon
    by_cases hc : c0.conn = true
    · rw [if_pos hc]
      by_cases h0 : s.exec = 0
      · rw [if_pos h0]
        generalize hs1 : ({ s with cells := setDisc i s.cells, exec := 1 } : State) = s1
        have hb1 : Base s1 := by
          subst hs1; exact (setDisc_base (i := i) h.base s.deferred).congr rfl rfl rfl
        have hr1 : Rel s s1 := by
          subst hs1; exact Rel.of_ids rfl rfl (descL_setDisc i s.cells) (ids_setDisc i s.cells)
        have he1 : s1.exec ≠ 0 := by subst hs1; simp
        have hn1 : NoConn i s1 := by subst hs1; exact hset
        have hr2 := rel_eraseCell i hb1 he1 (h.own.held.rel hr1)
        have hb2 := (eraseCell_base i hb1 he1).1
        have hr3 := rel_unref (eraseCell i s1) hb2 ((h.own.held.rel hr1).rel hr2)
        exact (hr2.trans hr3).desc.noConn hn1
      · rw [if_neg h0]; exact hset
    · rw [if_neg hc]
      intro c hcm hi
      have := find_unique h.base.nodup hf hcm hi
      subst this
      simpa using hc

theorem rel_discAll (is : List Nat) (s : State) : Rel s (is.foldl (fun s i => discUnder i s) s) := by
  induction is generalizing s with
  | nil => exact Rel.refl s
  | cons i is ih =>
    simp only [List.foldl_cons]
    exact (rel_discUnder i s).trans (ih (discUnder i s))

theorem discAll_allDisc (is : List Nat) (s : State) (hb : Base s) :
    ∀ i ∈ is, NoConn i (is.foldl (fun s i => discUnder i s) s) := by
  induction is generalizing s with
  | nil => intro i hi; cases hi
  | cons j js ih =>
    intro i hi
    simp only [List.foldl_cons]
    cases hi with
    | head => exact (rel_discAll js (discUnder _ s)).desc.noConn (noConn_discUnder _ hb)
    | tail _ hi' => exact ih (discUnder j s) (discUnder_base j hb) i hi'

/-- after `clear()`, at any depth, no cell of the list is connected (outside an emission the list is empty) -/
theorem clear_allDisc {s : State} (h : Inv s) : ∀ c ∈ (clear s).cells, c.conn = false := by
  by_cases h0 : s.exec = 0
  · intro c hc; rw [(clear_spec h).2 h0] at hc; cases hc
  · unfold clear
    simp only
    have hdur : s.exec > 0 := by omega
    simp only [hdur, decide_true, ↓reduceIte]
    generalize hs1 : ({ s with exec := s.exec + 1 } : State) = s1
    have hb1 : Base s1 := by subst hs1; exact h.base.congr rfl rfl rfl
    have hcells : s1.cells = s.cells := by subst hs1; rfl
    rw [← hcells]
    have hall := discAll_allDisc (ids s1.cells) s1 hb1
    have rel2 := rel_discAll (ids s1.cells) s1
    obtain ⟨_, b, _, _, _⟩ := discAll_spec (ids s1.cells) s1 hb1 (by subst hs1; exact h.pend.congr rfl rfl)
    generalize hs2 : (ids s1.cells).foldl (fun s i => discUnder i s) s1 = s2 at hall rel2 b
    have hheld : Held s2 := by
      have : Rel s s1 := by subst hs1; exact Rel.of_ids rfl rfl (DescL.refl _) rfl
      exact (h.own.held.rel this).rel rel2
    have hall2 : ∀ c ∈ s2.cells, c.conn = false := by
      intro c hc
      obtain ⟨c0, hc0, hid, _⟩ := rel2.desc c hc
      exact hall c.id (mem_ids.2 ⟨c0, hc0, hid⟩) c hc rfl
    intro c hc
    obtain ⟨c2, hc2, _, _, hcon⟩ := (rel_unref s2 b hheld).desc c hc
    cases hcc : c.conn with
    | false => rfl
    | true => have := hall2 c2 hc2; rw [hcon hcc] at this; cases this

end Sigc.SweepL
