import Sigc.Basic
/-!
# Sigc.Model — the behavioural model `B` of the libsigc++ runtime core

Executable, total (fuel-indexed) model of `signal_impl` / `signal_base` / `slot_base` / `slot_rep` /
`trackable` (as seen by slots) / `connection` / `scoped_connection` / `make_slot()` and the three
emitters of `signal.h`, at the level of detail that determines observable behaviour:

* a signal object (`Handle`) refers to a shared `Impl` (`std::shared_ptr<signal_impl>`);
* an `Impl` is the `std::list<slot_base>` (cells with unique ids), `exec_count_`, `deferred_`, and the
  number of live `signal_impl_holder`s;
* a cell is a `slot_base` (`blocked_`, `rep_`) plus whether its rep still has its `self_and_iter`
  parent record (`linked`); the end marker of an emission is a cell without a rep;
* a rep is `call_ ≠ nullptr` and the functor (absent after `destroy()` or for the dummy rep);
* a functor (`Fun`) runs a user body (`leaf`), forwards to a signal object (`fwd`, `make_slot()`), or
  holds another slot by value (`nest`); it refers to trackable objects by identity;
* a connection is the `weak_raw_ptr<slot_base>`: the id of a cell or `none` once that cell's rep died.

No proofs in this file.  The C++ function each definition mirrors is named in its doc comment.
-/
namespace Sigc.Model

/-! ## association lists -/

def aget {α} (l : List (Nat × α)) (k : Nat) : Option α :=
  match l with
  | [] => none
  | (k', v) :: t => if k' = k then some v else aget t k

def aset {α} (l : List (Nat × α)) (k : Nat) (v : α) : List (Nat × α) :=
  match l with
  | [] => [(k, v)]
  | (k', v') :: t => if k' = k then (k, v) :: t else (k', v') :: aset t k v

def adel {α} (l : List (Nat × α)) (k : Nat) : List (Nat × α) :=
  l.filter (fun p => p.1 ≠ k)

def amap {α} (l : List (Nat × α)) (f : α → α) : List (Nat × α) :=
  l.map (fun p => (p.1, f p.2))

/-! ## data -/

/-- `AV`/`TAV`: `signal<void(int)>::accumulated<Acc>` — the `slot_iterator_buf<…, void>` specialisation -/
inductive Flavour | V | I | A | TV | TI | TA | AV | TAV
deriving Repr, DecidableEq, Inhabited

def Flavour.isVoid : Flavour → Bool
  | .V | .TV | .AV | .TAV => true
  | _ => false
def Flavour.isTrackable : Flavour → Bool
  | .TV | .TI | .TA | .TAV => true
  | _ => false
def Flavour.isAcc : Flavour → Bool
  | .A | .TA | .AV | .TAV => true
  | _ => false

/-- a functor value as stored in a `typed_slot_rep` -/
inductive Fun
  /-- user functor `fid` (runs body `fid`); refers to the trackable objects `tracks`
      (`mem_fun`, `track_object`, `bind(std::ref)`) -/
  | leaf (fid : Nat) (tracks : List Nat)
  /-- `make_slot()` of the signal object `h`; `tracks = [its trackable base]` for trackable_signal -/
  | fwd (h : Nat) (tracks : List Nat)
  /-- a slot stored by value inside an adaptor (`retype_return`, `hide_return`):
      its `blocked_` flag and its functor (`none`: the inner slot was empty) -/
  | nest (blocked : Bool) (inner : Option Fun)
  /-- user functor `fid` that *owns* objects through `std::shared_ptr`: trackable objects `ownsT` and
      scoped connections `ownsK` die when the last functor copy holding them is destroyed -/
  | owner (fid : Nat) (ownsT ownsK : List Nat)
deriving Repr, Inhabited

/-- every trackable object the functor is registered in (directly or through an inner slot's rep
    whose parent is the outer rep) -/
def Fun.tracks : Fun → List Nat
  | .leaf _ ts => ts
  | .fwd _ ts => ts
  | .nest _ none => []
  | .nest _ (some f) => f.tracks
  | .owner _ _ _ => []

/-- the trackable objects / scoped connections this functor value keeps alive -/
def Fun.ownsT : Fun → List Nat
  | .owner _ ts _ => ts
  | .nest _ (some f) => f.ownsT
  | _ => []

def Fun.ownsK : Fun → List Nat
  | .owner _ _ ks => ks
  | .nest _ (some f) => f.ownsK
  | _ => []

/-- number of live copies of user functor `fid` inside this functor value -/
def Fun.count (fid : Nat) : Fun → Nat
  | .leaf f _ => if f = fid then 1 else 0
  | .fwd _ _ => 0
  | .nest _ none => 0
  | .nest _ (some f) => f.count fid
  | .owner f _ _ => if f = fid then 1 else 0

def Fun.countAll : Fun → Nat
  | .leaf _ _ => 1
  | .fwd _ _ => 0
  | .nest _ none => 0
  | .nest _ (some f) => f.countAll
  | .owner _ _ _ => 1

/-- `slot_rep`: `call_ ≠ nullptr`, `functor_` -/
structure Rep where
  call : Bool
  fn : Option Fun
deriving Repr, Inhabited

/-- `slot_base` -/
structure SlotB where
  blocked : Bool := false
  rep : Option Rep := none
deriving Repr, Inhabited

/-- `slot_base::empty()` -/
def SlotB.empty (s : SlotB) : Bool :=
  match s.rep with
  | none => true
  | some r => !r.call

/-- `slot_base(const slot_base&)`: clones the rep iff it is valid; copies `blocked_` unless the source
    has an invalidated rep (then the copy is `slot_base()`) -/
def SlotB.copy (s : SlotB) : SlotB :=
  match s.rep with
  | some r => if r.call then { blocked := s.blocked, rep := some { call := true, fn := r.fn } }
              else { blocked := false, rep := none }   -- `*this = slot_base();` also resets `blocked_`
  | none => { blocked := s.blocked, rep := none }

/-- `slot_base(slot_base&&)` for a source without parent: (destination, source afterwards) -/
def SlotB.move (s : SlotB) : SlotB × SlotB :=
  match s.rep with
  | some r => ({ blocked := s.blocked, rep := some r }, { blocked := false, rep := none })
  | none => ({ blocked := s.blocked, rep := none }, s)

/-- `slot_rep::disconnect()` on a rep without parent: `call_ = nullptr` -/
def SlotB.disconnectRep (s : SlotB) : SlotB :=
  match s.rep with
  | some r => { s with rep := some { r with call := false } }
  | none => s

/-- `typed_slot_rep::destroy()` after `notify_slot_rep_invalidated`: invalid, functor released -/
def SlotB.invalidate (s : SlotB) : SlotB :=
  match s.rep with
  | some _ => { s with rep := some { call := false, fn := none } }
  | none => s

def SlotB.tracksObj (s : SlotB) (t : Nat) : Bool :=
  match s.rep with
  | some { fn := some f, .. } => f.tracks.contains t
  | _ => false

def SlotB.live (s : SlotB) (fid : Nat) : Nat :=
  match s.rep with
  | some { fn := some f, .. } => f.count fid
  | _ => 0

def SlotB.liveAll (s : SlotB) : Nat :=
  match s.rep with
  | some { fn := some f, .. } => f.countAll
  | _ => 0

/-- a user slot variable -/
structure SlotVar where
  isVoid : Bool
  slot : SlotB
  incall : Nat := 0      -- number of direct invocations of this variable in progress
  taint : Int := -1      -- highest level of a signal this variable may forward to (recursion guard)
deriving Repr, Inhabited

/-- a cell of `signal_impl::slots_` -/
structure Cell where
  id : Nat
  slot : SlotB
  linked : Bool          -- the rep still has its `self_and_iter` parent record
deriving Repr, Inhabited

/-- `signal_impl` -/
structure Impl where
  cells : List Cell := []
  exec : Nat := 0        -- `exec_count_`
  deferred : Bool := false
  holders : Nat := 0     -- live `signal_impl_holder`s (each also owns a `shared_ptr`)
deriving Repr, Inhabited

/-- a signal object -/
structure Handle where
  obj : Nat
  fl : Flavour
  impl : Option Nat
  trk : Nat              -- identity of the `trackable` base (trackable flavours)
  lvl : Nat              -- forwarding level (recursion guard of the op language)
  everFwd : Bool := false
deriving Repr, Inhabited

inductive Strat
  | sum | stop (k : Nat) | twice | rev | never | postinc | walk (ops : List Char)
deriving Repr, Inhabited

/-- the strategy a *void* accumulator can follow: it sees no values, so a threshold (`stop k`) is `sum` -/
def Strat.forVoid : Strat → Strat
  | .stop _ => .sum
  | st => st

def Strat.forFlavour (st : Strat) (fl : Flavour) : Strat := if fl.isVoid then st.forVoid else st

inductive FSpec
  | fn (fid : Nat) | mem (fid t : Nat) | trk (fid t1 : Nat) (t2 : Option Nat) | bref (fid t : Nat)
  | nest (s : Nat) | fwd (g : Nat) | ownT (fid t : Nat) | ownK (fid k : Nat) | ownG (fid g : Nat) | bad
deriving Repr, Inhabited

inductive Op
  | newT (t : Nat) | delT (t : Nat) | notifyT (t : Nat) | cpT (j i : Nat) | mvT (j i : Nat)
  | asgT (j i : Nat) | masgT (j i : Nat)
  | mkS (i : Nat) (ty : String) (f : FSpec) | mkS0 (i : Nat) (ty : String) | cpS (j i : Nat) | mvS (j i : Nat)
  | asgS (j i : Nat) | masgS (j i : Nat) | setS (i : Nat) (f : FSpec) | delS (i : Nat) | discS (i : Nat)
  | blockS (i : Nat) (b : Bool) | blockedSq (i : Nat) | emptySq (i : Nat) | boolSq (i : Nat) | callS (i : Nat) (arg : Nat)
  | newG (i : Nat) (fl : Option Flavour) | cpG (j i : Nat) | mvG (j i : Nat) | asgG (j i : Nat)
  | masgG (j i : Nat) | delG (i : Nat)
  | conn (k g s : Nat) (first mv : Bool) | connfn (k g : Nat) (f : FSpec) (first : Bool)
  | emit (g arg : Nat) (strat : Strat) (try_ : Bool) | throw_ | clear (g : Nat) | sizeq (g : Nat)
  | emptyGq (g : Nat) | blockedGq (g : Nat) | blockG (g : Nat) (b : Bool)
  | newC (i : Nat) | cpC (j i : Nat) | asgC (j i : Nat) | delC (i : Nat) | disc (i : Nat)
  | connectedq (i : Nat) | emptyCq (i : Nat) | blockedCq (i : Nat) | blockC (i : Nat) (b : Bool)
  | newK0 (i : Nat) | newK (i c : Nat) | asgKC (i c : Nat) | mvK (j i : Nat) | masgK (j i : Nat)
  | swapK (i j : Nat) | relK (c k : Nat) | discK (i : Nat) | delK (i : Nat) | connectedKq (i : Nat)
  | blockedKq (i : Nat) | blockK (i : Nat) (b : Bool)
  | liveq (fid : Nat) | mark | allocsq | bad
deriving Repr, Inhabited

structure Line where
  text : String
  op : Op
deriving Repr, Inhabited

structure Prog where
  bodies : List (Nat × List Line)
  top : List Line
  maxdepth : Nat := 6
  maxsteps : Nat := 1500
  /-- program mode (directive `owners`): owning functors (`ownT:`/`ownK:`) are available and an *empty* slot
      cannot be connected (`emptyslot`); without it, owning functors answer `noowner`.  The two features
      are kept apart because their combination is known-finding-K1 territory that the model does not
      reproduce (a functor destructor running inside an erase defers a nested erase and the following
      sweep drops never-disconnected empty slots). -/
  owners : Bool := false
deriving Repr, Inhabited

inductive Event
  | call (depth fid arg : Nat)
  | res (depth : Nat) (text : String) (result : String)
deriving Repr, Inhabited

structure St where
  T : List (Nat × Nat) := []           -- live trackable names ↦ object id
  S : List (Nat × SlotVar) := []
  G : List (Nat × Handle) := []
  C : List (Nat × Option Nat) := []    -- connection ↦ cell id it points at
  K : List (Nat × Option Nat) := []    -- scoped_connection ↦ its connection
  impls : List (Nat × Impl) := []
  ownedT : List Nat := []              -- trackable objects kept alive only by owning functors
  ownedK : List (Nat × Option Nat) := []  -- scoped connections owned by functors ↦ their connection
  ownedG : List (Nat × Nat) := []      -- signal objects owned by functors: owner id ↦ name in `G`
  next : Nat := 1
  depth : Nat := 0
  steps : Nat := 0                     -- operations executed so far
  trace : List Event := []             -- newest first
  err : Option String := none          -- model-level error: iterator invalidated, marker missing, …
deriving Repr, Inhabited

inductive Outcome | ok | exc
deriving Repr, DecidableEq, Inhabited

def St.log (s : St) (e : Event) : St := { s with trace := e :: s.trace }
def St.fail (s : St) (m : String) : St :=
  match s.err with
  | none => { s with err := some m }
  | some _ => s
def St.fresh (s : St) : Nat × St := (s.next, { s with next := s.next + 1 })

/-! ## cells, connections, impl life time -/

/-- every `weak_raw_ptr` registered in the rep of cell `cid` is nulled (`~slot_rep → ~trackable`) -/
def nullConns (s : St) (cid : Nat) : St :=
  let f : Option Nat → Option Nat := fun p => if p = some cid then none else p
  { s with C := amap s.C f, K := amap s.K f, ownedK := amap s.ownedK f }

def nullConnsList (s : St) (cids : List Nat) : St := cids.foldl nullConns s

def setImpl (s : St) (i : Nat) (im : Impl) : St := { s with impls := aset s.impls i im }

/-- which impl holds cell `cid` -/
def findCellImpl (impls : List (Nat × Impl)) (cid : Nat) : Option Nat :=
  match impls with
  | [] => none
  | (i, im) :: t => if im.cells.any (·.id = cid) then some i else findCellImpl t cid

def getCell (s : St) (cid : Nat) : Option (Nat × Cell) :=
  match findCellImpl s.impls cid with
  | none => none
  | some i =>
    match aget s.impls i with
    | none => none
    | some im => (im.cells.find? (·.id = cid)).map (fun c => (i, c))

def updCell (s : St) (i cid : Nat) (f : Cell → Cell) : St :=
  match aget s.impls i with
  | none => s
  | some im => setImpl s i { im with cells := im.cells.map (fun c => if c.id = cid then f c else c) }

/-- `std::list::erase` of a cell: its `slot_base` is destroyed (rep deleted, connections nulled) -/
def eraseCell (s : St) (i cid : Nat) : St :=
  match aget s.impls i with
  | none => s
  | some im => nullConns (setImpl s i { im with cells := im.cells.filter (·.id ≠ cid) }) cid

/-- `signal_impl::sweep()`: erase every `empty()` cell -/
def sweep (s : St) (i : Nat) : St :=
  match aget s.impls i with
  | none => s
  | some im =>
    let dead := (im.cells.filter (·.slot.empty)).map (·.id)
    nullConnsList (setImpl s i { im with deferred := false, cells := im.cells.filter (fun c => !c.slot.empty) }) dead

/-- `signal_impl::unreference_exec()` -/
def unrefExec (s : St) (i : Nat) : St :=
  match aget s.impls i with
  | none => s
  | some im =>
    let im' := { im with exec := im.exec - 1 }
    let s := setImpl s i im'
    if im'.exec = 0 && im'.deferred then sweep s i else s

/-- the `shared_ptr` use count reached zero: `~signal_impl` (`clear()`, then the list dies) -/
def gcImpl (s : St) (i : Nat) : St :=
  match aget s.impls i with
  | none => s
  | some im =>
    if im.holders = 0 && !(s.G.any (fun p => p.2.impl = some i)) then
      nullConnsList { s with impls := adel s.impls i } (im.cells.map (·.id))
    else s

/-- `signal_impl::notify_self_and_iter_of_invalidated_slot` for cell `cid` of impl `i`
    (the caller has already nulled `call_` and detached the parent) -/
def notifyParent (s : St) (i cid : Nat) : St :=
  match aget s.impls i with
  | none => s
  | some im =>
    if im.exec = 0 then eraseCell s i cid
    else setImpl s i { im with deferred := true }

/-- `slot_rep::disconnect()` on the rep of cell `cid` -/
def disconnectCell (s : St) (cid : Nat) : St :=
  match getCell s cid with
  | none => s
  | some (i, c) =>
    let s := updCell s i cid (fun c => { c with slot := c.slot.disconnectRep, linked := false })
    if c.linked then notifyParent s i cid else s

/-- `slot_rep::notify_slot_rep_invalidated` on the rep of cell `cid`:
    invalidate, disconnect (may erase the cell), then `destroy()` if the rep still exists -/
def invalidateCell (s : St) (cid : Nat) : St :=
  match getCell s cid with
  | none => s
  | some (i, c) =>
    let s := updCell s i cid (fun c => { c with slot := c.slot.invalidate, linked := false })
    if c.linked then notifyParent s i cid else s

/-- `trackable::notify_callbacks()` of trackable object `t`, restricted to the registrations made by
    slot reps: every rep whose functor refers to `t` is invalidated -/
def invalidateTrackable (s : St) (t : Nat) : St :=
  let s := { s with S := amap s.S (fun v => if v.slot.tracksObj t then { v with slot := v.slot.invalidate } else v) }
  let victims : List Nat :=
    s.impls.foldr (fun p acc => ((p.2.cells.filter (fun c => c.slot.tracksObj t)).map (·.id)) ++ acc) []
  victims.foldl invalidateCell s

/-- `signal_base::impl()`: create the impl on first use -/
def ensureImpl (s : St) (g : Nat) : Option (St × Nat) :=
  match aget s.G g with
  | none => none
  | some h =>
    match h.impl with
    | some i => some (s, i)
    | none =>
      let (i, s) := s.fresh
      some ({ s with impls := aset s.impls i {}, G := aset s.G g { h with impl := some i } }, i)

/-- `signal_impl::insert` + `add_notification_to_iter` (`set_parent` creates the dummy rep) -/
def insertCell (s : St) (i : Nat) (first : Bool) (sl : SlotB) : St × Nat :=
  let (cid, s) := s.fresh
  let sl := match sl.rep with
    | none => { sl with rep := some { call := false, fn := none } }
    | some _ => sl
  let c : Cell := { id := cid, slot := sl, linked := true }
  match aget s.impls i with
  | none => (s.fail "insert: no impl", cid)
  | some im => (setImpl s i { im with cells := if first then c :: im.cells else im.cells ++ [c] }, cid)

/-- `signal_impl::clear()` -/
def clearImpl (s : St) (i : Nat) : St :=
  match aget s.impls i with
  | none => s
  | some im =>
    let during := im.exec > 0
    let saved := im.deferred
    let s := setImpl s i { im with exec := im.exec + 1 }
    let s := (im.cells.map (·.id)).foldl disconnectCell s
    match aget s.impls i with
    | none => s
    | some im2 =>
      let s := if during then s
               else nullConnsList (setImpl s i { im2 with deferred := saved, cells := [] }) (im2.cells.map (·.id))
      unrefExec s i

/-! ## functor specs -/

def specTaint (s : St) : FSpec → Int
  | .fwd g => match aget s.G g with
    | some h => h.lvl
    | none => -1
  | .nest sv => match aget s.S sv with
    | some v => v.taint
    | none => -1
  | _ => -1

/-- build the functor for a spec: `.inl` error text or `.inr (fun, state)` -/
def mkFun (s : St) (isVoid : Bool) : FSpec → Except String (Fun × St)
  | .fn fid => .ok (.leaf fid [], s)
  | .mem fid t | .bref fid t =>
    match aget s.T t with
    | none => .error "dead"
    | some o => .ok (.leaf fid [o], s)
  | .trk fid t1 t2 =>
    match aget s.T t1 with
    | none => .error "dead"
    | some o1 =>
      match t2 with
      | none => .ok (.leaf fid [o1], s)
      | some t2 =>
        match aget s.T t2 with
        | none => .error "dead"
        | some o2 => .ok (.leaf fid [o1, o2], s)
  | .nest sv =>
    match aget s.S sv with
    | none => .error "dead"
    | some v =>
      if !isVoid && v.isVoid then .error "badtype"
      else
        let inner := v.slot.copy
        .ok (.nest inner.blocked (match inner.rep with | some r => r.fn | none => none), s)
  | .fwd g =>
    match aget s.G g with
    | none => .error "dead"
    | some h =>
      if h.fl.isVoid != isVoid then .error "badtype"
      else if !h.fl.isTrackable && s.ownedG.any (fun p => p.2 = g) then .error "owned"
      else
        let s := { s with G := aset s.G g { h with everFwd := true } }
        .ok (.fwd h.obj (if h.fl.isTrackable then [h.trk] else []), s)
  | .ownT fid t =>
    -- the functor takes the trackable into a `shared_ptr`: the name is released
    match aget s.T t with
    | none => .error "dead"
    | some o => .ok (.owner fid [o] [], { s with T := adel s.T t, ownedT := o :: s.ownedT })
  | .ownK fid k =>
    match aget s.K k with
    | none => .error "dead"
    | some p =>
      let (id, s) := s.fresh
      .ok (.owner fid [] [id], { s with K := adel s.K k, ownedK := (id, p) :: s.ownedK })
  | .ownG fid g =>
    -- the functor takes the signal object into a `shared_ptr`; the name stays usable as an alias of the
    -- object for as long as a functor copy keeps it alive (`delG` answers `owned`)
    match aget s.G g with
    | none => .error "dead"
    | some h =>
      if h.everFwd && !h.fl.isTrackable then .error "pinned" else
      if s.ownedG.any (fun p => p.2 = g) then .error "owned" else
      let (id, s) := s.fresh
      .ok (.owner fid [] [id], { s with ownedG := (id, g) :: s.ownedG })
  | .bad => .error "badtype"

/-! ## iterator buffer (`slot_iterator_buf`) -/

structure IterBuf where
  pos : Nat              -- cell id (`i_`)
  invoked : Bool := false
  buf : Nat := 0         -- `r_`, value-initialised
deriving Repr, Inhabited

def succId (cs : List Cell) (k : Nat) : Option Nat :=
  match cs with
  | [] => none
  | c :: t => if c.id = k then (t.head?).map (·.id) else succId t k

def predId (cs : List Cell) (k : Nat) : Option Nat :=
  match cs with
  | [] => none
  | [_] => none
  | c :: d :: t => if d.id = k then some c.id else predId (d :: t) k

/-! ## the interpreter (mutual recursion on fuel) -/

def resultOf (fid arg : Nat) : Nat := (fid * 10 + arg) % 97

def showRes (isVoid : Bool) (r : Nat) : String := if isVoid then "r=void" else s!"r={r}"

def handleByObj (s : St) (o : Nat) : Option (Nat × Handle) :=
  s.G.find? (fun p => p.2.obj = o)

def setConn (s : St) (k : Nat) (p : Option Nat) : St := { s with C := aset s.C k p }

def bstr (b : Bool) : String := if b then "1" else "0"

/-- `connection::connected()` / `!empty()`: `slot_ && !slot_->empty()` -/
def connConnected (s : St) (p : Option Nat) : Bool :=
  match p with
  | none => false
  | some cid =>
    match getCell s cid with
    | none => false
    | some (_, c) => !c.slot.empty

/-- `connection::blocked()`: `slot_ ? slot_->blocked() : false` -/
def connBlocked (s : St) (p : Option Nat) : Bool :=
  match p with
  | none => false
  | some cid =>
    match getCell s cid with
    | none => false
    | some (_, c) => c.slot.blocked

/-- `connection::block(b)` -/
def connBlock (s : St) (p : Option Nat) (b : Bool) : St :=
  match p with
  | none => s
  | some cid =>
    match getCell s cid with
    | none => s
    | some (i, _) => updCell s i cid (fun c => { c with slot := { c.slot with blocked := b } })

/-! ## objects owned by functors: destruction of the last owning functor copy -/

def SlotB.holdsT (s : SlotB) (o : Nat) : Bool :=
  match s.rep with
  | some { fn := some f, .. } => f.ownsT.contains o
  | _ => false

def SlotB.holdsK (s : SlotB) (k : Nat) : Bool :=
  match s.rep with
  | some { fn := some f, .. } => f.ownsK.contains k
  | _ => false

def heldT (s : St) (o : Nat) : Bool :=
  s.S.any (fun p => p.2.slot.holdsT o) || s.impls.any (fun p => p.2.cells.any (fun c => c.slot.holdsT o))

def heldK (s : St) (k : Nat) : Bool :=
  s.S.any (fun p => p.2.slot.holdsK k) || s.impls.any (fun p => p.2.cells.any (fun c => c.slot.holdsK k))

/-- the signal object named `g` is destroyed (what `delG` does when it does not refuse): `~trackable` first
    (trackable flavours), then `~signal_base` -/
def dropHandle (s : St) (g : Nat) : St :=
  match aget s.G g with
  | none => s
  | some h =>
    let s := if h.fl.isTrackable then invalidateTrackable s h.trk else s
    let s := { s with G := adel s.G g }
    match h.impl with
    | some im => gcImpl s im
    | none => s

/-- one owned object whose last owning functor copy is gone dies: `~Trk` (→ `notify_callbacks()`),
    `~scoped_connection` (→ `disconnect()`) or the signal object (→ `dropHandle`) -/
def collectStep (s : St) : Option St :=
  match s.ownedT.find? (fun o => !heldT s o) with
  | some o => some (invalidateTrackable { s with ownedT := s.ownedT.filter (· ≠ o) } o)
  | none =>
    match s.ownedK.find? (fun p => !heldK s p.1) with
    | some (k, p) =>
      let s := { s with ownedK := s.ownedK.filter (fun q => q.1 ≠ k) }
      some (match p with
        | some cid => disconnectCell s cid
        | none => s)
    | none =>
      match s.ownedG.find? (fun p => !heldK s p.1) with
      | some (k, g) => some (dropHandle { s with ownedG := s.ownedG.filter (fun q => q.1 ≠ k) } g)
      | none => none

def collectN : Nat → St → St
  | 0, s => s
  | n+1, s =>
    match collectStep s with
    | some s' => collectN n s'
    | none => s

/-- run the destructors of every owned object that no functor copy holds any more (each step removes
    one owned object, so `ownedT.length + ownedK.length` steps reach the fixpoint);
    the identity when nothing is owned -/
def collect (s : St) : St := collectN (s.ownedT.length + s.ownedK.length + s.ownedG.length) s

/-- live copies of user functor `fid` held by the library -/
def liveCount (s : St) (fid : Nat) : Nat :=
  (s.S.map (fun p => p.2.slot.live fid)).sum
  + (s.impls.map (fun p => (p.2.cells.map (fun c => c.slot.live fid)).sum)).sum

def liveTotal (s : St) : Nat :=
  (s.S.map (fun p => p.2.slot.liveAll)).sum
  + (s.impls.map (fun p => (p.2.cells.map (fun c => c.slot.liveAll)).sum)).sum

def FSpec.isOwner : FSpec → Bool
  | .ownT _ _ | .ownK _ _ | .ownG _ _ => true
  | _ => false

/-- the mode rule of the language (see `Prog.owners`): `some result` = the operation is refused -/
def modeRule (P : Prog) (s : St) (op : Op) : Option String :=
  match op with
  | .conn _ _ sv _ _ =>
    -- (the budget also stops the growth of slot lists: beyond it nothing is connected any more)
    if s.steps > P.maxsteps then some "budget" else
    if P.owners then
      match aget s.S sv with
      | some v => if v.slot.empty then some "emptyslot" else none
      | none => none
    else none
  | .connfn _ _ f _ =>
    if s.steps > P.maxsteps then some "budget" else
    if !P.owners && f.isOwner then some "noowner" else none
  | .mkS _ _ f | .setS _ f => if !P.owners && f.isOwner then some "noowner" else none
  | _ => none

/-- the operations that run no user code: one step of the interpreter without recursion -/
def stepSimple (s : St) (op : Op) : Option (St × String) :=
  let ok (s : St) (r : String) : Option (St × String) := some (s, r)
  match op with
  -- ------------------------------------------------ trackables
  | .newT t =>
    match aget s.T t with
    | some _ => ok s "exists"
    | none => let (o, s) := s.fresh; ok { s with T := aset s.T t o } "ok"
  | .delT t =>
    match aget s.T t with
    | none => ok s "dead"
    | some o => ok (invalidateTrackable { s with T := adel s.T t } o) "ok"
  | .notifyT t =>
    match aget s.T t with
    | none => ok s "dead"
    | some o => ok (invalidateTrackable s o) "ok"
  | .cpT j i =>
    match aget s.T i with
    | none => ok s "dead"
    | some _ =>
      match aget s.T j with
      | some _ => ok s "exists"
      | none => let (o, s) := s.fresh; ok { s with T := aset s.T j o } "ok"
  | .mvT j i =>
    match aget s.T i with
    | none => ok s "dead"
    | some oi =>
      match aget s.T j with
      | some _ => ok s "exists"
      | none =>
        let (o, s) := s.fresh
        ok (invalidateTrackable { s with T := aset s.T j o } oi) "ok"
  | .asgT j i =>
    match aget s.T j, aget s.T i with
    | some oj, some _ => ok (if j = i then s else invalidateTrackable s oj) "ok"
    | _, _ => ok s "dead"
  | .masgT j i =>
    match aget s.T j, aget s.T i with
    | some oj, some oi => ok (if j = i then s else invalidateTrackable (invalidateTrackable s oj) oi) "ok"
    | _, _ => ok s "dead"
  -- ------------------------------------------------ slots
  | .mkS i ty spec =>
    match aget s.S i with
    | some _ => ok s "exists"
    | none =>
      if ty ≠ "I" && ty ≠ "V" then ok s "badtype" else
      let isVoid := ty = "V"
      match mkFun s isVoid spec with
      | .error e => ok s e
      | .ok (fn, s') =>
        let v : SlotVar := { isVoid := isVoid, slot := { blocked := false, rep := some { call := true, fn := some fn } },
                             taint := specTaint s spec }
        ok { s' with S := aset s'.S i v } "ok"
  | .mkS0 i ty =>
    match aget s.S i with
    | some _ => ok s "exists"
    | none =>
      if ty ≠ "I" && ty ≠ "V" then ok s "badtype" else
      ok { s with S := aset s.S i { isVoid := ty = "V", slot := {} } } "ok"
  | .cpS j i =>
    match aget s.S i with
    | none => ok s "dead"
    | some v =>
      match aget s.S j with
      | some _ => ok s "exists"
      | none => ok { s with S := aset s.S j { isVoid := v.isVoid, slot := v.slot.copy, taint := v.taint } } "ok"
  | .mvS j i =>
    match aget s.S i with
    | none => ok s "dead"
    | some v =>
      match aget s.S j with
      | some _ => ok s "exists"
      | none =>
        if v.incall > 0 then ok s "busy" else
        let (d, src) := v.slot.move
        ok { s with S := aset (aset s.S i { v with slot := src }) j { isVoid := v.isVoid, slot := d, taint := v.taint } } "ok"
  | .asgS j i =>
    match aget s.S j, aget s.S i with
    | some d, some v =>
      if d.isVoid != v.isVoid then ok s "badtype" else
      if d.incall > 0 then ok s "busy" else
      let taint := if d.taint < v.taint then v.taint else d.taint
      -- slot_base::operator=(const slot_base&)
      let sameRep := j = i || (d.slot.rep.isNone && v.slot.rep.isNone)
      let nd : SlotB :=
        if sameRep then { d.slot with blocked := v.slot.blocked }
        else if v.slot.empty then { d.slot with rep := none }           -- delete_rep_with_check()
        else { blocked := v.slot.blocked, rep := v.slot.copy.rep }
      ok { s with S := aset s.S j { d with slot := nd, taint := taint } } "ok"
    | _, _ => ok s "dead"
  | .masgS j i =>
    match aget s.S j, aget s.S i with
    | some d, some v =>
      if d.isVoid != v.isVoid then ok s "badtype" else
      if d.incall > 0 || v.incall > 0 then ok s "busy" else
      let taint := if d.taint < v.taint then v.taint else d.taint
      -- slot_base::operator=(slot_base&&)
      let sameRep := j = i || (d.slot.rep.isNone && v.slot.rep.isNone)
      if sameRep then ok { s with S := aset s.S j { d with slot := { d.slot with blocked := v.slot.blocked }, taint := taint } } "ok"
      else if v.slot.empty then ok { s with S := aset s.S j { d with slot := { d.slot with rep := none }, taint := taint } } "ok"
      else
        let s := { s with S := aset s.S i { v with slot := { blocked := false, rep := none } } }
        ok { s with S := aset s.S j { d with slot := { blocked := v.slot.blocked, rep := v.slot.rep }, taint := taint } } "ok"
    | _, _ => ok s "dead"
  | .setS i spec =>
    match aget s.S i with
    | none => ok s "dead"
    | some d =>
      if d.incall > 0 then ok s "busy" else
      match mkFun s d.isVoid spec with
      | .error e => ok s e
      | .ok (fn, s') =>
        let t := specTaint s spec
        let taint := if d.taint < t then t else d.taint
        -- copy assignment from a temporary valid slot with blocked_ = false
        ok { s' with S := aset s'.S i { d with slot := { blocked := false, rep := some { call := true, fn := some fn } }, taint := taint } } "ok"
  | .delS i =>
    match aget s.S i with
    | none => ok s "dead"
    | some v => if v.incall > 0 then ok s "busy" else ok { s with S := adel s.S i } "ok"
  | .discS i =>
    match aget s.S i with
    | none => ok s "dead"
    | some v => ok { s with S := aset s.S i { v with slot := v.slot.disconnectRep } } "ok"
  | .blockS i b =>
    match aget s.S i with
    | none => ok s "dead"
    | some v => ok { s with S := aset s.S i { v with slot := { v.slot with blocked := b } } } (bstr v.slot.blocked)
  | .blockedSq i =>
    match aget s.S i with
    | none => ok s "dead"
    | some v => ok s (bstr v.slot.blocked)
  | .emptySq i =>
    match aget s.S i with
    | none => ok s "dead"
    | some v => ok s (bstr v.slot.empty)
  | .boolSq i =>
    -- `slot_base::operator bool()`: `rep_ != nullptr` (true also for an invalidated slot that still has its rep)
    match aget s.S i with
    | none => ok s "dead"
    | some v => ok s (bstr v.slot.rep.isSome)
  | .newG i fl =>
    match fl with
    | none => ok s "badtype"
    | some fl =>
      match aget s.G i with
      | some _ => ok s "exists"
      | none =>
        let (o, s) := s.fresh
        let (t, s) := s.fresh
        ok { s with G := aset s.G i { obj := o, fl := fl, impl := none, trk := t, lvl := i } } "ok"
  | .cpG j i =>
    match aget s.G i with
    | none => ok s "dead"
    | some _ =>
      match aget s.G j with
      | some _ => ok s "exists"
      | none =>
        -- signal_base(const signal_base& src) : impl_(src.impl())
        match ensureImpl s i with
        | none => ok s "dead"
        | some (s, im) =>
          match aget s.G i with
          | none => ok s "dead"
          | some h =>
            let (o, s) := s.fresh
            let (t, s) := s.fresh
            ok { s with G := aset s.G j { obj := o, fl := h.fl, impl := some im, trk := t, lvl := h.lvl } } "ok"
  | .mvG j i =>
    match aget s.G i with
    | none => ok s "dead"
    | some h0 =>
      match aget s.G j with
      | some _ => ok s "exists"
      | none =>
        if h0.fl.isAcc then
          -- `accumulated` declares only a copy constructor: a move is a copy
          match ensureImpl s i with
          | none => ok s "dead"
          | some (s, im) =>
            let (o, s) := s.fresh
            let (t, s) := s.fresh
            ok { s with G := aset s.G j { obj := o, fl := h0.fl, impl := some im, trk := t, lvl := h0.lvl } } "ok"
        else
          let (o, s) := s.fresh
          let (t, s) := s.fresh
          let s := { s with G := aset (aset s.G i { h0 with impl := none }) j
                                { obj := o, fl := h0.fl, impl := h0.impl, trk := t, lvl := h0.lvl } }
          -- trackable(trackable&& src): src.notify_callbacks()
          ok (if h0.fl.isTrackable then invalidateTrackable s h0.trk else s) "ok"
  | .asgG j i =>
    match aget s.G j, aget s.G i with
    | some d, some h =>
      if d.fl ≠ h.fl then ok s "badtype" else
      if d.lvl ≠ h.lvl then ok s "badlevel" else
      -- signal_base::operator=(const signal_base& src): `if (&src == this) return *this; impl_ = src.impl();`
      if j = i then ok s "ok" else
      match ensureImpl s i with
      | none => ok s "dead"
      | some (s, im) =>
        if d.impl = some im then ok s "ok" else
        let s := { s with G := aset s.G j { d with impl := some im } }
        ok (match d.impl with | some old => gcImpl s old | none => s) "ok"
    | _, _ => ok s "dead"
  | .masgG j i =>
    match aget s.G j, aget s.G i with
    | some d, some h =>
      if d.fl ≠ h.fl then ok s "badtype" else
      if d.lvl ≠ h.lvl then ok s "badlevel" else
      -- move assignment may assume that both objects outlive the call: refused when the old slot list, which the
      -- assignment releases, may own the source or the destination (both are written to after the release)
      if !h.fl.isAcc && (s.ownedG.any (fun p => p.2 = i) || s.ownedG.any (fun p => p.2 = j))
      then ok s "owned" else
      if h.fl.isAcc then
        -- no move assignment for `accumulated`: copy assignment
        if j = i then ok s "ok" else
        match ensureImpl s i with
        | none => ok s "dead"
        | some (s, im) =>
          if d.impl = some im then ok s "ok" else
          let s := { s with G := aset s.G j { d with impl := some im } }
          ok (match d.impl with | some old => gcImpl s old | none => s) "ok"
      else if j = i then ok s "ok" else
        let s := { s with G := aset (aset s.G j { d with impl := h.impl }) i { h with impl := none } }
        let s := match d.impl with | some old => gcImpl s old | none => s
        -- trackable_signal: `if (src.impl_ != impl_) src.notify_callbacks();`
        ok (if h.fl.isTrackable && h.impl.isSome then invalidateTrackable s h.trk else s) "ok"
    | _, _ => ok s "dead"
  | .delG i =>
    match aget s.G i with
    | none => ok s "dead"
    | some h =>
      if h.everFwd && !h.fl.isTrackable then ok s "pinned" else
      if s.ownedG.any (fun p => p.2 = i) then ok s "owned" else
      -- ~trackable first (trackable flavours), then ~signal_base
      let s := if h.fl.isTrackable then invalidateTrackable s h.trk else s
      let s := { s with G := adel s.G i }
      ok (match h.impl with | some im => gcImpl s im | none => s) "ok"
  | .conn k g sv first mv =>
    match aget s.G g, aget s.S sv with
    | some h, some v =>
      if h.fl.isVoid != v.isVoid then ok s "badtype" else
      if v.taint ≥ (h.lvl : Int) then ok s "badorder" else
      if mv && v.incall > 0 then ok s "busy" else
      match ensureImpl s g with
      | none => ok s "dead"
      | some (s, im) =>
        let (cellSlot, s) :=
          if mv then
            let (d, src) := v.slot.move
            (d, { s with S := aset s.S sv { v with slot := src } })
          else (v.slot.copy, s)
        let (s, cid) := insertCell s im first cellSlot
        ok (setConn s k (some cid)) "ok"
    | _, _ => ok s "dead"
  | .connfn k g spec first =>
    match aget s.G g with
    | none => ok s "dead"
    | some h =>
      match mkFun s h.fl.isVoid spec with
      | .error e => ok s e
      | .ok (fn, s') =>
        if specTaint s spec ≥ (h.lvl : Int) then ok s' "badorder" else
        match ensureImpl s' g with
        | none => ok s "dead"
        | some (s', im) =>
          let (s', cid) := insertCell s' im first { blocked := false, rep := some { call := true, fn := some fn } }
          ok (setConn s' k (some cid)) "ok"
  | .clear g =>
    match aget s.G g with
    | none => ok s "dead"
    | some h => ok (match h.impl with | some im => clearImpl s im | none => s) "ok"
  | .sizeq g =>
    match aget s.G g with
    | none => ok s "dead"
    | some h =>
      match h.impl with
      | none => ok s "0"
      | some im => ok s (toString ((aget s.impls im).map (·.cells.length) |>.getD 0))
  | .emptyGq g =>
    match aget s.G g with
    | none => ok s "dead"
    | some h =>
      match h.impl with
      | none => ok s "1"
      | some im => ok s (bstr ((aget s.impls im).map (·.cells.isEmpty) |>.getD true))
  | .blockedGq g =>
    match aget s.G g with
    | none => ok s "dead"
    | some h =>
      match h.impl with
      | none => ok s "1"
      | some im => ok s (bstr ((aget s.impls im).map (fun x => x.cells.all (·.slot.blocked)) |>.getD true))
  | .blockG g b =>
    match aget s.G g with
    | none => ok s "dead"
    | some h =>
      match h.impl with
      | none => ok s "ok"
      | some im =>
        match aget s.impls im with
        | none => ok s "ok"
        | some x => ok (setImpl s im { x with cells := x.cells.map (fun c => { c with slot := { c.slot with blocked := b } }) }) "ok"
  -- ------------------------------------------------ connections
  | .newC i =>
    match aget s.C i with
    | some _ => ok s "exists"
    | none => ok (setConn s i none) "ok"
  | .cpC j i =>
    match aget s.C i with
    | none => ok s "dead"
    | some p =>
      match aget s.C j with
      | some _ => ok s "exists"
      | none => ok (setConn s j p) "ok"
  | .asgC j i =>
    match aget s.C j, aget s.C i with
    | some _, some p => ok (setConn s j p) "ok"
    | _, _ => ok s "dead"
  | .delC i =>
    match aget s.C i with
    | none => ok s "dead"
    | some _ => ok { s with C := adel s.C i } "ok"
  | .disc i =>
    match aget s.C i with
    | none => ok s "dead"
    | some p => ok (match p with | some cid => disconnectCell s cid | none => s) "ok"
  | .connectedq i =>
    match aget s.C i with
    | none => ok s "dead"
    | some p => ok s (bstr (connConnected s p))
  | .emptyCq i =>
    match aget s.C i with
    | none => ok s "dead"
    | some p => ok s (bstr (!connConnected s p))
  | .blockedCq i =>
    match aget s.C i with
    | none => ok s "dead"
    | some p => ok s (bstr (connBlocked s p))
  | .blockC i b =>
    match aget s.C i with
    | none => ok s "dead"
    | some p => ok (connBlock s p b) (bstr (connBlocked s p))
  -- ------------------------------------------------ scoped connections
  | .newK0 i =>
    match aget s.K i with
    | some _ => ok s "exists"
    | none => ok { s with K := aset s.K i none } "ok"
  | .newK i c =>
    match aget s.C c with
    | none => ok s "dead"
    | some p =>
      match aget s.K i with
      | some _ => ok s "exists"
      | none => ok { s with K := aset s.K i p } "ok"
  | .asgKC i c =>
    match aget s.K i, aget s.C c with
    | some old, some _ =>
      -- operator=(connection c): conn_.disconnect(); conn_ = std::move(c)   (c is a copy made first)
      let s := match old with | some cid => disconnectCell s cid | none => s
      -- the copy `c` may have been nulled by that disconnect
      match aget s.C c with
      | some p' => ok { s with K := aset s.K i p' } "ok"
      | none => ok s "ok"
    | _, _ => ok s "dead"
  | .mvK j i =>
    match aget s.K i with
    | none => ok s "dead"
    | some p =>
      match aget s.K j with
      | some _ => ok s "exists"
      | none => ok { s with K := aset (aset s.K i none) j p } "ok"
  | .masgK j i =>
    match aget s.K j, aget s.K i with
    | some old, some _ =>
      if j = i then ok s "self" else
      let s := match old with | some cid => disconnectCell s cid | none => s
      match aget s.K i with
      | some p' => ok { s with K := aset (aset s.K i none) j p' } "ok"
      | none => ok s "ok"
    | _, _ => ok s "dead"
  | .swapK i j =>
    match aget s.K i, aget s.K j with
    | some a, some b => ok { s with K := aset (aset s.K i b) j a } "ok"
    | _, _ => ok s "dead"
  | .relK c k =>
    match aget s.K k with
    | none => ok s "dead"
    | some p => ok (setConn { s with K := aset s.K k none } c p) "ok"
  | .discK i =>
    match aget s.K i with
    | none => ok s "dead"
    | some p => ok (match p with | some cid => disconnectCell s cid | none => s) "ok"
  | .delK i =>
    match aget s.K i with
    | none => ok s "dead"
    | some p =>
      let s := { s with K := adel s.K i }
      ok (match p with | some cid => disconnectCell s cid | none => s) "ok"
  | .connectedKq i =>
    match aget s.K i with
    | none => ok s "dead"
    | some p => ok s (bstr (connConnected s p))
  | .blockedKq i =>
    match aget s.K i with
    | none => ok s "dead"
    | some p => ok s (bstr (connBlocked s p))
  | .blockK i b =>
    match aget s.K i with
    | none => ok s "dead"
    | some p => ok (connBlock s p b) (bstr (connBlocked s p))
  -- ------------------------------------------------ accounting
  | .liveq fid => ok s (toString (liveCount s fid))
  | .mark => ok s "ok"
  | .allocsq => ok s "delta=?"
  | .bad => ok s "badop"
  | _ => none

mutual

/-- invoke a functor value with `arg` (the body of `call_it`) -/
def invokeFun : Nat → Prog → St → Fun → Nat → Option (St × Outcome × Nat)
  | 0, _, _, _, _ => none
  | f+1, P, s, fn, arg =>
    match fn with
    | .leaf fid _ | .owner fid _ _ =>
      let s := s.log (.call s.depth fid arg)
      match aget P.bodies fid with
      | none => some (s, .ok, resultOf fid arg)
      | some body =>
        match runBody f P { s with depth := s.depth + 1 } body with
        | none => none
        | some (s, o) => some ({ s with depth := s.depth - 1 }, o, resultOf fid arg)
    | .nest blocked inner =>
      -- `slot::operator()` of the inner slot: `if (!empty() && !blocked())`
      match inner with
      | none => some (s, .ok, 0)
      | some g => if blocked then some (s, .ok, 0) else invokeFun f P s g arg
    | .fwd o _ =>
      match handleByObj s o with
      | none => some (s.fail "forward to a destroyed signal object", .ok, 0)
      | some (_, h) => emitImpl f P s h.fl h.impl arg .sum

/-- run the operations of a functor body; an exception aborts the rest -/
def runBody : Nat → Prog → St → List Line → Option (St × Outcome)
  | 0, _, _, _ => none
  | _+1, _, s, [] => some (s, .ok)
  | f+1, P, s, l :: ls =>
    match execLine f P s l with
    | none => none
    | some (s, .exc) => some (s, .exc)
    | some (s, .ok) => runBody f P s ls

/-- one operation: logs `text => result` (or `=> exc` and propagates) -/
def execLine : Nat → Prog → St → Line → Option (St × Outcome)
  | 0, _, _, _ => none
  | f+1, P, s, l =>
    let s := { s with steps := s.steps + 1 }
    match execOp f P s l.op with
    | none => none
    | some (s, .error _) => some (collect (s.log (.res s.depth l.text "exc")), .exc)
    | some (s, .ok r) => some (collect (s.log (.res s.depth l.text r)), .ok)

/-- `emitter::emit(impl_, a)` for a signal of flavour `fl` whose handle currently has `impl` -/
def emitImpl : Nat → Prog → St → Flavour → Option Nat → Nat → Strat → Option (St × Outcome × Nat)
  | 0, _, _, _, _, _, _ => none
  | f+1, P, s, fl, impl, arg, strat =>
    match impl with
    | none => some (s, .ok, 0)          -- `!impl`: default value / accumulator over an empty range
    | some i =>
      match aget s.impls i with
      | none => some (s.fail "emit: dangling impl", .ok, 0)
      | some im =>
        if !fl.isAcc && im.cells.isEmpty then some (s, .ok, 0) else
        -- signal_impl_holder, temp_slot_list
        let (m, s) := s.fresh
        let first := match im.cells with
          | [] => m
          | c :: _ => c.id
        let s := setImpl s i { im with exec := im.exec + 1, holders := im.holders + 1,
                                       cells := im.cells ++ [{ id := m, slot := {}, linked := false }] }
        let r := if fl.isAcc then runStrat f P s i first m arg (strat.forFlavour fl)
                 else emitLoop f P s i first m arg 0
        match r with
        | none => none
        | some (s, o, v) =>
          -- ~temp_slot_list, ~signal_impl_holder
          match aget s.impls i with
          | none => some (s.fail "emit: impl destroyed during emission", o, v)
          | some im2 =>
            let s := if im2.cells.any (·.id = m) then eraseCell s i m else s.fail "emit: end marker missing"
            let s := unrefExec s i
            let s := match aget s.impls i with
              | none => s
              | some im3 => setImpl s i { im3 with holders := im3.holders - 1 }
            some (collect (gcImpl s i), o, v)

/-- the loop of the non-accumulating emitters from cell `cur` to the marker `m`;
    `r` is the value returned by the last invoked slot so far -/
def emitLoop : Nat → Prog → St → Nat → Nat → Nat → Nat → Nat → Option (St × Outcome × Nat)
  | 0, _, _, _, _, _, _, _ => none
  | f+1, P, s, i, cur, m, arg, r =>
    if cur = m then some (s, .ok, r) else
    match aget s.impls i with
    | none => some (s.fail "loop: impl destroyed", .ok, r)
    | some im =>
      match im.cells.find? (·.id = cur) with
      | none => some (s.fail "loop: iterator invalidated", .ok, r)
      | some c =>
        let step : Option (St × Outcome × Nat) :=
          match c.slot.rep with
          | some { call := true, fn := some fn } =>
            if c.slot.blocked then some (s, .ok, r) else invokeFun f P s fn arg
          | _ => some (s, .ok, r)
        match step with
        | none => none
        | some (s, .exc, v) => some (s, .exc, v)
        | some (s, .ok, v) =>
          match aget s.impls i with
          | none => some (s.fail "loop: impl destroyed", .ok, v)
          | some im2 =>
            match succId im2.cells cur with
            | none => some (s.fail "loop: iterator invalidated", .ok, v)
            | some nxt => emitLoop f P s i nxt m arg v

/-- `slot_iterator_buf::operator*` -/
def deref : Nat → Prog → St → Nat → IterBuf → Nat → Option (St × Outcome × IterBuf)
  | 0, _, _, _, _, _ => none
  | f+1, P, s, i, it, arg =>
    match aget s.impls i with
    | none => some (s.fail "deref: impl destroyed", .ok, it)
    | some im =>
      match im.cells.find? (·.id = it.pos) with
      | none => some (s.fail "deref: iterator invalidated", .ok, it)
      | some c =>
        match c.slot.rep with
        | some { call := true, fn := some fn } =>
          if c.slot.blocked || it.invoked then some (s, .ok, it) else
          match invokeFun f P s fn arg with
          | none => none
          | some (s, .exc, _) => some (s, .exc, it)
          | some (s, .ok, v) => some (s, .ok, { it with buf := v, invoked := true })
        | _ => some (s, .ok, it)

/-- forward loops of the accumulator strategies: `mode` 0 = sum, 1 = stop k, 2 = twice, 3 = never,
    4 = postinc -/
def accLoop : Nat → Prog → St → Nat → IterBuf → Nat → Nat → Nat → Nat → Nat → Option (St × Outcome × Nat)
  | 0, _, _, _, _, _, _, _, _, _ => none
  | f+1, P, s, i, it, m, arg, mode, k, r =>
    if it.pos = m then some (s, .ok, r) else
    let advance (s : St) (it : IterBuf) (r : Nat) : Option (St × Outcome × Nat) :=
      match aget s.impls i with
      | none => some (s.fail "acc: impl destroyed", .ok, r)
      | some im =>
        match succId im.cells it.pos with
        | none => some (s.fail "acc: iterator invalidated", .ok, r)
        | some nxt => accLoop f P s i { it with pos := nxt, invoked := false } m arg mode k r
    if mode = 3 then advance s it (r + 1) else
    match deref f P s i it arg with
    | none => none
    | some (s, .exc, _) => some (s, .exc, r)
    | some (s, .ok, it') =>
      -- mode 4 (`old = it++; r += *old`): the dereferenced iterator is a copy; `it` keeps its own buffer
      let it := if mode = 4 then it else it'
      let r := r + it'.buf
      if mode = 1 && r ≥ k then some (s, .ok, r) else
      if mode = 2 then
        match deref f P s i it arg with
        | none => none
        | some (s, .exc, _) => some (s, .exc, r)
        | some (s, .ok, it) => advance s it (r + it.buf)
      else advance s it r

/-- reverse walk: `it = last; while (it != first) { --it; r += *it; }` -/
def revLoop : Nat → Prog → St → Nat → IterBuf → Nat → Nat → Nat → Option (St × Outcome × Nat)
  | 0, _, _, _, _, _, _, _ => none
  | f+1, P, s, i, it, first, arg, r =>
    if it.pos = first then some (s, .ok, r) else
    match aget s.impls i with
    | none => some (s.fail "rev: impl destroyed", .ok, r)
    | some im =>
      match predId im.cells it.pos with
      | none => some (s.fail "rev: iterator invalidated", .ok, r)
      | some prv =>
        let it := { it with pos := prv, invoked := false }
        match deref f P s i it arg with
        | none => none
        | some (s, .exc, _) => some (s, .exc, r)
        | some (s, .ok, it) => revLoop f P s i it first arg (r + it.buf)

/-- scripted walk: `d` deref+add (not at the end), `i` ++ (not at the end), `x` -- (not at the
    beginning), `c` deref a copy of the iterator -/
def walkLoop : Nat → Prog → St → Nat → IterBuf → Nat → Nat → Nat → List Char → Nat → Option (St × Outcome × Nat)
  | 0, _, _, _, _, _, _, _, _, _ => none
  | _+1, _, s, _, _, _, _, _, [], r => some (s, .ok, r)
  | f+1, P, s, i, it, first, m, arg, c :: cs, r =>
    if c = 'd' then
      if it.pos = m then walkLoop f P s i it first m arg cs r else
      match deref f P s i it arg with
      | none => none
      | some (s, .exc, _) => some (s, .exc, r)
      | some (s, .ok, it) => walkLoop f P s i it first m arg cs (r + it.buf)
    else if c = 'c' then
      if it.pos = m then walkLoop f P s i it first m arg cs r else
      match deref f P s i it arg with
      | none => none
      | some (s, .exc, _) => some (s, .exc, r)
      | some (s, .ok, cp) => walkLoop f P s i it first m arg cs (r + cp.buf)
    else if c = 'i' then
      if it.pos = m then walkLoop f P s i it first m arg cs r else
      match aget s.impls i with
      | none => some (s.fail "walk: impl destroyed", .ok, r)
      | some im =>
        match succId im.cells it.pos with
        | none => some (s.fail "walk: iterator invalidated", .ok, r)
        | some nxt => walkLoop f P s i { it with pos := nxt, invoked := false } first m arg cs r
    else if c = 'x' then
      if it.pos = first then walkLoop f P s i it first m arg cs r else
      match aget s.impls i with
      | none => some (s.fail "walk: impl destroyed", .ok, r)
      | some im =>
        match predId im.cells it.pos with
        | none => some (s.fail "walk: iterator invalidated", .ok, r)
        | some prv => walkLoop f P s i { it with pos := prv, invoked := false } first m arg cs r
    else walkLoop f P s i it first m arg cs r

/-- the accumulator call: one call per emission over `[first, m)` -/
def runStrat : Nat → Prog → St → Nat → Nat → Nat → Nat → Strat → Option (St × Outcome × Nat)
  | 0, _, _, _, _, _, _, _ => none
  | f+1, P, s, i, first, m, arg, strat =>
    match strat with
    | .sum => accLoop f P s i { pos := first } m arg 0 0 0
    | .stop k => accLoop f P s i { pos := first } m arg 1 k 0
    | .twice => accLoop f P s i { pos := first } m arg 2 0 0
    | .never => accLoop f P s i { pos := first } m arg 3 0 0
    | .postinc => accLoop f P s i { pos := first } m arg 4 0 0
    | .rev => revLoop f P s i { pos := m } first arg 0
    | .walk ops => walkLoop f P s i { pos := first } first m arg ops 0

/-- one operation of the language; `.error` = a HarnessExc escapes the operation -/
def execOp : Nat → Prog → St → Op → Option (St × Except Unit String)
  | 0, _, _, _ => none
  | f+1, P, s, op =>
    let ok (s : St) (r : String) : Option (St × Except Unit String) := some (s, .ok r)
    match op with
    | .callS i arg =>
      match aget s.S i with
      | none => ok s "dead"
      | some v =>
        if s.depth ≥ P.maxdepth then ok s "toodeep" else
        if s.steps > P.maxsteps then ok s "budget" else
        match v.slot.rep with
        | some { call := true, fn := some fn } =>
          if v.slot.blocked then ok s (showRes v.isVoid 0) else
          let s := { s with S := aset s.S i { v with incall := v.incall + 1 } }
          match invokeFun f P s fn arg with
          | none => none
          | some (s, o, r) =>
            let s := match aget s.S i with
              | some v2 => { s with S := aset s.S i { v2 with incall := v2.incall - 1 } }
              | none => s.fail "callS: slot variable destroyed during its own call"
            match o with
            | .exc => some (s, .error ())
            | .ok => ok s (showRes v.isVoid r)
        | _ => ok s (showRes v.isVoid 0)
    -- ------------------------------------------------ signals
    | .emit g arg strat try_ =>
      match aget s.G g with
      | none => ok s "dead"
      | some h =>
        if s.depth ≥ P.maxdepth then ok s "toodeep" else
        if s.steps > P.maxsteps then ok s "budget" else
        match emitImpl f P s h.fl h.impl arg strat with
        | none => none
        | some (s, .exc, _) => if try_ then ok s "caught" else some (s, .error ())
        | some (s, .ok, r) => ok s (showRes h.fl.isVoid r)
    | .throw_ => some (s, .error ())
    | op =>
      match modeRule P s op with
      | some r => ok s r
      | none =>
        match stepSimple s op with
        | some (s, r) => ok s r
        | none => ok s "badop"

end

end Sigc.Model
