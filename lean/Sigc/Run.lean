import Sigc.Model
/-!
# Sigc.Run — parser of the operation language, program runner and trace printer
(the glue between the text protocol and `Sigc.Model`; no proofs)
-/
namespace Sigc.Model

def nameIdx (tok : String) : Nat := ((tok.drop 1).toString.toNat?).getD 0

def parseFlavour : String → Option Flavour
  | "V" => some .V | "I" => some .I | "A" => some .A
  | "TV" => some .TV | "TI" => some .TI | "TA" => some .TA
  | "AV" => some .AV | "TAV" => some .TAV
  | _ => none

def parseSpec (s : String) : FSpec :=
  match s.splitOn ":" with
  | ["fn", f] => .fn (f.toNat?.getD 0)
  | ["mem", f, t] => .mem (f.toNat?.getD 0) (nameIdx t)
  -- `sc:<fid>:T` = `sigc::signal_connect(signal, *T, &Trk::method<fid % 8>)`: the same functor as `mem`
  | ["sc", f, t] => .mem (8 + (f.toNat?.getD 0) % 8) (nameIdx t)   -- ids 8..15: never queried with `live?`
  | ["trk", f, t] => .trk (f.toNat?.getD 0) (nameIdx t) none
  | ["trk", f, t, u] => .trk (f.toNat?.getD 0) (nameIdx t) (some (nameIdx u))
  | ["bref", f, t] => .bref (f.toNat?.getD 0) (nameIdx t)
  | ["nest", v] => .nest (nameIdx v)
  | ["fwd", g] => .fwd (nameIdx g)
  | ["ownT", f, t] => .ownT (f.toNat?.getD 0) (nameIdx t)
  | ["ownK", f, k] => .ownK (f.toNat?.getD 0) (nameIdx k)
  | ["ownG", f, g] => .ownG (f.toNat?.getD 0) (nameIdx g)
  | _ => .bad

def parseStrat (s : String) : Strat :=
  if s = "sum" then .sum
  else if s = "twice" then .twice
  else if s = "rev" then .rev
  else if s = "never" then .never
  else if s = "postinc" then .postinc
  else if s.startsWith "stop" then .stop (((s.drop 4).toString.toNat?).getD 0)
  else if s.startsWith "w" then .walk (s.drop 1).toString.toList
  else .sum

def nat (s : String) : Nat := s.toNat?.getD 0

def parseOp (w : List String) : Op :=
  match w with
  | ["newT", t] => .newT (nameIdx t)
  | ["delT", t] => .delT (nameIdx t)
  | ["notifyT", t] => .notifyT (nameIdx t)
  | ["cpT", j, i] => .cpT (nameIdx j) (nameIdx i)
  | ["mvT", j, i] => .mvT (nameIdx j) (nameIdx i)
  | ["asgT", j, i] => .asgT (nameIdx j) (nameIdx i)
  | ["masgT", j, i] => .masgT (nameIdx j) (nameIdx i)
  | ["mkS", i, ty, f] => .mkS (nameIdx i) ty (parseSpec f)
  | ["mkS0", i, ty] => .mkS0 (nameIdx i) ty
  | ["cpS", j, i] => .cpS (nameIdx j) (nameIdx i)
  | ["mvS", j, i] => .mvS (nameIdx j) (nameIdx i)
  | ["asgS", j, i] => .asgS (nameIdx j) (nameIdx i)
  | ["masgS", j, i] => .masgS (nameIdx j) (nameIdx i)
  | ["setS", i, f] => .setS (nameIdx i) (parseSpec f)
  | ["delS", i] => .delS (nameIdx i)
  | ["discS", i] => .discS (nameIdx i)
  | ["blockS", i, b] => .blockS (nameIdx i) (b = "1")
  | ["blockedS?", i] => .blockedSq (nameIdx i)
  | ["emptyS?", i] => .emptySq (nameIdx i)
  | ["boolS?", i] => .boolSq (nameIdx i)
  | ["callS", i, a] => .callS (nameIdx i) (nat a)
  | ["newG", i, fl] => .newG (nameIdx i) (parseFlavour fl)
  | ["cpG", j, i] => .cpG (nameIdx j) (nameIdx i)
  | ["mvG", j, i] => .mvG (nameIdx j) (nameIdx i)
  | ["asgG", j, i] => .asgG (nameIdx j) (nameIdx i)
  | ["masgG", j, i] => .masgG (nameIdx j) (nameIdx i)
  | ["delG", i] => .delG (nameIdx i)
  | ["conn", k, g, s] => .conn (nameIdx k) (nameIdx g) (nameIdx s) false false
  | ["connf", k, g, s] => .conn (nameIdx k) (nameIdx g) (nameIdx s) true false
  | ["connmv", k, g, s] => .conn (nameIdx k) (nameIdx g) (nameIdx s) false true
  | ["connfmv", k, g, s] => .conn (nameIdx k) (nameIdx g) (nameIdx s) true true
  | ["connfn", k, g, f] => .connfn (nameIdx k) (nameIdx g) (parseSpec f) false
  | ["connffn", k, g, f] => .connfn (nameIdx k) (nameIdx g) (parseSpec f) true
  | ["emit", g, a] => .emit (nameIdx g) (nat a) .sum false
  | ["emit", g, a, st] => .emit (nameIdx g) (nat a) (parseStrat st) false
  | ["tryemit", g, a] => .emit (nameIdx g) (nat a) .sum true
  | ["tryemit", g, a, st] => .emit (nameIdx g) (nat a) (parseStrat st) true
  | ["throw"] => .throw_
  | ["clear", g] => .clear (nameIdx g)
  | ["size?", g] => .sizeq (nameIdx g)
  | ["emptyG?", g] => .emptyGq (nameIdx g)
  | ["blockedG?", g] => .blockedGq (nameIdx g)
  | ["blockG", g, b] => .blockG (nameIdx g) (b = "1")
  | ["newC", i] => .newC (nameIdx i)
  | ["cpC", j, i] => .cpC (nameIdx j) (nameIdx i)
  | ["asgC", j, i] => .asgC (nameIdx j) (nameIdx i)
  | ["delC", i] => .delC (nameIdx i)
  | ["disc", i] => .disc (nameIdx i)
  | ["connected?", i] => .connectedq (nameIdx i)
  | ["emptyC?", i] => .emptyCq (nameIdx i)
  | ["blockedC?", i] => .blockedCq (nameIdx i)
  | ["blockC", i, b] => .blockC (nameIdx i) (b = "1")
  | ["newK0", i] => .newK0 (nameIdx i)
  | ["newK", i, c] => .newK (nameIdx i) (nameIdx c)
  | ["asgKC", i, c] => .asgKC (nameIdx i) (nameIdx c)
  | ["mvK", j, i] => .mvK (nameIdx j) (nameIdx i)
  | ["masgK", j, i] => .masgK (nameIdx j) (nameIdx i)
  | ["swapK", i, j] => .swapK (nameIdx i) (nameIdx j)
  | ["relK", c, k] => .relK (nameIdx c) (nameIdx k)
  | ["discK", i] => .discK (nameIdx i)
  | ["delK", i] => .delK (nameIdx i)
  | ["connectedK?", i] => .connectedKq (nameIdx i)
  | ["blockedK?", i] => .blockedKq (nameIdx i)
  | ["blockK", i, b] => .blockK (nameIdx i) (b = "1")
  | ["live?", f] => .liveq (nat f)
  | ["mark"] => .mark
  | ["allocs?"] => .allocsq
  | _ => .bad

def parseLine (l : String) : Line :=
  let ws := Sigc.words l
  { text := " ".intercalate ws, op := parseOp ws }

/-- program text (list of raw lines) → `Prog` -/
def parseProg (lines : List String) : Prog :=
  let rec go (ls : List String) (cur : Option Nat) (P : Prog) : Prog :=
    match ls with
    | [] => P
    | l :: rest =>
      let ws := Sigc.words l
      match ws with
      | [] => go rest cur P
      | w0 :: _ =>
        if w0.startsWith "#" then go rest cur P
        else if w0 = "body" then
          let fid := nat (ws.getD 1 "0")
          let P := match aget P.bodies fid with
            | some _ => P
            | none => { P with bodies := aset P.bodies fid [] }
          go rest (some fid) P
        else if w0 = "end" then go rest none P
        else if w0 = "maxdepth" then go rest cur { P with maxdepth := nat (ws.getD 1 "6") }
        else if w0 = "owners" then go rest cur { P with owners := true }
        else if w0 = "maxsteps" then go rest cur { P with maxsteps := nat (ws.getD 1 "1500") }
        else
          let ln := parseLine l
          match cur with
          | some fid =>
            let b := (aget P.bodies fid).getD []
            go rest cur { P with bodies := aset P.bodies fid (b ++ [ln]) }
          | none => go rest cur { P with top := P.top ++ [ln] }
  go lines none { bodies := [], top := [] }

def sortedKeys {α} (l : List (Nat × α)) : List Nat :=
  (l.map (·.1)).mergeSort (· ≤ ·)

/-- run the top-level operations (an exception escaping a top-level operation is caught by the
    interpreter: the line was already logged as `=> exc`) -/
def runTop : Nat → Prog → St → List Line → Option St
  | _, _, s, [] => some s
  | f, P, s, l :: ls =>
    match execLine f P s l with
    | none => none
    | some (s, _) => runTop f P s ls

/-- what the harness's `teardown()` does with the objects the program left alive:
    scoped connections, connections, slots, `clear()` of every signal, signals, trackables -/
def teardown (f : Nat) (P : Prog) (s : St) : Option St :=
  let quiet (s : St) (op : Op) : Option St :=
    match execOp f P s op with
    | none => none
    | some (s, _) => some s
  let seq (s : Option St) (ops : List Op) : Option St :=
    ops.foldl (fun acc op => acc.bind (fun s => quiet s op)) s
  let s1 := seq (some s) ((sortedKeys s.K).map Op.delK)
  match s1 with
  | none => none
  | some s =>
    match seq (some s) ((sortedKeys s.C).map Op.delC ++ (sortedKeys s.S).map Op.delS
                          ++ (sortedKeys s.G).map Op.clear) with
    | none => none
    | some s =>
      -- delete every signal object, also the ones `delG` would refuse as pinned
      let s := (sortedKeys s.G).foldl (fun s g =>
        match aget s.G g with
        | none => s
        | some h =>
          let s := if h.fl.isTrackable then invalidateTrackable s h.trk else s
          let s := { s with G := adel s.G g }
          match h.impl with
          | some im => gcImpl s im
          | none => s) s
      seq (some s) ((sortedKeys s.T).map Op.delT)

def renderEvent : Event → String
  | .call d fid arg => s!"{d} call f{fid} {arg}"
  | .res d text r => s!"{d} {text} => {r}"

def defaultFuel : Nat := 1000000

/-- run a program text and render the trace exactly as the C++ harness prints it -/
def runProgram (lines : List String) : List String :=
  let P := parseProg lines
  match runTop defaultFuel P {} P.top with
  | none => ["MODEL-FUEL"]
  | some s =>
    match teardown defaultFuel P s with
    | none => ["MODEL-FUEL"]
    | some s =>
      let body := (s.trace.reverse.map renderEvent) ++ [s!"0 final live={liveTotal s}"]
      match s.err with
      | none => body
      | some e => body ++ [s!"MODEL-ERROR {e}"]

end Sigc.Model
