import Sigc.Basic
/-!
  Component model `SweepL` — ONE slot list (`sigc::internal::signal_impl`, `/repo/sigc++/signal_base.{h,cc}`,
  the emission loop of `signal_emit<void, void, int>` in `signal.h`) with the **exact destruction timing** of
  functor-owned objects: the destructor of a functor runs at the moment the library destroys the slot that
  holds it — inside `slots_.erase()` of `notify_self_and_iter_of_invalidated_slot`, inside the `erase` of
  `sweep()`, inside the destruction of the swapped-out list of `clear()`, at the destruction of the list — and
  the `scoped_connection`s it owns disconnect their cells of the *same* list right there, re-entering
  `notify…` while a `signal_impl_holder` is active.  Language, totality rules and scope: `docs/SWEEPL.md`.

  | C++                                                                 | Lean                         |
  |---------------------------------------------------------------------|------------------------------|
  | `signal_impl {slots_, exec_count_, deferred_}`                      | `State {cells, exec, deferred}` |
  | a `slot_base` in `slots_` with `rep_->parent_` (set by `insert`, cleared by `slot_rep::disconnect`) | `Cell {id, kind, conn, owned}` (`conn` = `parent_ != nullptr`; for a functor cell also = `call_ != nullptr`) |
  | `slot_base::empty()` (`!rep_ || !rep_->call_`)                      | `Cell.isEmpty`               |
  | the `slot_base()` placeholders of `temp_slot_list`                  | `marks` (their number; their positions are not observable: every placeholder is erased by the emission that inserted it, nothing is erased while it is in the list, `connect` appends behind it and the loop stops in front of it) |
  | `slot_rep::disconnect()` + `notify_self_and_iter_of_invalidated_slot` | `disconnect` (`exec_count_ == 0`: holder, `erase`, holder exit) / `discUnder` (`exec_count_ > 0`: `deferred_ = true`) |
  | `slots_.erase(it)` → `~slot_base` → `delete rep_` → `~typed_slot_rep` → functor destructor → `~Holder`: every owned `scoped_connection` disconnects | `eraseCell` → `dtor` |
  | `signal_impl::sweep()`                                              | `sweep` (`sweepIds` = one pass of the loop) |
  | `signal_impl::unreference_exec()` (`~signal_impl_exec_holder`, `~signal_impl_holder`) | `unref` |
  | `signal_impl::clear()` (current tree: exec holder, disconnect all, outside an emission restore `deferred_` and swap the slots out before they are destroyed) | `clear` |
  | `~signal_impl()` (= `clear()`, the notifications find `self_` expired; `deferred_` is restored anyway) | `clear` in `finish` |
  | `signal_impl::insert(begin()/end(), slot)`                          | `insertCell`                 |
  | `signal_emit<void,void,int>::emit` with `temp_slot_list`            | `emission`                   |

  The loops of `sweep()` and of `emit` walk a *snapshot of the identities* of the cells that were in the list when
  the loop started, and look every cell up again when they reach it: during both loops nothing but the current
  cell is erased (`exec_count_ > 0`), `sweep()` runs no code that connects, and a slot connected during an
  emission lands in front of `begin()` (already passed) or behind the placeholder.  A destructor that would run with
  `exec_count_ == 0`, and a sweep chain that runs out of fuel, set `err` (neither happens: `no_fuel_error`).
  `live` is a counter kept like the harness keeps it (copy into the list +1, destruction −1), not computed from
  the list: `live_count_spec` proves that the two agree.  No proofs in this file.
-/
namespace Sigc.SweepL

/-- what a cell stores (= the slot specs of the language) -/
inductive Kind
  | fn (f : Nat)        -- plain functor `F(f)`
  | empty               -- `sigc::slot<void(int)>()`: a `dummy_slot_rep`, `call_ == nullptr` from the start
  | own (f : Nat)       -- `OwnerF{f, shared_ptr<Holder>}`: the holder's connections are `Cell.owned`
  deriving DecidableEq, Repr

def Kind.fid : Kind → Option Nat
  | .fn f => some f
  | .empty => none
  | .own f => some f

structure Cell where
  id : Nat               -- the name `K<id>` of the connection the harness keeps
  kind : Kind
  conn : Bool            -- `rep_->parent_ != nullptr`: never disconnected
  owned : List Nat       -- the cells the holder of an owner functor disconnects when it dies, in order
  deriving DecidableEq, Repr

/-- `slot_base::empty()` -/
def Cell.isEmpty (c : Cell) : Bool := !(c.conn && c.kind.fid.isSome)

inductive Op
  | conn (first : Bool) (k : Nat) (kind : Kind)
  | own (k v : Nat)
  | disc (k : Nat)
  | connected (k : Nat)
  | clear
  | emit (a : Nat)
  | size
  | live (f : Nat)
  | bad (line : String)
  deriving Repr

structure State where
  cells : List Cell
  exec : Nat
  deferred : Bool
  marks : Nat
  used : List Nat          -- names ever given to a cell
  owners : List Nat        -- names ever given to a cell with an owner functor
  edges : List (Nat × Nat) -- ghost: every `own K<a> K<b>` performed, also of owners that are gone (theorems only)
  live : Nat → Nat         -- live copies of functor `f` held by the list (counter)
  err : Bool
  out : List String        -- trace, newest first

def State.init : State := ⟨[], 0, false, 0, [], [], [], fun _ => 0, false, []⟩

/-! ### the list -/

def find (i : Nat) : List Cell → Option Cell
  | [] => none
  | c :: cs => if c.id = i then some c else find i cs

def remove (i : Nat) : List Cell → List Cell
  | [] => []
  | c :: cs => if c.id = i then remove i cs else c :: remove i cs

def setDisc (i : Nat) (cs : List Cell) : List Cell :=
  cs.map fun c => if c.id = i then { c with conn := false } else c

def ids (cs : List Cell) : List Nat := cs.map (·.id)

def decLive (k : Kind) (live : Nat → Nat) : Nat → Nat :=
  match k.fid with
  | some f => fun g => if g = f then live g - 1 else live g
  | none => live

def incLive (k : Kind) (live : Nat → Nat) : Nat → Nat :=
  match k.fid with
  | some f => fun g => if g = f then live g + 1 else live g
  | none => live

/-- `slot_base::disconnect()` on cell `i` while `exec_count_ > 0`: `parent_ = nullptr`, the notification sets
    `deferred_` -/
def discUnder (i : Nat) (s : State) : State :=
  match find i s.cells with
  | some c => if c.conn then { s with cells := setDisc i s.cells, deferred := true } else s
  | none => s

/-- the destructor of the functor of a destroyed cell: `~Holder` disconnects what it owns, in order -/
def dtor (owned : List Nat) (s : State) : State :=
  owned.foldl (fun s v => if s.exec = 0 then { s with err := true } else discUnder v s) s

/-- `slots_.erase(it)`: the cell leaves the list, its functor copy dies, then the functor's destructor runs -/
def eraseCell (i : Nat) (s : State) : State :=
  match find i s.cells with
  | some c => dtor c.owned { s with cells := remove i s.cells, live := decLive c.kind s.live }
  | none => s

/-- one pass of the loop of `sweep()` over the cells that were in the list when it started -/
def sweepIds : List Nat → State → State
  | [], s => s
  | i :: is, s =>
    match find i s.cells with
    | none => sweepIds is s
    | some c =>
      if c.isEmpty then
        -- `(*i).disconnect()`: only a slot that was empty when connected still has its parent here
        let s1 := if c.conn then { s with cells := setDisc i s.cells, deferred := true } else s
        sweepIds is (eraseCell i s1)
      else sweepIds is s

/-- `sweep()` including the `~signal_impl_holder` at its end, which may call `sweep()` again -/
def sweep : Nat → State → State
  | 0, s => { s with err := true }
  | n + 1, s =>
    -- a placeholder of `temp_slot_list` in the list would be `empty()` and erased here, and erased again by
    -- `~temp_slot_list`: the model does not describe that (it does not happen: `marks ≤ exec`)
    if s.marks ≠ 0 then { s with err := true } else
    let s1 := { s with exec := s.exec + 1, deferred := false }
    let s2 := sweepIds (ids s1.cells) s1
    let s3 := { s2 with exec := s2.exec - 1 }
    if s3.exec = 0 ∧ s3.deferred = true then sweep n s3 else s3

/-- `unreference_exec()` -/
def unref (s : State) : State :=
  let s1 := { s with exec := s.exec - 1 }
  if s1.exec = 0 ∧ s1.deferred = true then sweep (s1.cells.length + 1) s1 else s1

/-- `slot_base::disconnect()` on cell `i`, any `exec_count_` -/
def disconnect (i : Nat) (s : State) : State :=
  match find i s.cells with
  | none => s
  | some c =>
    if c.conn then
      if s.exec = 0 then
        unref (eraseCell i { s with cells := setDisc i s.cells, exec := 1 })
      else { s with cells := setDisc i s.cells, deferred := true }
    else s

def insertCell (first : Bool) (k : Nat) (kind : Kind) (s : State) : State :=
  let c : Cell := ⟨k, kind, true, []⟩
  { s with cells := if first then c :: s.cells else s.cells ++ [c],
           used := k :: s.used,
           owners := (match kind with | .own _ => k :: s.owners | _ => s.owners),
           live := incLive kind s.live }

/-- destruction of the swapped-out list of `clear()` -/
def destroyAll (old : List Cell) (s : State) : State :=
  old.foldl (fun s c => dtor c.owned { s with live := decLive c.kind s.live }) s

def clear (s : State) : State :=
  let during := decide (s.exec > 0)
  let saved := s.deferred
  let s1 := { s with exec := s.exec + 1 }
  let s2 := (ids s1.cells).foldl (fun s i => discUnder i s) s1
  let s3 := if during then s2 else destroyAll s2.cells { s2 with deferred := saved, cells := [] }
  unref s3

def addOwned (k v : Nat) (cs : List Cell) : List Cell :=
  cs.map fun c => if c.id = k then { c with owned := c.owned ++ [v] } else c

/-! ### operations -/

def maxDepth : Nat := 3

def kindText : Kind → String
  | .fn f => "fn:" ++ toString f
  | .empty => "empty"
  | .own f => "own:" ++ toString f

def Op.text : Op → String
  | .conn false k kd => "conn K" ++ toString k ++ " " ++ kindText kd
  | .conn true k kd => "connf K" ++ toString k ++ " " ++ kindText kd
  | .own k v => "own K" ++ toString k ++ " K" ++ toString v
  | .disc k => "disc K" ++ toString k
  | .connected k => "connected? K" ++ toString k
  | .clear => "clear"
  | .emit a => "emit " ++ toString a
  | .size => "size?"
  | .live f => "live? " ++ toString f
  | .bad l => l

def log (d : Nat) (t r : String) (s : State) : State :=
  { s with out := (toString d ++ " " ++ t ++ " => " ++ r) :: s.out }

/-- refusal (state unchanged), if any -/
def check (s : State) : Op → Option String
  | .conn _ k _ => if k ∈ s.used then some "exists" else none
  | .own k v =>
    if k ∉ s.used ∨ v ∉ s.used then some "dead"
    else if k = v then some "self"
    else if k ∉ s.owners then some "notowner"
    else match find k s.cells with
      | none => some "dead"            -- the cell is gone, and its holder with it
      | some _ => none
  | .disc k => if k ∈ s.used then none else some "dead"
  | .connected k => if k ∈ s.used then none else some "dead"
  | .bad _ => some "badop"
  | _ => none

/-- the operations that are not emissions -/
def applyBase (op : Op) (s : State) : State × String :=
  match op with
  | .conn first k kd => (insertCell first k kd s, "ok")
  | .own k v => ({ s with cells := addOwned k v s.cells, edges := (k, v) :: s.edges }, "ok")
  | .disc k => (disconnect k s, "ok")
  | .connected k =>
    (s, match find k s.cells with
        | some c => if c.isEmpty then "0" else "1"
        | none => "0")
  | .clear => (clear s, "ok")
  | .size => (s, toString (s.cells.length + s.marks))
  | .live f => (s, toString (s.live f))
  | .emit _ => (s, "ok")
  | .bad _ => (s, "badop")

/-- one emission; `body` runs one operation of a functor body (one level deeper) -/
def emission (body : Op → State → State) (P : Nat → List Op) (d a : Nat) (s : State) : State :=
  if s.cells.isEmpty ∧ s.marks = 0 then s
  else
    let s1 := { s with exec := s.exec + 1, marks := s.marks + 1 }
    let s2 := (ids s1.cells).foldl (fun s i =>
      match find i s.cells with
      | some c =>
        if c.isEmpty then s
        else match c.kind.fid with
          | some f =>
            (P f).foldl (fun s op => body op s)
              { s with out := (toString (d + 1) ++ " call f" ++ toString f ++ " " ++ toString a) :: s.out }
          | none => s
      | none => s) s1
    unref { s2 with marks := s2.marks - 1 }

/-- one operation with `n` more levels of emission allowed (depth `maxDepth - n`) -/
def step (P : Nat → List Op) : Nat → Op → State → State
  | n, op, s =>
    let d := maxDepth - n
    match check s op with
    | some r => log d op.text r s
    | none =>
      match op, n with
      | .emit _, 0 => log d op.text "toodeep" s
      | .emit a, n + 1 => log d op.text "ok" (emission (step P n) P d a s)
      | op, _ => let (s', r) := applyBase op s; log d op.text r s'

def runOps (P : Nat → List Op) (ops : List Op) (s : State) : State :=
  ops.foldl (fun s op => step P maxDepth op s) s

def run (P : Nat → List Op) (ops : List Op) : State := runOps P ops State.init

/-- destruction of the list at the end of the program -/
def finish (s : State) : State := clear s

/-! ### driver: text → operations → trace -/

/-- plain decimal numerals of at most 9 digits (what the harness accepts) -/
def parseNat (w : String) : Option Nat :=
  if 0 < w.length ∧ w.length ≤ 9 ∧ w.all Char.isDigit then w.toNat? else none

def parseName (w : String) : Option Nat :=
  match w.toList with
  | 'K' :: rest => parseNat (String.ofList rest)
  | _ => none

def parseKind (w : String) : Option Kind :=
  match w.splitOn ":" with
  | ["fn", f] => (parseNat f).map Kind.fn
  | ["own", f] => (parseNat f).map Kind.own
  | ["empty"] => some .empty
  | _ => none

def parseOp (line : String) : Op :=
  let r : Option Op :=
    match words line with
    | ["conn", k, kd] => do some (.conn false (← parseName k) (← parseKind kd))
    | ["connf", k, kd] => do some (.conn true (← parseName k) (← parseKind kd))
    | ["own", k, v] => do some (.own (← parseName k) (← parseName v))
    | ["disc", k] => (parseName k).map .disc
    | ["connected?", k] => (parseName k).map .connected
    | ["clear"] => some .clear
    | ["emit", a] => (parseNat a).map .emit
    | ["size?"] => some .size
    | ["live?", f] => (parseNat f).map .live
    | _ => none
  r.getD (.bad line)

/-- split the program into functor bodies (`body <fid>` … `end`) and top-level operations -/
def parseProg : List String → Option Nat → List (Nat × Op) → List Op → List (Nat × Op) × List Op
  | [], _, bs, top => (bs.reverse, top.reverse)
  | l :: ls, cur, bs, top =>
    match words l, cur with
    | ["body", f], none =>
      match parseNat f with
      | some f => parseProg ls (some f) bs top
      | none => parseProg ls none bs (parseOp l :: top)
    | ["end"], some _ => parseProg ls none bs top
    | _, some f => parseProg ls (some f) ((f, parseOp l) :: bs) top
    | _, none => parseProg ls none bs (parseOp l :: top)

def bodyOf (bs : List (Nat × Op)) (f : Nat) : List Op := (bs.filter fun b => b.1 = f).map (·.2)

def fidsOf (bs : List (Nat × Op)) (top : List Op) : List Nat :=
  ((bs.map (·.2)) ++ top).filterMap fun
    | .conn _ _ kd => kd.fid
    | _ => none

def runProgram (lines : List String) : List String :=
  let progLines := (lines.map fun l => " ".intercalate (words l)).filter fun l => l ≠ "" ∧ !l.startsWith "#"
  let (bs, top) := parseProg progLines none [] []
  let s := run (bodyOf bs) top
  let s' := finish s
  let total := ((fidsOf bs top).eraseDups.map s'.live).foldl (· + ·) 0
  s.out.reverse ++ ["0 final live=" ++ toString total ++ (if s'.err then " fuel" else "")]

end Sigc.SweepL
