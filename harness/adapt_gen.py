"""Generator helpers and build/run machinery shared by checks/props/c10.py and c11.py.

  * Builder: per (repo tree, support header, flags) cache directory under /verif/.cache/adapt_<tag>/<key>/
    holding the generated sigc++config.h, a precompiled header of adapt_support.h (= <sigc++/sigc++.h> + the
    recording targets), the five library objects and one executable per generated translation unit
    (cached by the hash of its text).  Compiles in parallel, runs in parallel, re-runs the tail of a
    translation unit whose program died (sanitizer report / crash) so every case gets an observation.
  * C10 grammar: functor expressions over recording targets, C++ text + driver line + documented result.
    Values are (type, n) with type i/l/d/m (m = av::MStr, move-sensitive); a *reference result* is (code, n, cell)
    with code r<t> (T&) / k<t> (const T&) and cell the pool object it refers to: produced by reference-returning
    targets ("RL"), kept by every forwarding adaptor, re-typed by retype_return<T&> ("RRR"), produced by
    bind_return(f, std::ref(x)) / std::cref(x) ("BR" with a reference value).  GenC10.mcase builds the cases with
    MStr arguments (categories of the argument expression tracked per adaptor so that everything generated compiles).
  * C11 grammar: see the second half.
"""
import hashlib
import os
import re
import shutil
import sys

sys.path.insert(0, os.path.join(os.path.dirname(os.path.dirname(os.path.abspath(__file__))), "checks"))
import common  # noqa: E402

HARNESS = os.path.dirname(os.path.abspath(__file__))
SUPPORT = os.path.join(HARNESS, "adapt_support.h")
FLAGS = ["-std=c++17", "-O1", "-fsanitize=address,undefined", "-fno-sanitize-recover=all"]
RUN_ENV = {"ASAN_OPTIONS": "detect_leaks=1:abort_on_error=0:exitcode=23", "UBSAN_OPTIONS": "print_stacktrace=0"}


class Builder:
    def __init__(self, tag):
        self.tag = tag
        self.root = os.path.join(common.CACHE, "adapt_" + tag)
        self.key = common.repo_hash(" ".join(FLAGS) + open(SUPPORT).read())
        self.dir = os.path.join(self.root, self.key)
        self.inc = os.path.join(self.dir, "inc")
        self.pch = os.path.join(self.dir, "pch")
        self.lib = os.path.join(self.dir, "lib")
        self.tu = os.path.join(self.dir, "tu")
        self.compiled = 0
        self.cached = 0
        self.objs = []

    def base(self):
        return ["g++"] + FLAGS + ["-I", self.pch, "-I", self.inc, "-I", common.REPO]

    def prepare(self):
        """returns an error string or None"""
        with common.FileLock("adapt_" + self.tag):
            for d in (self.inc, self.pch, self.lib, self.tu):
                common.ensure_dir(d)
            os.utime(self.dir)
            # keep the two most recent trees (disk)
            if os.path.isdir(self.root):
                fam = sorted((d for d in os.listdir(self.root)),
                             key=lambda d: os.path.getmtime(os.path.join(self.root, d)))
                for d in fam[:-2]:
                    if d != self.key:
                        shutil.rmtree(os.path.join(self.root, d), ignore_errors=True)
            common.gen_config_header(self.inc)
            cmds = []
            hdr = os.path.join(self.pch, "adapt_support.h")
            gch = hdr + ".gch"
            if not os.path.exists(gch):
                shutil.copyfile(SUPPORT, hdr)
                cmds.append(("pch", ["g++"] + FLAGS + ["-I", self.inc, "-I", common.REPO, "-x", "c++-header",
                                                      hdr, "-o", gch], self.dir))
            self.objs = []
            for i, c in enumerate(common.LIB_CC):
                o = os.path.join(self.lib, "l%d.o" % i)
                self.objs.append(o)
                if not os.path.exists(o):
                    cmds.append((o, ["g++"] + FLAGS + ["-I", self.inc, "-I", common.REPO, "-DSIGC_BUILD", "-c",
                                                      os.path.join(common.REPO, c), "-o", o], self.dir))
            res = common.parallel(cmds)
            for k, (rc, out) in res.items():
                if rc != 0:
                    for k2 in res:
                        p = gch if k2 == "pch" else k2
                        if os.path.exists(p):
                            os.unlink(p)
                    return "cannot build %s: %s" % (k, out[-2500:])
        return None

    def build(self, tus):
        """tus: list of source texts.  Returns (list of exe paths or None, list of error strings)."""
        todo = []
        exes = []
        for src in tus:
            h = hashlib.sha256(src.encode()).hexdigest()[:20]
            exe = os.path.join(self.tu, h)
            exes.append(exe)
            if os.path.exists(exe):
                os.utime(exe)
                self.cached += 1
            elif exe not in [t[0] for t in todo]:
                cc = exe + ".cc"
                with open(cc, "w") as f:
                    f.write(src)
                todo.append((exe, self.base() + [cc] + self.objs + ["-o", exe + ".tmp"], self.dir))
        errs = []
        if todo:
            res = common.parallel(todo, timeout=900)
            for exe, (rc, out) in res.items():
                if rc != 0 or not os.path.exists(exe + ".tmp"):
                    errs.append("compile failed (%s.cc): %s" % (exe, _compile_excerpt(out)))
                    exes = [None if e == exe else e for e in exes]
                else:
                    os.rename(exe + ".tmp", exe)
                    self.compiled += 1
                    if os.path.exists(exe + ".cc"):
                        os.unlink(exe + ".cc")
        return exes, errs

    def run(self, exes, ncases):
        """exes[i] runs ncases[i] cases numbered 0..n-1 inside its TU.
        Returns list (per TU) of dict local-id -> observation string (or 'crash:<excerpt>')."""
        cmds = [(i, [exe, "0"], self.dir) for i, exe in enumerate(exes) if exe]
        out = {}
        first = _run_parallel(cmds)
        for i, exe in enumerate(exes):
            obs = {}
            out[i] = obs
            if not exe:
                continue
            rc, text = first[i]
            start = 0
            rounds = 0
            while True:
                got = _parse_obs(text)
                obs.update(got)
                done = max([start - 1] + list(got)) + 1
                if done >= ncases[i] or rounds > ncases[i] + 2:
                    break
                # the program died inside local case `done`
                obs[done] = "crash:" + _crash_excerpt(text, rc)
                start = done + 1
                rounds += 1
                if start >= ncases[i]:
                    break
                rc, text = common.sh([exe, str(start)], cwd=self.dir, timeout=300, env=RUN_ENV)
        return [out[i] for i in range(len(exes))]

    def prune(self, keep=400):
        try:
            fs = sorted((os.path.join(self.tu, f) for f in os.listdir(self.tu)), key=os.path.getmtime)
        except OSError:
            return
        for f in fs[:-keep]:
            try:
                os.unlink(f)
            except OSError:
                pass


def _run_parallel(cmds):
    from concurrent.futures import ThreadPoolExecutor
    res = {}

    def one(c):
        key, argv, cwd = c
        return key, common.sh(argv, cwd=cwd, timeout=600, env=RUN_ENV)

    with ThreadPoolExecutor(max_workers=common.NCPU) as ex:
        for key, r in ex.map(one, cmds):
            res[key] = r
    return res


def _parse_obs(text):
    got = {}
    for line in text.split("\n"):
        m = re.match(r"^(\d+) (\S.*)$", line)
        if m:
            got[int(m.group(1))] = m.group(2).strip()
    return got


def _crash_excerpt(text, rc):
    m = re.search(r"(TERMINATE [^\n]*|ERROR: \w+Sanitizer: [^\n]*|runtime error: [^\n]*|terminate called[^\n]*)", text)
    return ("rc=%d " % rc) + (m.group(1) if m else text[-200:].replace("\n", " | "))


def _compile_excerpt(out):
    errs = [l for l in out.split("\n") if "error" in l or "required from here" in l]
    return " | ".join(errs[:6])[:1500] if errs else out[-1200:]


def make_tu(bodies):
    """bodies: list of C++ statements blocks; local case i is `static void case_i()`"""
    s = ['#include "adapt_support.h"', "#include <cstdlib>"]
    for i, b in enumerate(bodies):
        s.append("static void case_%d()\n{\n%s\n}" % (i, b))
    s.append("int main(int argc, char** argv)\n{\n  int from = argc > 1 ? std::atoi(argv[1]) : 0;")
    s.append("  void (*cases[])() = {%s};" % ", ".join("case_%d" % i for i in range(len(bodies))))
    s.append("  for (int i = from; i < %d; ++i)\n    cases[i]();\n  return 0;\n}" % len(bodies))
    return "\n".join(s) + "\n"


def build_and_run(b, n, body_fn, per_tu):
    """n cases; body_fn(i, local_id) -> C++ body of case i.  Cases are grouped into translation units of `per_tu`;
    a unit that does not compile is split into single-case units so that the other cases still run.
    Returns (obs, nocompile): obs[i] = observation string | 'crash:...' | None, nocompile[i] = compiler excerpt."""
    groups = group_tus(n, per_tu)
    obs = [None] * n
    nocompile = {}
    tus = [make_tu([body_fn(i, j) for j, i in enumerate(g)]) for g in groups]
    exes, errs = b.build(tus)
    retry = [i for g, exe in zip(groups, exes) if exe is None for i in g]
    ran = b.run(exes, [len(g) for g in groups])
    for g, o in zip(groups, ran):
        for j, i in enumerate(g):
            obs[i] = o.get(j)
    if retry:
        tus1 = [make_tu([body_fn(i, 0)]) for i in retry]
        exes1, errs1 = b.build(tus1)
        ran1 = b.run(exes1, [1] * len(retry))
        emap = {}
        for e in errs1:
            m = re.match(r"compile failed \((\S+)\.cc\): (.*)", e, re.S)
            if m:
                emap[m.group(1)] = m.group(2)
        for i, exe, src, o in zip(retry, exes1, tus1, ran1):
            if exe is None:
                h = hashlib.sha256(src.encode()).hexdigest()[:20]
                nocompile[i] = emap.get(os.path.join(b.tu, h), "does not compile")
            else:
                obs[i] = o.get(0)
    return obs, nocompile


def model_run(lines):
    """run the Lean driver (mode adapt) on the lines; returns list of output lines or raises"""
    rc, out = common.sh([common.driver(), "adapt"], input="\n".join(lines) + "\n", timeout=600)
    res = [l for l in out.split("\n") if l.strip()]
    if rc != 0 or len(res) != len(lines):
        raise RuntimeError("driver failed rc=%d (%d lines for %d cases): %s" % (rc, len(res), len(lines), out[-500:]))
    return res


def canon_log(logtext):
    """call records sorted stably by target id (the order between compose's two getters is unspecified in C++)"""
    if not logtext:
        return ""
    recs = logtext.split(";")
    return ";".join(sorted(recs, key=lambda r: int(r.split("(")[0])))


def group_tus(n, per):
    return [list(range(i, min(n, i + per))) for i in range(0, n, per)]


# ====================================================================================================
#  C10
# ====================================================================================================
TYS = "ild"
CXX_TY = {"i": "int", "l": "long", "d": "double", "v": "void",
          # the move-sensitive class: parameter declared by value / const& / &&
          "m": "av::MStr", "mc": "const av::MStr&", "mr": "av::MStr&&",
          # the JSON-like class (a number or an array; Json(std::initializer_list<Json>) accepts a Json itself): only a
          # bound value of bind / bind_return, received by a parameter declared Json / const Json&
          "j": "av::Json", "jc": "const av::Json&",
          # reference results: T& / const T& to the target's pool object
          "ri": "int&", "rl": "long&", "rd": "double&", "ki": "const int&", "kl": "const long&", "kd": "const double&",
          # declared parameter types of QL targets (and hence of retype's T_type): the string-like class Str (converting
          # constructor Str(long)), `const T&` ("c<t>") and `T&&` ("x<t>")
          "s": "av::Str", "ci": "const int&", "cl": "const long&", "cd": "const double&", "cs": "const av::Str&",
          "xi": "int&&", "xl": "long&&", "xd": "double&&", "xs": "av::Str&&"}
REF_RET = ("ri", "rl", "rd", "ki", "kl", "kd")
PAR_CODES = ("i", "l", "d", "s", "ci", "cl", "cd", "cs", "xi", "xl", "xd", "xs")
THREW = ("threw", "threw2")       # an exception of type K1 (av::Thrown) / K2 (av::Thrown2) reached the caller


def threw_res(thr):
    return THREW[int(thr) - 1]


def par_base(p):
    """value type of a declared parameter code"""
    return p[1] if len(p) == 2 and p[0] in "cx" else p


def par_mode(p):
    """'v' by value, 'c' const T&, 'x' T&&"""
    return p[0] if len(p) == 2 and p[0] in "cx" else "v"


def cast_par(p, v):
    """static_cast<T_type>(a) handed to a parameter declared T_type / initialisation of a declared parameter:
    conversion, then binding — a const T& binds directly to a reference result of type T, everything else is a
    (converted) temporary that lives until the call returns: the target reads the converted value"""
    if par_mode(p) == "c":
        return bind_cref(par_base(p), v)
    return conv(par_base(p), v)


def is_ref(ret):
    return ret in REF_RET


def base_ty(ret):
    """the value type a result type decays to"""
    return ret[1] if ret in REF_RET else ret


def decay(v):
    """a reference result (code, n, cell) read as a value"""
    if isinstance(v, tuple) and len(v) == 3:
        return (v[0][1], v[1])
    return v


def bind_cref(t, v):
    """binding to a parameter declared const T&: a reference result of type T is that very object, anything else
    arrives as a (converted) temporary"""
    if isinstance(v, tuple) and len(v) == 3 and v[0][1] == t:
        return ("k" + t, v[1], v[2])
    return conv(t, v)


def lit(v):
    t, n = v
    if t == "m":
        return "av::MStr(%d)" % n
    if t == "j":
        return "av::Json(%d)" % n
    if t == "d":
        s = "%s%d.%d" % ("-" if n < 0 else "", abs(n) // 10, abs(n) % 10)
    elif t == "l":
        s = "%dL" % n
    else:
        s = "%d" % n
    return "(%s)" % s if n < 0 else s


def vtok(v):
    if len(v) == 3:          # reference result
        return "%s:%s:%d:%d" % ("cref" if v[0][0] == "k" else "ref", v[0][1], v[2], v[1])
    return "%s:%d" % v


def conv(t, v):
    """documented conversion to type t (double -> integer truncates toward zero); doubles are tenths;
    a reference result converts like the object it refers to and becomes a value"""
    if v == "unit":
        return v
    s, n = decay(v)
    if t[0] == "m" or s == "m":
        return ("m", n)      # MStr to MStr only
    if t[0] == "j" or s == "j":
        return ("j", n)      # Json to Json only
    if s == "d" and t == "d":
        return (t, n)
    if s == "d":
        q = abs(n) // 10
        return (t, -q if n < 0 else q)
    if t == "d":
        return (t, n * 10)
    return (t, n)


def trunc(v):
    s, n = decay(v)
    if s == "d":
        q = abs(n) // 10
        return -q if n < 0 else q
    return n


class ExprC10:
    """node kinds: L B H RT RR HR BR TO SL C1 C2 EC (tuples, first component the kind)"""

    @staticmethod
    def tokens(e):
        k = e[0]
        if k == "L":
            _, i, thr, ret, tys, _f = e
            return ["L", str(i), str(int(thr)), ret, str(len(tys))] + list(tys)
        if k == "V":
            return ["V", str(e[1]), str(int(e[2])), e[3]]
        if k in ("PL", "QL"):
            _, i, thr, ret, tys, _f = e
            return [k, str(i), str(int(thr)), ret, str(len(tys))] + list(tys)
        if k == "PC":
            return ["PC", str(e[1]), e[2], e[3]]
        if k == "RL":
            _, i, thr, code, tys, _f = e
            return ["RL", str(i), str(int(thr)), "1" if code[0] == "k" else "0", code[1], str(len(tys))] + list(tys)
        if k == "RRR":
            return ["RRR", "1" if e[1][0] == "k" else "0", e[1][1]] + ExprC10.tokens(e[2])
        if k == "B":
            _, loc, bs, f = e
            return ["B", str(loc), str(len(bs))] + [vtok(b) for b in bs] + ExprC10.tokens(f)
        if k == "H":
            return ["H", str(e[1])] + ExprC10.tokens(e[2])
        if k == "RT":
            return ["RT", str(len(e[1]))] + list(e[1]) + ExprC10.tokens(e[2])
        if k == "RR":
            return ["RR", e[1]] + ExprC10.tokens(e[2])
        if k == "HR":
            return ["HR"] + ExprC10.tokens(e[1])
        if k == "BR":
            return ["BR", vtok(e[1])] + ExprC10.tokens(e[2])
        if k == "TO":
            return ["TO", str(e[1])] + ExprC10.tokens(e[2])
        if k == "SL":
            return ["SL", e[1], str(len(e[2]))] + list(e[2]) + ExprC10.tokens(e[3])
        if k == "C1":
            return ["C1"] + ExprC10.tokens(e[1]) + ExprC10.tokens(e[2])
        if k == "C2":
            return ["C2"] + ExprC10.tokens(e[1]) + ExprC10.tokens(e[2]) + ExprC10.tokens(e[3])
        if k == "EC":
            return ["EC"] + ExprC10.tokens(e[1]) + ExprC10.tokens(e[2])
        raise ValueError(k)

    @staticmethod
    def cxx(e, under_retype=False):
        k = e[0]
        if k in ("L", "RL"):
            _, i, thr, ret, tys, fobj = e
            targs = ", ".join([str(i), str(int(thr)), CXX_TY[ret]] + [CXX_TY[t] for t in tys])
            if under_retype:
                return "sigc::ptr_fun(&av::leaf<%s>)" % targs
            if fobj == "nx":
                # a functor class whose call operator is declared noexcept (a non-throwing target; the model does not
                # distinguish it: noexcept has no effect on what a correct adaptor does)
                return "av::NxRec<%s>()" % ", ".join([str(i), CXX_TY[ret]] + [CXX_TY[t] for t in tys])
            return ("av::Rec<%s>()" if fobj else "&av::leaf<%s>") % targs
        if k == "QL":
            _, i, thr, ret, tys, fobj = e
            targs = ", ".join([str(i), str(int(thr)), CXX_TY[ret]] + [CXX_TY[t] for t in tys])
            if under_retype:
                return "sigc::ptr_fun(&av::qleaf<%s>)" % targs
            return ("av::QRec<%s>()" if fobj else "&av::qleaf<%s>") % targs
        if k == "PC":
            # a partial catcher: rethrows the exception in flight and handles only the listed types
            return "av::PCatch<%d, %s, %s, %s>()" % (e[1], CXX_TY[e[2]], "true" if "1" in e[3] else "false",
                                                    "true" if "2" in e[3] else "false")
        if k == "PL":
            _, i, thr, ret, tys, fobj = e
            targs = ", ".join([str(i), str(int(thr)), CXX_TY[ret]] + [CXX_TY[t] for t in tys])
            if under_retype:
                return "sigc::ptr_fun(&av::pleaf<%s>)" % targs
            return ("av::PRec<%s>()" if fobj else "&av::pleaf<%s>") % targs
        if k == "V":
            return "av::VRec<%d, %d, %s>()" % (e[1], int(e[2]), CXX_TY[e[3]])
        if k == "B":
            _, loc, bs, f = e
            # odd bound values are passed as named variables (lvalues) that are overwritten after the adaptor is built
            if any(len(b) == 3 for b in bs):
                # bound types spelled explicitly (bind.h: "the types of the arguments can optionally be specified"):
                # bind<I, F, T&, ...>(f, x, ...) / bind<F, const T&, ...>(f, x, ...) — a reference-typed bound argument
                # is the pool object x itself; F = decltype of the functor expression
                fx = ExprC10.cxx(f)
                tys, vals = [], []
                for b in bs:
                    if len(b) == 3:
                        code, n, cellid = b
                        tys.append(("const %s&" if code[0] == "k" else "%s&") % CXX_TY[code[1]])
                        vals.append("av::setcell<%s>(%d, %s)" % (CXX_TY[code[1]], cellid, lit((code[1], n))))
                    else:
                        tys.append(CXX_TY[b[0]])
                        vals.append(lit(b))
                targs = ([] if loc == -1 else [str(loc)]) + ["decltype(%s)" % fx] + tys
                return "sigc::bind<%s>(%s, %s)" % (", ".join(targs), fx, ", ".join(vals))
            vals = ", ".join(("av::lv(%s)" % lit(b)) if b[1] % 2 else lit(b) for b in bs)
            if loc == -1:
                return "sigc::bind(%s, %s)" % (ExprC10.cxx(f), vals)
            return "sigc::bind<%d>(%s, %s)" % (loc, ExprC10.cxx(f), vals)
        if k == "H":
            return ("sigc::hide(%s)" if e[1] == -1 else "sigc::hide<" + str(e[1]) + ">(%s)") % ExprC10.cxx(e[2])
        if k == "RT":
            return "sigc::retype(%s)" % ExprC10.cxx(e[2], True)
        if k in ("RR", "RRR"):
            return "sigc::retype_return<%s>(%s)" % (CXX_TY[e[1]], ExprC10.cxx(e[2]))
        if k == "HR":
            return "sigc::hide_return(%s)" % ExprC10.cxx(e[1])
        if k == "BR":
            if len(e[1]) == 3:
                # bound with std::ref(x) / std::cref(x), x a pool object: the adaptor returns the reference to x
                code, n, cellid = e[1]
                return "sigc::bind_return(%s, %s(av::setcell<%s>(%d, %s)))" % (
                    ExprC10.cxx(e[2]), "std::cref" if code[0] == "k" else "std::ref", CXX_TY[code[1]], cellid,
                    lit((code[1], n)))
            return "sigc::bind_return(%s, %s)" % (ExprC10.cxx(e[2]), lit(e[1]))
        if k == "TO":
            return "sigc::track_object(%s, %s)" % (ExprC10.cxx(e[2]), ", ".join("av::trk(%d)" % j for j in range(e[1])))
        if k == "SL":
            return "sigc::slot<%s(%s)>(%s)" % (CXX_TY[e[1]], ", ".join(CXX_TY[t] for t in e[2]), ExprC10.cxx(e[3]))
        if k == "C1":
            return "sigc::compose(%s, %s)" % (ExprC10.cxx(e[1]), ExprC10.cxx(e[2]))
        if k == "C2":
            return "sigc::compose(%s, %s, %s)" % (ExprC10.cxx(e[1]), ExprC10.cxx(e[2]), ExprC10.cxx(e[3]))
        if k == "EC":
            return "sigc::exception_catch(%s, %s)" % (ExprC10.cxx(e[1]), ExprC10.cxx(e[2]))
        raise ValueError(k)

    @staticmethod
    def natural(e):
        """result type of the expression as C++ deduces it"""
        k = e[0]
        if k in ("L", "V", "RL", "PL", "QL"):
            return e[3]
        if k == "PC":
            return e[2]
        if k == "B":
            return ExprC10.natural(e[3])
        if k in ("H", "RT", "TO"):
            return ExprC10.natural(e[2])
        if k in ("RR", "RRR"):
            return e[1]
        if k == "HR":
            return "v"
        if k == "BR":
            return e[1][0]
        if k == "SL":
            return e[1]
        if k in ("C1", "C2", "EC"):
            return ExprC10.natural(e[1])
        raise ValueError(k)

    @staticmethod
    def kinds(e, acc=None):
        """list of adaptor kinds from the outside in (first path only), for the distribution"""
        acc = [] if acc is None else acc
        k = e[0]
        if k in ("L", "V", "RL", "PL", "QL", "PC"):
            return acc
        acc.append(k)
        nxt = {"B": 3, "H": 2, "RT": 2, "RR": 2, "RRR": 2, "HR": 1, "BR": 2, "TO": 2, "SL": 3, "C1": 2, "C2": 2, "EC": 1}[k]
        return ExprC10.kinds(e[nxt], acc)

    @staticmethod
    def depth(e):
        return len(ExprC10.kinds(e))

    # -------- the documentation, evaluated directly (the C10 monitor's oracle) --------
    @staticmethod
    def spec(e, args):
        """returns (list of (id, [vals]), result) with result a value, 'unit' or 'threw'"""
        k = e[0]
        if k == "L":
            _, i, thr, ret, tys, _f = e
            recv = [conv(t, a) for t, a in zip(tys, args)]
            if thr:
                return [(i, recv)], threw_res(thr)
            s = i * 100 + sum((j + 1) * trunc(a) for j, a in enumerate(recv))
            r = "unit" if ret == "v" else (("d", s * 10 + 5) if ret == "d" else (ret, s))
            return [(i, recv)], r
        if k == "QL":
            # declared parameters T / const T& / T&&: each argument converted to the declared type, then bound
            _, i, thr, ret, tys, _f = e
            recv = [cast_par(t, a) for t, a in zip(tys, args)]
            if thr:
                return [(i, recv)], threw_res(thr)
            s = i * 100 + sum((j + 1) * trunc(a) for j, a in enumerate(recv))
            r = "unit" if ret == "v" else (("d", s * 10 + 5) if ret == "d" else (ret, s))
            return [(i, recv)], r
        if k == "PC":
            # (a partial catcher called while an exception it handles is in flight)
            _, i, ret, _hs = e
            s = i * 100
            return [(i, [])], "unit" if ret == "v" else (("d", s * 10 + 5) if ret == "d" else (ret, s))
        if k == "PL":
            # parameters declared const T&: the setter of compose() receives the getter's very object
            _, i, thr, ret, tys, _f = e
            recv = [bind_cref(t, a) for t, a in zip(tys, args)]
            if thr:
                return [(i, recv)], threw_res(thr)
            s = i * 100 + sum((j + 1) * trunc(a) for j, a in enumerate(recv))
            r = "unit" if ret == "v" else (("d", s * 10 + 5) if ret == "d" else (ret, s))
            return [(i, recv)], r
        if k == "RL":
            # a target returning T& / const T&: the documented result of every forwarding adaptor above it is this
            # very reference (code, value, pool object = target id)
            _, i, thr, code, tys, _f = e
            recv = [conv(t, a) for t, a in zip(tys, args)]
            if thr:
                return [(i, recv)], threw_res(thr)
            s = i * 100 + sum((j + 1) * trunc(a) for j, a in enumerate(recv))
            return [(i, recv)], (code, s * 10 + 5 if code[1] == "d" else s, i)
        if k == "RRR":
            log, r = ExprC10.spec(e[2], args)
            if r in THREW:
                return log, r
            if len(r) == 3 and r[0][1] == e[1][1]:
                return log, (e[1], r[1], r[2])         # T&(x): the same object
            return log, conv(e[1][1], r)
        if k == "V":
            _, i, thr, ret = e
            recv = [decay(a) for a in args]            # A... a: by value
            if thr:
                return [(i, recv)], threw_res(thr)
            s = i * 100 + sum((j + 1) * trunc(a) for j, a in enumerate(recv))
            r = "unit" if ret == "v" else (("d", s * 10 + 5) if ret == "d" else (ret, s))
            return [(i, recv)], r
        if k == "B":
            _, loc, bs, f = e
            if loc == -1:
                return ExprC10.spec(f, list(args) + list(bs))            # appended
            return ExprC10.spec(f, list(args[:loc]) + list(bs) + list(args[loc:]))   # inserted at I
        if k == "H":
            idx = len(args) - 1 if e[1] == -1 else e[1]
            return ExprC10.spec(e[2], [a for j, a in enumerate(args) if j != idx])
        if k == "RT":
            return ExprC10.spec(e[2], [cast_par(t, a) for t, a in zip(e[1], args)])   # converted to f's parameter types
        if k == "RR":
            log, r = ExprC10.spec(e[2], args)
            return log, (r if r in THREW else conv(e[1], r))
        if k == "HR":
            log, r = ExprC10.spec(e[1], args)
            return log, (r if r in THREW else "unit")
        if k == "BR":
            log, r = ExprC10.spec(e[2], args)
            return log, (r if r in THREW else e[1])
        if k == "TO":
            return ExprC10.spec(e[2], args)
        if k == "SL":
            log, r = ExprC10.spec(e[3], [conv(t, a) for t, a in zip(e[2], args)])
            if r in THREW:
                return log, r
            return log, ("unit" if e[1] == "v" else conv(e[1], r))
        if k == "C1":
            log, r = ExprC10.spec(e[2], args)
            if r in THREW:
                return log, r
            log2, r2 = ExprC10.spec(e[1], [r])
            return log + log2, r2
        if k == "C2":
            log1, r1 = ExprC10.spec(e[2], args)
            if r1 in THREW:
                return log1, r1
            log2, r2 = ExprC10.spec(e[3], args)
            if r2 in THREW:
                return log1 + log2, r2
            log3, r3 = ExprC10.spec(e[1], [r1, r2])
            return log1 + log2 + log3, r3
        if k == "EC":
            log, r = ExprC10.spec(e[1], args)
            if r not in THREW:
                return log, r
            c = e[2]
            if c[0] == "PC" and str(THREW.index(r) + 1) not in c[3]:
                # a catcher that rethrows and does not know this type: the exception proceeds to the next catcher
                # adaptor / to the caller (documentation of exception_catch)
                return log, r
            log2, r2 = ExprC10.spec(c, [])      # returns c() exactly when f throws
            return log + log2, r2
        raise ValueError(k)


def show_obs(log, res):
    ls = ";".join("%d(%s)" % (i, ",".join(vtok(a) for a in vs)) for i, vs in log)
    return "log=%s res=%s" % (canon_log(ls), res if isinstance(res, str) else vtok(res))


KINDS10 = ["Bi", "B", "Hi", "H", "RT", "RR", "HR", "BR", "C1", "C2", "EC", "TO"]


class GenC10:
    def __init__(self, rng):
        self.rng = rng
        self.nid = 0
        self.p_ref = 0.15        # probability that a target whose result type is free returns T& / const T&
        self.getter_ref = False  # family switch: the getters of compose() return references, the setter takes const T&
        self.p_qleaf = 0.6       # probability that the target of retype() declares its parameters T / const T& / T&&
        self.p_pcatch = 0.4      # probability that the catcher of exception_catch() is a partial one

    def thrown(self, allow, p=0.04):
        """0: does not throw, 1: throws av::Thrown (K1), 2: throws av::Thrown2 (K2)"""
        r = self.rng
        return (1 + r.below(2)) if (allow and r.chance(p)) else 0

    def pars_for(self, tys, other=None):
        """declared parameter types for a retype target: mostly references (const T& / T&&), base type as given or Str;
        `other`: the argument types — then the base type is always a different one (a converting temporary is needed)"""
        r = self.rng
        out = []
        for j, t in enumerate(tys):
            mode = r.choice(["c", "c", "x", "x", ""])
            if other is not None:
                base = r.choice([b for b in "ild" if b != other[j]] + ["s"])
            elif mode == "x":
                # `static_cast<T&&>(a)` is ill-formed for a const lvalue `a` of type T itself (a slot / a tuple-slicing
                # adaptor hands its arguments on as const lvalues): without knowing the argument, T&& only over Str
                base = "s"
            else:
                base = "s" if r.chance(0.25) else t
            out.append(mode + base)
        return tuple(out)

    def fresh(self):
        self.nid += 1
        return self.nid - 1

    def value(self, t, pos):
        r = self.rng
        base = (pos + 1) * 11 + r.below(9)
        if r.chance(0.3):
            base = -base
        if t == "d":
            frac = 3 + r.below(7)
            return ("d", base * 10 + (frac if base >= 0 else -frac))
        return (t, base)

    def leaf(self, n, want, allow_throw=True, ptr_only=False, tys=None, force_ref=False):
        r = self.rng
        if want in REF_RET or (want in ("any", "nonvoid") and (force_ref or r.chance(self.p_ref))):
            code = want if want in REF_RET else r.choice("rk") + r.choice(TYS)
            thr = self.thrown(allow_throw)
            tys = tys if tys is not None else [r.choice(TYS) for _ in range(n)]
            return ("RL", self.fresh(), thr, code, tuple(tys), (not ptr_only) and r.chance(0.35))
        ret = want if want in ("i", "l", "d") else r.choice(["i", "l", "d"] if want == "nonvoid" else ["v", "i", "l", "d"])
        if want == "v":
            ret = "v"
        thr = self.thrown(allow_throw)
        if tys is None and not ptr_only and r.chance(0.4):
            return ("V", self.fresh(), thr, ret)
        tys = tys if tys is not None else [r.choice(TYS) for _ in range(n)]
        return ("L", self.fresh(), thr, ret, tuple(tys), (not ptr_only) and r.chance(0.35))

    def setter(self, nats, want, no_throw, force_ref):
        """the setter of compose(): when a getter returns a reference, often a target with `const T&` parameters that
        records which object it receives (it must be the getter's object)"""
        r = self.rng
        if not force_ref and any(is_ref(x) for x in nats) and r.chance(0.9 if self.getter_ref else 0.5):
            ret = want if want in ("i", "l", "d", "v") else r.choice(["i", "l", "d"] if want == "nonvoid" else ["v", "i", "l", "d"])
            tys = tuple(base_ty(x) if (x != "v" and r.chance(0.8)) else r.choice(TYS) for x in nats)
            return ("PL", self.fresh(), self.thrown(not no_throw), ret, tys, r.chance(0.4))
        return self.leaf(len(nats), want, allow_throw=not no_throw, force_ref=force_ref)

    def node(self, kind, n, want, inner, pos=None, nbound=None, no_throw=False, force_ref=False):
        """wrap: build adaptor `kind` for `n` incoming arguments; `inner(n', want', **kw)` builds the wrapped functor.
        Returns None when the kind is not applicable for this arity."""
        r = self.rng
        if kind in ("Bi", "B"):
            k = nbound if nbound is not None else 1 + r.below(3)
            if n + k > 6:
                k = 6 - n
            if k < 1:
                return None
            loc = -1 if kind == "B" else (pos if pos is not None else r.below(n + 1))
            if loc > n:
                return None
            bs = tuple(self.value(r.choice(TYS), 6 + j) for j in range(k))
            return ("B", loc, bs, inner(n + k, want))
        if kind in ("Hi", "H"):
            if n < 1:
                return None
            loc = -1 if kind == "H" else (pos if pos is not None else r.below(n))
            if loc >= n:
                return None
            return ("H", loc, inner(n - 1, want))
        if kind == "RT":
            tys = tuple(r.choice(TYS) for _ in range(n))
            f = inner(n, want, retype_tys=tys)
            if f[0] == "L" and r.chance(self.p_qleaf):
                # the target declares its parameters T / const T& / T&& (retype deduces T_type... from them): an argument
                # of another type is converted into a temporary to which the reference parameter is bound
                pars = self.pars_for(tys)
                return ("RT", pars, ("QL", f[1], f[2], f[3], pars, False))
            if f[0] in ("L", "RL"):
                return ("RT", tys, f)
            nat = base_ty(ExprC10.natural(f))      # slot<T&(...)>::operator() does not compile: a slot returns a value
            return ("RT", tys, ("SL", nat, tys, f))
        if kind == "RR":
            t = want if want in ("i", "l", "d") else r.choice(TYS)
            if want == "v":
                return None
            f = inner(n, "nonvoid")
            nat = ExprC10.natural(f)
            if is_ref(nat) and want in ("any", "nonvoid") and (force_ref or r.chance(0.5)):
                # retype_return<T&> / retype_return<const T&> of a reference result: still the same object
                return ("RRR", ("k" if nat[0] == "k" else r.choice("rk")) + nat[1], f)
            return ("RR", t, f)
        if kind == "HR":
            if want not in ("any", "v"):
                return None
            return ("HR", inner(n, "any"))
        if kind == "BR":
            if want == "v":
                return None
            t = want if want in ("i", "l", "d") else r.choice(TYS)
            if want in ("any", "nonvoid") and (force_ref or r.chance(0.25)):
                # bind_return(f, std::ref(x)) / std::cref(x): returns the reference to x (nullary overload when n == 0)
                code = r.choice("rk") + r.choice(TYS)
                return ("BR", (code, self.value(code[1], 8)[1], 100 + self.fresh()), inner(n, "any", force_ref=False))
            return ("BR", self.value(t, 8), inner(n, "any"))
        if kind == "TO":
            return ("TO", 1 + r.below(2), inner(n, want))
        if kind == "C1":
            g = inner(n, "nonvoid", force_ref=force_ref or self.getter_ref)
            s = self.setter([ExprC10.natural(g)], want, no_throw, force_ref)
            return ("C1", s, g)
        if kind == "C2":
            g1 = inner(n, "nonvoid", no_throw=True, force_ref=force_ref or self.getter_ref)
            g2 = self.leaf(n, "nonvoid", allow_throw=False, force_ref=self.getter_ref or r.chance(0.2))
            s = self.setter([ExprC10.natural(g1), ExprC10.natural(g2)], want, no_throw, force_ref)
            return ("C2", s, g1, g2)
        if kind == "EC":
            f = inner(n, want, force_throw=r.chance(0.6))
            nat = ExprC10.natural(f)
            if not is_ref(nat) and r.chance(self.p_pcatch):
                # a partial catcher: handles K1 only, K2 only, or both; what it does not handle must pass through
                return ("EC", f, ("PC", self.fresh(), nat, r.choice(["1", "1", "2", "12"])))
            c = self.leaf(0, nat, allow_throw=False)
            return ("EC", f, c)
        raise ValueError(kind)

    def expr(self, n, want, chain, no_throw=False, retype_tys=None, force_throw=False, force_ref=False):
        """chain: list of adaptor kinds from the outside in; falls back to skipping inapplicable kinds.
        force_ref: the target that determines the result returns a reference"""
        if not chain:
            lf = self.leaf(n, want, allow_throw=not no_throw, ptr_only=retype_tys is not None, tys=retype_tys,
                           force_ref=force_ref)
            if force_throw and not no_throw:
                lf = lf[:2] + (1 + self.rng.below(2),) + lf[3:]
            return lf
        kind, rest = chain[0], chain[1:]
        if retype_tys is not None:
            # directly under retype: only a leaf or a slot is admissible; the caller wraps non-leaves in a slot
            pass

        def inner(n2, want2, retype_tys=None, no_throw=no_throw, force_throw=force_throw, force_ref=force_ref):
            return self.expr(n2, want2, rest, no_throw=no_throw, retype_tys=retype_tys, force_throw=force_throw,
                             force_ref=force_ref)

        k = kind[0] if isinstance(kind, tuple) else kind
        pos = kind[1] if isinstance(kind, tuple) and len(kind) > 1 else None
        nb = kind[2] if isinstance(kind, tuple) and len(kind) > 2 else None
        e = self.node(k, n, want, inner, pos=pos, nbound=nb, no_throw=no_throw, force_ref=force_ref)
        if e is None:
            return self.expr(n, want, rest, no_throw=no_throw, retype_tys=retype_tys, force_throw=force_throw,
                             force_ref=force_ref)
        if retype_tys is not None and e[0] != "L":
            pass
        return e

    def case(self, n, chain, route, conv_ret=False, force_ref=False):
        r = self.rng
        self.nid = 0
        e = self.expr(n, "any", chain, force_ref=force_ref)
        sig = tuple(r.choice(TYS) for _ in range(n))
        args = tuple(self.value(t, p) for p, t in enumerate(sig))
        nat = ExprC10.natural(e)
        # slot<T&(...)>::operator() / signal<T&(...)>::emit do not compile (`return T_return();`): a slot / signal over a
        # reference-returning functor is declared with the value type
        ret = base_ty(nat)
        if conv_ret and nat != "v" and route != "D":
            ret = r.choice(["i", "l", "d"])     # slot<void(...)> cannot wrap a value-returning functor
        return {"expr": e, "sig": sig, "args": args, "route": route, "ret": ret}

    # ---------------------------------------------------------------- retype over reference parameters, partial catchers
    def wrap_simple(self, e, wrap, sig, args):
        """one adaptor around e that leaves its arguments alone (TO, HR, RR, EC with a total catcher, SL) or adds one
        (H: an extra hidden argument; B: the last argument becomes a bound value)"""
        r = self.rng
        nat = ExprC10.natural(e)
        if wrap == "TO":
            return ("TO", 1, e), sig, args
        if wrap == "HR":
            return ("HR", e), sig, args
        if wrap == "RR" and nat != "v":
            return ("RR", r.choice(TYS), e), sig, args
        if wrap == "ECT":
            return ("EC", e, self.leaf(0, nat, allow_throw=False)), sig, args
        if wrap == "SL" and not any(len(t) > 1 for t in sig):
            return ("SL", base_ty(nat), tuple(sig), e), sig, args
        if wrap == "H" and len(sig) < 6:
            t = r.choice(TYS)
            return ("H", -1, e), tuple(sig) + (t,), tuple(args) + (self.value(t, len(sig)),)
        if wrap == "B" and len(sig) >= 1:
            return ("B", -1, (args[-1],), e), tuple(sig[:-1]), tuple(args[:-1])
        return e, sig, args

    def retype_case(self, n, route, wrap=None):
        """retype(ptr_fun(&f)) where f declares its parameters `const T&` / `T&&` / `T` and EVERY argument has another
        type than the parameter: each conversion creates a temporary that must live until f returns"""
        r = self.rng
        self.nid = 0
        n = max(1, n)
        sig = tuple(r.choice(TYS) for _ in range(n))
        args = tuple(self.value(t, p) for p, t in enumerate(sig))
        pars = self.pars_for(sig, other=sig)
        if all(par_mode(p) == "v" for p in pars):
            pars = ("c" + par_base(pars[0]),) + pars[1:]
        ret = r.choice(["v", "i", "l", "d"])
        e = ("RT", pars, ("QL", self.fresh(), 0, ret, pars, False))
        e, sig, args = self.wrap_simple(e, wrap, sig, args)
        return {"expr": e, "sig": tuple(sig), "args": tuple(args), "route": route, "ret": base_ty(ExprC10.natural(e))}

    def catch_case(self, n, route, shape, x, wrap=None):
        """exception_catch(f, c) where f throws type x (1: K1, 2: K2) and the catcher is a partial one.
        shapes: "unhandled" (c handles only the other type: the exception must reach the caller), "handled",
        "nested-total" / "nested-partial" (an enclosing exception_catch whose catcher handles it), "nested-none" (two
        partial catchers that both let it pass), "total" (a catcher that handles everything)"""
        r = self.rng
        self.nid = 0
        sig = tuple(r.choice(TYS) for _ in range(n))
        args = tuple(self.value(t, p) for p, t in enumerate(sig))
        ret = r.choice(["v", "i", "l", "d"])
        other = "2" if x == 1 else "1"
        mine = r.choice([str(x), "12"])
        f = ("L", self.fresh(), x, ret, tuple(r.choice(TYS) for _ in range(n)), r.chance(0.4))
        pc = lambda hs: ("PC", self.fresh(), ret, hs)
        tot = lambda: self.leaf(0, ret, allow_throw=False)
        if shape == "unhandled":
            e = ("EC", f, pc(other))
        elif shape == "handled":
            e = ("EC", f, pc(mine))
        elif shape == "total":
            e = ("EC", f, tot())
        elif shape == "nested-total":
            e = ("EC", ("EC", f, pc(other)), tot())
        elif shape == "nested-partial":
            e = ("EC", ("EC", f, pc(other)), pc(mine))
        elif shape == "nested-none":
            e = ("EC", ("EC", f, pc(other)), pc(other))
        else:
            raise ValueError(shape)
        e, sig, args = self.wrap_simple(e, wrap, sig, args)
        return {"expr": e, "sig": tuple(sig), "args": tuple(args), "route": route, "ret": base_ty(ExprC10.natural(e))}

    # ---------------------------------------------------------------- noexcept getters of compose over a throwing setter
    def nx_case(self, n, route, shape, x, two=False, wrap=None):
        """compose(s, g) / compose(s, g1, g2) whose getter(s) are functor classes with a NOEXCEPT call operator and whose
        setter throws type x: the exception must leave the composite like any other — to the caller ("plain"), to an
        enclosing exception_catch with a total catcher ("catch"), a partial catcher that handles it ("catch-partial") or
        does not ("catch-unhandled")"""
        r = self.rng
        self.nid = 0
        sig = tuple(r.choice(TYS) for _ in range(n))
        args = tuple(self.value(t, p) for p, t in enumerate(sig))
        ret = r.choice(["v", "i", "l", "d"])
        nx = lambda: ("L", self.fresh(), 0, r.choice(TYS), tuple(r.choice(TYS) for _ in range(n)), "nx")
        if two:
            g1, g2 = nx(), (nx() if r.chance(0.5) else self.leaf(n, "nonvoid", allow_throw=False))
            s = ("L", self.fresh(), x, ret, (r.choice(TYS), r.choice(TYS)), r.chance(0.4))
            e = ("C2", s, g1, g2)
        else:
            s = ("L", self.fresh(), x, ret, (r.choice(TYS),), r.chance(0.4))
            e = ("C1", s, nx())
        other = "2" if x == 1 else "1"
        if shape == "catch":
            e = ("EC", e, self.leaf(0, ret, allow_throw=False))
        elif shape == "catch-partial":
            e = ("EC", e, ("PC", self.fresh(), ret, r.choice([str(x), "12"])))
        elif shape == "catch-unhandled":
            e = ("EC", e, ("PC", self.fresh(), ret, other))
        e, sig, args = self.wrap_simple(e, wrap, sig, args)
        return {"expr": e, "sig": tuple(sig), "args": tuple(args), "route": route, "ret": base_ty(ExprC10.natural(e))}

    # ---------------------------------------------------------------- Json bound values, reference-typed bound arguments
    def bound_case(self, n, route, shape, wrap=None):
        """directed bind / bind_return cases over bound values that are not plain numbers.
        shape "json": bind / bind<I>(f, b...) with at least one av::Json among the bound values (f declares Json /
        const Json& there, or takes everything by value): f must receive the bound number, not an array wrapping it;
        "json-ret": bind_return(f, Json(n)) returns that number;
        "ref": bind<I, F, T&...>(f, x...) / bind<F, const T&...>(f, x...) with the bound types spelled as references: a
        target taking const T&... must receive the pool objects x themselves."""
        r = self.rng
        self.nid = 0
        sig = tuple(r.choice(TYS) for _ in range(n))
        args = tuple(self.value(t, p) for p, t in enumerate(sig))
        if shape == "json-ret":
            f = self.leaf(n, "any", allow_throw=False, force_ref=False)
            e = ("BR", ("j", self.value("i", 8)[1]), f)
        else:
            k = 1 + r.below(min(3, 6 - n))
            loc = -1 if r.chance(0.4) else r.below(n + 1)
            p = n if loc == -1 else loc
            special = r.below(k)
            bs, btys = [], []
            for j in range(k):
                if shape == "json":
                    if j == special or r.chance(0.3):
                        bs.append(("j", self.value("i", 6 + j)[1]))
                        btys.append(r.choice(["j", "jc"]))
                    else:
                        bs.append(self.value(r.choice(TYS), 6 + j))
                        btys.append(r.choice(TYS))
                else:
                    if j == special or r.chance(0.6):
                        t = r.choice(TYS)
                        bs.append((r.choice("rk") + t, self.value(t, 6 + j)[1], 100 + j))
                        btys.append(t if r.chance(0.8) else r.choice(TYS))
                    else:
                        bs.append(self.value(r.choice(TYS), 6 + j))
                        btys.append(r.choice(TYS))
            ret = r.choice(["v", "i", "l", "d"])
            if shape == "json":
                tys = [r.choice(TYS) for _ in range(n)]
                tys = tys[:p] + btys + tys[p:]
                f = ("V", self.fresh(), 0, ret) if r.chance(0.3) else ("L", self.fresh(), 0, ret, tuple(tys), r.chance(0.4))
            else:
                # const T&... target that records WHICH object each parameter is
                tys = [r.choice(TYS) for _ in range(n)]
                tys = tys[:p] + btys + tys[p:]
                f = ("PL", self.fresh(), 0, ret, tuple(tys), r.chance(0.4))
            e = ("B", loc, tuple(bs), f)
        e, sig, args = self.wrap_simple(e, wrap, sig, args)
        return {"expr": e, "sig": tuple(sig), "args": tuple(args), "route": route, "ret": base_ty(ExprC10.natural(e))}

    # ---------------------------------------------------------------- move-sensitive arguments (MStr)
    # categories of an MStr argument as a call operator sees it: "rv" rvalue (T_arg deduced as MStr), "rvE" rvalue under
    # an explicit T_arg = MStr&& (directly inside slot<R(MStr&&)>), "lv", "clv"; numeric positions are "n"
    M_LEGAL = {"rv": ["m", "mc", "mr"], "rvE": ["m", "mc", "mr"], "lv": ["m", "mc"], "clv": ["m", "mc"]}

    def mleaf(self, tys, cats, want, allow_throw=True):
        r = self.rng
        ret = want if want in ("i", "l", "d") else r.choice(["i", "l", "d"] if want == "nonvoid" else ["v", "i", "l", "d"])
        if want == "v":
            ret = "v"
        thr = self.thrown(allow_throw)
        if r.chance(0.3):
            return ("V", self.fresh(), thr, ret)        # template<class... A> operator()(A... a): by value
        ps = [r.choice(TYS) if t != "m" else r.choice(self.M_LEGAL[c]) for t, c in zip(tys, cats)]
        return ("L", self.fresh(), thr, ret, tuple(ps), r.chance(0.5))

    def mexpr(self, tys, cats, want, chain, no_throw=False):
        r = self.rng
        if not chain:
            return self.mleaf(tys, cats, want, not no_throw)
        kind, rest = chain[0], chain[1:]
        n = len(tys)

        def skip():
            return self.mexpr(tys, cats, want, rest, no_throw)

        if kind in ("Bi", "B", "Hi", "H"):
            if "rvE" in cats:
                return skip()          # std::tuple<MStr&&> read from a const tuple: compile-time rejection
            after = ["clv" if c == "rv" else c for c in cats]      # moved into std::tuple<MStr>, read as const&
            if kind in ("Bi", "B"):
                k = 1 + r.below(2)
                if n + k > 6:
                    return skip()
                loc = -1 if kind == "B" else r.below(n + 1)
                p = n if loc == -1 else loc
                bs = tuple(self.value(r.choice(TYS), 6 + j) for j in range(k))
                return ("B", loc, bs, self.mexpr(tys[:p] + [b[0] for b in bs] + tys[p:],
                                                 after[:p] + ["n"] * k + after[p:], want, rest, no_throw))
            if n < 1:
                return skip()
            loc = -1 if kind == "H" else r.below(n)
            idx = n - 1 if loc == -1 else loc
            return ("H", loc, self.mexpr([t for j, t in enumerate(tys) if j != idx],
                                         [c for j, c in enumerate(after) if j != idx], want, rest, no_throw))
        fw = ["rv" if c == "rvE" else c for c in cats]      # std::forward into a deduced T_arg&&
        if kind == "SL":
            sig, ic = [], []
            for t, c in zip(tys, cats):
                if t != "m":
                    sig.append(r.choice(TYS))
                    ic.append("n")
                elif c in ("rv", "rvE") and r.chance(0.5):
                    sig.append("mr")
                    ic.append("rvE")
                else:
                    sig.append("m")
                    ic.append("clv")
            f = self.mexpr([("m" if x[0] == "m" else x) for x in sig], ic, want, rest, no_throw)
            return ("SL", base_ty(ExprC10.natural(f)), tuple(sig), f)
        if kind == "C2":
            named = [c if c in ("n", "clv") else "lv" for c in cats]    # a...: both getters get lvalues
            s = self.leaf(2, want, allow_throw=not no_throw)
            g1 = self.mexpr(tys, named, "nonvoid", rest, True)
            g2 = self.mleaf(tys, named, "nonvoid", False)
            return ("C2", s, g1, g2)
        if kind == "C1":
            s = self.leaf(1, want, allow_throw=not no_throw)
            return ("C1", s, self.mexpr(tys, fw, "nonvoid", rest, no_throw))
        if kind == "RR":
            if want == "v":
                return skip()
            t = want if want in ("i", "l", "d") else r.choice(TYS)
            return ("RR", t, self.mexpr(tys, fw, "nonvoid", rest, no_throw))
        if kind == "HR":
            if want not in ("any", "v"):
                return skip()
            return ("HR", self.mexpr(tys, fw, "any", rest, no_throw))
        if kind == "BR":
            if want == "v":
                return skip()
            t = want if want in ("i", "l", "d") else r.choice(TYS)
            return ("BR", self.value(t, 8), self.mexpr(tys, fw, "any", rest, no_throw))
        if kind == "TO":
            return ("TO", 1 + r.below(2), self.mexpr(tys, fw, want, rest, no_throw))
        if kind == "EC":
            f = self.mexpr(tys, fw, want, rest, no_throw)
            return ("EC", f, self.leaf(0, ExprC10.natural(f), allow_throw=False))
        return skip()

    def mcase(self, n, chain, route, mpos=None, passes=None):
        """a case with at least one MStr argument.  `pass` per argument: "t" temporary, "x" std::move(named), "l" named
        lvalue, "c" const lvalue, "-" arithmetic.  Route S may declare the position `MStr&&` (sig "mr")."""
        r = self.rng
        self.nid = 0
        n = max(1, n)
        tys = [r.choice("ildm") for _ in range(n)]
        tys[mpos if mpos is not None and mpos < n else r.below(n)] = "m"
        args = tuple(self.value(t, p) for p, t in enumerate(tys))
        sig, cats, ps = [], [], []
        for i, t in enumerate(tys):
            if t != "m":
                sig.append(t)
                cats.append("n")
                ps.append("-")
                continue
            p = passes[i] if passes else r.choice("ttxxxlc")
            if route == "D":
                sig.append("m")
                cats.append({"t": "rv", "x": "rv", "l": "lv", "c": "clv"}[p])
            elif route == "S" and p in "tx" and r.chance(0.7):
                sig.append("mr")          # slot<R(MStr&&)>
                cats.append("rvE")
            else:
                sig.append("m")           # slot<R(MStr)> / signal<R(MStr)>: passes const MStr&
                cats.append("clv")
            ps.append(p)
        e = self.mexpr(list(tys), cats, "any", chain)
        return {"expr": e, "sig": tuple(sig), "args": args, "route": route, "ret": base_ty(ExprC10.natural(e)),
                "pass": tuple(ps)}


def c10_line(c):
    toks = ["c10", c["route"], c["ret"], str(len(c["sig"]))] + list(c["sig"]) + [str(len(c["args"]))] + \
           [vtok(a) for a in c["args"]] + ExprC10.tokens(c["expr"])
    return " ".join(toks)


def c10_expected(c):
    """documented behaviour for the route: the adaptor's documented call, the slot/signal returning it
    converted to the declared return type"""
    log, r = ExprC10.spec(c["expr"], list(c["args"]))
    if c["route"] != "D" and r not in THREW:
        r = "unit" if c["ret"] == "v" else conv(c["ret"], r)
    return show_obs(log, r)


def c10_args_cxx(c):
    """(declarations, argument expressions): MStr arguments are passed as temporaries, std::move(named), named lvalues
    or const lvalues according to c["pass"]"""
    ps = c.get("pass") or tuple("t" if a[0] == "m" else "-" for a in c["args"])
    decl, out = [], []
    for i, (a, p) in enumerate(zip(c["args"], ps)):
        if a[0] != "m" or p in "t-":
            out.append(lit(a))
            continue
        decl.append("  av::MStr m%d(%d);" % (i, a[1]))
        out.append({"x": "std::move(m%d)", "l": "m%d", "c": "std::as_const(m%d)"}[p] % i)
    return decl, out


def c10_call_text(c):
    return ", ".join(c10_args_cxx(c)[1])


def c10_body(c, local_id):
    e = ExprC10.cxx(c["expr"])
    decl, argl = c10_args_cxx(c)
    args = ", ".join(argl)
    sigt = "%s(%s)" % (CXX_TY[c["ret"]], ", ".join(CXX_TY[t] for t in c["sig"]))
    b = ["  av::begin();", "  auto e = %s;" % e, "  av::poison();"] + decl
    # `-> decltype(auto)`: the observation must see the adaptor's own result type (a reference stays a reference)
    if c["route"] == "D":
        b.append("  av::finish(%d, [&]() -> decltype(auto) { return e(%s); });" % (local_id, args))
    elif c["route"] == "S":
        b.append("  sigc::slot<%s> s(e);" % sigt)
        b.append("  av::finish(%d, [&]() -> decltype(auto) { return s(%s); });" % (local_id, args))
    else:
        b.append("  sigc::signal<%s> sig;\n  sig.connect(e);" % sigt)
        b.append("  av::finish(%d, [&]() -> decltype(auto) { return sig.emit(%s); });" % (local_id, args))
    return "\n".join(b)


def c10_enters_nullary_bind_return(e, n):
    """does a call of e with n arguments reach a bind_return adaptor with zero arguments (its nullary overload)"""
    k = e[0]
    if k in ("L", "V", "RL", "PL", "QL", "PC"):
        return False
    if k == "BR":
        return n == 0 or c10_enters_nullary_bind_return(e[2], n)
    if k == "B":
        return c10_enters_nullary_bind_return(e[3], n + len(e[2]))
    if k == "H":
        return c10_enters_nullary_bind_return(e[2], n - 1)
    if k == "SL":
        return False        # call_it names the template overload
    if k in ("RT", "RR", "RRR", "TO"):
        return c10_enters_nullary_bind_return(e[2], n)
    if k == "HR":
        return c10_enters_nullary_bind_return(e[1], n)
    if k == "C1":
        return c10_enters_nullary_bind_return(e[2], n) or c10_enters_nullary_bind_return(e[1], 1)
    if k == "C2":
        return (c10_enters_nullary_bind_return(e[2], n) or c10_enters_nullary_bind_return(e[3], n)
                or c10_enters_nullary_bind_return(e[1], 2))
    if k == "EC":
        return c10_enters_nullary_bind_return(e[1], n) or c10_enters_nullary_bind_return(e[2], 0)
    return False


def c10_retype_temporaries(c):
    """for the distribution: how many reference parameters of retype targets are bound to a converting temporary
    (argument type != parameter type), by kind.  Walks the first path, tracking the argument types."""
    out = {"const T&": 0, "T&&": 0, "Str": 0}
    found = [False]

    def walk(e, tys):
        k = e[0]
        if k == "RT":
            for p, t in zip(e[1], tys):
                if par_mode(p) != "v" and par_base(p) != t:
                    found[0] = True
                    out["const T&" if par_mode(p) == "c" else "T&&"] += 1
                    if par_base(p) == "s":
                        out["Str"] += 1
            walk(e[2], [par_base(p) for p in e[1]])
        elif k == "B":
            loc = len(tys) if e[1] == -1 else e[1]
            walk(e[3], tys[:loc] + [decay(b)[0] for b in e[2]] + tys[loc:])
        elif k == "H":
            idx = len(tys) - 1 if e[1] == -1 else e[1]
            walk(e[2], [t for j, t in enumerate(tys) if j != idx])
        elif k == "SL":
            walk(e[3], [t[0] for t in e[2]])
        elif k in ("RR", "RRR", "BR", "TO", "C1", "C2"):
            walk(e[2], tys)
        elif k in ("HR", "EC"):
            walk(e[1], tys)

    walk(c["expr"], [t[0] for t in (c["sig"] if c["route"] != "D" else [a[0] for a in c["args"]])])
    return out if found[0] else None


def c10_has_ref_bound(e):
    """is there a bind node with a reference-typed bound argument (bound types spelled explicitly)"""
    if e[0] == "B" and any(len(b) == 3 for b in e[2]):
        return True
    return any(c10_has_ref_bound(x) for x in e[1:]
               if isinstance(x, tuple) and x and isinstance(x[0], str) and x[0].isupper() and len(x[0]) <= 3)


def c10_has_nx(e):
    """is there a target whose call operator is declared noexcept"""
    if e[0] == "L":
        return e[5] == "nx"
    return any(c10_has_nx(x) for x in e[1:]
               if isinstance(x, tuple) and x and isinstance(x[0], str) and x[0].isupper() and len(x[0]) <= 3)


def c10_norm_impl(s):
    if s is None or s.startswith("crash:") or s.startswith("nocompile:"):
        return s
    log, res = s.split(" res=")
    return "log=%s res=%s" % (canon_log(log[len("log="):]), res)


def c10_norm_model(s):
    """ "wt=1 log=... res=... spec=same" -> (wt, observation, spec) """
    d = dict(p.split("=", 1) for p in s.split(" ") if "=" in p)
    return d.get("wt"), "log=%s res=%s" % (canon_log(d.get("log", "")), d.get("res")), d.get("spec")


def c10_arity_ok(e, n):
    """the arity discipline (static_asserts / overload resolution), independently of the Lean `wellTyped`"""
    k = e[0]
    if k == "V":
        return True
    if k in ("L", "RL", "PL", "QL"):
        return len(e[4]) == n
    if k == "PC":
        return n == 0
    if k == "B":
        return (e[1] == -1 or e[1] <= n) and c10_arity_ok(e[3], n + len(e[2]))
    if k == "H":
        return n >= 1 and (e[1] == -1 or e[1] < n) and c10_arity_ok(e[2], n - 1)
    if k == "RT":
        f = e[2]
        # T_type... = the declared parameter types of the functor retype() is given (pointer_functor / slot)
        sig = (f[4] if f[0] in ("L", "RL", "QL") else (tuple("c" + t for t in f[4]) if f[0] == "PL" else
                                                      (f[2] if f[0] == "SL" else None)))
        return sig is not None and tuple(sig) == tuple(e[1]) and len(e[1]) == n and c10_arity_ok(f, n)
    if k in ("RR", "RRR", "BR", "TO"):
        return c10_arity_ok(e[2], n)
    if k == "HR":
        return c10_arity_ok(e[1], n)
    if k == "SL":
        return len(e[2]) == n and c10_arity_ok(e[3], n)
    if k == "C1":
        return c10_arity_ok(e[2], n) and c10_arity_ok(e[1], 1)
    if k == "C2":
        return c10_arity_ok(e[2], n) and c10_arity_ok(e[3], n) and c10_arity_ok(e[1], 2)
    if k == "EC":
        return c10_arity_ok(e[1], n) and c10_arity_ok(e[2], 0)
    raise ValueError(k)


# ====================================================================================================
#  C11
# ====================================================================================================
PK_CXX = {"v": "av::Obj", "l": "av::Obj&", "c": "const av::Obj&", "r": "av::Obj&&"}
PK_CXX_D = {"v": "av::DObj", "l": "av::DObj&", "c": "const av::DObj&", "r": "av::DObj&&"}     # static type: the derived class


def pk_cxx(k, cls="b"):
    return (PK_CXX_D if cls == "d" else PK_CXX)[k]


def c11_cls(c):
    """static class of the emitter's objects per position: 'b' av::Obj, 'd' av::DObj (derived from Obj)"""
    return c.get("cls") or "b" * len(c["sig"])
LEGAL = {"lv": "vlc", "clv": "vc", "xvD": "vcr", "xvE": "vcr"}
FWD_KINDS = ["RR", "HR", "BR", "EC", "TO", "C1"]
KINDS11 = ["Bi", "B", "Hi", "H", "RT", "SL", "C2"] + FWD_KINDS


def take_cat(k, cat):
    """binding to a parameter declared take_t<T>"""
    if k in "vc":
        return "clv"
    if k == "l":
        return cat
    return cat if cat == "clv" else "xvE"


def cast_cat(k, cat):
    if k == "v":
        return "xvD"
    if k == "c":
        return "clv"
    if k == "l":
        return "clv" if cat == "clv" else "lv"
    return cat if cat == "clv" else "xvD"


def named_cat(cat):
    return "clv" if cat == "clv" else "lv"


class ExprC11:
    @staticmethod
    def tokens(e, getter=False):
        """`getter`: e is a getter of compose(): compose*_functor stores getters as given (T_getter get_), so a plain
        function pointer is called directly, not through pointer_functor -> the model's `ptr` flag is off"""
        k = e[0]
        if k == "L":
            _, i, ptr, retv, pks = e
            return ["L", str(i), "1" if (ptr and not getter) else "0", "1" if retv else "0", str(len(pks))] + list(pks)
        if k == "M":
            # unbound sigc::mem_fun(&av::Obj::meth): `der` the object argument's static type is the derived class,
            # `cm` const method, `pks` the method's own parameters
            _, i, der, cm, retv, pks = e
            return ["M", str(i), "1" if der else "0", "1" if cm else "0", "1" if retv else "0", str(len(pks))] + list(pks)
        if k == "B":
            _, loc, bs, f = e
            # bound kinds "R" / "C" (type spelled as Obj& / const Obj&) hold the object like std::ref / std::cref do
            return ["B", str(loc), str(len(bs))] + ["%s:%d" % (b[0].lower(), b[1]) for b in bs] + ExprC11.tokens(f)
        if k == "H":
            return ["H", str(e[1])] + ExprC11.tokens(e[2])
        if k == "RT":
            return ["RT", str(len(e[1]))] + list(e[1]) + ExprC11.tokens(e[2])
        if k in ("RR", "HR", "EC", "TO"):
            return [k] + ExprC11.tokens(e[1])
        if k == "BR":
            return ["BR", str(e[1])] + ExprC11.tokens(e[2])
        if k == "C1":
            return ["C1", str(e[1])] + ExprC11.tokens(e[2], True)
        if k == "SL":
            return ["SL", str(len(e[1]))] + list(e[1]) + ExprC11.tokens(e[2])
        if k == "C2":
            return ["C2", str(e[1])] + ExprC11.tokens(e[2], True) + ExprC11.tokens(e[3], True)
        raise ValueError(k)

    @staticmethod
    def natural(e):
        k = e[0]
        if k == "L":
            return "int" if e[3] else "void"
        if k == "M":
            return "int" if e[4] else "void"
        if k == "B":
            return ExprC11.natural(e[3])
        if k in ("H", "RT"):
            return ExprC11.natural(e[2])
        if k == "RR":
            return "long"
        if k == "HR":
            return "void"
        if k in ("BR", "C1", "C2"):
            return "int"
        if k in ("EC", "TO"):
            return ExprC11.natural(e[1])
        if k == "SL":
            return "void" if ExprC11.natural(e[2]) == "void" else "int"
        raise ValueError(k)

    @staticmethod
    def cxx(e, under_retype=False):
        k = e[0]
        if k == "L":
            _, i, ptr, retv, pks = e
            targs = ", ".join([str(i), "true" if retv else "false"] + [PK_CXX[p] for p in pks])
            if under_retype:
                return "sigc::ptr_fun(&av::oleaf<%s>)" % targs
            return ("&av::oleaf<%s>" if ptr else "av::ORec<%s>()") % targs
        if k == "M":
            _, i, der, cm, retv, pks = e
            targs = ", ".join([str(i), "true" if retv else "false"] + [PK_CXX[p] for p in pks])
            return "sigc::mem_fun(&av::Obj::%s<%s>)" % ("cmeth" if cm else "meth", targs)
        if k == "B":
            _, loc, bs, f = e
            names = []
            for b in bs:
                n = "%s%d" % ("s" if b[0] == "v" else "b", b[1] % 100)
                names.append(n if b[0] in "vRC" else ("std::ref(%s)" if b[0] == "r" else "std::cref(%s)") % n)
            if any(b[0] in "RC" for b in bs):
                # the bound types spelled explicitly: bind<I, F, Obj&, ...>(f, o, ...) / bind<F, const Obj&, ...>(f, o, ...)
                fx = ExprC11.cxx(f)
                obj = lambda b: "av::DObj" if (len(b) > 3 and b[3] == "d") else "av::Obj"
                tys = [{"v": "%s", "R": "%s&", "C": "const %s&", "r": "std::reference_wrapper<%s>",
                        "c": "std::reference_wrapper<const %s>"}[b[0]] % obj(b) for b in bs]
                targs = ([] if loc == -1 else [str(loc)]) + ["decltype(%s)" % fx] + tys
                return "sigc::bind<%s>(%s, %s)" % (", ".join(targs), fx, ", ".join(names))
            if loc == -1:
                return "sigc::bind(%s, %s)" % (ExprC11.cxx(f), ", ".join(names))
            return "sigc::bind<%d>(%s, %s)" % (loc, ExprC11.cxx(f), ", ".join(names))
        if k == "H":
            return ("sigc::hide(%s)" if e[1] == -1 else "sigc::hide<" + str(e[1]) + ">(%s)") % ExprC11.cxx(e[2])
        if k == "RT":
            return "sigc::retype(%s)" % ExprC11.cxx(e[2], True)
        if k == "RR":
            return "sigc::retype_return<long>(%s)" % ExprC11.cxx(e[1])
        if k == "HR":
            return "sigc::hide_return(%s)" % ExprC11.cxx(e[1])
        if k == "BR":
            return "sigc::bind_return(%s, %d)" % (ExprC11.cxx(e[2]), e[1])
        if k == "EC":
            return "sigc::exception_catch(%s, av::Catcher<%s>())" % (ExprC11.cxx(e[1]), ExprC11.natural(e[1]))
        if k == "TO":
            return "sigc::track_object(%s, av::trk(0))" % ExprC11.cxx(e[1])
        if k == "C1":
            return "sigc::compose(&av::set1<%d>, %s)" % (e[1], ExprC11.cxx(e[2]))
        if k == "C2":
            return "sigc::compose(&av::set2<%d>, %s, %s)" % (e[1], ExprC11.cxx(e[2]), ExprC11.cxx(e[3]))
        if k == "SL":
            cls = e[3] if len(e) > 3 else "b" * len(e[1])
            return "sigc::slot<%s(%s)>(%s)" % (ExprC11.natural(e), ", ".join(pk_cxx(p, q) for p, q in zip(e[1], cls)),
                                              ExprC11.cxx(e[2]))
        raise ValueError(k)

    @staticmethod
    def kinds(e, acc=None):
        acc = [] if acc is None else acc
        k = e[0]
        if k in ("L", "M"):
            return acc
        acc.append(k)
        nxt = {"B": 3, "H": 2, "RT": 2, "RR": 1, "HR": 1, "BR": 2, "EC": 1, "TO": 1, "C1": 2, "SL": 2, "C2": 2}[k]
        return ExprC11.kinds(e[nxt], acc)

    @staticmethod
    def bounds(e, acc=None):
        acc = [] if acc is None else acc
        k = e[0]
        if k in ("L", "M"):
            return acc
        if k == "B":
            acc.extend(e[2])
        for x in e[1:]:
            if isinstance(x, tuple) and x and isinstance(x[0], str) and x[0] in ("L", "M", "B", "H", "RT", "RR", "HR", "BR",
                                                                             "EC", "TO", "C1", "SL", "C2"):
                ExprC11.bounds(x, acc)
        return acc


def c11_f7(case):
    """signature of the known finding F8: a `T&&` signal parameter whose argument passes a tuple-slicing adaptor
    (bind/hide) below a forwarding call operator (there `T_arg` is deduced as `X` and std::tuple<X> move-constructs)"""
    if "r" not in case["sig"]:
        return False

    def walk(e, cats, explicit):
        k = e[0]
        if k in ("L", "M"):
            return False
        if not explicit:
            cats = ["xvD" if c == "xvE" else c for c in cats]
        if k in ("B", "H"):
            if "xvD" in cats:
                return True
            n = len(cats)
            if k == "B":
                loc = n if e[1] == -1 else e[1]
                add = ["clv" if b[0] in "cC" else "lv" for b in e[2]]
                return walk(e[3], cats[:loc] + add + cats[loc:], False)
            idx = n - 1 if e[1] == -1 else e[1]
            return walk(e[2], [c for j, c in enumerate(cats) if j != idx], False)
        if k == "RT":
            return walk(e[2], [("temp" if t == "v" else cast_cat(t, c)) for t, c in zip(e[1], cats)], False)
        if k == "SL":
            return walk(e[2], [c if c == "temp" else take_cat(t, c) for t, c in zip(e[1], cats)], True)
        if k == "C2":
            cs = [c if c == "temp" else named_cat(c) for c in cats]
            return walk(e[2], cs, False) or walk(e[3], cs, False)
        nxt = {"RR": 1, "HR": 1, "BR": 2, "EC": 1, "TO": 1, "C1": 2}[k]
        return walk(e[nxt], cats, False)

    top = [take_cat(k, "lv") if k == "r" else "stable" for k in case["sig"]]
    top = [c if c == "xvE" else "lv" for c in top]
    # only the rvalue-reference positions matter
    return any(walk(s, top, True) for s in case["slots"])


class IdealC11:
    """the property statement as an interpreter: adaptors route designators of the caller's objects (insert / erase /
    pass on) and never copy; only declared by-value parameters (of a target, or of retype's target type) make a copy
    (a move from an rvalue).  This is the C11 monitor's oracle; it knows nothing of tuples or forwarding."""

    def __init__(self, case):
        self.c = case
        self.vals = {}
        self.calls = []
        self.bcopies = {}
        self.bmoves = {}
        self.tmp = 0

    def label(self, d):
        return "%s%d" % d if d[0] in "eb" else "x"

    def new_temp(self, v):
        self.tmp += 1
        d = ("t", self.tmp)
        self.vals[d] = v
        return d

    def construct(self, d, cat, force_copy=False):
        """a declared by-value parameter initialised from designator d"""
        v = self.vals[d]
        move = cat in ("xvD", "xvE") and not force_copy
        if move:
            self.vals[d] = -1
        if d[0] == "b":
            key = self.bmoves if move else self.bcopies
            key[d[1]] = key.get(d[1], 0) + 1
        return self.new_temp(v)

    def run(self):
        c = self.c
        for i, v in enumerate(c["vals"]):
            self.vals[("e", i)] = v
        for s in c["slots"]:
            for b in ExprC11.bounds(s):
                self.vals[("s" if b[0] == "v" else "b", b[1] % 100)] = b[2]
        res = "void" if c["kind"] == "V" else 0
        if c.get("route") == "D":
            # the functor called directly with the caller's objects as lvalues (std::as_const for a `c` position)
            items = [(("e", i), "clv" if k == "c" else "lv") for i, k in enumerate(c["sig"])]
            r = self.sim(c["slots"][0], items, False)
            return "void" if r is None else r
        for s in c["slots"]:
            items = []
            for i, k in enumerate(c["sig"]):
                cat = take_cat(k, "lv")
                if c["kind"] == "I" and c.get("route") != "S":
                    cat = named_cat(cat)
                items.append((("e", i), cat))
            r = self.sim(s, items, True)
            if c["kind"] == "I":
                res = r
        return res

    def sim(self, e, items, explicit, getter=False):
        k = e[0]
        if not explicit:
            items = [(d, "xvD" if cat == "xvE" else cat) for d, cat in items]
        if k == "L":
            _, i, ptr, retv, pks = e
            params = []
            for pk, (d, cat) in zip(pks, items):
                if pk == "v":
                    own = self.construct(d, cat, force_copy=ptr and not getter)
                    params.append((own, True, self.label(d)))
                elif pk == "c":
                    params.append((d, False, self.label(d)))
                else:
                    params.append((d, cat != "clv", self.label(d)))
            rec = []
            total = 0
            for pos, (key, writable, lab) in enumerate(params):
                seen = self.vals[key]
                rec.append((lab, seen))
                total += seen
                if writable:
                    self.vals[key] = seen + 100 * (i + 1) + pos
            self.calls.append((i, rec))
            return 1000 * (i + 1) + total if retv else None
        if k == "M":
            # the property for an unbound member functor f(obj, args...): the method runs on the passed object itself
            # (`this` is listed as parameter 0), the method's own parameters as for any target
            _, i, der, cm, retv, pks = e
            (d0, cat0), rest = items[0], items[1:]
            params = [(d0, (not cm) and cat0 != "clv", self.label(d0))]
            for pk, (d, cat) in zip(pks, rest):
                if pk == "v":
                    own = self.construct(d, cat, force_copy=True)
                    params.append((own, True, self.label(d)))
                elif pk == "c":
                    params.append((d, False, self.label(d)))
                else:
                    params.append((d, cat != "clv", self.label(d)))
            rec = []
            total = 0
            for pos, (key, writable, lab) in enumerate(params):
                seen = self.vals[key]
                rec.append((lab, seen))
                total += seen
                if writable:
                    self.vals[key] = seen + 100 * (i + 1) + pos
            self.calls.append((i, rec))
            return 1000 * (i + 1) + total if retv else None
        if k == "B":
            _, loc, bs, f = e
            # a reference stays a reference through the adaptor; afterwards it is an lvalue
            items = [(d, "clv" if cat in ("clv",) else ("lv" if cat in ("lv", "xvE") else "clv")) for d, cat in items]
            add = [((("s" if b[0] == "v" else "b"), b[1] % 100), "clv" if b[0] in "cC" else "lv") for b in bs]
            n = len(items)
            pos = n if loc == -1 else loc
            return self.sim(f, items[:pos] + add + items[pos:], False)          # inserted at I / appended
        if k == "H":
            items = [(d, "clv" if cat in ("clv",) else ("lv" if cat in ("lv", "xvE") else "clv")) for d, cat in items]
            idx = len(items) - 1 if e[1] == -1 else e[1]
            return self.sim(e[2], [x for j, x in enumerate(items) if j != idx], False)   # without argument I
        if k == "RT":
            out = []
            for t, (d, cat) in zip(e[1], items):
                if t == "v":
                    out.append((self.construct(d, cat), "xvD"))                # converted to the by-value type
                else:
                    out.append((d, cast_cat(t, cat)))
            return self.sim(e[2], out, False)
        if k == "SL":
            return self.sim(e[2], [(d, take_cat(t, cat)) for t, (d, cat) in zip(e[1], items)], True)
        if k == "RR":
            return self.sim(e[1], items, False)
        if k == "HR":
            self.sim(e[1], items, False)
            return None
        if k == "BR":
            self.sim(e[2], items, False)
            return e[1]
        if k in ("EC", "TO"):
            return self.sim(e[1], items, False)
        if k == "C1":
            r = self.sim(e[2], items, False, True)
            return (r or 0) + e[1] + 1
        if k == "C2":
            its = [(d, named_cat(cat)) for d, cat in items]
            r1 = self.sim(e[2], its, False, True)
            r2 = self.sim(e[3], its, False, True)
            return (r1 or 0) + 2 * (r2 or 0) + e[1] + 1
        raise ValueError(k)


def c11_tracked(case):
    ids = [("e", i) for i in range(len(case["sig"]))]
    seen = []
    for s in case["slots"]:
        for b in ExprC11.bounds(s):
            if b[0] in "rcRC" and ("b", b[1] % 100) not in seen:
                seen.append(("b", b[1] % 100))
    return ids + seen


def c11_ideal_obs(case):
    m = IdealC11(case)
    res = m.run()
    calls = ";".join("%d(%s)" % (i, ",".join("%s:%d" % p for p in rec)) for i, rec in m.calls)
    objs = []
    for d in c11_tracked(case):
        if d[0] == "b":
            objs.append("b%d:%d:c%d:m%d" % (d[1], m.vals[d], m.bcopies.get(d[1], 0), m.bmoves.get(d[1], 0)))
        else:
            objs.append("e%d:%d" % (d[1], m.vals[d]))
    return {"calls": canon_log(calls), "objs": objs, "res": "none" if res is None else str(res)}


def parse_obs11(s):
    d = dict(p.split("=", 1) for p in s.split(" ") if "=" in p)
    return {"calls": canon_log(d.get("calls", "")), "objs": [o for o in d.get("objs", "").split(",") if o],
            "res": d.get("res", "")}


def c11_monitor(case, obs):
    """C11 on the implementation's own observation; returns None or the violated clause"""
    ideal = c11_ideal_obs(case)
    if obs["res"] != ideal["res"]:
        return "result: emit returned %s, the last slot that ran returned %s" % (obs["res"], ideal["res"])
    ic = [r for r in ideal["calls"].split(";") if r]
    oc = [r for r in obs["calls"].split(";") if r]
    if len(ic) != len(oc):
        return "targets invoked: %s, expected %s" % (obs["calls"], ideal["calls"])
    for a, b in zip(oc, ic):
        ida, pa = a.split("(")
        idb, pb = b.split("(")
        if ida != idb:
            return "targets invoked: %s, expected %s" % (obs["calls"], ideal["calls"])
        pa = [p for p in pa[:-1].split(",") if p]
        pb = [p for p in pb[:-1].split(",") if p]
        if len(pa) != len(pb):
            return "target %s received %s, expected %s" % (ida, a, b)
        for pos, (x, y) in enumerate(zip(pa, pb)):
            lx, vx = x.split(":")
            ly, vy = y.split(":")
            by_value_decl = ly.startswith("e") and case["sig"][int(ly[1:])] == "v"
            if ly != "x" and lx != ly and not by_value_decl:
                kind = "the emitter's object" if ly.startswith("e") else "the reference-bound object (std::ref / std::cref / reference-typed bound argument)"
                what = "parameter %d" % pos
                if pos == 0 and int(ida) in c11_member_ids(case):
                    what = "`this` of the member function (parameter 0: the object argument)"
                return ("target %s %s must be %s %s but is %s (a copy)" % (ida, what, kind, ly,
                                                                           "another object" if lx == "x" else lx))
            if vx != vy:
                return ("target %s parameter %d saw value %s, the emitted/current value is %s" % (ida, pos, vx, vy))
    for o, i in zip(obs["objs"], ideal["objs"]):
        of = o.split(":")
        jf = i.split(":")
        if of[1] != jf[1]:
            return "after the emission %s has value %s, expected %s (modifications by the slots)" % (of[0], of[1], jf[1])
        if jf[0].startswith("b") and (of[2] != jf[2] or of[3] != jf[3]):
            return "reference-bound object %s was copied/moved: %s (only declared by-value parameters may: %s)" % (
                of[0], ":".join(of[2:]), ":".join(jf[2:]))
    return None


def c11_member_ids(case):
    ids = set()

    def walk(e):
        if e[0] == "M":
            ids.add(e[1])
        for x in e[1:]:
            if isinstance(x, tuple) and x and isinstance(x[0], str) and len(x[0]) <= 2 and x[0].isupper():
                walk(x)

    for s in case["slots"]:
        walk(s)
    return ids


def c11_member_targets(e, below=False, bk=None):
    """[(member-functor leaf, below an adaptor?, kind of the bound object when bind<0> supplies the object)]"""
    k = e[0]
    if k == "M":
        return [(e, below, bk)]
    if k == "L":
        return []
    if k == "B":
        return c11_member_targets(e[3], True, e[2][0][0].lower() if e[1] == 0 else None)
    out = []
    for x in e[1:]:
        if isinstance(x, tuple) and x and isinstance(x[0], str) and len(x[0]) <= 2 and x[0].isupper():
            out += c11_member_targets(x, True, None)
    return out


def c11_line(c):
    extra = []
    seen = set()
    for s in c["slots"]:
        for b in ExprC11.bounds(s):
            if b[1] not in seen:
                seen.add(b[1])
                extra.append("%d:%d" % (b[1], b[2]))
    kind = ("D" + c["kind"]) if c.get("route") == "D" else c["kind"]
    toks = ["c11", kind, str(len(c["sig"]))] + list(c["sig"]) + [str(len(c["vals"]))] + [str(v) for v in c["vals"]]
    toks += [str(len(extra))] + extra + [str(len(c["slots"]))]
    for s in c["slots"]:
        toks += ExprC11.tokens(s)
    return " ".join(toks)


def c11_body(c, local_id):
    b = ["  av::obegin(%d);" % local_id]
    n = len(c["sig"])
    cls = c11_cls(c)
    route = c.get("route", "G")
    for i, v in enumerate(c["vals"]):
        b.append('  av::%s e%d(%d); av::track(&e%d, "e%d");' % ("DObj" if cls[i] == "d" else "Obj", i, v, i, i))
    seen = set()
    for s in c["slots"]:
        for bd in ExprC11.bounds(s):
            if bd[1] in seen:
                continue
            seen.add(bd[1])
            j = bd[1] % 100
            ty = "DObj" if (len(bd) > 3 and bd[3] == "d") else "Obj"
            if bd[0] == "v":
                b.append("  av::%s s%d(%d);" % (ty, j, bd[2]))
            else:
                b.append('  av::%s b%d(%d); av::track(&b%d, "b%d");' % (ty, j, bd[2], j, j))
    ret = "void" if c["kind"] == "V" else "int"
    b.append('  std::string res = "void";')
    b.append("  {")
    sigt = "%s(%s)" % (ret, ", ".join(pk_cxx(k, q) for k, q in zip(c["sig"], cls)))
    args = ", ".join(("std::move(e%d)" if k == "r" else "e%d") % i for i, k in enumerate(c["sig"]))
    if route == "D":
        # direct call of the functor with the caller's objects as lvalues
        b.append("    auto f = %s;" % ExprC11.cxx(c["slots"][0]))
        args = ", ".join(("std::as_const(e%d)" if k == "c" else "e%d") % i for i, k in enumerate(c["sig"]))
        call = "f(%s)" % args
    elif route == "S":
        b.append("    sigc::slot<%s> sl(%s);" % (sigt, ExprC11.cxx(c["slots"][0])))
        call = "sl(%s)" % args
    else:
        b.append("    sigc::signal<%s> sig;" % sigt)
        for s in c["slots"]:
            b.append("    sig.connect(%s);" % ExprC11.cxx(s))
        call = "sig.emit(%s)" % args
    if c["kind"] == "V":
        b.append("    %s;" % call)
    else:
        b.append("    res = std::to_string(%s);" % call)
    b.append("  }")
    objs = ", ".join("&%s%d" % d for d in c11_tracked(c))
    b.append("  av::ofinish(%d, {%s}, res);" % (local_id, objs))
    return "\n".join(b)


class GenC11:
    def __init__(self, rng):
        self.rng = rng
        self.nid = 0
        self.nb = 0

    def fresh(self):
        self.nid += 1
        return self.nid - 1

    def bound(self, kind=None, cls=None):
        r = self.rng
        k = kind or r.choice("vrc")
        j = self.nb
        self.nb += 1
        if cls is not None:
            return (k, (200 if k == "v" else 100) + j, 40 + 3 * j + r.below(3), cls)      # cls: 'b' Obj / 'd' DObj
        return (k, (200 if k == "v" else 100) + j, 40 + 3 * j + r.below(3))

    def memleaf(self, cats, clss, want, nomut):
        """unbound sigc::mem_fun(&av::Obj::meth) as the target: the first incoming argument is the object.  Returns None
        when the first argument cannot be the object of a member functor (no argument / an rvalue)."""
        r = self.rng
        if not cats or cats[0] not in ("lv", "clv"):
            return None
        cm = cats[0] == "clv" or nomut or r.chance(0.25)
        pks = ""
        for c in cats[1:]:
            legal = LEGAL[c]
            if nomut:
                legal = "".join(x for x in legal if x in "vc")
            pks += r.choice(legal)
        return ("M", self.fresh(), clss[0] == "d", cm, want == "int", pks)

    def leaf(self, cats, want, nomut, ptr_only=False, pks=None):
        r = self.rng
        if pks is None:
            pks = ""
            for c in cats:
                legal = LEGAL[c]
                if nomut:
                    legal = "".join(x for x in legal if x in "vc")
                pks += r.choice(legal)
        retv = want == "int"
        return ("L", self.fresh(), ptr_only or r.chance(0.5), retv, pks)

    def expr(self, cats, explicit, chain, want, nomut=False, allow_f7=False, clss=None):
        """cats: categories of the incoming arguments as the real code sees them.
        clss: None, or the static class ('b' av::Obj / 'd' av::DObj) of every incoming argument — then the target is an
        unbound member functor sigc::mem_fun(&av::Obj::meth) whose object is the first argument that reaches it"""
        r = self.rng
        if not explicit:
            cats = ["xvD" if c == "xvE" else c for c in cats]
        if not chain:
            if clss is not None:
                m = self.memleaf(cats, clss, want, nomut)
                if m is not None:
                    return m
            return self.leaf(cats, want, nomut)
        kind, rest = chain[0], chain[1:]
        pos = None
        bspec = None
        if isinstance(kind, tuple):
            bspec = kind[2] if len(kind) > 2 else None      # ("Bi", pos, (bound kind, class)): one bound object as given
            kind, pos = kind[0], (kind[1] if len(kind) > 1 else None)
        n = len(cats)

        def skip():
            return self.expr(cats, explicit, rest, want, nomut, allow_f7, clss)

        if kind in ("Bi", "B", "Hi", "H"):
            if "xvE" in cats or ("xvD" in cats and not allow_f7):
                return skip()
            after = ["clv" if c in ("clv", "xvD") else "lv" for c in cats]
            if kind in ("Bi", "B"):
                k = 1 + r.below(3)
                if n + k > 6:
                    k = 6 - n
                if k < 1:
                    return skip()
                loc = -1 if kind == "B" else (pos if pos is not None and pos <= n else r.below(n + 1))
                if bspec is not None:
                    # one bound object as given, or a list of them: (kind, class) with kind v / r / c / R / C
                    specs = bspec if isinstance(bspec, list) else [bspec]
                    if n + len(specs) > 6:
                        return skip()
                    bs = tuple(self.bound(k_, c_) for k_, c_ in specs)
                elif clss is not None:
                    bs = tuple(self.bound(None, r.choice("bd")) for _ in range(k))
                else:
                    bs = tuple(self.bound() for _ in range(k))
                p = n if loc == -1 else loc
                add = ["clv" if b[0] in "cC" else "lv" for b in bs]
                cl2 = None if clss is None else list(clss[:p]) + [b[3] for b in bs] + list(clss[p:])
                return ("B", loc, bs, self.expr(after[:p] + add + after[p:], False, rest, want, nomut, allow_f7, cl2))
            if n < 1:
                return skip()
            loc = -1 if kind == "H" else (pos if pos is not None and pos < n else r.below(n))
            idx = n - 1 if loc == -1 else loc
            cl2 = None if clss is None else [c for j, c in enumerate(clss) if j != idx]
            return ("H", loc, self.expr([c for j, c in enumerate(after) if j != idx], False, rest, want, nomut, allow_f7, cl2))
        if kind in ("RT", "SL"):
            if kind == "RT" and clss is not None:
                return skip()          # retype() of an unbound mem_functor has no T_type for the object: not usable
            tys = ""
            for c in cats:
                legal = LEGAL[c]
                if nomut:
                    legal = "".join(x for x in legal if x in "vc")
                tys += r.choice(legal)
            if kind == "SL":
                inner = self.expr([take_cat(t, c) for t, c in zip(tys, cats)], True, rest, want, nomut, allow_f7, clss)
                if clss is not None:
                    return ("SL", tys, inner, "".join(clss))      # the nested slot is declared with the same classes
                return ("SL", tys, inner)
            if not rest or r.chance(0.4):
                return ("RT", tys, self.leaf(cats, want, nomut, ptr_only=True, pks=tys))
            inner = self.expr([take_cat(t, "xvD" if t == "v" else cast_cat(t, c)) for t, c in zip(tys, cats)], True,
                              rest, want, nomut, allow_f7)
            return ("RT", tys, ("SL", tys, inner))
        # a slot<void(...)> / void signal cannot hold a value-returning functor: wrap those in hide_return
        wrap = (lambda x: ("HR", x)) if want == "void" else (lambda x: x)
        anyw = r.choice(["int", "void"])
        if kind == "C2":
            cs = [named_cat(c) for c in cats]
            g1 = self.expr(cs, False, rest, "int", True, allow_f7, clss)
            g2 = self.leaf(cs, "int", True)
            return wrap(("C2", r.below(5), g1, g2))
        if kind == "RR":
            return wrap(("RR", self.expr(cats, False, rest, "int", nomut, allow_f7, clss)))
        if kind == "HR":
            if want == "int":
                return skip()
            return ("HR", self.expr(cats, False, rest, anyw, nomut, allow_f7, clss))
        if kind == "BR":
            return wrap(("BR", 500 + r.below(100), self.expr(cats, False, rest, anyw, nomut, allow_f7, clss)))
        if kind == "EC":
            return ("EC", self.expr(cats, False, rest, want, nomut, allow_f7, clss))
        if kind == "TO":
            return ("TO", self.expr(cats, False, rest, want, nomut, allow_f7, clss))
        if kind == "C1":
            return wrap(("C1", r.below(5), self.expr(cats, False, rest, "int", nomut, allow_f7, clss)))
        raise ValueError(kind)

    def case(self, sig, nslots, chains, kind=None, allow_f7=False):
        r = self.rng
        self.nid = 0
        self.nb = 0
        if kind is None:
            kind = "V" if ("r" in sig or r.chance(0.5)) else "I"
        if "r" in sig:
            kind = "V"
        vals = [7 + 10 * i + r.below(5) for i in range(len(sig))]
        slots = []
        for s in range(nslots):
            cats = [take_cat(k, "lv") for k in sig]
            if kind == "I":
                cats = [named_cat(c) for c in cats]
            slots.append(self.expr(cats, True, chains[s], "int" if kind == "I" else "void", False, allow_f7))
        return {"kind": kind, "sig": sig, "vals": tuple(vals), "slots": tuple(slots)}

    def mem_case(self, sig, cls, route, chains, kind=None):
        """targets are unbound member functors sigc::mem_fun(&av::Obj::meth) / cmeth; `cls`: static class of the emitter's
        object per position ('b' av::Obj, 'd' av::DObj); route "G" signal emission, "S" one slot called, "D" the functor
        called directly with lvalues.  No `T&&` positions."""
        r = self.rng
        self.nid = 0
        self.nb = 0
        if kind is None:
            kind = r.choice("VI")
        vals = [7 + 10 * i + r.below(5) for i in range(len(sig))]
        slots = []
        for ch in chains:
            if route == "D":
                cats = ["clv" if k == "c" else "lv" for k in sig]
                slots.append(self.expr(cats, False, ch, "int" if kind == "I" else "void", False, False, list(cls)))
            else:
                cats = [take_cat(k, "lv") for k in sig]
                slots.append(self.expr(cats, True, ch, "int" if kind == "I" else "void", False, False, list(cls)))
        return {"kind": kind, "sig": sig, "vals": tuple(vals), "slots": tuple(slots), "cls": cls, "route": route}
