// Support code for the C09 correspondence check (generated translation units include this header).
// Each generated case is `vs::run_case<Signature>(id, spec, victims, maker)`; it runs in a forked child so that a
// sanitizer abort in one case is reported as the behaviour of that case and the others still run.
//
// Targets never touch the object they are called on / the objects they are passed: they only count calls.
#ifndef VERIF_VISIT_SUPPORT_H
#define VERIF_VISIT_SUPPORT_H
#include <sigc++/sigc++.h>
#include <sigc++/signal_connect.h>
#include <cstdio>
#include <cstdlib>
#include <cstring>
#include <functional>
#include <string>
#include <vector>
#include <sys/wait.h>
#include <unistd.h>

namespace vs
{
inline int g_calls = 0;
inline int g_user = 0;

#define VS_METHODS                                  \
  void mV0() { ++g_calls; }                         \
  void mV1(int) { ++g_calls; }                      \
  void mV2(int, int) { ++g_calls; }                 \
  int mI0() { ++g_calls; return 3; }                \
  int mI1(int) { ++g_calls; return 3; }             \
  int mI2(int, int) { ++g_calls; return 3; }           \
  void kV0() const { ++g_calls; }                   \
  void kV1(int) const { ++g_calls; }                \
  void kV2(int, int) const { ++g_calls; }           \
  int kI0() const { ++g_calls; return 3; }          \
  int kI1(int) const { ++g_calls; return 3; }       \
  int kI2(int, int) const { ++g_calls; return 3; }

// trackable directly; its methods are INHERITED from a non-trackable base, some of its methods (b*) are INHERITED from a non-trackable base, so that &TD::bV0 has type
// void (MB::*)(): mem_fun must decide tracking from the class of the bound object, not of the method
struct MB
{
  void bV0() { ++g_calls; }
  void bV1(int) { ++g_calls; }
  void bV2(int, int) { ++g_calls; }
  int bI0() { ++g_calls; return 3; }
  int bI1(int) { ++g_calls; return 3; }
  int bI2(int, int) { ++g_calls; return 3; }
  // the const / volatile / const volatile overloads of mem_fun, again with inherited methods
#define VS_CV(P, Q)                                   \
  void P##V0() Q { ++g_calls; }                       \
  void P##V1(int) Q { ++g_calls; }                    \
  void P##V2(int, int) Q { ++g_calls; }               \
  int P##I0() Q { ++g_calls; return 3; }              \
  int P##I1(int) Q { ++g_calls; return 3; }           \
  int P##I2(int, int) Q { ++g_calls; return 3; }
  VS_CV(bc, const)
  VS_CV(bv, volatile)
  VS_CV(bw, const volatile)
#undef VS_CV
};
struct TD : MB, sigc::trackable
{
  long pad = 1;
  VS_METHODS
};
// trackable reached through a virtual base (via an intermediate class)
struct VMid : virtual sigc::trackable
{
  long mid = 2;
};
struct TV : VMid
{
  long pad = 3;
  VS_METHODS
};
// not a trackable
struct UT
{
  long pad = 4;
  VS_METHODS
};

inline void fV0() { ++g_calls; }
inline void fV1(int) { ++g_calls; }
inline void fV2(int, int) { ++g_calls; }
inline int fI0() { ++g_calls; return 3; }
inline int fI1(int) { ++g_calls; return 3; }
inline int fI2(int, int) { ++g_calls; return 3; }

// targets that take a functor BY VALUE as a sigc::slot parameter (like `run_then(int, continuation)`): a functor bound
// with sigc::bind() is converted to the slot parameter on every call.  They never invoke what they are passed.
#define VS_SLOT_TARGETS(Q, M, SIG)                                          \
  inline void gV_##Q##M(sigc::slot<SIG>) { ++g_calls; }                     \
  inline int gI_##Q##M(sigc::slot<SIG>) { ++g_calls; return 3; }            \
  inline void hV_##Q##M(int, sigc::slot<SIG>) { ++g_calls; }                \
  inline int hI_##Q##M(int, sigc::slot<SIG>) { ++g_calls; return 3; }
VS_SLOT_TARGETS(V, 0, void())
VS_SLOT_TARGETS(V, 1, void(int))
VS_SLOT_TARGETS(I, 0, int())
VS_SLOT_TARGETS(I, 1, int(int))
#undef VS_SLOT_TARGETS

// functor objects accepting anything — ints, object references, functors bound by value — (never touch their arguments)
struct LeafV
{
  template<typename... A>
  void operator()(A&&...) const
  {
    ++g_calls;
  }
};
struct LeafI
{
  template<typename... A>
  int operator()(A&&...) const
  {
    ++g_calls;
    return 3;
  }
};

// ---- object pool: every object individually heap allocated, named by a small id --------------
// class codes: D = TD, V = TV, U = UT, s<k> = sigc::signal<Sig_k>, t<k> = sigc::trackable_signal<Sig_k>
// with k: 0 void(), 1 void(int), 2 int(), 3 int(int)
template<int K> struct SigOf;
template<> struct SigOf<0> { using type = void(); };
template<> struct SigOf<1> { using type = void(int); };
template<> struct SigOf<2> { using type = int(); };
template<> struct SigOf<3> { using type = int(int); };

struct Slot
{
  char cls = 0; // 0 = unused
  int k = 0;
  void* p = nullptr;
  const sigc::trackable* trk = nullptr; // the trackable sub-object, if any
};

struct Pool
{
  static constexpr int N = 8;
  Slot o[N];

  template<typename T>
  static const sigc::trackable* trk_of(T* p)
  {
    if constexpr (std::is_base_of<sigc::trackable, T>::value)
      return static_cast<const sigc::trackable*>(p);
    else
      return nullptr;
  }
  template<typename T>
  void make(int id, char cls, int k)
  {
    T* p = new T();
    o[id].cls = cls;
    o[id].k = k;
    o[id].p = p;
    o[id].trk = trk_of(p);
  }
  // spec: "1D 2V 3U 4s1 5t0"
  explicit Pool(const char* spec)
  {
    const char* c = spec;
    while (*c)
    {
      while (*c == ' ')
        ++c;
      if (!*c)
        break;
      int id = *c++ - '0';
      char cls = *c++;
      int k = 0;
      if (cls == 's' || cls == 't')
        k = *c++ - '0';
      switch (cls)
      {
      case 'D': make<TD>(id, cls, k); break;
      case 'V': make<TV>(id, cls, k); break;
      case 'U': make<UT>(id, cls, k); break;
      case 's':
        switch (k)
        {
        case 0: make<sigc::signal<void()>>(id, cls, k); break;
        case 1: make<sigc::signal<void(int)>>(id, cls, k); break;
        case 2: make<sigc::signal<int()>>(id, cls, k); break;
        default: make<sigc::signal<int(int)>>(id, cls, k); break;
        }
        break;
      case 't':
        switch (k)
        {
        case 0: make<sigc::trackable_signal<void()>>(id, cls, k); break;
        case 1: make<sigc::trackable_signal<void(int)>>(id, cls, k); break;
        case 2: make<sigc::trackable_signal<int()>>(id, cls, k); break;
        default: make<sigc::trackable_signal<int(int)>>(id, cls, k); break;
        }
        break;
      default: std::abort();
      }
    }
  }
  void destroy(int id)
  {
    Slot& s = o[id];
    if (!s.p)
      return;
    switch (s.cls)
    {
    case 'D': delete static_cast<TD*>(s.p); break;
    case 'V': delete static_cast<TV*>(s.p); break;
    case 'U': delete static_cast<UT*>(s.p); break;
    case 's':
      switch (s.k)
      {
      case 0: delete static_cast<sigc::signal<void()>*>(s.p); break;
      case 1: delete static_cast<sigc::signal<void(int)>*>(s.p); break;
      case 2: delete static_cast<sigc::signal<int()>*>(s.p); break;
      default: delete static_cast<sigc::signal<int(int)>*>(s.p); break;
      }
      break;
    case 't':
      switch (s.k)
      {
      case 0: delete static_cast<sigc::trackable_signal<void()>*>(s.p); break;
      case 1: delete static_cast<sigc::trackable_signal<void(int)>*>(s.p); break;
      case 2: delete static_cast<sigc::trackable_signal<int()>*>(s.p); break;
      default: delete static_cast<sigc::trackable_signal<int(int)>*>(s.p); break;
      }
      break;
    }
    s.p = nullptr;
    s.trk = nullptr;
  }
  void destroy_all(bool trackables_only = false)
  {
    for (int i = 0; i < N; ++i)
      if (!trackables_only || o[i].trk)
        destroy(i);
  }
  ~Pool() { destroy_all(); }

  TD& d(int id) { return *static_cast<TD*>(o[id].p); }
  TV& v(int id) { return *static_cast<TV*>(o[id].p); }
  UT& u(int id) { return *static_cast<UT*>(o[id].p); }
  template<typename Sig>
  sigc::signal<Sig>& s(int id) { return *static_cast<sigc::signal<Sig>*>(o[id].p); }
  template<typename Sig>
  sigc::trackable_signal<Sig>& t(int id) { return *static_cast<sigc::trackable_signal<Sig>*>(o[id].p); }
};

// ---- the recorder: what does visit_each_trackable reach? -------------------------------------
struct Recorder
{
  const Pool* pool;
  std::string* out;
  void operator()(const sigc::trackable& t) const
  {
    for (int i = 0; i < Pool::N; ++i)
      if (pool->o[i].trk == &t)
      {
        *out += (out->empty() ? "" : ",");
        *out += std::to_string(i);
        return;
      }
    *out += (out->empty() ? "" : ",");
    *out += "own";
  }
};

struct Sentinel : sigc::notifiable
{
};
inline void user_notified(sigc::notifiable*) { ++g_user; }

template<typename Sig>
struct Invoke;
template<>
struct Invoke<void()>
{
  static void slot(const sigc::slot<void()>& s) { s(); }
  static void sig(sigc::signal<void()>& s) { s.emit(); }
};
template<>
struct Invoke<int()>
{
  static void slot(const sigc::slot<int()>& s) { s(); }
  static void sig(sigc::signal<int()>& s) { s.emit(); }
};
template<>
struct Invoke<void(int)>
{
  static void slot(const sigc::slot<void(int)>& s) { s(5); }
  static void sig(sigc::signal<void(int)>& s) { s.emit(5); }
};
template<>
struct Invoke<int(int)>
{
  static void slot(const sigc::slot<int(int)>& s) { s(5); }
  static void sig(sigc::signal<int(int)>& s) { s.emit(5); }
};

inline void out(const std::string& s)
{
  ssize_t r = write(1, s.data(), s.size());
  (void)r;
}

// One victim list entry: id and whether the expression refers to it by reference (statement side,
// computed by the generator from the expression text, not from any model).
struct Victim
{
  int id;
  bool referenced;
};

// `mk(pool)` returns the functor expression.  `mode` 0: slot + connected copy; 1: signal_connect form
// (then mk returns the connection and takes the signal).
template<typename Sig, typename Mk>
void case_body(int id, const char* spec, const std::vector<Victim>& victims, Mk mk)
{
  const std::string tag = std::to_string(id);
  // ---- R: what the visitors reach (own rep), on the adaptor_type the slot would store
  {
    Pool p(spec);
    {
      auto e = mk(p);
      using F = decltype(e);
      typename sigc::adaptor_trait<F>::adaptor_type a(e);
      std::string rec;
      sigc::visit_each_trackable(Recorder{ &p, &rec }, a);
      out("R " + tag + " " + (rec.empty() ? "-" : rec) + "\n");
    }
  }
  // ---- A: victim first
  int nv = 0;
  for (const Victim& v : victims)
  {
    ++nv;
    Pool p(spec);
    auto* s = new sigc::slot<Sig>(mk(p));
    auto* sig = new sigc::signal<Sig>();
    sig->connect(*s);
    const bool e0 = s->empty();
    const int n0 = static_cast<int>(sig->size());
    p.destroy(v.id);
    const bool e1 = s->empty();
    const int n1 = static_cast<int>(sig->size());
    std::string line = "A " + tag + " " + std::to_string(v.id) + " before=" + (e0 ? "1" : "0") + "/" +
                       std::to_string(n0) + " empty=" + (e1 ? "1" : "0") + " size=" + std::to_string(n1);
    if (v.referenced && (!e1 || n1 != 0))
    {
      // the property is already violated; invoking would call into a destroyed object
      out(line + " calls=skipped\n");
    }
    else
    {
      g_calls = 0;
      Invoke<Sig>::slot(*s);
      Invoke<Sig>::sig(*sig);
      out(line + " calls=" + std::to_string(g_calls) + "\n");
    }
    if ((id + nv) % 2 == 0)
    {
      p.destroy_all(true);
      delete s;
      delete sig;
    }
    else
    {
      delete sig;
      delete s;
    }
    // ~Pool destroys what is left
  }
  // ---- B: slot and signal first, trackables afterwards (twice: a second generation of the slot
  //         is made and destroyed in between registrations of the first)
  {
    Pool p(spec);
    // a user registers the same notifiable twice in every trackable (once before, once after the slot's
    // own registrations) and removes one of the two after the slot is gone: exactly one must remain
    Sentinel sen;
    int m = 0;
    for (int i = 0; i < Pool::N; ++i)
      if (p.o[i].trk)
      {
        p.o[i].trk->add_destroy_notify_callback(&sen, &user_notified);
        ++m;
      }
    auto* s = new sigc::slot<Sig>(mk(p));
    for (int i = 0; i < Pool::N; ++i)
      if (p.o[i].trk)
        p.o[i].trk->add_destroy_notify_callback(&sen, &user_notified);
    auto* sig = new sigc::signal<Sig>();
    sig->connect(*s);
    auto* s2 = new sigc::slot<Sig>(*s);
    delete s;
    sig->connect(*s2);
    delete sig;
    delete s2;
    for (int i = 0; i < Pool::N; ++i)
      if (p.o[i].trk)
        p.o[i].trk->remove_destroy_notify_callback(&sen);
    out("B " + tag + " slot-gone\n");
    g_user = 0;
    g_calls = 0;
    p.destroy_all(true);
    out("B " + tag + " user=" + std::to_string(g_user) + "/" + std::to_string(m) +
        " calls=" + std::to_string(g_calls) + "\n");
  }
}

// signal_connect form: the functor is made inside the library; `connect(sig, pool)` returns the connection
template<typename Sig, typename Cn>
void case_body_connect(int id, const char* spec, const std::vector<Victim>& victims, Cn cn)
{
  const std::string tag = std::to_string(id);
  out("R " + tag + " n/a\n");
  int nv = 0;
  for (const Victim& v : victims)
  {
    ++nv;
    Pool p(spec);
    auto* sig = new sigc::signal<Sig>();
    sigc::connection c = cn(*sig, p);
    const bool e0 = !c.connected();
    const int n0 = static_cast<int>(sig->size());
    p.destroy(v.id);
    const bool e1 = !c.connected();
    const int n1 = static_cast<int>(sig->size());
    std::string line = "A " + tag + " " + std::to_string(v.id) + " before=" + (e0 ? "1" : "0") + "/" +
                       std::to_string(n0) + " empty=" + (e1 ? "1" : "0") + " size=" + std::to_string(n1);
    if (v.referenced && (!e1 || n1 != 0))
      out(line + " calls=skipped\n");
    else
    {
      g_calls = 0;
      Invoke<Sig>::sig(*sig);
      out(line + " calls=" + std::to_string(g_calls) + "\n");
    }
    if ((id + nv) % 2 == 0)
      p.destroy_all(true);
    delete sig;
  }
  {
    Pool p(spec);
    Sentinel sen;
    int m = 0;
    for (int i = 0; i < Pool::N; ++i)
      if (p.o[i].trk)
      {
        p.o[i].trk->add_destroy_notify_callback(&sen, &user_notified);
        ++m;
      }
    auto* sig = new sigc::signal<Sig>();
    sigc::connection c = cn(*sig, p);
    for (int i = 0; i < Pool::N; ++i)
      if (p.o[i].trk)
        p.o[i].trk->add_destroy_notify_callback(&sen, &user_notified);
    delete sig;
    for (int i = 0; i < Pool::N; ++i)
      if (p.o[i].trk)
        p.o[i].trk->remove_destroy_notify_callback(&sen);
    out("B " + tag + " slot-gone\n");
    g_user = 0;
    g_calls = 0;
    p.destroy_all(true);
    out("B " + tag + " user=" + std::to_string(g_user) + "/" + std::to_string(m) +
        " calls=" + std::to_string(g_calls) + "\n");
  }
}

template<typename Body>
void forked(int id, Body body)
{
  fflush(stdout);
  fflush(stderr);
  pid_t pid = fork();
  if (pid == 0)
  {
    body();
    _exit(0);
  }
  int st = 0;
  waitpid(pid, &st, 0);
  if (!(WIFEXITED(st) && WEXITSTATUS(st) == 0))
  {
    std::string why = WIFSIGNALED(st) ? "signal" + std::to_string(WTERMSIG(st))
                                      : "exit" + std::to_string(WEXITSTATUS(st));
    out("X " + std::to_string(id) + " " + why + "\n");
  }
  out("E " + std::to_string(id) + "\n");
}

} // namespace vs
#endif
