// Support code of the generated C10 / C11 correspondence programs (see checks/props/adapt_gen.py).
//   C10: recording targets (free function templates and functor classes) of arity 0..6 over int/long/double
//   C11: `Obj` with address identity and copy/move accounting, recording/mutating targets
// Every generated case prints exactly one line:  "<case-id> <canonical observation>"
#ifndef VERIF_ADAPT_SUPPORT_H
#define VERIF_ADAPT_SUPPORT_H
#include <sigc++/sigc++.h>
#include <deque>
#include <vector>
#include <cmath>
#include <cstdio>
#include <functional>
#include <map>
#include <string>
#include <type_traits>
#include <utility>

namespace av
{

inline std::string& buf()
{
  static std::string b;
  return b;
}

// ------------------------------------------------------------------------------------------- C10
struct Thrown
{
};

inline void put(std::string& s, int v) { s += "i:" + std::to_string(v); }
inline void put(std::string& s, long v) { s += "l:" + std::to_string(v); }
inline void put(std::string& s, double v) { s += "d:" + std::to_string(std::llround(v * 10.0)); }

template<int ID, bool THROWS, typename Ret, typename... A>
Ret
leaf(A... a)
{
  std::string& s = buf();
  if (!s.empty())
    s += ";";
  s += std::to_string(ID) + "(";
  int n = 0;
  ((s += (n++ ? "," : ""), put(s, a)), ...);
  s += ")";
  if (THROWS)
    throw Thrown();
  long sum = ID * 100L;
  long i = 1;
  ((sum += (i++) * static_cast<long>(a)), ...);
  if constexpr (std::is_void<Ret>::value)
    return;
  else if constexpr (std::is_same<Ret, double>::value)
    return static_cast<double>(sum) + 0.5;
  else
    return static_cast<Ret>(sum);
}

// the same target as a functor class (reached through adaptor_functor, not pointer_functor)
template<int ID, bool THROWS, typename Ret, typename... A>
struct Rec
{
  Ret operator()(A... a) const { return leaf<ID, THROWS, Ret, A...>(a...); }
};

// a target accepting any number of int/long/double arguments (variadic template operator())
template<int ID, bool THROWS, typename Ret>
struct VRec
{
  template<typename... A>
  Ret operator()(A... a) const
  {
    return leaf<ID, THROWS, Ret, A...>(a...);
  }
};

struct Trk : public sigc::trackable
{
};
inline Trk& trk(int i)
{
  static Trk t[3];
  return t[i % 3];
}

inline void begin() { buf().clear(); }

// bound values given as NAMED VARIABLES (lvalues) that change after the adaptor has been built: bind() must have
// captured their values, not references to them.  lv(x) returns a reference into a pool; poison() overwrites the pool.
struct PoolBase
{
  virtual void poison() = 0;
  virtual ~PoolBase() {}
};
inline std::vector<PoolBase*>& pools()
{
  static std::vector<PoolBase*> p;
  return p;
}
template<typename T>
struct Pool : PoolBase
{
  std::deque<T> v;
  void poison() override
  {
    for (auto& x : v)
      x = T(-77);
  }
};
template<typename T>
T& lv(T x)
{
  static Pool<T>* p = [] {
    auto q = new Pool<T>;
    pools().push_back(q);
    return q;
  }();
  p->v.push_back(x);
  return p->v.back();
}
inline void poison()
{
  for (auto p : pools())
    p->poison();
}

// run one route, print "<id> log=... res=..."
template<typename F>
void
finish(int id, F&& f)
{
  std::string res;
  try
  {
    if constexpr (std::is_void<decltype(f())>::value)
    {
      f();
      res = "unit";
    }
    else
    {
      auto r = f();
      put(res, r);
    }
  }
  catch (const Thrown&)
  {
    res = "threw";
  }
  std::printf("%d log=%s res=%s\n", id, buf().c_str(), res.c_str());
  std::fflush(stdout);
}

// ------------------------------------------------------------------------------------------- C11
struct Tracked
{
  std::string label;
  int copies = 0;
  int moves = 0;
};

struct Obj;
inline std::map<const Obj*, Tracked>& registry()
{
  static std::map<const Obj*, Tracked> r;
  return r;
}

inline std::string
label_of(const Obj* p)
{
  auto it = registry().find(p);
  return it == registry().end() ? std::string("x") : it->second.label;
}

struct Obj
{
  int v;
  std::string from; // label of the object this one was copy/move constructed from

  explicit Obj(int v_) : v(v_), from("-") {}
  Obj(const Obj& o) : v(o.v), from(label_of(&o))
  {
    auto it = registry().find(&o);
    if (it != registry().end())
      ++it->second.copies;
  }
  Obj(Obj&& o) : v(o.v), from(label_of(&o))
  {
    o.v = -1;
    auto it = registry().find(&o);
    if (it != registry().end())
      ++it->second.moves;
  }
  Obj& operator=(const Obj&) = delete;
};

inline void track(const Obj* p, const char* label) { registry()[p].label = label; }

template<typename P>
void
obody(int id, int pos, std::remove_reference_t<P>& p, std::string& s, long& sum)
{
  constexpr bool by_value = !std::is_reference<P>::value;
  constexpr bool is_const = std::is_const<std::remove_reference_t<P>>::value;
  s += (pos ? "," : "");
  s += (by_value ? p.from : label_of(&p)) + ":" + std::to_string(p.v);
  sum += p.v;
  if constexpr (!is_const)
    p.v = p.v + 100 * (id + 1) + pos;
}

template<int ID, bool RETV, typename... P>
std::conditional_t<RETV, int, void>
obody_all(std::remove_reference_t<P>&... p)
{
  std::string rec = std::to_string(ID) + "(";
  long sum = 0;
  int pos = 0;
  (obody<P>(ID, pos++, p, rec, sum), ...);
  rec += ")";
  std::string& s = buf();
  if (!s.empty())
    s += ";";
  s += rec;
  if constexpr (RETV)
    return static_cast<int>(1000 * (ID + 1) + sum);
}

// target as a free function (reached through pointer_functor)
template<int ID, bool RETV, typename... P>
std::conditional_t<RETV, int, void>
oleaf(P... p)
{
  return obody_all<ID, RETV, P...>(p...);
}

// target as a functor class (reached through adaptor_functor only)
template<int ID, bool RETV, typename... P>
struct ORec
{
  std::conditional_t<RETV, int, void> operator()(P... p) const
  {
    return obody_all<ID, RETV, P...>(p...);
  }
};

template<int SID>
int
set1(int r)
{
  return r + SID + 1;
}
template<int SID>
int
set2(int r1, int r2)
{
  return r1 + 2 * r2 + SID + 1;
}

template<typename R>
struct Catcher
{
  R operator()() const
  {
    if constexpr (!std::is_void<R>::value)
      return R(-7);
  }
};

inline void obegin()
{
  buf().clear();
  registry().clear();
}

// print "<id> calls=... objs=... res=..."; `objs` lists the tracked objects in the given order
inline void
ofinish(int id, std::initializer_list<const Obj*> objs, const std::string& res)
{
  std::string o;
  for (const Obj* p : objs)
  {
    const Tracked& t = registry()[p];
    if (!o.empty())
      o += ",";
    o += t.label + ":" + std::to_string(p->v) + ":c" + std::to_string(t.copies) + ":m" +
         std::to_string(t.moves);
  }
  std::printf("%d calls=%s objs=%s res=%s\n", id, buf().c_str(), o.c_str(), res.c_str());
  std::fflush(stdout);
  registry().clear();
}

} // namespace av
#endif
