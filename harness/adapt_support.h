// Support code of the generated C10 / C11 correspondence programs (see checks/props/adapt_gen.py).
//   C10: recording targets (free function templates and functor classes) of arity 0..6 over int/long/double and the
//        move-sensitive class MStr; targets returning T& / const T& to pool objects (`cell<T>(id)`); the printed
//        result says whether the adaptor's result is a reference and to which pool object it refers (by address);
//        targets with declared parameters `T` / `const T&` / `T&&` (qleaf) over the arithmetic types and the string-like
//        class Str (converting constructor, heap payload); two exception types (Thrown, Thrown2) and partial catchers
//   C11: `Obj` with address identity and copy/move accounting, recording/mutating targets; `DObj` derived from `Obj` and
//        recording member functions of `Obj` (targets of unbound sigc::mem_fun(&Obj::meth))
// Every generated case prints exactly one line:  "<case-id> <canonical observation>"; when std::terminate() is called the
// program prints one line "TERMINATE ..." instead and exits with code 24.
#ifndef VERIF_ADAPT_SUPPORT_H
#define VERIF_ADAPT_SUPPORT_H
#include <sigc++/sigc++.h>
#include <deque>
#include <vector>
#include <cmath>
#include <cstdio>
#include <cstdlib>
#include <exception>
#include <functional>
#include <initializer_list>
#include <map>
#include <memory>
#include <string>
#include <type_traits>
#include <utility>

namespace av
{

inline std::string& buf()
{
  static std::string b;
  return b;
}

// the case that is running (set by finish / ofinish_begin) and the terminate handler: an exception that escapes into a
// noexcept function or is never caught must not look like a silent crash
inline int& cur_case()
{
  static int c = -1;
  return c;
}
[[noreturn]] inline void on_terminate()
{
  std::printf("TERMINATE std::terminate() called in case %d: the exception did not reach the caller (calls so far: %s)\n",
    cur_case(), buf().c_str());
  std::fflush(stdout);
  std::_Exit(24);
}

// ------------------------------------------------------------------------------------------- C10
struct Thrown // exception type K1
{
};
struct Thrown2 // exception type K2 (unrelated to Thrown)
{
};
template<int THROWS>
inline void
maybe_throw()
{
  if (THROWS == 1)
    throw Thrown();
  if (THROWS == 2)
    throw Thrown2();
}

inline void put(std::string& s, int v) { s += "i:" + std::to_string(v); }
inline void put(std::string& s, long v) { s += "l:" + std::to_string(v); }
inline void put(std::string& s, double v) { s += "d:" + std::to_string(std::llround(v * 10.0)); }

// a class whose VALUE changes when it is moved from (like std::string / std::vector): payload `v`, a moved-from
// MStr prints as "m:<moved>" and counts as -900000 in a target's result
struct MStr
{
  long v;
  bool moved = false;
  explicit MStr(long v_) : v(v_) {}
  MStr(const MStr& o) : v(o.v), moved(o.moved) {}
  MStr(MStr&& o) : v(o.v), moved(o.moved)
  {
    o.moved = true;
    o.v = 0;
  }
  MStr& operator=(const MStr&) = delete;
  explicit operator long() const { return moved ? -900000L : v; }
};
inline void put(std::string& s, const MStr& m) { s += m.moved ? std::string("m:<moved>") : "m:" + std::to_string(m.v); }

// a string-like class with a CONVERTING constructor: an arithmetic argument handed to a parameter declared `Str`,
// `const Str&` or `Str&&` is converted into a temporary Str.  The payload lives in a heap buffer (too long for the small
// string optimisation), so a reference to a temporary that has already been destroyed is a heap-use-after-free.
struct Str
{
  std::string s;
  Str(long v) : s(std::string(40, '#') + std::to_string(v)) {}
  explicit operator long() const { return std::stol(s.substr(40)); }
};
inline void put(std::string& s, const Str& x) { s += "s:" + x.s.substr(40); }

// a JSON-like value: a number or an array of values, with a constructor from a LIST OF VALUES — which accepts a Json
// itself: Json{j} is a one-element array wrapping j, Json(j) is a copy of j.  An adaptor that stores a bound value must
// store a copy; the printed form tells the two apart ("j:7" / "j:[7]").
struct Json
{
  int n = 0;
  bool arr = false;
  std::vector<Json> kids;
  Json() {}
  explicit Json(int n_) : n(n_) {}
  Json(std::initializer_list<Json> l) : arr(true), kids(l) {}
  explicit operator long() const { return arr ? -800000L : n; }
  std::string text() const
  {
    if (!arr)
      return std::to_string(n);
    std::string t = "[";
    for (std::size_t i = 0; i < kids.size(); ++i)
      t += (i ? "|" : "") + kids[i].text();
    return t + "]";
  }
};
inline void put(std::string& s, const Json& j) { s += "j:" + j.text(); }

// pool objects that reference-returning targets refer to: cell<T>(id) (node based map: stable addresses)
template<typename T>
std::map<int, T>&
cells()
{
  static std::map<int, T> m;
  return m;
}
template<typename T>
T&
cell(int id)
{
  return cells<T>()[id];
}
// a pool object with a given content: the `x` of bind_return(f, std::ref(x)) / std::cref(x)
template<typename T>
T&
setcell(int id, T v)
{
  T& c = cell<T>(id);
  c = v;
  return c;
}
template<typename T>
std::string
cell_name(const T* p)
{
  for (auto& kv : cells<T>())
    if (&kv.second == p)
      return std::to_string(kv.first);
  return "x"; // not a pool object: a copy / a temporary
}

template<int ID, int THROWS, typename Ret, typename... A>
Ret
leaf(A... a)
{
  std::string& s = buf();
  if (!s.empty())
    s += ";";
  s += std::to_string(ID) + "(";
  int n = 0;
  ((s += (n++ ? "," : ""), put(s, a)), ...);
  s += ")";
  maybe_throw<THROWS>();
  long sum = ID * 100L;
  long i = 1;
  ((sum += (i++) * static_cast<long>(a)), ...);
  if constexpr (std::is_void<Ret>::value)
    return;
  else if constexpr (std::is_reference<Ret>::value)
  {
    // `T& leaf(...)` / `const T& leaf(...)`: store the result in this target's pool object and return a reference to it
    using T = std::remove_cv_t<std::remove_reference_t<Ret>>;
    T& c = cell<T>(ID);
    c = std::is_same<T, double>::value ? static_cast<T>(static_cast<double>(sum) + 0.5) : static_cast<T>(sum);
    return c;
  }
  else if constexpr (std::is_same<Ret, double>::value)
    return static_cast<double>(sum) + 0.5;
  else
    return static_cast<Ret>(sum);
}

// a target taking every parameter by const reference and recording WHICH object it is: "cref:<t>:<pool object>:<n>" when
// the parameter is a pool object (a getter's reference result handed on as it is), "<t>:<n>" when it is a temporary / a copy
template<typename T>
void
putp(std::string& s, const T& a)
{
  std::string n = cell_name<T>(&a);
  std::string v;
  put(v, a);
  s += n == "x" ? v : "cref:" + v.substr(0, 2) + n + v.substr(1);
}

template<int ID, int THROWS, typename Ret, typename... T>
Ret
pleaf(const T&... a)
{
  std::string& s = buf();
  if (!s.empty())
    s += ";";
  s += std::to_string(ID) + "(";
  int n = 0;
  ((s += (n++ ? "," : ""), putp<T>(s, a)), ...);
  s += ")";
  maybe_throw<THROWS>();
  long sum = ID * 100L;
  long i = 1;
  ((sum += (i++) * static_cast<long>(a)), ...);
  if constexpr (std::is_void<Ret>::value)
    return;
  else if constexpr (std::is_same<Ret, double>::value)
    return static_cast<double>(sum) + 0.5;
  else
    return static_cast<Ret>(sum);
}

template<int ID, int THROWS, typename Ret, typename... T>
struct PRec
{
  Ret operator()(const T&... a) const { return pleaf<ID, THROWS, Ret, T...>(a...); }
};

// a target with DECLARED parameter types P = `T`, `const T&` or `T&&` (mixed): a `const T&` parameter records which
// object it is (like pleaf), the others the value they hold.  When the argument has another type the parameter is
// bound to a converting temporary, which must live until the call returns.
template<typename P>
void
putq(std::string& s, std::remove_reference_t<P>& a)
{
  using T = std::remove_cv_t<std::remove_reference_t<P>>;
  if constexpr (std::is_lvalue_reference<P>::value && std::is_const<std::remove_reference_t<P>>::value)
    putp<T>(s, a);
  else
    put(s, a);
}

template<int ID, int THROWS, typename Ret, typename... P>
Ret
qleaf(P... a)
{
  std::string& s = buf();
  if (!s.empty())
    s += ";";
  s += std::to_string(ID) + "(";
  int n = 0;
  ((s += (n++ ? "," : ""), putq<P>(s, a)), ...);
  s += ")";
  maybe_throw<THROWS>();
  long sum = ID * 100L;
  long i = 1;
  ((sum += (i++) * static_cast<long>(a)), ...);
  if constexpr (std::is_void<Ret>::value)
    return;
  else if constexpr (std::is_same<Ret, double>::value)
    return static_cast<double>(sum) + 0.5;
  else
    return static_cast<Ret>(sum);
}

template<int ID, int THROWS, typename Ret, typename... P>
struct QRec
{
  Ret operator()(P... a) const { return qleaf<ID, THROWS, Ret, P...>(std::forward<P>(a)...); }
};

// the same target as a functor class (reached through adaptor_functor, not pointer_functor)
template<int ID, int THROWS, typename Ret, typename... A>
struct Rec
{
  Ret operator()(A... a) const { return leaf<ID, THROWS, Ret, A...>(std::forward<A>(a)...); }
};

// a PARTIAL catcher for exception_catch(f, c), written as the documentation of exception_catch shows: it rethrows the
// exception in flight and handles the types it knows (H1: Thrown, H2: Thrown2); any other exception leaves the catcher
// again and must reach the next enclosing exception_catch or the caller.  When it handles the exception it records its
// call and returns like the nullary target leaf<ID, 0, Ret>.
template<int ID, typename Ret, bool H1, bool H2>
struct PCatch
{
  Ret operator()() const
  {
    try
    {
      throw;
    }
    catch (const Thrown&)
    {
      if (!H1)
        throw;
    }
    catch (const Thrown2&)
    {
      if (!H2)
        throw;
    }
    return leaf<ID, 0, Ret>();
  }
};

// the same target as a functor class whose call operator is declared NOEXCEPT (it never throws): used as a getter of
// compose().  noexcept is part of the function type, so this is a class of its own; the other targets stay as they are.
template<int ID, typename Ret, typename... A>
struct NxRec
{
  Ret operator()(A... a) const noexcept { return leaf<ID, 0, Ret, A...>(std::forward<A>(a)...); }
};

// a target accepting any number of int/long/double/MStr arguments BY VALUE (variadic template operator())
template<int ID, int THROWS, typename Ret>
struct VRec
{
  template<typename... A>
  Ret operator()(A... a) const
  {
    return leaf<ID, THROWS, Ret, A...>(a...);
  }
};

struct Trk : public sigc::trackable
{
};
inline Trk& trk(int i)
{
  static Trk t[3];
  return t[i % 3];
}

inline void begin()
{
  buf().clear();
  std::set_terminate(&on_terminate);
}

// bound values given as NAMED VARIABLES (lvalues) that change after the adaptor has been built: bind() must have
// captured their values, not references to them.  lv(x) returns a reference into a pool; poison() overwrites the pool.
struct PoolBase
{
  virtual void poison() = 0;
  virtual ~PoolBase() {}
};
inline std::vector<PoolBase*>& pools()
{
  static std::vector<PoolBase*> p;
  return p;
}
template<typename T>
struct Pool : PoolBase
{
  std::deque<T> v;
  void poison() override
  {
    for (auto& x : v)
      x = T(-77);
  }
};
template<typename T>
T& lv(T x)
{
  static Pool<T>* p = [] {
    auto q = new Pool<T>;
    pools().push_back(q);
    return q;
  }();
  p->v.push_back(x);
  return p->v.back();
}
inline void poison()
{
  for (auto p : pools())
    p->poison();
}

// run one route, print "<id> log=... res=..."
template<typename F>
void
finish(int id, F&& f)
{
  std::string res;
  cur_case() = id;
  try
  {
    if constexpr (std::is_void<decltype(f())>::value)
    {
      f();
      res = "unit";
    }
    else if constexpr (std::is_lvalue_reference<decltype(f())>::value)
    {
      // the adaptor's result is a reference: say to which pool object (compared by address) and what it holds
      decltype(f()) r = f();
      using T = std::remove_cv_t<std::remove_reference_t<decltype(f())>>;
      std::string v;
      put(v, r); // "<t>:<n>"
      res = std::string(std::is_const<std::remove_reference_t<decltype(f())>>::value ? "cref:" : "ref:") +
            v.substr(0, 2) + cell_name<T>(&r) + v.substr(1);
    }
    else
    {
      auto r = f();
      put(res, r);
    }
  }
  catch (const Thrown&)
  {
    res = "threw";
  }
  catch (const Thrown2&)
  {
    res = "threw2";
  }
  std::printf("%d log=%s res=%s\n", id, buf().c_str(), res.c_str());
  std::fflush(stdout);
}

// ------------------------------------------------------------------------------------------- C11
struct Tracked
{
  std::string label;
  int copies = 0;
  int moves = 0;
};

struct Obj;
inline std::map<const Obj*, Tracked>& registry()
{
  static std::map<const Obj*, Tracked> r;
  return r;
}

inline std::string
label_of(const Obj* p)
{
  auto it = registry().find(p);
  return it == registry().end() ? std::string("x") : it->second.label;
}

struct Obj
{
  int v;
  std::string from; // label of the object this one was copy/move constructed from

  explicit Obj(int v_) : v(v_), from("-") {}
  Obj(const Obj& o) : v(o.v), from(label_of(&o))
  {
    auto it = registry().find(&o);
    if (it != registry().end())
      ++it->second.copies;
  }
  Obj(Obj&& o) : v(o.v), from(label_of(&o))
  {
    o.v = -1;
    auto it = registry().find(&o);
    if (it != registry().end())
      ++it->second.moves;
  }
  Obj& operator=(const Obj&) = delete;

  // recording member functions: targets of the unbound sigc::mem_fun(&av::Obj::meth<...>) called as f(obj, args...);
  // the record lists `this` as parameter 0 (a non-const method writes through it like a target taking `Obj&`)
  template<int ID, bool RETV, typename... P>
  std::conditional_t<RETV, int, void> meth(P... p);
  template<int ID, bool RETV, typename... P>
  std::conditional_t<RETV, int, void> cmeth(P... p) const;
};

// a class derived from Obj: an object argument whose static type is DObj reaches a member functor of Obj through a
// derived-to-base reference binding; its (implicit) copy/move constructors run Obj's, so copies are counted
struct DObj : Obj
{
  explicit DObj(int v_) : Obj(v_) {}
};

inline void track(const Obj* p, const char* label) { registry()[p].label = label; }

template<typename P>
void
obody(int id, int pos, std::remove_reference_t<P>& p, std::string& s, long& sum)
{
  constexpr bool by_value = !std::is_reference<P>::value;
  constexpr bool is_const = std::is_const<std::remove_reference_t<P>>::value;
  s += (pos ? "," : "");
  s += (by_value ? p.from : label_of(&p)) + ":" + std::to_string(p.v);
  sum += p.v;
  if constexpr (!is_const)
    p.v = p.v + 100 * (id + 1) + pos;
}

template<int ID, bool RETV, typename... P>
std::conditional_t<RETV, int, void>
obody_all(std::remove_reference_t<P>&... p)
{
  std::string rec = std::to_string(ID) + "(";
  long sum = 0;
  int pos = 0;
  (obody<P>(ID, pos++, p, rec, sum), ...);
  rec += ")";
  std::string& s = buf();
  if (!s.empty())
    s += ";";
  s += rec;
  if constexpr (RETV)
    return static_cast<int>(1000 * (ID + 1) + sum);
}

template<int ID, bool RETV, typename... P>
std::conditional_t<RETV, int, void>
Obj::meth(P... p)
{
  return obody_all<ID, RETV, Obj&, P...>(*this, p...);
}
template<int ID, bool RETV, typename... P>
std::conditional_t<RETV, int, void>
Obj::cmeth(P... p) const
{
  return obody_all<ID, RETV, const Obj&, P...>(*this, p...);
}

// target as a free function (reached through pointer_functor)
template<int ID, bool RETV, typename... P>
std::conditional_t<RETV, int, void>
oleaf(P... p)
{
  return obody_all<ID, RETV, P...>(p...);
}

// target as a functor class (reached through adaptor_functor only)
template<int ID, bool RETV, typename... P>
struct ORec
{
  std::conditional_t<RETV, int, void> operator()(P... p) const
  {
    return obody_all<ID, RETV, P...>(p...);
  }
};

template<int SID>
int
set1(int r)
{
  return r + SID + 1;
}
template<int SID>
int
set2(int r1, int r2)
{
  return r1 + 2 * r2 + SID + 1;
}

template<typename R>
struct Catcher
{
  R operator()() const
  {
    if constexpr (!std::is_void<R>::value)
      return R(-7);
  }
};

inline void obegin(int id = -1)
{
  buf().clear();
  registry().clear();
  cur_case() = id;
  std::set_terminate(&on_terminate);
}

// print "<id> calls=... objs=... res=..."; `objs` lists the tracked objects in the given order
inline void
ofinish(int id, std::initializer_list<const Obj*> objs, const std::string& res)
{
  std::string o;
  for (const Obj* p : objs)
  {
    const Tracked& t = registry()[p];
    if (!o.empty())
      o += ",";
    o += t.label + ":" + std::to_string(p->v) + ":c" + std::to_string(t.copies) + ":m" +
         std::to_string(t.moves);
  }
  std::printf("%d calls=%s objs=%s res=%s\n", id, buf().c_str(), o.c_str(), res.c_str());
  std::fflush(stdout);
  registry().clear();
}

} // namespace av
#endif
