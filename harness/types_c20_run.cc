// C20 / C05: every call site of the type-erased `slot_rep::call_` is exercised once per signature shape.
// Built by the check with `clang++ -fsanitize=function`: a call through a function pointer whose static type
// differs from the function's own type (i.e. `call_` cast back to anything but the type `call_it` has) aborts
// with "call to function ... through pointer to incorrect function type".
#include <sigc++/sigc++.h>
#include <cstdio>

namespace
{
struct A
{
  int a = 1;
};
struct B : A
{
  int b = 2;
};

struct Sum
{
  using result_type = long;
  template<typename I>
  long operator()(I first, I last) const
  {
    long s = 0;
    for (; first != last; ++first)
      s += *first;
    return s;
  }
};

long total = 0;

int f_val(int x) { total += x; return x + 1; }
int f_ref(A& a) { total += ++a.a; return a.a; }
int f_cref(const B& b) { total += b.b; return b.b; }
int f_two(double d, const A* p) { total += (long)d + p->a; return 7; }
int f_rref(int&& x) { total += x; return x; }
void v_val(int x) { total += x; }
void v_ref(A& a) { total += ++a.a; }
void v_cref(const B& b) { total += b.b; }
void v_two(double d, const A* p) { total += (long)d + p->a; }
void v_rref(int&& x) { total += x; }
void v_none() { total += 1; }
int f_none() { total += 1; return 3; }
A f_cls(B b) { total += b.b; return b; }

template<typename T_sig, typename T_fun, typename... T_arg>
void
all_sites_value(T_fun fun, T_arg&&... arg)
{
  // slot::operator()
  sigc::slot<T_sig> s = fun;
  (void)s(std::forward<T_arg>(arg)...);
  // signal_emit<R, void, A...>::emit (two call expressions: first slot, following slots)
  sigc::signal<T_sig> sig;
  sig.connect(fun);
  sig.connect(s);
  sig.connect([&](auto&&... a) { return fun(std::forward<decltype(a)>(a)...); });
  (void)sig.emit(std::forward<T_arg>(arg)...);
}

template<typename T_sig, typename T_fun, typename... T_arg>
void
accum_site(T_fun fun, T_arg&&... arg)
{
  typename sigc::signal<T_sig>::template accumulated<Sum> acc;
  acc.connect(fun);
  acc.connect(fun);
  total += acc.emit(std::forward<T_arg>(arg)...);
}

template<typename T_sig, typename T_fun, typename... T_arg>
void
all_sites_void(T_fun fun, T_arg&&... arg)
{
  sigc::slot<T_sig> s = fun;
  s(std::forward<T_arg>(arg)...);
  sigc::signal<T_sig> sig;
  sig.connect(fun);
  sig.connect(s);
  sig.emit(std::forward<T_arg>(arg)...);
}
} // namespace

int
main()
{
  A a;
  B b;
  all_sites_value<int(int)>(&f_val, 5);
  all_sites_value<int(A&)>(&f_ref, a);
  all_sites_value<int(const B&)>(&f_cref, b);
  all_sites_value<int(double, const A*)>(&f_two, 2.5, &b);
  all_sites_value<long(int)>(&f_val, 5);
  all_sites_value<int()>(&f_none);
  all_sites_value<A(B)>(&f_cls, b);
  {
    sigc::slot<int(int&&)> s = &f_rref; // only slot::operator() compiles for a value-returning T&& signature
    (void)s(4);
  }
  accum_site<int(int)>(&f_val, 5);
  accum_site<int(A&)>(&f_ref, a);
  accum_site<int(const B&)>(&f_cref, b);
  accum_site<int(double, const A*)>(&f_two, 2.5, &b);
  accum_site<int()>(&f_none);
  all_sites_void<void(int)>(&v_val, 5);
  all_sites_void<void(A&)>(&v_ref, a);
  all_sites_void<void(const B&)>(&v_cref, b);
  all_sites_void<void(double, const A*)>(&v_two, 2.5, &b);
  all_sites_void<void(int&&)>(&v_rref, 4);
  all_sites_void<void()>(&v_none);
  std::printf("ok %ld\n", total);
  return 0;
}
