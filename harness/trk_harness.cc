// C16 harness: drives real sigc::trackable objects through the public API from a textual history.
// One history per stdin line -> one stdout line (same format as `sigc_model trk`, see lean/Sigc/Trk.lean):
//   k<k>:<b>,<b>,...   body of user callback k  (b = r<d> remove data d | a<d>.<k> add — both on the
//                      trackable being notified; `n` (nested notify_callbacks) is undefined behaviour
//                      and refused here)
//   N<t> A<t>.<d>.<k> R<t>.<d> C<src>.<dst> M<src>.<dst> E<dst>.<src> V<dst>.<src> F<t> D<t>
// Output: one token per operation: `x` (skipped: name dead / occupied), or the deliveries it caused
// as `d:k,d:k,...` (`-` = none); then `#` and the same for the teardown `D0 … D<top>`.
// All library objects are individually heap allocated so that ASan sees any stale access.
#include <sigc++/trackable.h>

#include <cstdio>
#include <cstdlib>
#include <iostream>
#include <map>
#include <memory>
#include <sstream>
#include <string>
#include <vector>

namespace
{

struct BodyOp
{
  char kind; // 'r' | 'a'
  int d, k;
};

// the data record a registration points to: history-local id + the trackable it is registered on
struct Rec : public sigc::notifiable
{
  int d;
  sigc::trackable* owner;
};

constexpr int MAXK = 16;

struct Ctx
{
  std::vector<std::vector<BodyOp>> scripts;
  std::map<int, sigc::trackable*> objs;                         // live trackables by name
  std::map<std::pair<int, int>, std::unique_ptr<Rec>> recs;     // (trackable name, d) -> record
  std::map<sigc::trackable*, int> name_of;
  std::vector<std::string> delivered;                           // deliveries of the current operation
};

Ctx* g = nullptr;

sigc::notifiable::func_destroy_notify callback_for(int k);

// data id NULLD stands for the null data pointer (a legal registration: an object-less callback); the callback functions
// used with it are instantiated per trackable name, because they cannot find their record through the data pointer
constexpr int NULLD = 1;
constexpr int MAXT = 4;

Rec*
rec_for(int t, int d)
{
  auto& p = g->recs[{ t, d }];
  if (!p)
  {
    p.reset(new Rec);
    p->d = d;
  }
  p->owner = g->objs.at(t);
  return p.get();
}

sigc::notifiable* data_for(int t, int d);
sigc::notifiable::func_destroy_notify callback_for_data(int t, int d, int k);

void
run_body(int K, sigc::trackable* owner)
{
  if (K >= (int)g->scripts.size())
    return;
  // copy what is needed first; the body only touches the trackable being notified
  const std::vector<BodyOp> body = g->scripts[K];
  const auto named = g->name_of.find(owner);
  if (named == g->name_of.end())
    return; // delivered by an object the record was never registered on (reported through the log)
  const int t = named->second;
  for (const auto& b : body)
  {
    if (b.kind == 'r')
      owner->remove_destroy_notify_callback(data_for(t, b.d));
    else
      owner->add_destroy_notify_callback(data_for(t, b.d), callback_for_data(t, b.d, b.k));
  }
}

template <int K>
void
user_callback(sigc::notifiable* data)
{
  Rec* r = static_cast<Rec*>(data);
  g->delivered.push_back(std::to_string(r->d) + ":" + std::to_string(K));
  run_body(K, r->owner);
}

// registrations with the null data pointer on trackable name T
template <int K, int T>
void
user_callback_null(sigc::notifiable* data)
{
  g->delivered.push_back((data ? std::string("nonnull!") : std::to_string(NULLD)) + ":" + std::to_string(K));
  auto it = g->objs.find(T);
  if (it != g->objs.end())
    run_body(K, it->second);
}

template <int... Ks>
sigc::notifiable::func_destroy_notify
pick(int k, std::integer_sequence<int, Ks...>)
{
  static const sigc::notifiable::func_destroy_notify table[] = { &user_callback<Ks>... };
  return table[k];
}

template <int T, int... Ks>
sigc::notifiable::func_destroy_notify
pick_null(int k, std::integer_sequence<int, Ks...>)
{
  static const sigc::notifiable::func_destroy_notify table[] = { &user_callback_null<Ks, T>... };
  return table[k];
}

sigc::notifiable*
data_for(int t, int d)
{
  if (d == NULLD && t >= 0 && t < MAXT)
    return nullptr;
  return rec_for(t, d);
}

sigc::notifiable::func_destroy_notify
callback_for_data(int t, int d, int k)
{
  if (d == NULLD && t >= 0 && t < MAXT)
  {
    auto ks = std::make_integer_sequence<int, MAXK>();
    switch (t)
    {
    case 0:
      return pick_null<0>(k, ks);
    case 1:
      return pick_null<1>(k, ks);
    case 2:
      return pick_null<2>(k, ks);
    default:
      return pick_null<3>(k, ks);
    }
  }
  return callback_for(k);
}

sigc::notifiable::func_destroy_notify
callback_for(int k)
{
  return pick(k, std::make_integer_sequence<int, MAXK>());
}

bool
parse_nats(const std::string& s, std::vector<int>& out)
{
  out.clear();
  std::string cur;
  for (size_t i = 0; i <= s.size(); ++i)
  {
    if (i == s.size() || s[i] == '.')
    {
      if (cur.empty() || cur.size() > 6)
        return false;
      out.push_back(std::atoi(cur.c_str()));
      cur.clear();
    }
    else if (s[i] >= '0' && s[i] <= '9')
      cur += s[i];
    else
      return false;
  }
  return true;
}

struct Op
{
  char c;
  std::vector<int> a;
};

bool
parse_line(const std::string& line, Ctx& ctx, std::vector<Op>& ops)
{
  std::istringstream in(line);
  std::string w;
  std::vector<int> a;
  while (in >> w)
  {
    if (w[0] == 'k')
    {
      auto colon = w.find(':');
      if (colon == std::string::npos || w.find(':', colon + 1) != std::string::npos)
        return false;
      if (!parse_nats(w.substr(1, colon - 1), a) || a.size() != 1 || a[0] != (int)ctx.scripts.size())
        return false;
      std::vector<BodyOp> body;
      std::string item;
      std::istringstream bs(w.substr(colon + 1));
      while (std::getline(bs, item, ','))
      {
        if (item.empty())
          continue;
        if (item[0] == 'r' && parse_nats(item.substr(1), a) && a.size() == 1)
          body.push_back({ 'r', a[0], 0 });
        else if (item[0] == 'a' && parse_nats(item.substr(1), a) && a.size() == 2 && a[1] < MAXK)
          body.push_back({ 'a', a[0], a[1] });
        else
          return false; // includes `n`: nested notify_callbacks() is undefined behaviour
      }
      ctx.scripts.push_back(body);
      continue;
    }
    if (!parse_nats(w.substr(1), a))
      return false;
    const char c = w[0];
    const size_t want = (c == 'N' || c == 'F' || c == 'D') ? 1 : (c == 'A') ? 3
                        : (c == 'R' || c == 'C' || c == 'M' || c == 'E' || c == 'V') ? 2 : 0;
    if (want == 0 || a.size() != want)
      return false;
    if (c == 'A' && a[2] >= MAXK)
      return false;
    ops.push_back({ c, a });
  }
  return true;
}

bool
alive(int t)
{
  return g->objs.count(t) != 0;
}

void
bind_name(int t, sigc::trackable* p)
{
  g->objs[t] = p;
  g->name_of[p] = t;
  // a new object under this name: its data records start afresh
  for (auto it = g->recs.begin(); it != g->recs.end();)
    it = (it->first.first == t) ? g->recs.erase(it) : std::next(it);
}

// returns false when the operation is skipped
bool
exec(const Op& op)
{
  const auto& a = op.a;
  switch (op.c)
  {
  case 'N':
    if (alive(a[0]))
      return false;
    bind_name(a[0], new sigc::trackable());
    return true;
  case 'A':
    if (!alive(a[0]))
      return false;
    g->objs[a[0]]->add_destroy_notify_callback(data_for(a[0], a[1]), callback_for_data(a[0], a[1], a[2]));
    return true;
  case 'R':
    if (!alive(a[0]))
      return false;
    g->objs[a[0]]->remove_destroy_notify_callback(data_for(a[0], a[1]));
    return true;
  case 'C':
    if (!alive(a[0]) || alive(a[1]))
      return false;
    bind_name(a[1], new sigc::trackable(*g->objs[a[0]]));
    return true;
  case 'M':
  {
    if (!alive(a[0]) || alive(a[1]))
      return false;
    // the model makes the new name visible before the source is notified; callbacks only touch the source
    sigc::trackable* p = new sigc::trackable(std::move(*g->objs[a[0]]));
    bind_name(a[1], p);
    return true;
  }
  case 'E':
    if (!alive(a[0]) || !alive(a[1]))
      return false;
    *g->objs[a[0]] = *g->objs[a[1]];
    return true;
  case 'V':
    if (!alive(a[0]) || !alive(a[1]))
      return false;
    *g->objs[a[0]] = std::move(*g->objs[a[1]]);
    return true;
  case 'F':
    if (!alive(a[0]))
      return false;
    g->objs[a[0]]->notify_callbacks();
    return true;
  case 'D':
  {
    if (!alive(a[0]))
      return false;
    sigc::trackable* p = g->objs[a[0]];
    delete p; // callbacks run here and still find the name
    g->objs.erase(a[0]);
    g->name_of.erase(p);
    return true;
  }
  }
  return false;
}

void
run_ops(const std::vector<Op>& ops, std::string& out)
{
  for (const auto& op : ops)
  {
    g->delivered.clear();
    const bool done = exec(op);
    if (!out.empty())
      out += ' ';
    if (!done)
      out += 'x';
    else if (g->delivered.empty())
      out += '-';
    else
      for (size_t i = 0; i < g->delivered.size(); ++i)
        out += (i ? "," : "") + g->delivered[i];
  }
}

std::string
process(const std::string& line)
{
  Ctx ctx;
  g = &ctx;
  std::vector<Op> ops;
  if (!parse_line(line, ctx, ops))
  {
    g = nullptr;
    return "parse-error";
  }
  std::string out;
  run_ops(ops, out);
  int top = 0;
  for (const auto& op : ops)
    for (size_t i = 0; i < op.a.size(); ++i)
      if ((op.c == 'A' ? i == 0 : op.c == 'R' ? i == 0 : true) && op.a[i] > top)
        top = op.a[i];
  std::vector<Op> teardown;
  for (int t = 0; t <= top; ++t)
    teardown.push_back({ 'D', { t } });
  out += out.empty() ? "#" : " #";
  std::string out2;
  run_ops(teardown, out2);
  if (!out2.empty())
    out += " " + out2;
  g = nullptr;
  return out;
}

} // namespace

int
main()
{
  std::string line;
  while (std::getline(std::cin, line))
  {
    size_t b = line.find_first_not_of(" \t\r");
    if (b == std::string::npos || line[b] == '#')
      continue;
    std::cout << process(line) << std::endl; // flushed: a later crash cannot lose it
  }
  return 0;
}
