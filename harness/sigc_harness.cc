// sigc_harness.cc — interpreter of the /verif operation language over the REAL libsigc++
// (built from /repo's current working tree).  One program on stdin (or several, one per thread with
// --threads), trace on stdout.  See DESIGN.md §3.4 and docs/LANGUAGE.md for the language.
//
// Every operation is total: on a dead/unknown name it prints `dead`, on a name that already exists
// `exists`, so no generated program contains user-level undefined behaviour.  All library objects
// are individually heap-allocated so that ASan sees every stale access.
#include <sigc++/sigc++.h>

#include <atomic>
#include <cstdio>
#include <cstdlib>
#include <cstring>
#include <iostream>
#include <map>
#include <memory>
#include <cstdint>
#include <cstdio>
#include <new>
#include <stdexcept>
#include <sstream>
#include <string>
#include <thread>
#include <vector>
#include <sched.h>

// ------------------------------------------------------------------------------------------------
// allocation accounting (C07 growth): outstanding operator-new allocations of this thread
// ------------------------------------------------------------------------------------------------
static thread_local long g_outstanding = 0;
#ifndef HARNESS_NO_NEW_OVERRIDE // (ThreadSanitizer brings its own operator new)
void* operator new(std::size_t n)
{
  void* p = std::malloc(n ? n : 1);
  if (!p)
    throw std::bad_alloc();
  ++g_outstanding;
  return p;
}
void operator delete(void* p) noexcept
{
  if (p)
  {
    --g_outstanding;
    std::free(p);
  }
}
void operator delete(void* p, std::size_t) noexcept
{
  if (p)
  {
    --g_outstanding;
    std::free(p);
  }
}
#endif

namespace
{

struct HarnessExc
{
};
// the exception a slot body throws varies in its dynamic type (all are caught as HarnessExc by the harness)
struct HarnessExcBadAlloc : std::bad_alloc, HarnessExc
{
};
struct HarnessExcRuntime : std::runtime_error, HarnessExc
{
  HarnessExcRuntime() : std::runtime_error("harness") {}
};
// what the harness-only variations did (printed to stderr by the sequential driver; evidence only)
static thread_local long g_stat_throws[3] = {0, 0, 0};
static thread_local long g_stat_unwind_emits = 0;
static thread_local long g_stat_operand_owned = 0;
static thread_local long g_stat_insert = 0;
static thread_local long g_stat_in_handler = 0;
static thread_local long g_stat_failed_copy = 0;
static thread_local long g_stat_will_subscriptions = 0;
[[noreturn]] inline void throw_harness_exc(long salt)
{
  ++g_stat_throws[salt % 3];
  switch (salt % 3)
  {
    case 0:
      throw HarnessExc();
    case 1:
      throw HarnessExcBadAlloc();
    default:
      throw HarnessExcRuntime();
  }
}

struct Interp;
thread_local Interp* g_interp = nullptr;

// ------------------------------------------------------------------------------------------------
// user types
// ------------------------------------------------------------------------------------------------
struct FData // what a leaf functor needs; copied to locals before a body runs
{
  int fid;
};

int invoke_leaf(int fid, int arg); // logs `call`, runs the body, returns the leaf result

// plain recording functor; copies are counted per fid (C07/C15)
struct F
{
  int fid;
  explicit F(int f);
  F(const F& o);
  F& operator=(const F&) = default;
  ~F();
  int operator()(int a) const
  {
    int f = fid; // copy first: the body may destroy *this
    return invoke_leaf(f, a);
  }
};
struct FV // void-result twin
{
  F f;
  explicit FV(int fid) : f(fid) {}
  void operator()(int a) const
  {
    int fid = f.fid;
    invoke_leaf(fid, a);
  }
};

// catchers that handle nothing: exception_catch(F, Rethrow) behaves exactly like F (functor ids with fid % 5 == 2 in `fn:`
// specs): whatever F throws must pass through the adaptor to the caller of the slot / the emission
struct RethrowI
{
  int operator()() const { throw; }
};
struct RethrowV
{
  void operator()() const { throw; }
};

// over-aligned twins (functor ids with fid % 4 == 3 in `fn:` specs): a slot must store, copy and call a functor
// type with an extended alignment requirement at a suitably aligned address
inline void check_aligned(const void* p, std::size_t al)
{
  if (reinterpret_cast<std::uintptr_t>(p) % al != 0)
  {
    std::fprintf(stderr, "harness: functor object at %p is not %zu-byte aligned\n", p, al);
    std::abort();
  }
}
struct FAl
{
  alignas(64) F f;
  explicit FAl(int fid) : f(fid) { check_aligned(this, 64); }
  FAl(const FAl& o) : f(o.f) { check_aligned(this, 64); }
  int operator()(int a) const
  {
    check_aligned(this, 64);
    int fid = f.fid;
    return invoke_leaf(fid, a);
  }
};
struct FAlV
{
  alignas(64) F f;
  explicit FAlV(int fid) : f(fid) { check_aligned(this, 64); }
  FAlV(const FAlV& o) : f(o.f) { check_aligned(this, 64); }
  void operator()(int a) const
  {
    check_aligned(this, 64);
    int fid = f.fid;
    invoke_leaf(fid, a);
  }
};

// methods declared in a NON-trackable base: &Trk::brun has type int (RunBase::*)(int, const F&), while the
// bound object is a Trk — mem_fun must decide tracking from the object's class, not the method's
struct RunBase
{
#define HB_CV(NAME, Q)                  \
  int NAME(int a, const F& f) Q         \
  {                                     \
    int fid = f.fid;                    \
    return invoke_leaf(fid, a);         \
  }                                     \
  void NAME##v(int a, const F& f) Q     \
  {                                     \
    int fid = f.fid;                    \
    invoke_leaf(fid, a);                \
  }
  HB_CV(brun, )
  HB_CV(bcrun, const)
  HB_CV(bvrun, volatile)
  HB_CV(bwrun, const volatile)
#undef HB_CV
};

// The tracked class inherits *virtually* from sigc::trackable and is polymorphic (as in an interface/implementation
// diamond): the conversion Trk& -> trackable& then goes through the vptr, which matters while the object is being
// destroyed (slot_rep::destroy() runs from ~trackable(), after ~Trk()) — UBSan's vptr check sees a wrong conversion there.
struct TrkView : public virtual sigc::trackable
{
  virtual ~TrkView() {}
};
struct TrkController : public virtual sigc::trackable
{
  virtual ~TrkController() {}
};
struct Trk : public RunBase, public TrkView, public TrkController
{
  Trk() = default;
  Trk(const Trk& o) : sigc::trackable(o), RunBase(o), TrkView(o), TrkController(o) {}
  Trk(Trk&& o) : sigc::trackable(std::move(o)), RunBase(o), TrkView(), TrkController() {}
  Trk& operator=(const Trk& o)
  {
    sigc::trackable::operator=(o);
    return *this;
  }
  Trk& operator=(Trk&& o)
  {
    sigc::trackable::operator=(std::move(o));
    return *this;
  }
  // methods with the signal's exact signature, for sigc::signal_connect(sig, obj, &Trk::method): the functor id is a
  // template argument (a bound_mem_functor carries nothing else); non-const and const overloads
  template<int FID>
  int sc(int a)
  {
    return invoke_leaf(FID, a);
  }
  template<int FID>
  int sck(int a) const
  {
    return invoke_leaf(FID, a);
  }
  template<int FID>
  void scv(int a)
  {
    invoke_leaf(FID, a);
  }
  template<int FID>
  void sckv(int a) const
  {
    invoke_leaf(FID, a);
  }

  int run(int a, const F& f)
  {
    int fid = f.fid; // copy first: the body may destroy the functor and *this
    return invoke_leaf(fid, a);
  }
  void runv(int a, const F& f)
  {
    int fid = f.fid;
    invoke_leaf(fid, a);
  }
};

// the documented `if (slot)` idiom evaluated on both sides of a change of the slot, inside one function (an optimiser
// that is wrongly told the test does not depend on memory merges the two tests): after the change the test must say
// what the same conversion says when it is evaluated on its own, out of line
__attribute__((noinline)) bool slot_bool_out_of_line(const sigc::slot_base* s)
{
  return static_cast<bool>(*s);
}
inline void check_if_slot_idiom(bool before, bool after, const sigc::slot_base* s)
{
  const bool alone = slot_bool_out_of_line(s);
  if (after != alone)
  {
    std::fprintf(stderr, "harness: `if (slot)` says %d after the slot changed (it said %d before), but %d when evaluated alone\n",
                 int(after), int(before), int(alone));
    std::abort();
  }
}

// functor taking a bound reference to a trackable (bind(F2, std::ref(t)))
// (the object bound with std::ref / std::cref must arrive as that very object: not a copy, not a dead temporary)
inline void check_bound_object(const void* got, const void* expected)
{
  if (got != expected)
  {
    std::fprintf(stderr, "harness: an object bound by reference arrived as another object (%p, bound %p)\n", got, expected);
    std::abort();
  }
}
struct F2
{
  F f;
  const void* bound;
  explicit F2(int fid, const void* b) : f(fid), bound(b) {}
  int operator()(int a, Trk& t) const
  {
    check_bound_object(&t, bound);
    int fid = f.fid;
    return invoke_leaf(fid, a);
  }
};
struct F2V
{
  F f;
  const void* bound;
  explicit F2V(int fid, const void* b) : f(fid), bound(b) {}
  void operator()(int a, Trk& t) const
  {
    check_bound_object(&t, bound);
    int fid = f.fid;
    invoke_leaf(fid, a);
  }
};
// the std::cref twins (odd functor ids)
struct F2C
{
  F f;
  const void* bound;
  explicit F2C(int fid, const void* b) : f(fid), bound(b) {}
  int operator()(int a, const Trk& t) const
  {
    check_bound_object(&t, bound);
    int fid = f.fid;
    return invoke_leaf(fid, a);
  }
};
struct F2CV
{
  F f;
  const void* bound;
  explicit F2CV(int fid, const void* b) : f(fid), bound(b) {}
  void operator()(int a, const Trk& t) const
  {
    check_bound_object(&t, bound);
    int fid = f.fid;
    invoke_leaf(fid, a);
  }
};

// functors that OWN library-related objects through shared_ptr: the trackable / the scoped_connection
// dies when the last functor copy holding it is destroyed — wherever the library destroys that copy
struct FOwnT
{
  F f;
  std::shared_ptr<Trk> t;
  FOwnT(int fid, std::shared_ptr<Trk> t_) : f(fid), t(std::move(t_)) {}
  int operator()(int a) const
  {
    int fid = f.fid;
    return invoke_leaf(fid, a);
  }
};
struct FOwnTV
{
  F f;
  std::shared_ptr<Trk> t;
  FOwnTV(int fid, std::shared_ptr<Trk> t_) : f(fid), t(std::move(t_)) {}
  void operator()(int a) const
  {
    int fid = f.fid;
    invoke_leaf(fid, a);
  }
};
struct FOwnK
{
  F f;
  std::shared_ptr<sigc::scoped_connection> k;
  FOwnK(int fid, std::shared_ptr<sigc::scoped_connection> k_) : f(fid), k(std::move(k_)) {}
  int operator()(int a) const
  {
    int fid = f.fid;
    return invoke_leaf(fid, a);
  }
};
struct FOwnKV
{
  F f;
  std::shared_ptr<sigc::scoped_connection> k;
  FOwnKV(int fid, std::shared_ptr<sigc::scoped_connection> k_) : f(fid), k(std::move(k_)) {}
  void operator()(int a) const
  {
    int fid = f.fid;
    invoke_leaf(fid, a);
  }
};

// a functor owning a signal object (a handle of a slot list — possibly of the very list the functor's slot is in)
struct OwnedSig
{
  void* sigobj;                 // SigObj*
  void (*deleter)(void*);       // deletes the signal object and its SigObj record
  ~OwnedSig() { deleter(sigobj); }
};
struct FOwnG
{
  F f;
  std::shared_ptr<OwnedSig> g;
  FOwnG(int fid, std::shared_ptr<OwnedSig> g_) : f(fid), g(std::move(g_)) {}
  int operator()(int a) const
  {
    int fid = f.fid;
    return invoke_leaf(fid, a);
  }
};
struct FOwnGV
{
  F f;
  std::shared_ptr<OwnedSig> g;
  FOwnGV(int fid, std::shared_ptr<OwnedSig> g_) : f(fid), g(std::move(g_)) {}
  void operator()(int a) const
  {
    int fid = f.fid;
    invoke_leaf(fid, a);
  }
};

// the "connect-once" idiom: the functor shares ownership of a sigc::connection that refers to the very slot the
// functor lives in; behaviourally invisible (the model treats it as a plain functor), but the connection object is
// destroyed from inside the destruction of its own slot, wherever the library destroys that slot
struct FSelf
{
  F f;
  std::shared_ptr<sigc::connection> c;
  FSelf(int fid, std::shared_ptr<sigc::connection> c_) : f(fid), c(std::move(c_)) {}
  int operator()(int a) const
  {
    int fid = f.fid;
    return invoke_leaf(fid, a);
  }
};
struct FSelfV
{
  F f;
  std::shared_ptr<sigc::connection> c;
  FSelfV(int fid, std::shared_ptr<sigc::connection> c_) : f(fid), c(std::move(c_)) {}
  void operator()(int a) const
  {
    int fid = f.fid;
    invoke_leaf(fid, a);
  }
};

// ------------------------------------------------------------------------------------------------
// accumulator driven by a strategy string (C13)
// ------------------------------------------------------------------------------------------------
thread_local std::string g_strategy = "sum";

// the accumulator returns a *reference* (to per-thread storage): emit() must hand out what the accumulator returns
static thread_local int g_acc_result = 0;
struct StratAcc
{
  std::string strat;
  StratAcc() : strat(g_strategy) { g_strategy = "sum"; }

  template<typename It>
  int& operator()(It first, It last) const
  {
    g_acc_result = walk(first, last);
    return g_acc_result;
  }

  template<typename It>
  int walk(It first, It last) const
  {
    int r = 0;
    if (strat == "sum")
    {
      // prefix and postfix increments alternate (the postfix result is discarded)
      int n = 0;
      for (It it = first; it != last; (n++ % 2) ? (void)++it : (void)it++)
        r += *it;
    }
    else if (strat.rfind("stop", 0) == 0)
    {
      int k = std::atoi(strat.c_str() + 4);
      for (It it = first; it != last; ++it)
      {
        r += *it;
        if (r >= k)
          break;
      }
    }
    else if (strat == "twice")
    {
      // every position is dereferenced twice: alternately through the same iterator and through the copy that a
      // postfix step returns ("peek, then consume": *it; old = it++; *old) — the copy must know it was invoked
      int n = 0;
      for (It it = first; it != last;)
      {
        r += *it;
        if (n++ % 2)
        {
          r += *it;
          ++it;
        }
        else
        {
          It old = it++;
          r += *old;
        }
      }
    }
    else if (strat == "rev")
    {
      It it = last;
      int n = 0;
      while (it != first)
      {
        if (n++ % 2)
          --it;
        else
          it--;
        r += *it;
      }
    }
    else if (strat == "never")
    {
      for (It it = first; it != last; ++it)
        r += 1;
    }
    else if (strat == "postinc")
    {
      It it = first;
      while (it != last)
      {
        It old = it++;
        r += *old;
      }
    }
    else if (strat.size() > 0 && strat[0] == 'w')
    {
      It it = first;
      for (std::size_t i = 1; i < strat.size(); ++i)
      {
        char c = strat[i];
        if (c == 'd')
        {
          if (it != last)
            r += *it;
        }
        else if (c == 'i')
        {
          if (it != last)
            ++it;
        }
        else if (c == 'x')
        {
          if (it != first)
            --it;
        }
        else if (c == 'c')
        {
          if (it != last)
          {
            It cp = it; // a copy carries the buffered result and the invoked flag
            r += *cp;
          }
        }
      }
    }
    return r;
  }
};

// accumulator over void-returning slots: instantiates slot_iterator_buf<T_emitter, void>
struct VoidAcc
{
  std::string strat;
  VoidAcc() : strat(g_strategy) { g_strategy = "sum"; }

  template<typename It>
  void operator()(It first, It last) const
  {
    if (strat == "sum" || strat.rfind("stop", 0) == 0)
    {
      int n = 0;
      for (It it = first; it != last; (n++ % 2) ? (void)++it : (void)it++)
        *it;
    }
    else if (strat == "twice")
    {
      int n = 0;
      for (It it = first; it != last;)
      {
        *it;
        if (n++ % 2)
        {
          *it;
          ++it;
        }
        else
        {
          It old = it++;
          *old;
        }
      }
    }
    else if (strat == "rev")
    {
      It it = last;
      int n = 0;
      while (it != first)
      {
        if (n++ % 2)
          --it;
        else
          it--;
        *it;
      }
    }
    else if (strat == "never")
    {
      for (It it = first; it != last; ++it)
      {
      }
    }
    else if (strat == "postinc")
    {
      It it = first;
      while (it != last)
      {
        It old = it++;
        *old;
      }
    }
    else if (strat.size() > 0 && strat[0] == 'w')
    {
      It it = first;
      for (std::size_t i = 1; i < strat.size(); ++i)
      {
        char c = strat[i];
        if (c == 'd')
        {
          if (it != last)
            *it;
        }
        else if (c == 'i')
        {
          if (it != last)
            ++it;
        }
        else if (c == 'x')
        {
          if (it != first)
            --it;
        }
        else if (c == 'c')
        {
          if (it != last)
          {
            It cp = it;
            *cp;
          }
        }
      }
    }
  }
};

// the protected members signal_base::insert(iterator, slot) and impl(), reached the way a class derived from a signal
// reaches them (pointers to members formed inside a derived class apply to every signal_base)
struct SigAccess : public sigc::signal_base
{
  using It = sigc::signal_base::iterator_type;
  static auto insert_copy() { return static_cast<It (sigc::signal_base::*)(It, const sigc::slot_base&)>(&SigAccess::insert); }
  static auto insert_move() { return static_cast<It (sigc::signal_base::*)(It, sigc::slot_base&&)>(&SigAccess::insert); }
  static auto get_impl() { return static_cast<std::shared_ptr<sigc::internal::signal_impl> (sigc::signal_base::*)() const>(&SigAccess::impl); }
  // (the data member itself: looking at the list of a signal without creating one)
  static auto impl_member() { return static_cast<std::shared_ptr<sigc::internal::signal_impl> sigc::signal_base::*>(&SigAccess::impl_); }
};

using SlotI = sigc::slot<int(int)>;
using SlotV = sigc::slot<void(int)>;

struct NoexceptIdentity
{
  int operator()(int a) const noexcept { return a; }
};

// A functor whose copy constructor throws while armed: a connect() or a slot copy/assignment that has to copy it FAILS.
// The library promises nothing new in that case, so the failed attempt must leave the signal / the destination slot
// exactly as it was and leak nothing (variation without a model counterpart: the attempt is made in addition to, and
// before, the operation the program asked for).
struct ProbeCopyFailure
{
};
static thread_local bool g_copy_probe_armed = false;
template<typename R>
struct ThrowOnCopy
{
  ThrowOnCopy() = default;
  ThrowOnCopy(const ThrowOnCopy&)
  {
    if (g_copy_probe_armed)
      throw ProbeCopyFailure();
  }
  ThrowOnCopy& operator=(const ThrowOnCopy&) = default;
  R operator()(int) const { return R(); }
};
template<typename Slot>
struct slot_result;
template<typename R, typename... A>
struct slot_result<sigc::slot<R(A...)>>
{
  using type = R;
};
template<typename Slot, typename Attempt>
inline bool failed_copy_attempt(Attempt attempt)
{
  using R = typename slot_result<Slot>::type;
  Slot ts{ThrowOnCopy<R>()};
  g_copy_probe_armed = true;
  bool threw = false;
  try
  {
    attempt(ts);
  }
  catch (ProbeCopyFailure&)
  {
    threw = true;
  }
  g_copy_probe_armed = false;
  ++g_stat_failed_copy;
  return threw;
}
inline void check_failed_copy(bool threw, bool unchanged, const char* what)
{
  if (!threw || !unchanged)
  {
    std::fprintf(stderr, "harness: a %s whose functor copy throws %s\n", what,
                 !threw ? "did not propagate the exception" : "changed its destination");
    std::abort();
  }
}
using SigV = sigc::signal<void(int)>;
using SigI = sigc::signal<int(int)>;
using SigA = sigc::signal<int(int)>::accumulated<StratAcc>;
using TSigV = sigc::trackable_signal<void(int)>;
using TSigI = sigc::trackable_signal<int(int)>;
using TSigA = sigc::trackable_signal<int(int)>::accumulated<StratAcc>;
using SigAV = sigc::signal<void(int)>::accumulated<VoidAcc>;
using TSigAV = sigc::trackable_signal<void(int)>::accumulated<VoidAcc>;

enum Flavour
{
  FV_ = 0,
  FI_,
  FA_,
  FTV_,
  FTI_,
  FTA_,
  FAV_,
  FTAV_
};
bool fl_void(Flavour f)
{
  return f == FV_ || f == FTV_ || f == FAV_ || f == FTAV_;
}
bool fl_trackable(Flavour f)
{
  return f == FTV_ || f == FTI_ || f == FTA_ || f == FTAV_;
}
bool fl_acc(Flavour f)
{
  return f == FA_ || f == FTA_ || f == FAV_ || f == FTAV_;
}

struct SigObj
{
  Flavour fl;
  void* p; // one of the six types
  bool everFwd = false;
  int lvl = 0; // forwarding level (recursion guard of the op language)
  void* up = nullptr; // trackable flavours: a private upstream signal holding this->make_slot() (see attach_up)
  bool dying = false; // the signal object is being destroyed (destroy_signal_object)
  bool owned = false; // a functor family owns the object (ownG); the name is only an alias
  int name = -1;
  std::weak_ptr<OwnedSig> owner;
};

struct SlotObj
{
  bool isVoid;
  SlotI* si = nullptr;
  SlotV* sv = nullptr;
  int incall = 0;
  int taint = -1; // highest level of a signal this variable may forward to
  sigc::slot_base* base() { return isVoid ? static_cast<sigc::slot_base*>(sv) : static_cast<sigc::slot_base*>(si); }
};

template<typename Fn>
auto with_sig(SigObj& g, Fn fn)
{
  switch (g.fl)
  {
    case FV_:
      return fn(*static_cast<SigV*>(g.p));
    case FI_:
      return fn(*static_cast<SigI*>(g.p));
    case FA_:
      return fn(*static_cast<SigA*>(g.p));
    case FTV_:
      return fn(*static_cast<TSigV*>(g.p));
    case FTI_:
      return fn(*static_cast<TSigI*>(g.p));
    case FTA_:
      return fn(*static_cast<TSigA*>(g.p));
    case FAV_:
      return fn(*static_cast<SigAV*>(g.p));
    default:
      return fn(*static_cast<TSigAV*>(g.p));
  }
}

// ------------------------------------------------------------------------------------------------
// interpreter
// ------------------------------------------------------------------------------------------------
// Variation without a model counterpart ("last will"): every trackable_signal object gets a private upstream signal
// that holds its make_slot() forwarder, and the destructor of every object owned by a functor emits the upstream signals of
// the signal objects that are being destroyed at that moment.  The forwarder must already be disconnected then (the
// trackable part of a trackable_signal dies before its slot list), so the emission reaches nothing.
static thread_local std::vector<void*> g_dying_ups; // (SigV* or SigI*, tagged by the low bit of the vector below)
static thread_local std::vector<bool> g_dying_void;
void query_all_signals(); // (defined after Interp)
void check_dying_lists();  // (defined after Interp)
// slot lists whose last handle is being destroyed or reassigned right now (identity of the signal_impl)
static thread_local std::vector<const void*> g_lists_dying;
// signal objects taking part in an assignment in progress (the destination's shared_ptr is half-assigned: nobody may use it)
static thread_local std::vector<const void*> g_assigning;
// the slot list of a signal object if this object is its only owner (no other handle, no emission in progress)
inline const void* sole_list(SigObj* g)
{
  return with_sig(*g, [](auto& s) -> const void* {
    if (s.size() == 0)
      return nullptr; // (impl() would create a list for a never-connected signal)
    sigc::signal_base& sb = s;
    auto impl = (sb.*SigAccess::get_impl())();
    return impl.use_count() == 2 ? static_cast<const void*>(impl.get()) : nullptr;
  });
}
inline void emit_dying_ups()
{
  // and the other half of the "last will": the destructor looks at every signal object of the program (size(), empty(),
  // blocked() — results ignored): whatever the library is in the middle of, its slot lists must be walkable
  query_all_signals();
  // third part: while the last handle of a slot list is being destroyed or reassigned, every connection into that list
  // reports disconnected before the first functor dies ("at which moment every slot is disconnected")
  check_dying_lists();
  for (std::size_t i = 0; i < g_dying_ups.size(); ++i)
  {
    if (g_dying_void[i])
      static_cast<sigc::signal<void(int)>*>(g_dying_ups[i])->emit(0);
    else
      static_cast<sigc::signal<int(int)>*>(g_dying_ups[i])->emit(0);
  }
}
inline void attach_up(SigObj* g)
{
  if (!fl_trackable(g->fl))
    return;
  if (fl_void(g->fl))
  {
    auto up = new sigc::signal<void(int)>;
    with_sig(*g, [up](auto& s) {
      if constexpr (std::is_same<typename std::remove_reference_t<decltype(s)>::slot_type, sigc::slot<void(int)>>::value)
        up->connect(s.make_slot());
      return 0;
    });
    g->up = up;
  }
  else
  {
    auto up = new sigc::signal<int(int)>;
    with_sig(*g, [up](auto& s) {
      if constexpr (std::is_same<typename std::remove_reference_t<decltype(s)>::slot_type, sigc::slot<int(int)>>::value)
        up->connect(s.make_slot());
      return 0;
    });
    g->up = up;
  }
}
// destroys the signal object of `g` (not the SigObj record) with its upstream signal announced as dying
inline void destroy_signal_object(SigObj* g)
{
  const void* lp = sole_list(g);
  if (lp)
    g_lists_dying.push_back(lp);
  struct PopDying
  {
    bool on;
    ~PopDying()
    {
      if (on)
        g_lists_dying.pop_back();
    }
  } pop_dying{lp != nullptr};
  g->dying = true;
  if (g->up)
  {
    g_dying_ups.push_back(g->up);
    g_dying_void.push_back(fl_void(g->fl));
  }
  with_sig(*g, [](auto& s) {
    delete &s;
    return 0;
  });
  if (g->up)
  {
    g_dying_ups.pop_back();
    g_dying_void.pop_back();
    if (fl_void(g->fl))
      delete static_cast<sigc::signal<void(int)>*>(g->up);
    else
      delete static_cast<sigc::signal<int(int)>*>(g->up);
    g->up = nullptr;
  }
}

struct Interp
{
  std::map<int, Trk*> T;
  std::map<int, SlotObj*> S;
  std::map<int, SigObj*> G;
  std::map<int, sigc::connection*> C;
  std::map<int, sigc::scoped_connection*> K;
  std::map<int, std::vector<std::string>> bodies;
  // connection name -> the connection object co-owned by the "connect-once" functor living in that very slot
  std::map<int, std::weak_ptr<sigc::connection>> selfOf;
  std::map<int, const void*> connList; // connection name -> identity of the slot list it was obtained from
  std::map<int, long> live; // live F copies per fid
  int depth = 0;
  int maxdepth = 6;
  const std::string* pending_in_handler = nullptr; // next top-level line (see run_line: operations inside a catch handler)
  bool consumed_next = false;
  long handler_count = 0;
  long steps = 0;      // operations executed so far
  long maxsteps = 1500; // emit/callS refuse (`budget`) beyond this many operations
  bool owners = false;  // program mode `owners`: owning functors available, empty slots cannot be connected
  long mark = 0;
  std::string out;
  bool yield = false;
  unsigned yrng = 1;

  Interp() { out.reserve(1 << 20); }

  void emitline(const std::string& s)
  {
    out += std::to_string(depth); out += ' '; out += s; out += '\n';
    if (yield)
    {
      yrng = yrng * 1103515245u + 12345u;
      if ((yrng >> 16) % 3 == 0)
        sched_yield();
    }
  }

  template<typename M>
  static auto* get(M& m, int i)
  {
    auto it = m.find(i);
    return it == m.end() ? nullptr : it->second;
  }

  static int idx(const std::string& tok) // "T3" -> 3
  {
    return std::atoi(tok.c_str() + 1);
  }

  // ---- functor spec -> slot --------------------------------------------------------------
  // returns: 0 ok, 1 dead, 2 badtype, 3 pinned
  template<typename R>
  int make_slot(const std::string& spec, sigc::slot<R(int)>& dst)
  {
    constexpr bool isV = std::is_void<R>::value;
    std::vector<std::string> p;
    {
      std::stringstream ss(spec);
      std::string t;
      while (std::getline(ss, t, ':'))
        p.push_back(t);
    }
    if (p.empty())
      return 2;
    const std::string& k = p[0];
    if (k == "fn" && p.size() == 2)
    {
      int fid = std::atoi(p[1].c_str());
      if (fid % 5 == 2)
      {
        if constexpr (isV)
          dst = SlotV(sigc::exception_catch(FV(fid), RethrowV()));
        else
          dst = SlotI(sigc::exception_catch(F(fid), RethrowI()));
        return 0;
      }
      if (fid % 4 == 3)
      {
        if constexpr (isV)
          dst = SlotV(FAlV(fid));
        else
          dst = SlotI(FAl(fid));
        return 0;
      }
      if (fid % 6 == 4)
      {
        // variation without a model counterpart: the functor below a compose() whose getter is a `noexcept` identity
        // (what the functor throws must still reach the caller of emit(): no noexcept boundary derived from the getter)
        if constexpr (isV)
          dst = SlotV(sigc::compose(FV(fid), NoexceptIdentity()));
        else
          dst = SlotI(sigc::compose(F(fid), NoexceptIdentity()));
        return 0;
      }
      if constexpr (isV)
        dst = SlotV(FV(fid));
      else
        dst = SlotI(F(fid));
      return 0;
    }
    if (k == "sc" && p.size() == 3)
      return make_slot<R>("mem:" + std::to_string(8 + std::atoi(p[1].c_str()) % 8) + ":" + p[2], dst);
    if (k == "mem" && p.size() == 3)
    {
      int fid = std::atoi(p[1].c_str());
      Trk* t = get(T, idx(p[2]));
      if (!t)
        return 1;
      // odd functor ids bind a method inherited from the non-trackable base
      // … cycling through the plain / const / volatile / const volatile overloads of mem_fun
      int cv = (fid / 2) % 4;
      if constexpr (isV)
      {
        if (fid % 2 == 0)
          dst = SlotV(sigc::bind(sigc::mem_fun(*t, &Trk::runv), F(fid)));
        else if (cv == 0)
          dst = SlotV(sigc::bind(sigc::mem_fun(*t, &Trk::brunv), F(fid)));
        else if (cv == 1)
          dst = SlotV(sigc::bind(sigc::mem_fun(*t, &Trk::bcrunv), F(fid)));
        else if (cv == 2)
          dst = SlotV(sigc::bind(sigc::mem_fun(*t, &Trk::bvrunv), F(fid)));
        else
          dst = SlotV(sigc::bind(sigc::mem_fun(*t, &Trk::bwrunv), F(fid)));
      }
      else
      {
        if (fid % 2 == 0)
          dst = SlotI(sigc::bind(sigc::mem_fun(*t, &Trk::run), F(fid)));
        else if (cv == 0)
          dst = SlotI(sigc::bind(sigc::mem_fun(*t, &Trk::brun), F(fid)));
        else if (cv == 1)
          dst = SlotI(sigc::bind(sigc::mem_fun(*t, &Trk::bcrun), F(fid)));
        else if (cv == 2)
          dst = SlotI(sigc::bind(sigc::mem_fun(*t, &Trk::bvrun), F(fid)));
        else
          dst = SlotI(sigc::bind(sigc::mem_fun(*t, &Trk::bwrun), F(fid)));
      }
      return 0;
    }
    if (k == "trk" && (p.size() == 3 || p.size() == 4))
    {
      int fid = std::atoi(p[1].c_str());
      Trk* t1 = get(T, idx(p[2]));
      if (!t1)
        return 1;
      if (p.size() == 3)
      {
        if constexpr (isV)
          dst = SlotV(sigc::track_object(FV(fid), *t1));
        else
          dst = SlotI(sigc::track_object(F(fid), *t1));
      }
      else
      {
        Trk* t2 = get(T, idx(p[3]));
        if (!t2)
          return 1;
        if constexpr (isV)
          dst = SlotV(sigc::track_object(FV(fid), *t1, *t2));
        else
          dst = SlotI(sigc::track_object(F(fid), *t1, *t2));
      }
      return 0;
    }
    if (k == "bref" && p.size() == 3)
    {
      int fid = std::atoi(p[1].c_str());
      Trk* t = get(T, idx(p[2]));
      if (!t)
        return 1;
      if (fid % 2 == 1)
      {
        if constexpr (isV)
          dst = SlotV(sigc::bind(F2CV(fid, t), std::cref(*t)));
        else
          dst = SlotI(sigc::bind(F2C(fid, t), std::cref(*t)));
        return 0;
      }
      if constexpr (isV)
        dst = SlotV(sigc::bind(F2V(fid, t), std::ref(*t)));
      else
        dst = SlotI(sigc::bind(F2(fid, t), std::ref(*t)));
      return 0;
    }
    if (k == "ownT" && p.size() == 3)
    {
      int fid = std::atoi(p[1].c_str());
      int ti = idx(p[2]);
      Trk* t = get(T, ti);
      if (!t)
        return 1;
      T.erase(ti); // the name is released: the functor copies own the object now
      std::shared_ptr<Trk> sp(t, [](Trk* q) {
        emit_dying_ups(); // "last will": see attach_up
        delete q;
      });
      if constexpr (isV)
        dst = SlotV(FOwnTV(fid, sp));
      else
        dst = SlotI(FOwnT(fid, sp));
      return 0;
    }
    if (k == "ownK" && p.size() == 3)
    {
      int fid = std::atoi(p[1].c_str());
      int ki = idx(p[2]);
      sigc::scoped_connection* kc = get(K, ki);
      if (!kc)
        return 1;
      K.erase(ki);
      std::shared_ptr<sigc::scoped_connection> sp(kc, [](sigc::scoped_connection* q) {
        emit_dying_ups();
        delete q;
      });
      if constexpr (isV)
        dst = SlotV(FOwnKV(fid, sp));
      else
        dst = SlotI(FOwnK(fid, sp));
      return 0;
    }
    if (k == "ownG" && p.size() == 3)
    {
      int fid = std::atoi(p[1].c_str());
      int gi = idx(p[2]);
      SigObj* g = get(G, gi);
      if (!g)
        return 1;
      if (g->everFwd && !fl_trackable(g->fl))
        return 3;
      if (g->owned)
        return 4;
      // the functor copies own the signal object now; the name stays as an alias until the object dies
      g->owned = true;
      g->name = gi;
      std::shared_ptr<OwnedSig> sp(new OwnedSig{g, [](void* q) {
                                                 SigObj* so = static_cast<SigObj*>(q);
                                                 Interp* in = g_interp;
                                                 auto it = in->G.find(so->name);
                                                 if (it != in->G.end() && it->second == so)
                                                   in->G.erase(it);
                                                 emit_dying_ups();
                                                 destroy_signal_object(so);
                                                 delete so;
                                               }});
      g->owner = sp;
      if constexpr (isV)
        dst = SlotV(FOwnGV(fid, sp));
      else
        dst = SlotI(FOwnG(fid, sp));
      return 0;
    }
    if (k == "nest" && p.size() == 2)
    {
      SlotObj* s = get(S, idx(p[1]));
      if (!s)
        return 1;
      if constexpr (isV)
      {
        if (s->isVoid)
          dst = SlotV(sigc::retype_return<void>(*s->sv));
        else
          dst = SlotV(sigc::hide_return(*s->si)); // slot<int(int)> stored by value inside a slot<void(int)>
      }
      else
      {
        if (s->isVoid)
          return 2;
        dst = SlotI(sigc::retype_return<int>(*s->si));
      }
      return 0;
    }
    if (k == "fwd" && p.size() == 2)
    {
      SigObj* g = get(G, idx(p[1]));
      if (!g)
        return 1;
      if (fl_void(g->fl) != isV)
        return 2;
      if (!fl_trackable(g->fl) && g->owned)
        return 4; // the forwarder would dangle when the owning functors die
      g->everFwd = true;
      if constexpr (isV)
      {
        if (g->fl == FV_)
          dst = SlotV(static_cast<SigV*>(g->p)->make_slot());
        else if (g->fl == FTV_)
          dst = SlotV(static_cast<TSigV*>(g->p)->make_slot());
        else if (g->fl == FAV_)
          dst = SlotV(static_cast<SigAV*>(g->p)->make_slot());
        else
          dst = SlotV(static_cast<TSigAV*>(g->p)->make_slot());
      }
      else
      {
        switch (g->fl)
        {
          case FI_:
            dst = SlotI(static_cast<SigI*>(g->p)->make_slot());
            break;
          case FA_:
            dst = SlotI(static_cast<SigA*>(g->p)->make_slot());
            break;
          case FTI_:
            dst = SlotI(static_cast<TSigI*>(g->p)->make_slot());
            break;
          default:
            dst = SlotI(static_cast<TSigA*>(g->p)->make_slot());
            break;
        }
      }
      return 0;
    }
    return 2;
  }

  // level of the signal a spec forwards to (directly or through a nested slot variable), else -1
  int spec_taint(const std::string& spec)
  {
    if (spec.rfind("fwd:", 0) == 0)
    {
      SigObj* g = get(G, idx(spec.substr(4)));
      return g ? g->lvl : -1;
    }
    if (spec.rfind("nest:", 0) == 0)
    {
      SlotObj* v = get(S, idx(spec.substr(5)));
      return v ? v->taint : -1;
    }
    return -1;
  }

  static const char* rc_name(int rc) { return rc == 0 ? "ok" : rc == 1 ? "dead" : rc == 3 ? "pinned" : rc == 4 ? "owned" : "badtype"; }

  static bool parse_flavour(const std::string& s, Flavour& f)
  {
    if (s == "V")
      f = FV_;
    else if (s == "I")
      f = FI_;
    else if (s == "A")
      f = FA_;
    else if (s == "TV")
      f = FTV_;
    else if (s == "TI")
      f = FTI_;
    else if (s == "TA")
      f = FTA_;
    else if (s == "AV")
      f = FAV_;
    else if (s == "TAV")
      f = FTAV_;
    else
      return false;
    return true;
  }

  SigObj* new_sig(Flavour fl)
  {
    auto g = new SigObj;
    g->fl = fl;
    switch (fl)
    {
      case FV_:
        g->p = new SigV;
        break;
      case FI_:
        g->p = new SigI;
        break;
      case FA_:
        g->p = new SigA;
        break;
      case FTV_:
        g->p = new TSigV;
        break;
      case FTI_:
        g->p = new TSigI;
        break;
      case FTA_:
        g->p = new TSigA;
        break;
      case FAV_:
        g->p = new SigAV;
        break;
      default:
        g->p = new TSigAV;
        break;
    }
    return g;
  }

  void clear_sig(SigObj* g)
  {
    with_sig(*g, [](auto& s) {
      s.clear();
      return 0;
    });
  }

  void del_sig(SigObj* g)
  {
    destroy_signal_object(g);
    delete g;
  }

  // set connection variable Ck to c (new object or assignment)
  void set_conn(int k, const sigc::connection& c)
  {
    selfOf.erase(k); // the name refers to another slot from now on
    connList.erase(k);
    auto old = get(C, k);
    if (old)
      *old = c;
    else
      C[k] = new sigc::connection(c);
  }

  // remember which slot list connection Ck was obtained from (after a successful connect to signal object g)
  void note_list(int k, SigObj* g)
  {
    connList[k] = with_sig(*g, [](auto& s) -> const void* {
      sigc::signal_base& sb = s;
      return (sb.*SigAccess::get_impl())().get();
    });
  }

  // ---- one operation ---------------------------------------------------------------------
  // returns the result text; may throw HarnessExc
  std::string exec(const std::vector<std::string>& w)
  {
    const std::string& op = w[0];
    auto N = [&](std::size_t n) { return w.size() == n + 1; };

    // ---------------- the mode rule of the language (docs/LANGUAGE.md)
    {
      auto is_owner_spec = [](const std::string& sp) { return sp.rfind("ownT:", 0) == 0 || sp.rfind("ownK:", 0) == 0 || sp.rfind("ownG:", 0) == 0; };
      // the budget also stops the growth of slot lists: beyond it nothing is connected any more
      if (((op == "conn" || op == "connf" || op == "connmv" || op == "connfmv" || op == "connfn" || op == "connffn") && N(3)) &&
          steps > maxsteps)
        return "budget";
      if ((op == "conn" || op == "connf" || op == "connmv" || op == "connfmv") && N(3) && owners)
      {
        SlotObj* sl = get(S, idx(w[3]));
        if (sl && sl->base()->empty())
          return "emptyslot";
      }
      if (!owners && ((op == "mkS" && N(3) && is_owner_spec(w[3])) || (op == "setS" && N(2) && is_owner_spec(w[2])) ||
                      ((op == "connfn" || op == "connffn") && N(3) && is_owner_spec(w[3]))))
        return "noowner";
    }

    // ---------------- trackables
    if (op == "newT" && N(1))
    {
      int i = idx(w[1]);
      if (get(T, i))
        return "exists";
      T[i] = new Trk;
      return "ok";
    }
    if (op == "delT" && N(1))
    {
      int i = idx(w[1]);
      Trk* t = get(T, i);
      if (!t)
        return "dead";
      T.erase(i);
      delete t;
      return "ok";
    }
    if (op == "notifyT" && N(1))
    {
      Trk* t = get(T, idx(w[1]));
      if (!t)
        return "dead";
      t->notify_callbacks();
      return "ok";
    }
    if ((op == "cpT" || op == "mvT") && N(2))
    {
      int j = idx(w[1]);
      Trk* src = get(T, idx(w[2]));
      if (!src)
        return "dead";
      if (get(T, j))
        return "exists";
      T[j] = (op == "cpT") ? new Trk(*src) : new Trk(std::move(*src));
      return "ok";
    }
    if ((op == "asgT" || op == "masgT") && N(2))
    {
      Trk* dst = get(T, idx(w[1]));
      Trk* src = get(T, idx(w[2]));
      if (!dst || !src)
        return "dead";
      if (op == "asgT")
        *dst = *src;
      else
        *dst = std::move(*src);
      return "ok";
    }

    // ---------------- slots
    if (op == "mkS" && N(3))
    {
      int i = idx(w[1]);
      if (get(S, i))
        return "exists";
      if (w[2] != "I" && w[2] != "V")
        return "badtype";
      auto s = new SlotObj;
      s->isVoid = (w[2] == "V");
      s->taint = spec_taint(w[3]);
      int rc;
      if (s->isVoid)
      {
        s->sv = new SlotV;
        rc = make_slot<void>(w[3], *s->sv);
        if (rc)
          delete s->sv;
      }
      else
      {
        s->si = new SlotI;
        rc = make_slot<int>(w[3], *s->si);
        if (rc)
          delete s->si;
      }
      if (rc)
      {
        delete s;
        return rc_name(rc);
      }
      S[i] = s;
      return "ok";
    }
    if (op == "mkS0" && N(2))
    {
      int i = idx(w[1]);
      if (get(S, i))
        return "exists";
      if (w[2] != "I" && w[2] != "V")
        return "badtype";
      auto s = new SlotObj;
      s->isVoid = (w[2] == "V");
      if (s->isVoid)
        s->sv = new SlotV;
      else
        s->si = new SlotI;
      S[i] = s;
      return "ok";
    }
    if ((op == "cpS" || op == "mvS") && N(2))
    {
      int j = idx(w[1]);
      SlotObj* src = get(S, idx(w[2]));
      if (!src)
        return "dead";
      if (get(S, j))
        return "exists";
      if (op == "mvS" && src->incall)
        return "busy";
      auto s = new SlotObj;
      s->isVoid = src->isVoid;
      s->taint = src->taint;
      if (s->isVoid)
        s->sv = (op == "cpS") ? new SlotV(*src->sv) : new SlotV(std::move(*src->sv));
      else
        s->si = (op == "cpS") ? new SlotI(*src->si) : new SlotI(std::move(*src->si));
      S[j] = s;
      return "ok";
    }
    if ((op == "asgS" || op == "masgS") && N(2))
    {
      SlotObj* dst = get(S, idx(w[1]));
      SlotObj* src = get(S, idx(w[2]));
      if (!dst || !src)
        return "dead";
      if (dst->isVoid != src->isVoid)
        return "badtype";
      if (dst->incall || (op == "masgS" && src->incall))
        return "busy";
      if (dst->taint < src->taint)
        dst->taint = src->taint;
      if (op == "asgS" && (idx(w[1]) + 2 * idx(w[2])) % 4 == 2)
      {
        // a failing copy assignment first (see ThrowOnCopy): the destination keeps its functor, its state and its parent
        sigc::slot_base* d = dst->base();
        const bool e = d->empty(), b = d->blocked();
        const bool threw = dst->isVoid ? failed_copy_attempt<SlotV>([&](SlotV& ts) { *dst->sv = ts; })
                                       : failed_copy_attempt<SlotI>([&](SlotI& ts) { *dst->si = ts; });
        check_failed_copy(threw, d->empty() == e && d->blocked() == b, "copy assignment of a slot");
      }
      if (dst->isVoid)
      {
        SlotV& d = *dst->sv; // (one local reference: the compiler must see that both tests are on the same object)
        const bool was = d ? true : false;
        if (op == "asgS")
          d = *src->sv;
        else
          d = std::move(*src->sv);
        const bool now = d ? true : false;
        check_if_slot_idiom(was, now, &d);
      }
      else
      {
        SlotI& d = *dst->si;
        const bool was = d ? true : false;
        if (op == "asgS")
          d = *src->si;
        else
          d = std::move(*src->si);
        const bool now = d ? true : false;
        check_if_slot_idiom(was, now, &d);
      }
      return "ok";
    }
    if (op == "setS" && N(2)) // assign a new functor to an existing slot variable
    {
      SlotObj* dst = get(S, idx(w[1]));
      if (!dst)
        return "dead";
      if (dst->incall)
        return "busy";
      int st = spec_taint(w[2]);
      int rc;
      if (dst->isVoid)
      {
        SlotV tmp;
        rc = make_slot<void>(w[2], tmp);
        if (!rc)
          *dst->sv = tmp;
      }
      else
      {
        SlotI tmp;
        rc = make_slot<int>(w[2], tmp);
        if (!rc)
        {
          SlotI& d = *dst->si;
          const bool was = d ? true : false;
          d = tmp;
          const bool now = d ? true : false;
          check_if_slot_idiom(was, now, &d);
        }
      }
      if (!rc && dst->taint < st)
        dst->taint = st;
      return rc_name(rc);
    }
    if (op == "delS" && N(1))
    {
      int i = idx(w[1]);
      SlotObj* s = get(S, i);
      if (!s)
        return "dead";
      if (s->incall)
        return "busy";
      S.erase(i);
      if (s->isVoid)
        delete s->sv;
      else
        delete s->si;
      delete s;
      return "ok";
    }
    if (op == "discS" && N(1))
    {
      SlotObj* s = get(S, idx(w[1]));
      if (!s)
        return "dead";
      sigc::slot_base& d = *s->base();
      const bool was = d ? true : false;
      d.disconnect();
      const bool now = d ? true : false;
      check_if_slot_idiom(was, now, &d);
      return "ok";
    }
    if (op == "blockS" && N(2))
    {
      SlotObj* s = get(S, idx(w[1]));
      if (!s)
        return "dead";
      bool old = (w[2] == "1") ? s->base()->block(true)
                               : (idx(w[1]) % 2 == 0 ? s->base()->unblock() : s->base()->block(false));
      return old ? "1" : "0";
    }
    if (op == "blockedS?" && N(1))
    {
      SlotObj* s = get(S, idx(w[1]));
      if (!s)
        return "dead";
      return s->base()->blocked() ? "1" : "0";
    }
    if (op == "boolS?" && N(1))
    {
      SlotObj* s = get(S, idx(w[1]));
      if (!s)
        return "dead";
      return static_cast<bool>(*s->base()) ? "1" : "0";
    }
    if (op == "emptyS?" && N(1))
    {
      SlotObj* s = get(S, idx(w[1]));
      if (!s)
        return "dead";
      return s->base()->empty() ? "1" : "0";
    }
    if (op == "callS" && N(2))
    {
      SlotObj* s = get(S, idx(w[1]));
      if (!s)
        return "dead";
      if (depth >= maxdepth)
        return "toodeep";
      if (steps > maxsteps)
        return "budget";
      int a = std::atoi(w[2].c_str());
      struct Guard
      {
        SlotObj* s;
        Guard(SlotObj* s_) : s(s_) { ++s->incall; }
        ~Guard() { --s->incall; }
      } guard(s);
      if (s->isVoid)
      {
        (*s->sv)(a);
        return "r=void";
      }
      int r = (*s->si)(a);
      return "r=" + std::to_string(r);
    }

    // ---------------- signals
    if (op == "newG" && N(2))
    {
      int i = idx(w[1]);
      Flavour fl;
      if (!parse_flavour(w[2], fl))
        return "badtype";
      if (get(G, i))
        return "exists";
      G[i] = new_sig(fl);
      attach_up(G[i]);
      G[i]->lvl = i;
      return "ok";
    }
    if ((op == "cpG" || op == "mvG") && N(2))
    {
      int j = idx(w[1]);
      SigObj* src = get(G, idx(w[2]));
      if (!src)
        return "dead";
      if (get(G, j))
        return "exists";
      auto g = new SigObj;
      g->fl = src->fl;
      g->lvl = src->lvl;
      bool cp = (op == "cpG");
      g->p = with_sig(*src, [cp](auto& s) -> void* {
        using Ty = std::remove_reference_t<decltype(s)>;
        return cp ? new Ty(s) : new Ty(std::move(s));
      });
      G[j] = g;
      attach_up(g);
      return "ok";
    }
    if ((op == "asgG" || op == "masgG") && N(2))
    {
      SigObj* dst = get(G, idx(w[1]));
      SigObj* src = get(G, idx(w[2]));
      if (!dst || !src)
        return "dead";
      if (dst->fl != src->fl)
        return "badtype";
      if (dst->lvl != src->lvl)
        return "badlevel";
      // move assignment may assume that both objects outlive the call (docs/LANGUAGE.md, rule `owned`)
      if (op == "masgG" && !fl_acc(dst->fl) && (src->owned || dst->owned))
        return "owned";
      bool cp = (op == "asgG");
      // (if dst is the last handle of its list, the list dies in this assignment: see check_dying_lists)
      const void* lp = (dst != src) ? sole_list(dst) : nullptr;
      if (lp && with_sig(*src, [lp](auto& sg) {
            sigc::signal_base& sb = sg;
            return sg.size() > 0 && static_cast<const void*>((sb.*SigAccess::get_impl())().get()) == lp;
          }))
        lp = nullptr;
      if (lp)
        g_lists_dying.push_back(lp);
      struct PopDying
      {
        bool on;
        ~PopDying()
        {
          if (on)
            g_lists_dying.pop_back();
        }
      } pop_dying{lp != nullptr};
      // (the objects themselves may die in this assignment — a handle owned by a functor of the old list — so the mark
      //  is kept outside of them)
      struct Assigning
      {
        Assigning(const void* x, const void* y)
        {
          g_assigning.push_back(x);
          g_assigning.push_back(y);
        }
        ~Assigning()
        {
          g_assigning.pop_back();
          g_assigning.pop_back();
        }
      } assigning(dst, src);
      with_sig(*dst, [cp, src](auto& d) {
        using Ty = std::remove_reference_t<decltype(d)>;
        Ty& s = *static_cast<Ty*>(src->p);
        if (cp)
          d = s;
        else
          d = std::move(s);
        return 0;
      });
      return "ok";
    }
    if (op == "delG" && N(1))
    {
      int i = idx(w[1]);
      SigObj* g = get(G, i);
      if (!g)
        return "dead";
      if (g->everFwd && !fl_trackable(g->fl))
        return "pinned";
      if (g->owned)
        return "owned";
      G.erase(i);
      del_sig(g);
      return "ok";
    }
    if ((op == "conn" || op == "connf" || op == "connmv" || op == "connfmv") && N(3))
    {
      int k = idx(w[1]);
      SigObj* g = get(G, idx(w[2]));
      SlotObj* s = get(S, idx(w[3]));
      if (!g || !s)
        return "dead";
      if (fl_void(g->fl) != s->isVoid)
        return "badtype";
      if (s->taint >= g->lvl)
        return "badorder";
      bool first = (op == "connf" || op == "connfmv");
      bool mv = (op == "connmv" || op == "connfmv");
      if (mv && s->incall)
        return "busy";
      sigc::connection c = with_sig(*g, [&](auto& sig) -> sigc::connection {
        using Sig = std::remove_reference_t<decltype(sig)>;
        using Slot = typename Sig::slot_type;
        Slot& sl = *reinterpret_cast<Slot*>(s->isVoid ? static_cast<void*>(s->sv) : static_cast<void*>(s->si));
        if ((k + 2 * idx(w[3])) % 4 == 1)
        {
          // a failing connect first (see ThrowOnCopy)
          const auto before = sig.size();
          const bool threw = failed_copy_attempt<Slot>([&](Slot& ts) {
            if (first)
              sig.connect_first(ts);
            else
              sig.connect(ts);
          });
          check_failed_copy(threw, sig.size() == before, first ? "connect_first() of a slot" : "connect() of a slot");
        }
        // variation without a model counterpart: every third connect of a slot variable goes through the protected
        // signal_base::insert(position, slot) at begin()/end(), which is what connect_first()/connect() are
        if ((k + idx(w[3])) % 3 == 0)
        {
          ++g_stat_insert;
          sigc::signal_base& sb = sig;
          auto impl = (sb.*SigAccess::get_impl())();
          auto pos = first ? impl->slots_.begin() : impl->slots_.end();
          auto it = mv ? (sb.*SigAccess::insert_move())(pos, std::move(sl)) : (sb.*SigAccess::insert_copy())(pos, sl);
          return sigc::connection(*it);
        }
        if (mv)
          return first ? sig.connect_first(std::move(sl)) : sig.connect(std::move(sl));
        return first ? sig.connect_first(sl) : sig.connect(sl);
      });
      set_conn(k, c);
      note_list(k, g);
      return "ok";
    }
    if ((op == "connfn" || op == "connffn") && N(3))
    {
      int k = idx(w[1]);
      SigObj* g = get(G, idx(w[2]));
      if (!g)
        return "dead";
      bool first = (op == "connffn");
      int rc = 0;
      int st = spec_taint(w[3]);

      sigc::connection c;
      if (w[3].rfind("sc:", 0) == 0 && !first)
      {
        // the free-function entry point sigc::signal_connect(signal, object, method) — it appends, like connect()
        std::vector<std::string> sp;
        {
          std::stringstream ss(w[3]);
          std::string t;
          while (std::getline(ss, t, ':'))
            sp.push_back(t);
        }
        Trk* t = sp.size() == 3 ? get(T, idx(sp[2])) : nullptr;
        if (sp.size() != 3)
          return "badtype";
        if (!t)
          return "dead";
        // functor ids 8..15 are reserved for signal_connect functors: a bound_mem_functor holds no countable copy of a
        // user functor, so these ids are never asked for with `live?`
        int fid = std::atoi(sp[1].c_str()) % 8;
        bool useConst = (fid / 2) % 2 == 1;
#define SC_CASE(N)                                                                                     \
  case N:                                                                                              \
    if constexpr (std::is_same<Sig, SigV>::value)                                                      \
      return useConst ? sigc::signal_connect(sig, *t, &Trk::sckv<N + 8>) : sigc::signal_connect(sig, *t, &Trk::scv<N + 8>); \
    else if constexpr (std::is_same<Sig, SigI>::value)                                                 \
      return useConst ? sigc::signal_connect(sig, *t, &Trk::sck<N + 8>) : sigc::signal_connect(sig, *t, &Trk::sc<N + 8>);   \
    else                                                                                               \
      break;
        bool done = false;
        c = with_sig(*g, [&](auto& sig) -> sigc::connection {
          using Sig = std::remove_reference_t<decltype(sig)>;
          switch (fid)
          {
            SC_CASE(0) SC_CASE(1) SC_CASE(2) SC_CASE(3) SC_CASE(4) SC_CASE(5) SC_CASE(6) SC_CASE(7)
          }
          return sigc::connection();
        });
#undef SC_CASE
        (void)done;
        // signal_connect() exists for sigc::signal<R(A...)> only: the other flavours use the equivalent connect(mem_fun)
        if (g->fl != FV_ && g->fl != FI_)
        {
          std::string alt = "mem:" + std::to_string(fid + 8) + ":" + sp[2];
          if (fl_void(g->fl))
          {
            SlotV tmp;
            make_slot<void>(alt, tmp);
            c = with_sig(*g, [&](auto& sig) -> sigc::connection {
              using Sig2 = std::remove_reference_t<decltype(sig)>;
              if constexpr (std::is_same<typename Sig2::slot_type, SlotV>::value)
                return sig.connect(std::move(tmp));
              else
                return sigc::connection();
            });
          }
          else
          {
            SlotI tmp;
            make_slot<int>(alt, tmp);
            c = with_sig(*g, [&](auto& sig) -> sigc::connection {
              using Sig2 = std::remove_reference_t<decltype(sig)>;
              if constexpr (std::is_same<typename Sig2::slot_type, SlotI>::value)
                return sig.connect(std::move(tmp));
              else
                return sigc::connection();
            });
          }
        }
        set_conn(k, c);
        note_list(k, g);
        return "ok";
      }
      std::shared_ptr<sigc::connection> selfc; // set for the connect-once variant (plain functors with fid % 3 == 0)
      if (w[3].rfind("fn:", 0) == 0 && std::atoi(w[3].c_str() + 3) % 3 == 0)
        selfc = std::make_shared<sigc::connection>();
      if (fl_void(g->fl))
      {
        SlotV tmp;
        rc = make_slot<void>(w[3], tmp);
        if (!rc && selfc)
          tmp = SlotV(FSelfV(std::atoi(w[3].c_str() + 3), selfc));
        if (!rc && st >= g->lvl)
          return "badorder";
        if (!rc)
          c = with_sig(*g, [&](auto& sig) -> sigc::connection {
            using Sig = std::remove_reference_t<decltype(sig)>;
            if constexpr (std::is_same<typename Sig::slot_type, SlotV>::value)
              return first ? sig.connect_first(std::move(tmp)) : sig.connect(std::move(tmp));
            else
              return sigc::connection();
          });
      }
      else
      {
        SlotI tmp;
        rc = make_slot<int>(w[3], tmp);
        if (!rc && selfc)
          tmp = SlotI(FSelf(std::atoi(w[3].c_str() + 3), selfc));
        if (!rc && st >= g->lvl)
          return "badorder";
        if (!rc)
          c = with_sig(*g, [&](auto& sig) -> sigc::connection {
            using Sig = std::remove_reference_t<decltype(sig)>;
            if constexpr (std::is_same<typename Sig::slot_type, SlotI>::value)
              return first ? sig.connect_first(std::move(tmp)) : sig.connect(std::move(tmp));
            else
              return sigc::connection();
          });
      }
      if (rc)
        return rc_name(rc);
      if (selfc)
        *selfc = c; // the functor now co-owns a handle to its own slot
      set_conn(k, c);
      note_list(k, g);
      if (selfc)
        selfOf[k] = selfc;
      return "ok";
    }
    if ((op == "emit" || op == "tryemit") && (N(2) || N(3)))
    {
      SigObj* g = get(G, idx(w[1]));
      if (!g)
        return "dead";
      if (depth >= maxdepth)
        return "toodeep";
      if (steps > maxsteps)
        return "budget";
      int a = std::atoi(w[2].c_str());
      std::string strat = N(3) ? w[3] : "sum";
      const bool acc = fl_acc(g->fl); // (read before the emission: the signal object may die in it)
      auto doit = [&]() -> std::string {
        // a strategy given to a signal without accumulator is ignored (it must not reach a forwarded emission)
        g_strategy = acc ? strat : "sum";
        std::string res = with_sig(*g, [&](auto& sig) -> std::string {
          using Sig = std::remove_reference_t<decltype(sig)>;
          // the two public spellings of an emission are exercised alternately: emit(a) and operator()(a)
          if constexpr (std::is_same<typename Sig::slot_type, SlotV>::value)
          {
            if (a % 2 == 0)
              sig.emit(a);
            else
              sig(a);
            return "r=void";
          }
          else
          {
            if constexpr (std::is_same<Sig, SigA>::value || std::is_same<Sig, TSigA>::value)
            {
              // accumulated: the result is the accumulator's own reference, not a copy of it
              auto&& rr = (a % 2 == 0) ? sig.emit(a) : sig(a);
              int r = rr;
              static_assert(true, "");
              if (&rr != &g_acc_result)
              {
                std::fprintf(stderr, "harness: emit() of an accumulated signal did not return the accumulator's result object\n");
                std::abort();
              }
              return "r=" + std::to_string(r);
            }
            else
            {
              int r = (a % 2 == 0) ? sig.emit(a) : sig(a);
              return "r=" + std::to_string(r);
            }
          }
        });
        g_strategy = "sum";
        return res;
      };
      if (op == "tryemit")
      {
        try
        {
          return doit();
        }
        catch (HarnessExc&)
        {
          g_strategy = "sum";
          return "caught";
        }
      }
      return doit();
    }
    if (op == "throw" && N(0))
    {
      throw_harness_exc(steps);
    }
    if (op == "clear" && N(1))
    {
      SigObj* g = get(G, idx(w[1]));
      if (!g)
        return "dead";
      with_sig(*g, [](auto& s) {
        s.clear();
        return 0;
      });
      return "ok";
    }
    if (op == "size?" && N(1))
    {
      SigObj* g = get(G, idx(w[1]));
      if (!g)
        return "dead";
      return std::to_string(with_sig(*g, [](auto& s) { return s.size(); }));
    }
    if (op == "emptyG?" && N(1))
    {
      SigObj* g = get(G, idx(w[1]));
      if (!g)
        return "dead";
      return with_sig(*g, [](auto& s) { return s.empty(); }) ? "1" : "0";
    }
    if (op == "blockedG?" && N(1))
    {
      SigObj* g = get(G, idx(w[1]));
      if (!g)
        return "dead";
      return with_sig(*g, [](auto& s) { return s.blocked(); }) ? "1" : "0";
    }
    if (op == "blockG" && N(2))
    {
      SigObj* g = get(G, idx(w[1]));
      if (!g)
        return "dead";
      bool b = (w[2] == "1");
      bool viaBlock = idx(w[1]) % 2 == 1;
      with_sig(*g, [b, viaBlock](auto& s) {
        if (b)
          s.block(); // default argument
        else if (viaBlock)
          s.block(false);
        else
          s.unblock();
        return 0;
      });
      return "ok";
    }

    // ---------------- connections
    if (op == "newC" && N(1))
    {
      int i = idx(w[1]);
      if (get(C, i))
        return "exists";
      C[i] = new sigc::connection;
      return "ok";
    }
    if (op == "cpC" && N(2))
    {
      int j = idx(w[1]);
      auto src = get(C, idx(w[2]));
      if (!src)
        return "dead";
      if (get(C, j))
        return "exists";
      C[j] = new sigc::connection(*src);
      if (connList.count(idx(w[2])))
        connList[j] = connList[idx(w[2])];
      return "ok";
    }
    if (op == "asgC" && N(2))
    {
      auto dst = get(C, idx(w[1]));
      auto src = get(C, idx(w[2]));
      if (!dst || !src)
        return "dead";
      if (dst != src)
        selfOf.erase(idx(w[1]));
      *dst = *src;
      if (connList.count(idx(w[2])))
        connList[idx(w[1])] = connList[idx(w[2])];
      else
        connList.erase(idx(w[1]));
      return "ok";
    }
    if (op == "delC" && N(1))
    {
      int i = idx(w[1]);
      auto c = get(C, i);
      if (!c)
        return "dead";
      selfOf.erase(i);
      connList.erase(i);
      C.erase(i);
      delete c;
      return "ok";
    }
    if (op == "disc" && N(1))
    {
      auto c = get(C, idx(w[1]));
      if (!c)
        return "dead";
      // if the slot's own functor co-owns a connection object to this slot, disconnect THROUGH THAT OBJECT: outside
      // an emission it is destroyed (with the functor) while its own disconnect() is still running
      sigc::connection* own = nullptr;
      auto it = selfOf.find(idx(w[1]));
      if (it != selfOf.end())
      {
        own = it->second.lock().get(); // (no shared_ptr kept: the functor must stay the only owner)
        if (!own)
          selfOf.erase(it);
      }
      if (own && own->connected())
        own->disconnect();
      else
        c->disconnect();
      return "ok";
    }
    if (op == "connected?" && N(1))
    {
      auto c = get(C, idx(w[1]));
      if (!c)
        return "dead";
      // connected() and operator bool are the same question; both spellings are exercised
      bool r = (idx(w[1]) % 2 == 0) ? c->connected() : static_cast<bool>(*c);
      return r ? "1" : "0";
    }
    if (op == "emptyC?" && N(1))
    {
      auto c = get(C, idx(w[1]));
      if (!c)
        return "dead";
      return c->empty() ? "1" : "0";
    }
    if (op == "blockedC?" && N(1))
    {
      auto c = get(C, idx(w[1]));
      if (!c)
        return "dead";
      return c->blocked() ? "1" : "0";
    }
    if (op == "blockC" && N(2))
    {
      auto c = get(C, idx(w[1]));
      if (!c)
        return "dead";
      bool old = (w[2] == "1") ? c->block(true) : (idx(w[1]) % 2 == 0 ? c->unblock() : c->block(false));
      return old ? "1" : "0";
    }

    // ---------------- scoped connections
    if (op == "newK0" && N(1))
    {
      int i = idx(w[1]);
      if (get(K, i))
        return "exists";
      K[i] = new sigc::scoped_connection;
      return "ok";
    }
    if (op == "newK" && N(2))
    {
      int i = idx(w[1]);
      auto c = get(C, idx(w[2]));
      if (!c)
        return "dead";
      if (get(K, i))
        return "exists";
      K[i] = new sigc::scoped_connection(*c);
      return "ok";
    }
    if (op == "asgKC" && N(2))
    {
      auto k = get(K, idx(w[1]));
      auto c = get(C, idx(w[2]));
      if (!k || !c)
        return "dead";
      // variation without a model counterpart: if the functor of the slot C refers to co-owns a connection object to
      // that slot (connect-once functor), pass THAT object: when K holds this very slot, the assignment disconnects
      // it, the functor dies and the argument object with it — the by-value parameter must have been copied before
      {
        sigc::connection* own = nullptr;
        auto it = selfOf.find(idx(w[2]));
        if (it != selfOf.end())
        {
          own = it->second.lock().get();
          if (!own)
            selfOf.erase(it);
        }
        if (own)
        {
          ++g_stat_operand_owned;
          *k = *own;
          return "ok";
        }
      }
      *k = *c;
      return "ok";
    }
    if (op == "mvK" && N(2))
    {
      int j = idx(w[1]);
      auto src = get(K, idx(w[2]));
      if (!src)
        return "dead";
      if (get(K, j))
        return "exists";
      K[j] = new sigc::scoped_connection(std::move(*src));
      return "ok";
    }
    if (op == "masgK" && N(2))
    {
      auto dst = get(K, idx(w[1]));
      auto src = get(K, idx(w[2]));
      if (!dst || !src)
        return "dead";
      if (dst == src)
        return "self"; // self-move-assignment is outside C17's histories
      *dst = std::move(*src);
      return "ok";
    }
    if (op == "swapK" && N(2))
    {
      auto a = get(K, idx(w[1]));
      auto b = get(K, idx(w[2]));
      if (!a || !b)
        return "dead";
      swap(*a, *b);
      return "ok";
    }
    if (op == "relK" && N(2))
    {
      auto k = get(K, idx(w[2]));
      if (!k)
        return "dead";
      set_conn(idx(w[1]), k->release());
      return "ok";
    }
    if (op == "discK" && N(1))
    {
      auto k = get(K, idx(w[1]));
      if (!k)
        return "dead";
      k->disconnect();
      return "ok";
    }
    if (op == "delK" && N(1))
    {
      int i = idx(w[1]);
      auto k = get(K, i);
      if (!k)
        return "dead";
      K.erase(i);
      delete k;
      return "ok";
    }
    if (op == "connectedK?" && N(1))
    {
      auto k = get(K, idx(w[1]));
      if (!k)
        return "dead";
      bool r = (idx(w[1]) % 3 == 0) ? k->connected() : (idx(w[1]) % 3 == 1 ? static_cast<bool>(*k) : !k->empty());
      return r ? "1" : "0";
    }
    if (op == "blockedK?" && N(1))
    {
      auto k = get(K, idx(w[1]));
      if (!k)
        return "dead";
      return k->blocked() ? "1" : "0";
    }
    if (op == "blockK" && N(2))
    {
      auto k = get(K, idx(w[1]));
      if (!k)
        return "dead";
      bool old = (w[2] == "1") ? k->block(true) : (idx(w[1]) % 2 == 0 ? k->unblock() : k->block(false));
      return old ? "1" : "0";
    }

    // ---------------- accounting
    if (op == "live?" && N(1))
    {
      int fid = std::atoi(w[1].c_str());
      return std::to_string(live[fid]);
    }
    if (op == "mark" && N(0))
    {
      mark = g_outstanding;
      return "ok";
    }
    if (op == "allocs?" && N(0))
    {
      return "delta=" + std::to_string(g_outstanding - mark);
    }
    return "badop";
  }

  // run one op line: prints "<depth> <line> => <result>"; rethrows HarnessExc inside bodies
  void run_line(const std::string& line)
  {
    std::vector<std::string> w;
    {
      std::stringstream ss(line);
      std::string t;
      while (ss >> t)
        w.push_back(t);
    }
    if (w.empty())
      return;
    ++steps;
    std::string res;
    try
    {
      res = exec(w);
    }
    catch (HarnessExc&)
    {
      emitline(line + " => exc");
      if (depth > 0)
        throw;
      // variation without a model counterpart: every other time an exception reaches the top level, the NEXT top-level
      // operation is performed inside the catch handler (while the exception is still "current": a retry or an error
      // report made from the handler must find the signal as consistent as later)
      if (pending_in_handler && ++handler_count % 2 == 1)
      {
        const std::string next = *pending_in_handler;
        pending_in_handler = nullptr;
        consumed_next = true;
        ++g_stat_in_handler;
        run_line(next);
      }
      return;
    }
    emitline(line + " => " + res);
  }

  int leaf(int fid, int arg)
  {
    emitline("call f" + std::to_string(fid) + " " + std::to_string(arg));
    auto it = bodies.find(fid);
    if (it != bodies.end())
    {
      // copy: the body table is immutable, but keep a local anyway
      const std::vector<std::string>& b = it->second;
      struct D
      {
        Interp* i;
        D(Interp* i_) : i(i_) { ++i->depth; }
        ~D() { --i->depth; }
      } d(this);
      for (size_t li = 0; li < b.size(); ++li)
      {
        const std::string& l = b[li];
        // variation without a model counterpart: `emit G a` directly followed by `throw` is, for every
        // other such pair, performed *during stack unwinding*: the throw comes first and the emission
        // is made by the destructor of a local scope guard (which contains its own exceptions).  The
        // observable history is the same: the emission's result line, then `throw => exc` unless the
        // emission itself threw (then the body ended there).
        if (li + 1 < b.size() && b[li + 1] == "throw" && l.rfind("emit ", 0) == 0 && (fid + (int)li + arg) % 2 == 0)
        {
          struct Guard
          {
            Interp* i;
            const std::string& line;
            bool inner_exc = false;
            bool* out;
            ~Guard()
            {
              try
              {
                i->run_line(line);
              }
              catch (HarnessExc&)
              {
                inner_exc = true;
              }
              *out = inner_exc;
            }
          };
          bool inner_exc = false;
          try
          {
            Guard g{this, l, false, &inner_exc};
            ++g_stat_unwind_emits;
            throw_harness_exc(steps + 1);
          }
          catch (HarnessExc&)
          {
            if (!inner_exc)
            {
              ++steps;
              emitline(b[li + 1] + " => exc");
            }
            throw;
          }
        }
        run_line(l);
      }
    }
    return (fid * 10 + arg) % 97;
  }

  void teardown()
  {
    // destroy what the program left alive: scoped connections, connections, slots, then signals, then trackables
    for (auto& kv : K)
      delete kv.second;
    K.clear();
    for (auto& kv : C)
      delete kv.second;
    C.clear();
    for (auto& kv : S)
    {
      if (kv.second->isVoid)
        delete kv.second->sv;
      else
        delete kv.second->si;
      delete kv.second;
    }
    S.clear();
    {
      // (clearing one signal may destroy functor-owned signal objects, which then leave G)
      std::vector<int> names;
      for (auto& kv : G)
        names.push_back(kv.first);
      for (int n : names)
        if (SigObj* g = get(G, n))
        {
          auto keep = g->owner.lock(); // the harness's own teardown must not destroy the object it is calling
          clear_sig(g);
        }
      names.clear();
      for (auto& kv : G)
        names.push_back(kv.first);
      for (int n : names)
        if (SigObj* g = get(G, n))
        {
          if (g->owned)
            continue; // cannot happen after the clears above: every functor is gone
          G.erase(n);
          del_sig(g);
        }
      G.clear();
    }
    for (auto& kv : T)
      delete kv.second;
    T.clear();
  }

  void run_program(const std::vector<std::string>& lines)
  {
    // pass 1: bodies
    std::vector<std::string> top;
    int cur = -1;
    for (const auto& l0 : lines)
    {
      std::string l = l0;
      std::size_t a = l.find_first_not_of(" \t\r\n");
      if (a == std::string::npos)
        continue;
      l = l.substr(a);
      while (!l.empty() && (l.back() == '\r' || l.back() == '\n' || l.back() == ' '))
        l.pop_back();
      if (l.empty() || l[0] == '#')
        continue;
      if (l.rfind("body ", 0) == 0)
      {
        cur = std::atoi(l.c_str() + 5);
        bodies[cur];
        continue;
      }
      if (l == "end")
      {
        cur = -1;
        continue;
      }
      if (l.rfind("maxdepth ", 0) == 0)
      {
        maxdepth = std::atoi(l.c_str() + 9);
        continue;
      }
      if (l.rfind("maxsteps ", 0) == 0)
      {
        maxsteps = std::atol(l.c_str() + 9);
        continue;
      }
      if (l == "owners")
      {
        owners = true;
        continue;
      }
      if (cur >= 0)
        bodies[cur].push_back(l);
      else
        top.push_back(l);
    }
    for (std::size_t ti = 0; ti < top.size(); ++ti)
    {
      pending_in_handler = (ti + 1 < top.size()) ? &top[ti + 1] : nullptr;
      consumed_next = false;
      run_line(top[ti]);
      pending_in_handler = nullptr;
      if (consumed_next)
        ++ti; // the following operation was already performed inside the catch handler
    }
    teardown();
    long tot = 0;
    for (auto& kv : live)
      tot += kv.second;
    emitline("final live=" + std::to_string(tot));
  }
};

F::F(int f) : fid(f)
{
  if (g_interp)
    ++g_interp->live[fid];
}
F::F(const F& o) : fid(o.fid)
{
  if (g_interp)
    ++g_interp->live[fid];
}
F::~F()
{
  if (g_interp)
    --g_interp->live[fid];
}

int invoke_leaf(int fid, int arg)
{
  return g_interp->leaf(fid, arg);
}

std::vector<std::vector<std::string>> read_programs(std::istream& in)
{
  std::vector<std::vector<std::string>> progs(1);
  std::string l;
  while (std::getline(in, l))
  {
    if (l.rfind("=== ", 0) == 0 || l == "===")
    {
      if (!progs.back().empty())
        progs.emplace_back();
      continue;
    }
    progs.back().push_back(l);
  }
  if (progs.back().empty() && progs.size() > 1)
    progs.pop_back();
  return progs;
}

void check_dying_lists()
{
  Interp* in = g_interp;
  if (!in || g_lists_dying.empty())
    return;
  for (auto& kv : in->connList)
  {
    bool dying = false;
    for (const void* lp : g_lists_dying)
      dying = dying || lp == kv.second;
    if (!dying)
      continue;
    auto it = in->C.find(kv.first);
    if (it != in->C.end() && it->second && it->second->connected())
    {
      std::fprintf(stderr, "harness: the last handle of a slot list is going away, a functor of the list is already being "
                           "destroyed, and connection C%d into that list still reports connected()\n", kv.first);
      std::abort();
    }
  }
}

void query_all_signals()
{
  Interp* in = g_interp;
  if (!in)
    return;
  for (auto& kv : in->G)
  {
    SigObj* g = kv.second;
    if (!g || g->dying)
      continue;
    bool assigning = false;
    for (const void* a : g_assigning)
      if (a == g)
        assigning = true;
    with_sig(*g, [assigning](auto& s) {
      volatile std::size_t n = s.size();
      volatile bool e = s.empty();
      volatile bool b = s.blocked();
      (void)n;
      (void)e;
      (void)b;
      // fourth part: the destructor subscribes to the signal and cancels the subscription at once (connect();
      // disconnect()).  Whatever the library is in the middle of with that list — clear(), a sweep, the erasure of one
      // slot — the cancelled slot must be gone when that operation returns (the trace and the later `size?` answers
      // stay what the models say).  Not on a list that an emission is walking (its end marker is the only slot
      // without a slot_rep a program of mode `owners` can have in a list) and not on a list that is dying.
      using Sig = std::remove_reference_t<decltype(s)>;
      using Slot = typename Sig::slot_type;
      sigc::signal_base& sb = s;
      auto& impl = sb.*SigAccess::impl_member();
      if (!impl || assigning)
        return 0;
      for (const void* d : g_lists_dying)
        if (d == impl.get())
          return 0;
      for (const auto& cell : impl->slots_)
        if (!cell)
          return 0;
      Slot ns{ThrowOnCopy<typename slot_result<Slot>::type>()};
      sigc::connection c = s.connect(ns);
      c.disconnect();
      ++g_stat_will_subscriptions;
      return 0;
    });
  }
}

} // namespace

int main(int argc, char** argv)
{
  bool threads = false;
  unsigned yseed = 0;
  for (int i = 1; i < argc; ++i)
  {
    if (!std::strcmp(argv[i], "--threads"))
      threads = true;
    else if (!std::strncmp(argv[i], "--yield=", 8))
      yseed = std::atoi(argv[i] + 8);
  }
  auto progs = read_programs(std::cin);
  if (!threads)
  {
    // sequential: programs one after another, each with a fresh interpreter
    for (std::size_t i = 0; i < progs.size(); ++i)
    {
      Interp in;
      g_interp = &in;
      in.run_program(progs[i]);
      g_interp = nullptr;
      if (progs.size() > 1)
        std::cout << "=== " << i << "\n";
      std::cout << in.out;
      std::cout.flush();
    }
    std::cerr << "#harness-stats throws_plain=" << g_stat_throws[0] << " throws_bad_alloc=" << g_stat_throws[1]
              << " throws_runtime_error=" << g_stat_throws[2] << " emissions_during_unwinding=" << g_stat_unwind_emits
              << " operands_owned_by_a_functor=" << g_stat_operand_owned
              << " connects_through_protected_insert=" << g_stat_insert
              << " operations_inside_a_catch_handler=" << g_stat_in_handler
              << " failed_copy_attempts=" << g_stat_failed_copy
              << " subscriptions_made_and_cancelled_by_destructors=" << g_stat_will_subscriptions << "\n";
    return 0;
  }
  // C19: every program in its own thread, started behind a barrier, disjoint object graphs
  std::vector<std::string> outs(progs.size());
  std::atomic<int> ready{0};
  std::atomic<bool> go{false};
  std::vector<std::thread> th;
  for (std::size_t i = 0; i < progs.size(); ++i)
  {
    th.emplace_back([&, i]() {
      Interp* in = new Interp;
      in->yield = yseed != 0;
      in->yrng = yseed * 7919u + static_cast<unsigned>(i) * 104729u + 1u;
      g_interp = in;
      ++ready;
      while (!go.load())
        sched_yield();
      in->run_program(progs[i]);
      outs[i] = in->out;
      g_interp = nullptr;
      delete in;
    });
  }
  while (ready.load() < static_cast<int>(progs.size()))
    sched_yield();
  go.store(true);
  for (auto& t : th)
    t.join();
  for (std::size_t i = 0; i < progs.size(); ++i)
  {
    std::cout << "=== " << i << "\n" << outs[i];
  }
  return 0;
}
