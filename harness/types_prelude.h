// Prelude of every C05 compile probe (precompiled once per check run from the current /repo tree).
// Contains the whole public library header plus the type universe of DESIGN.md §5 C05 and the
// library-free detection idioms used for the exhaustive `binds` / `cast` tables.
#pragma once
#include <sigc++/sigc++.h>
#include <type_traits>
#include <utility>

namespace tp
{
struct A
{
  int a;
};
struct B : A
{
  int b;
};
using pA = A*;
using pB = B*;
using pcA = const A*;

// types whose explicit and implicit convertibility to an arithmetic type differ
enum class E : int // scoped enumeration: static_cast to/from every arithmetic type, no implicit conversion
{
  e0 = 3,
  e1 = 7
};
struct Xb // only *explicitly* convertible to bool
{
  explicit operator bool() const;
};
struct Xd // only *explicitly* convertible to double
{
  explicit operator double() const;
};

// accumulator of the `accum` route (signal<Sig>::accumulated<tp::Acc>); never instantiated by connect()
struct Acc
{
  using result_type = int;
  template<typename I>
  int operator()(I, I) const
  {
    return 0;
  }
};

// an expression of declared type E: `mk<T&>()` lvalue, `mk<const T&>()` const lvalue, `mk<T&&>()` xvalue,
// `mk<T>()` prvalue.  Declared only (probes are compiled with -fsyntax-only).
template<typename E>
E mk();

// a function whose single parameter is declared exactly P
template<typename P>
void sink(P);

// binds_t<P, E>: can a parameter declared P be initialised from an expression of declared type E?
template<typename P, typename E, typename = void>
struct binds_t : std::false_type
{
};
template<typename P, typename E>
struct binds_t<P, E, std::void_t<decltype(sink<P>(mk<E>()))>> : std::true_type
{
};

// cast_t<P, E>: is static_cast<P>(expression of declared type E) well-formed?
template<typename P, typename E, typename = void>
struct cast_t : std::false_type
{
};
template<typename P, typename E>
struct cast_t<P, E, std::void_t<decltype(static_cast<P>(mk<E>()))>> : std::true_type
{
};

// category of an expression as decltype((e)) reports it
template<typename T>
struct cat_of
{
  static constexpr int value = 2; // prvalue
};
template<typename T>
struct cat_of<T&>
{
  static constexpr int value = 0; // lvalue
};
template<typename T>
struct cat_of<T&&>
{
  static constexpr int value = 1; // xvalue
};
} // namespace tp
