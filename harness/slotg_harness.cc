// slotg_harness.cc — interpreter of the "slotg" operation language (docs/SLOTG.md) over the REAL libsigc++
// (built from /repo's current working tree, ASan+UBSan).  Sibling of lean/Sigc/SlotG.lean, same trace format.
//
// stdin: one or more programs separated by `=== <id>` lines; stdout: for each program the header line (if any)
// followed by its trace, flushed program by program (so that after a sanitizer abort the failing program is the
// first one without a `final` line).
//
// Every operation is total: what would be user-level undefined behaviour is refused with a result word
// (`dead`, `exists`, `pinned`, `owned`, `norep`).  All library objects are individually heap-allocated so that
// ASan sees every stale access.
#include <sigc++/sigc++.h>

#include <cstdio>
#include <cstdlib>
#include <iostream>
#include <map>
#include <memory>
#include <set>
#include <sstream>
#include <string>
#include <vector>

namespace
{
using SI = sigc::slot<int(int)>;
constexpr int MAXD = 4;

struct Interp;
Interp* g = nullptr;

int leaf(int fid, int arg); // logs `<depth> call f<fid> <arg>`, returns (fid*10+arg)%97
void logcall(int fid, int arg);

// plain recording functor; live copies are counted per fid
struct F
{
  int fid;
  explicit F(int f);
  F(const F& o);
  F& operator=(const F&) = default;
  ~F();
  int operator()(int a) const { return leaf(fid, a); }
};

// functor referring to a slot variable by reference: bind(F2(fid, name), std::ref(*S')).  Live copies pin S'.
struct F2
{
  F f;
  int target;
  Interp* owner;
  mutable const void* home = nullptr; // the slot_rep this copy lives in (learnt from the bind visit)
  F2(int fid, int t);
  F2(const F2& o);
  F2& operator=(const F2&) = delete;
  ~F2();
  int operator()(int a, SI& s) const;
};

// functor with a slot bound BY VALUE: bind(F3(fid), copy_of(*S')) — the copy lives in the functor
struct F3
{
  F f;
  explicit F3(int fid) : f(fid) {}
  int operator()(int a, SI& s) const;
};

// heap object that has a slot variable as its (owned) member
struct Holder
{
  SI* s;
  int name;
  Holder(SI* s_, int n) : s(s_), name(n) {}
  Holder(const Holder&) = delete;
  ~Holder();
};

// functor owning, through shared_ptr, the holder of a slot variable
struct OwnF
{
  F f;
  std::shared_ptr<Holder> h;
  mutable const void* home = nullptr; // the slot_rep this copy lives in (learnt from the bind visit)
  OwnF(int fid, std::shared_ptr<Holder> h_);
  OwnF(const OwnF& o);
  OwnF& operator=(const OwnF&) = delete;
  ~OwnF();
  int operator()(int a) const { return leaf(f.fid, a); }
};

// heap object that owns a connection object
struct CHolder
{
  sigc::connection* c;
  int name;
  CHolder(sigc::connection* c_, int n) : c(c_), name(n) {}
  CHolder(const CHolder&) = delete;
  ~CHolder();
};

// functor owning, through shared_ptr, a sigc::connection (typically one made from the slot variable that stores
// this very functor: `s = o; *o.c = sigc::connection(s); o.c.reset();`)
struct OwnC
{
  F f;
  std::shared_ptr<CHolder> h;
  OwnC(int fid, std::shared_ptr<CHolder> h_) : f(fid), h(std::move(h_)) {}
  int operator()(int a) const { return leaf(f.fid, a); }
};

struct Trk : sigc::trackable
{
  int run(int a, const F& f) { return leaf(f.fid, a); }
  int runo(int a, const OwnF& o) { return leaf(o.f.fid, a); }
};

std::set<const OwnF*> g_ownfs;   // live OwnF copies
std::set<const F2*> g_f2s;       // live F2 copies
std::vector<void*> g_leaked;     // keeps documented self-owning cycles reachable for LeakSanitizer
} // namespace

namespace sigc
{
// the owning functor learns which representation it lives in exactly like visitor<slot> learns its parent
template<>
struct visitor<OwnF>
{
  static void do_visit_each(const internal::limit_trackable_target<internal::slot_do_bind>& action,
    const OwnF& target)
  {
    target.home = action.action_.rep_;
  }
  template<typename T_action>
  static void do_visit_each(const T_action& action, const OwnF& target)
  {
    action(target);
  }
};
template<>
struct visitor<F2>
{
  static void do_visit_each(const internal::limit_trackable_target<internal::slot_do_bind>& action,
    const F2& target)
  {
    target.home = action.action_.rep_;
  }
  template<typename T_action>
  static void do_visit_each(const T_action& action, const F2& target)
  {
    action(target);
  }
};
} // namespace sigc

namespace
{
struct Spec
{
  std::string kind;
  int fid = 0;
  int s = -1; // slot name
  int t = -1; // trackable name
  int c = -1; // connection name
};

struct Interp
{
  std::map<int, SI*> slots;
  std::map<int, Trk*> trks;
  std::map<int, sigc::connection*> conns;
  std::map<int, long> live;
  std::map<int, long> pin;
  std::map<int, std::weak_ptr<Holder>> holders;
  std::map<int, std::weak_ptr<CHolder>> cholders;
  std::set<int> snames, tnames, cnames; // every name mentioned (teardown order)
  int depth = 0;
  bool quiet = false;
  std::string out;

  void emit(const std::string& s)
  {
    if (quiet)
      return;
    out += s;
    out += '\n';
  }

  static bool name(const std::string& w, char c, int& n)
  {
    if (w.size() < 2 || w[0] != c)
      return false;
    for (size_t i = 1; i < w.size(); ++i)
      if (w[i] < '0' || w[i] > '9')
        return false;
    if (w.size() > 7)
      return false; // names >= 1000000 are not program variables
    n = std::atoi(w.c_str() + 1);
    return true;
  }
  static bool nat(const std::string& w, int& n)
  {
    if (w.empty())
      return false;
    for (char ch : w)
      if (ch < '0' || ch > '9')
        return false;
    n = std::atoi(w.c_str());
    return true;
  }

  bool parse_spec(const std::string& w, Spec& sp)
  {
    std::vector<std::string> p;
    std::stringstream ss(w);
    std::string t;
    while (std::getline(ss, t, ':'))
      p.push_back(t);
    if (p.empty())
      return false;
    sp.kind = p[0];
    if (sp.kind == "fn" && p.size() == 2)
      return nat(p[1], sp.fid);
    if (sp.kind == "mem" && p.size() == 3)
      return nat(p[1], sp.fid) && name(p[2], 'T', sp.t);
    if (sp.kind == "sref" && p.size() == 3)
      return nat(p[1], sp.fid) && name(p[2], 'S', sp.s);
    if (sp.kind == "nest" && p.size() == 3)
      return nat(p[1], sp.fid) && name(p[2], 'S', sp.s);
    if (sp.kind == "ownc" && p.size() == 3)
      return nat(p[1], sp.fid) && name(p[2], 'C', sp.c);
    if (sp.kind == "own" && p.size() == 3)
      return nat(p[1], sp.fid) && name(p[2], 'S', sp.s);
    if (sp.kind == "own" && p.size() == 4)
      return nat(p[1], sp.fid) && name(p[2], 'S', sp.s) && name(p[3], 'T', sp.t);
    return false;
  }

  bool pinned(int v) const
  {
    auto it = pin.find(v);
    return it != pin.end() && it->second > 0;
  }
  // pinned by a functor copy that does not live in v's own representation
  bool pinned_other(int v)
  {
    const void* own = slots[v]->rep_;
    for (auto* f : g_f2s)
      if (f->owner == this && f->target == v && (f->home == nullptr || f->home != own))
        return true;
    return false;
  }
  bool cowned(int c) const
  {
    auto it = cholders.find(c);
    return it != cholders.end() && !it->second.expired();
  }
  bool owned(int v) const
  {
    auto it = holders.find(v);
    return it != holders.end() && !it->second.expired();
  }
  static bool own_kind(const SI* d)
  {
    if (!d->rep_)
      return false;
    for (auto* o : g_ownfs)
      if (o->home == d->rep_)
        return true;
    return false;
  }
  static bool has_parent(const SI* d) { return d->rep_ && d->rep_->parent_; }

  // "" = may be instantiated
  std::string spec_check(const Spec& sp)
  {
    if (sp.kind == "fn")
      return "";
    if (sp.kind == "mem")
      return trks.count(sp.t) ? "" : "dead";
    if (sp.kind == "sref")
    {
      if (!slots.count(sp.s))
        return "dead";
      return owned(sp.s) ? "owned" : "";
    }
    if (sp.kind == "nest")
      return slots.count(sp.s) ? "" : "dead";
    if (sp.kind == "ownc")
      return conns.count(sp.c) ? "" : "dead";
    // own
    if (!slots.count(sp.s))
      return "dead";
    if (sp.t >= 0 && !trks.count(sp.t))
      return "dead";
    return pinned(sp.s) ? "pinned" : "";
  }

  SI make(const Spec& sp)
  {
    if (sp.kind == "fn")
      return SI(F(sp.fid));
    if (sp.kind == "mem")
      return SI(sigc::bind(sigc::mem_fun(*trks[sp.t], &Trk::run), F(sp.fid)));
    if (sp.kind == "sref")
      return SI(sigc::bind(F2(sp.fid, sp.s), std::ref(*slots[sp.s])));
    if (sp.kind == "nest")
    {
      // { slot p(*S'); S = slot(bind(F3(fid), p)); }  — the named temporary p makes the order of the copies
      // independent of when the compiler destroys by-value parameters: p is copy-constructed first (its functor is
      // offered every free parent_ link of the slot variables it refers to) and dies last.
      SI p(*slots[sp.s]);
      return SI(sigc::bind(F3(sp.fid), p));
    }
    if (sp.kind == "ownc")
    {
      // share the holder of C (created on first use: the name stays usable, `delC` is refused while a holder exists)
      std::shared_ptr<CHolder> ch = cholders[sp.c].lock();
      if (!ch)
      {
        ch = std::make_shared<CHolder>(conns[sp.c], sp.c);
        cholders[sp.c] = ch;
      }
      return SI(OwnC(sp.fid, ch));
    }
    // own: share the holder of S' (created on first use)
    std::shared_ptr<Holder> h = holders[sp.s].lock();
    if (!h)
    {
      h = std::make_shared<Holder>(slots[sp.s], sp.s);
      holders[sp.s] = h;
    }
    if (sp.t >= 0)
      return SI(sigc::bind(sigc::mem_fun(*trks[sp.t], &Trk::runo), OwnF(sp.fid, h)));
    return SI(OwnF(sp.fid, h));
  }

  static std::string b2s(bool b) { return b ? "1" : "0"; }

  std::string exec(const std::vector<std::string>& w)
  {
    const std::string& op = w[0];
    auto N = [&](size_t n) { return w.size() == n + 1; };
    int a = 0, b = 0;
    // ---- trackables
    if (op == "newT" && N(1) && name(w[1], 'T', a))
    {
      tnames.insert(a);
      if (trks.count(a))
        return "exists";
      trks[a] = new Trk;
      return "ok";
    }
    if ((op == "delT" || op == "notifyT") && N(1) && name(w[1], 'T', a))
    {
      tnames.insert(a);
      if (!trks.count(a))
        return "dead";
      Trk* t = trks[a];
      if (op == "delT")
      {
        trks.erase(a);
        delete t;
      }
      else
        t->notify_callbacks();
      return "ok";
    }
    // ---- slot variables
    if (op == "mkS" && N(2) && name(w[1], 'S', a))
    {
      Spec sp;
      if (!parse_spec(w[2], sp))
        return "badop";
      note(sp);
      snames.insert(a);
      if (slots.count(a))
        return "exists";
      std::string e = spec_check(sp);
      if (!e.empty())
        return e;
      slots[a] = new SI(make(sp)); // (the temporary is moved from: parentless, so it is a real move)
      return "ok";
    }
    if (op == "mkS0" && N(1) && name(w[1], 'S', a))
    {
      snames.insert(a);
      if (slots.count(a))
        return "exists";
      slots[a] = new SI();
      return "ok";
    }
    if ((op == "cpS" || op == "mvS") && N(2) && name(w[1], 'S', a) && name(w[2], 'S', b))
    {
      snames.insert(a);
      snames.insert(b);
      if (!slots.count(b))
        return "dead";
      if (slots.count(a))
        return "exists";
      SI* n = (op == "cpS") ? new SI(*slots[b]) : new SI(std::move(*slots[b]));
      slots[a] = n;
      return "ok";
    }
    if ((op == "asgS" || op == "masgS") && N(2) && name(w[1], 'S', a) && name(w[2], 'S', b))
    {
      snames.insert(a);
      snames.insert(b);
      if (!slots.count(a) || !slots.count(b))
        return "dead";
      SI* D = slots[a];
      SI* X = slots[b];
      if (op == "asgS")
        *D = *X;
      else
        *D = std::move(*X);
      return "ok";
    }
    if (op == "setS" && N(2) && name(w[1], 'S', a))
    {
      Spec sp;
      if (!parse_spec(w[2], sp))
        return "badop";
      note(sp);
      snames.insert(a);
      if (!slots.count(a))
        return "dead";
      std::string e = spec_check(sp);
      if (!e.empty())
        return e;
      SI* D = slots[a];
      *D = make(sp);
      return "ok";
    }
    if (op == "clrS" && N(1) && name(w[1], 'S', a))
    {
      snames.insert(a);
      if (!slots.count(a))
        return "dead";
      SI* D = slots[a];
      *D = SI();
      return "ok";
    }
    if (op == "delS" && N(1) && name(w[1], 'S', a))
    {
      snames.insert(a);
      if (!slots.count(a))
        return "dead";
      if (pinned_other(a))
        return "pinned";
      if (owned(a))
        return "owned";
      SI* s = slots[a];
      slots.erase(a);
      delete s;
      return "ok";
    }
    if (w.size() >= 2 && name(w[1], 'S', a) &&
        (op == "discS" || op == "blockS" || op == "unblockS" || op == "blockedS?" || op == "emptyS?" ||
          op == "boolS?" || op == "parentS?" || op == "callS"))
    {
      bool two = (op == "blockS" || op == "callS");
      if (!(two ? N(2) : N(1)))
        return "badop";
      if (op == "blockS" && w[2] != "0" && w[2] != "1")
        return "badop";
      if (op == "callS" && !nat(w[2], b))
        return "badop";
      snames.insert(a);
      if (!slots.count(a))
        return "dead";
      SI* s = slots[a];
      if (op == "discS")
      {
        s->disconnect();
        return "ok";
      }
      if (op == "blockS")
        return b2s(s->block(w[2] == "1"));
      if (op == "unblockS")
        return b2s(s->unblock());
      if (op == "blockedS?")
        return b2s(s->blocked());
      if (op == "emptyS?")
        return b2s(s->empty());
      if (op == "boolS?")
        return b2s(static_cast<bool>(*s));
      if (op == "parentS?")
        return b2s(has_parent(s));
      depth = 0;
      int r = (*s)(b);
      return std::to_string(r);
    }
    // ---- connections
    if (op == "connS" && N(2) && name(w[1], 'C', a) && name(w[2], 'S', b))
    {
      cnames.insert(a);
      snames.insert(b);
      if (!slots.count(b))
        return "dead";
      if (conns.count(a))
        return "exists";
      if (!slots[b]->rep_)
        return "norep";
      conns[a] = new sigc::connection(*slots[b]);
      return "ok";
    }
    if (op == "newC" && N(1) && name(w[1], 'C', a))
    {
      cnames.insert(a);
      if (conns.count(a))
        return "exists";
      conns[a] = new sigc::connection();
      return "ok";
    }
    if (op == "cpC" && N(2) && name(w[1], 'C', a) && name(w[2], 'C', b))
    {
      cnames.insert(a);
      cnames.insert(b);
      if (!conns.count(b))
        return "dead";
      if (conns.count(a))
        return "exists";
      conns[a] = new sigc::connection(*conns[b]);
      return "ok";
    }
    if (op == "asgC" && N(2) && name(w[1], 'C', a) && name(w[2], 'C', b))
    {
      cnames.insert(a);
      cnames.insert(b);
      if (!conns.count(a) || !conns.count(b))
        return "dead";
      *conns[a] = *conns[b];
      return "ok";
    }
    if (w.size() >= 2 && name(w[1], 'C', a) &&
        (op == "delC" || op == "disc" || op == "connected?" || op == "emptyC?" || op == "blockedC?" ||
          op == "blockC" || op == "unblockC"))
    {
      if (!(op == "blockC" ? N(2) : N(1)))
        return "badop";
      if (op == "blockC" && w[2] != "0" && w[2] != "1")
        return "badop";
      cnames.insert(a);
      if (!conns.count(a))
        return "dead";
      sigc::connection* c = conns[a];
      if (op == "delC")
      {
        if (cowned(a))
          return "owned";
        conns.erase(a);
        delete c;
        return "ok";
      }
      if (op == "disc")
      {
        c->disconnect();
        return "ok";
      }
      if (op == "connected?")
        return b2s(c->connected());
      if (op == "emptyC?")
        return b2s(c->empty());
      if (op == "blockedC?")
        return b2s(c->blocked());
      if (op == "blockC")
        return b2s(c->block(w[2] == "1"));
      return b2s(c->unblock());
    }
    if (op == "live?" && N(1) && nat(w[1], a))
      return std::to_string(live[a]);
    return "badop";
  }

  void note(const Spec& sp)
  {
    if (sp.s >= 0)
      snames.insert(sp.s);
    if (sp.t >= 0)
      tnames.insert(sp.t);
    if (sp.c >= 0)
      cnames.insert(sp.c);
  }

  static std::vector<std::string> split(const std::string& line)
  {
    std::vector<std::string> w;
    std::stringstream ss(line);
    std::string t;
    while (ss >> t)
      w.push_back(t);
    return w;
  }

  static std::string join(const std::vector<std::string>& w)
  {
    std::string s;
    for (size_t i = 0; i < w.size(); ++i)
      s += (i ? " " : "") + w[i];
    return s;
  }

  void run_program(const std::vector<std::string>& lines)
  {
    for (const auto& l : lines)
    {
      auto w = split(l);
      if (w.empty())
        continue;
      if (w[0][0] == '#')
        continue;
      std::string res = exec(w);
      emit("0 " + join(w) + " => " + res);
    }
    // teardown through the same total operations: connections, empty every slot variable, destroy them,
    // trackables, destroy the slot variables that were still pinned/owned before
    quiet = true;
    auto upto = [](const std::set<int>& s) { return s.empty() ? 0 : *s.rbegin(); };
    int sm = upto(snames), tm = upto(tnames), cm = upto(cnames);
    for (int i = 0; i <= cm; ++i)
      exec({ "delC", "C" + std::to_string(i) });
    for (int i = 0; i <= sm; ++i)
      exec({ "clrS", "S" + std::to_string(i) });
    for (int i = 0; i <= sm; ++i)
      exec({ "delS", "S" + std::to_string(i) });
    for (int i = 0; i <= tm; ++i)
      exec({ "delT", "T" + std::to_string(i) });
    for (int i = 0; i <= sm; ++i)
      exec({ "delS", "S" + std::to_string(i) });
    quiet = false;
    long tot = 0;
    for (auto& kv : live)
      tot += kv.second;
    emit("0 final live=" + std::to_string(tot) + " slots=" + std::to_string(slots.size()));
    // what is left are self-owning cycles (and what they pin): unreachable by design, never freed
    for (auto& kv : slots)
      g_leaked.push_back(kv.second);
  }
};

F::F(int f) : fid(f)
{
  ++g->live[fid];
}
F::F(const F& o) : fid(o.fid)
{
  ++g->live[fid];
}
F::~F()
{
  --g->live[fid];
}

F2::F2(int fid, int t) : f(fid), target(t), owner(g)
{
  ++owner->pin[target];
  g_f2s.insert(this);
}
F2::F2(const F2& o) : f(o.f), target(o.target), owner(o.owner)
{
  ++owner->pin[target];
  g_f2s.insert(this);
}
F2::~F2()
{
  --owner->pin[target];
  g_f2s.erase(this);
}
int F2::operator()(int a, SI& s) const
{
  int fid = f.fid;
  logcall(fid, a);
  int r = 0;
  if (g->depth < MAXD)
  {
    ++g->depth;
    r = s(a);
    --g->depth;
  }
  return (fid * 10 + a + r) % 97;
}

int F3::operator()(int a, SI& s) const
{
  int fid = f.fid;
  logcall(fid, a);
  int r = 0;
  if (g->depth < MAXD)
  {
    ++g->depth;
    r = s(a);
    --g->depth;
  }
  return (fid * 10 + a + r) % 97;
}

CHolder::~CHolder()
{
  g->conns.erase(name);
  delete c;
}

Holder::~Holder()
{
  g->slots.erase(name);
  delete s;
}

OwnF::OwnF(int fid, std::shared_ptr<Holder> h_) : f(fid), h(std::move(h_))
{
  g_ownfs.insert(this);
}
OwnF::OwnF(const OwnF& o) : f(o.f), h(o.h)
{
  g_ownfs.insert(this);
}
OwnF::~OwnF()
{
  g_ownfs.erase(this);
}

void logcall(int fid, int arg)
{
  g->emit(std::to_string(g->depth) + " call f" + std::to_string(fid) + " " + std::to_string(arg));
}
int leaf(int fid, int arg)
{
  logcall(fid, arg);
  return (fid * 10 + arg) % 97;
}
} // namespace

int main()
{
  std::vector<std::pair<std::string, std::vector<std::string>>> progs;
  std::string l;
  bool any = false;
  progs.emplace_back("", std::vector<std::string>());
  while (std::getline(std::cin, l))
  {
    if (l.rfind("===", 0) == 0)
    {
      if (any || !progs.back().first.empty())
        progs.emplace_back("", std::vector<std::string>());
      progs.back().first = l;
      any = false;
      continue;
    }
    progs.back().second.push_back(l);
    any = true;
  }
  for (auto& p : progs)
  {
    if (p.first.empty() && p.second.empty())
      continue;
    if (!p.first.empty())
    {
      std::cout << p.first << "\n";
      std::cout.flush();
    }
    Interp* in = new Interp; // (never freed: leaked cycles may still name it; it stays reachable through g_interps)
    static std::vector<Interp*> g_interps;
    g_interps.push_back(in);
    g = in;
    in->run_program(p.second);
    std::cout << in->out;
    std::cout.flush();
  }
  return 0;
}
