// sweepl_harness.cc — interpreter of the "sweepl" operation language (docs/SWEEPL.md) over the REAL libsigc++
// (built from common.REPO's current working tree, ASan+UBSan+LSan).  Sibling of lean/Sigc/SweepL.lean, same trace
// format, byte for byte.
//
// stdin: one or more programs separated by `=== <id>` lines; stdout: for each program the header line (if any)
// followed by its trace, flushed program by program (so that after a sanitizer abort the failing program is the
// first one without a `final` line).
//
// One `sigc::signal<void(int)>` per program.  The harness keeps, per name K<n>, the `sigc::connection` returned by
// connect()/connect_first() and — for owner functors — a weak_ptr to the functor's Holder.  The only strong
// references to a Holder are the functor copies the library keeps in its slot list, so the Holder dies exactly
// when the library destroys the last copy (inside erase / sweep / clear / the destruction of the list), and its
// scoped_connections disconnect their slots of the same signal right there.
#include <sigc++/sigc++.h>

#include <cstdio>
#include <cstdlib>
#include <iostream>
#include <map>
#include <memory>
#include <set>
#include <string>
#include <vector>

namespace
{
using Sig = sigc::signal<void(int)>;
constexpr int MAXD = 3;
using Num = unsigned long;

struct Interp;
Interp* g = nullptr;

void invoke(Num fid, int a);
void count(Num fid, long d);

// plain recording functor; live copies are counted per fid
struct F
{
  Num fid;
  explicit F(Num f) : fid(f) { count(fid, +1); }
  F(const F& o) : fid(o.fid) { count(fid, +1); }
  F& operator=(const F&) = delete;
  ~F() { count(fid, -1); }
  void operator()(int a) const { invoke(fid, a); }
};

struct Holder
{
  std::vector<sigc::scoped_connection> conns;
  Holder() = default;
  Holder(const Holder&) = delete;
  ~Holder()
  {
    for (auto& c : conns)
      c.disconnect();
  }
};

// functor owning, through shared_ptr, the connections of other slots of the same signal
struct OwnerF
{
  F f;
  std::shared_ptr<Holder> h;
  void operator()(int a) const { invoke(f.fid, a); }
};

enum class K
{
  Conn,
  Own,
  Disc,
  Connected,
  Clear,
  Emit,
  Size,
  Live,
  Bad
};
enum class SK
{
  Fn,
  Empty,
  Own
};

struct Op
{
  K k = K::Bad;
  bool first = false;
  Num a = 0, b = 0; // names / fid / argument
  SK sk = SK::Fn;
  Num fid = 0;
  std::string text; // canonical text
};

std::vector<std::string> split(const std::string& line)
{
  // = Sigc.words: trim ASCII whitespace at both ends, split at ' ', drop empty words
  size_t b = 0, e = line.size();
  auto ws = [](char c) { return c == ' ' || c == '\t' || c == '\n' || c == '\r' || c == '\v' || c == '\f'; };
  while (b < e && ws(line[b]))
    ++b;
  while (e > b && ws(line[e - 1]))
    --e;
  std::vector<std::string> w;
  std::string cur;
  for (size_t i = b; i < e; ++i)
  {
    if (line[i] == ' ')
    {
      if (!cur.empty())
        w.push_back(cur);
      cur.clear();
    }
    else
      cur += line[i];
  }
  if (!cur.empty())
    w.push_back(cur);
  return w;
}

std::string join(const std::vector<std::string>& w)
{
  std::string s;
  for (size_t i = 0; i < w.size(); ++i)
    s += (i ? " " : "") + w[i];
  return s;
}

bool nat(const std::string& w, Num& n)
{
  // plain decimal numerals of at most 9 digits (docs/SWEEPL.md: the language has no others)
  if (w.empty() || w.size() > 9)
    return false;
  for (char ch : w)
    if (ch < '0' || ch > '9')
      return false;
  n = std::strtoul(w.c_str(), nullptr, 10);
  return true;
}

bool name(const std::string& w, Num& n)
{
  return w.size() >= 2 && w[0] == 'K' && nat(w.substr(1), n);
}

bool kind(const std::string& w, SK& sk, Num& fid)
{
  std::vector<std::string> p;
  std::string cur;
  for (char c : w)
  {
    if (c == ':')
    {
      p.push_back(cur);
      cur.clear();
    }
    else
      cur += c;
  }
  p.push_back(cur);
  if (p.size() == 2 && p[0] == "fn" && nat(p[1], fid))
  {
    sk = SK::Fn;
    return true;
  }
  if (p.size() == 2 && p[0] == "own" && nat(p[1], fid))
  {
    sk = SK::Own;
    return true;
  }
  if (p.size() == 1 && p[0] == "empty")
  {
    sk = SK::Empty;
    return true;
  }
  return false;
}

std::string kind_text(SK sk, Num fid)
{
  if (sk == SK::Empty)
    return "empty";
  return std::string(sk == SK::Fn ? "fn:" : "own:") + std::to_string(fid);
}

Op parse_op(const std::string& line) // `line` is normalised
{
  Op o;
  o.text = line;
  auto w = split(line);
  if (w.empty())
    return o;
  const std::string& c = w[0];
  if ((c == "conn" || c == "connf") && w.size() == 3 && name(w[1], o.a) && kind(w[2], o.sk, o.fid))
  {
    o.k = K::Conn;
    o.first = (c == "connf");
    o.text = c + " K" + std::to_string(o.a) + " " + kind_text(o.sk, o.fid);
  }
  else if (c == "own" && w.size() == 3 && name(w[1], o.a) && name(w[2], o.b))
  {
    o.k = K::Own;
    o.text = "own K" + std::to_string(o.a) + " K" + std::to_string(o.b);
  }
  else if (c == "disc" && w.size() == 2 && name(w[1], o.a))
  {
    o.k = K::Disc;
    o.text = "disc K" + std::to_string(o.a);
  }
  else if (c == "connected?" && w.size() == 2 && name(w[1], o.a))
  {
    o.k = K::Connected;
    o.text = "connected? K" + std::to_string(o.a);
  }
  else if (c == "clear" && w.size() == 1)
  {
    o.k = K::Clear;
    o.text = "clear";
  }
  else if (c == "emit" && w.size() == 2 && nat(w[1], o.a))
  {
    o.k = K::Emit;
    o.text = "emit " + std::to_string(o.a);
  }
  else if (c == "size?" && w.size() == 1)
  {
    o.k = K::Size;
    o.text = "size?";
  }
  else if (c == "live?" && w.size() == 2 && nat(w[1], o.a))
  {
    o.k = K::Live;
    o.text = "live? " + std::to_string(o.a);
  }
  return o;
}

struct Interp
{
  std::unique_ptr<Sig> sig{ new Sig };
  std::map<Num, std::vector<Op>> bodies; // never changed once the program runs
  std::map<Num, std::unique_ptr<sigc::connection>> conns;
  std::map<Num, std::weak_ptr<Holder>> holders;
  std::set<Num> owners;
  std::map<Num, long> live;
  int depth = 0;
  std::string out;

  void log(const std::string& s)
  {
    out += s;
    out += '\n';
  }

  std::string exec(const Op& o)
  {
    switch (o.k)
    {
      case K::Conn:
      {
        if (conns.count(o.a))
          return "exists";
        sigc::connection c;
        if (o.sk == SK::Fn)
          c = o.first ? sig->connect_first(F(o.fid)) : sig->connect(F(o.fid));
        else if (o.sk == SK::Empty)
          c = o.first ? sig->connect_first(sigc::slot<void(int)>()) : sig->connect(sigc::slot<void(int)>());
        else
        {
          auto h = std::make_shared<Holder>();
          holders[o.a] = h;
          owners.insert(o.a);
          c = o.first ? sig->connect_first(OwnerF{ F(o.fid), h }) : sig->connect(OwnerF{ F(o.fid), h });
          // h dies here: the list's copy of the functor is the only owner of the Holder
        }
        conns[o.a].reset(new sigc::connection(c));
        return "ok";
      }
      case K::Own:
      {
        if (!conns.count(o.a) || !conns.count(o.b))
          return "dead";
        if (o.a == o.b)
          return "self";
        if (!owners.count(o.a))
          return "notowner";
        auto h = holders[o.a].lock();
        if (!h)
          return "dead";
        h->conns.emplace_back(sigc::scoped_connection(*conns[o.b]));
        return "ok";
      }
      case K::Disc:
        if (!conns.count(o.a))
          return "dead";
        conns[o.a]->disconnect();
        return "ok";
      case K::Connected:
        if (!conns.count(o.a))
          return "dead";
        return conns[o.a]->connected() ? "1" : "0";
      case K::Clear:
        sig->clear();
        return "ok";
      case K::Emit:
        if (depth >= MAXD)
          return "toodeep";
        sig->emit(static_cast<int>(o.a));
        return "ok";
      case K::Size:
        return std::to_string(sig->size());
      case K::Live:
      {
        auto it = live.find(o.a);
        return std::to_string(it == live.end() ? 0 : it->second);
      }
      case K::Bad:
        break;
    }
    return "badop";
  }

  void step(const Op& o)
  {
    int d = depth;
    std::string r = exec(o);
    depth = d;
    log(std::to_string(d) + " " + o.text + " => " + r);
  }

  void run_program(const std::vector<std::string>& raw)
  {
    std::vector<Op> top;
    bool in_body = false;
    Num cur = 0;
    for (const auto& l0 : raw)
    {
      auto w = split(l0);
      if (w.empty())
        continue;
      std::string l = join(w);
      if (l[0] == '#')
        continue;
      Num f = 0;
      if (!in_body && w.size() == 2 && w[0] == "body")
      {
        if (nat(w[1], f))
        {
          in_body = true;
          cur = f;
        }
        else
          top.push_back(parse_op(l));
      }
      else if (in_body && w.size() == 1 && w[0] == "end")
        in_body = false;
      else if (in_body)
        bodies[cur].push_back(parse_op(l));
      else
        top.push_back(parse_op(l));
    }
    for (const auto& o : top)
    {
      depth = 0;
      step(o);
    }
    depth = 0;
    sig.reset(); // the destruction of the list
    long tot = 0;
    for (auto& kv : live)
      tot += kv.second;
    log("0 final live=" + std::to_string(tot));
  }
};

void count(Num fid, long d)
{
  g->live[fid] += d;
}

void invoke(Num fid, int a)
{
  // (everything needed is copied out of the functor first: fid by value, the body is program text)
  Interp* in = g;
  int d = in->depth + 1;
  in->log(std::to_string(d) + " call f" + std::to_string(fid) + " " + std::to_string(a));
  auto it = in->bodies.find(fid);
  if (it == in->bodies.end())
    return;
  const std::vector<Op>& body = it->second;
  int saved = in->depth;
  for (size_t i = 0; i < body.size(); ++i)
  {
    in->depth = d;
    in->step(body[i]);
  }
  in->depth = saved;
}
} // namespace

int main()
{
  std::vector<std::pair<std::string, std::vector<std::string>>> progs;
  std::string l;
  bool any = false;
  progs.emplace_back("", std::vector<std::string>());
  while (std::getline(std::cin, l))
  {
    if (l.rfind("===", 0) == 0)
    {
      if (any || !progs.back().first.empty())
        progs.emplace_back("", std::vector<std::string>());
      progs.back().first = l;
      any = false;
      continue;
    }
    progs.back().second.push_back(l);
    any = true;
  }
  for (auto& p : progs)
  {
    if (p.first.empty() && p.second.empty())
      continue;
    if (!p.first.empty())
    {
      std::cout << p.first << "\n";
      std::cout.flush();
    }
    Interp* in = new Interp; // all state (signal, connections, holders, live counters) is per program
    g = in;
    in->run_program(p.second);
    std::cout << in->out;
    std::cout.flush();
    delete in; // the harness's own connections die only now, after the `final` line
    g = nullptr;
  }
  return 0;
}
