"""Functor-expression generator for the C09 correspondence check.

A *case* is  `<Sig> ; <pool> ; <expr>`  e.g.  `V0 ; 1D 2V ; bind 0 2 LV ref d1 ref v2`

  Sig   : V0 void()  V1 void(int)  I0 int()  I1 int(int)   — signature of the slot made from the expression
  pool  : objects that exist while the case runs: `<id><class>` with class D (struct : sigc::trackable),
          V (trackable reached through a virtual base), U (not a trackable), s<k> (sigc::signal of signature k),
          t<k> (sigc::trackable_signal); ids are single digits 1..7
  expr  : prefix notation (the Lean driver reads the same text with the C++-only annotations stripped):
            L<r>            functor object accepting any arguments, returning r (V|I)
            F<r><n>         function pointer r(int × n)
            M<r><n> <obj>   mem_fun(obj, &T::m)                 S<r><n> <obj>  obj.make_slot()
            C<r><n> <obj>   signal_connect(sig, obj, &T::m)     (top level only)
            bind <pos|L> <k> <f> <barg × k>      barg: val | ref <obj> | cref <obj> | copy <obj>
            bret <f> <barg>   hide <pos|L> <f>   hret <f>   rt <f>   rtr <f>
            c1 <s> <g>   c2 <s> <g1> <g2>   ec <f> <c>   to <k> <f> <obj × k>   slot<r><n> <f>
          objects: d<id> v<id> u<id> (classes D V U), s<id> t<id> (signals)

Everything random comes from the Rng handed in (seeded by VERIF_SEED).
"""

SIGS = {"V0": ("V", 0), "V1": ("V", 1), "I0": ("I", 0), "I1": ("I", 1)}
SIG_CPP = {("V", 0): "void()", ("V", 1): "void(int)", ("I", 0): "int()", ("I", 1): "int(int)",
           ("V", 2): "void(int,int)", ("I", 2): "int(int,int)"}
SIG_K = {("V", 0): 0, ("V", 1): 1, ("I", 0): 2, ("I", 1): 3}
CLS_NAME = {"d": "vs::TD", "v": "vs::TV", "u": "vs::UT"}
UNARY = ("hide", "hret", "rt", "rtr")

# ----------------------------------------------------------------------------------------------
# parsing / printing
# ----------------------------------------------------------------------------------------------


def parse_expr(toks):
    """tokens -> (node, rest)"""
    if not toks:
        raise ValueError("unexpected end")
    t, r = toks[0], toks[1:]
    if t[0] == "L" and len(t) == 2:
        return ("L", t[1]), r
    if t[0] == "F" and len(t) == 3:
        return ("F", t[1], int(t[2])), r
    if t[0] in "MSC" and len(t) == 3 and t[1] in "VI":
        return (t[0], t[1], int(t[2]), r[0]), r[1:]
    if t == "bind":
        pos = None if r[0] == "L" else int(r[0])
        k = int(r[1])
        f, r = parse_expr(r[2:])
        bs = []
        for _ in range(k):
            b, r = parse_barg(r)
            bs.append(b)
        return ("bind", pos, f, tuple(bs)), r
    if t == "bret":
        f, r = parse_expr(r)
        b, r = parse_barg(r)
        return ("bret", f, b), r
    if t == "hide":
        pos = None if r[0] == "L" else int(r[0])
        f, r = parse_expr(r[1:])
        return ("hide", pos, f), r
    if t in ("hret", "rt", "rtr"):
        f, r = parse_expr(r)
        return (t, f), r
    if t == "c1":
        s, r = parse_expr(r)
        g, r = parse_expr(r)
        return ("c1", s, g), r
    if t == "c2":
        s, r = parse_expr(r)
        g1, r = parse_expr(r)
        g2, r = parse_expr(r)
        return ("c2", s, g1, g2), r
    if t == "ec":
        f, r = parse_expr(r)
        c, r = parse_expr(r)
        return ("ec", f, c), r
    if t == "to":
        k = int(r[0])
        f, r = parse_expr(r[1:])
        return ("to", f, tuple(r[:k])), r[k:]
    if t.startswith("slot") and len(t) == 6:
        f, r = parse_expr(r)
        return ("slot", t[4], int(t[5]), f), r
    raise ValueError("bad token " + t)


def parse_barg(r):
    if r[0] == "val":
        return ("val",), r[1:]
    if r[0] in ("ref", "cref", "copy"):
        return (r[0], r[1]), r[2:]
    raise ValueError("bad bound argument " + r[0])


def parse_case(text):
    sig, pool, expr = [x.strip() for x in text.split(";")]
    node, rest = parse_expr(expr.split())
    if rest:
        raise ValueError("trailing tokens")
    return sig, pool.split(), node


def show_barg(b):
    return b[0] if b[0] == "val" else b[0] + " " + b[1]


def show(n, lean=False):
    """case text of a node; lean=True strips the C++-only annotations"""
    k = n[0]
    if k == "L":
        return "leaf" if lean else "L" + n[1]
    if k == "F":
        return "leaf" if lean else "F%s%d" % (n[1], n[2])
    if k in ("M", "S", "C"):
        if lean:
            return {"M": "mf", "S": "ms", "C": "sc"}[k] + " " + lean_obj(n[3])
        return "%s%s%d %s" % (k, n[1], n[2], n[3])
    if k == "bind":
        return "bind %s %d %s%s" % ("L" if n[1] is None else n[1], len(n[3]), show(n[2], lean),
                                    "".join(" " + show_barg(lean_b(b) if lean else b) for b in n[3]))
    if k == "bret":
        return "bret %s %s" % (show(n[1], lean), show_barg(lean_b(n[2]) if lean else n[2]))
    if k == "hide":
        return "hide %s %s" % ("L" if n[1] is None else n[1], show(n[2], lean))
    if k in ("hret", "rt", "rtr"):
        return k + " " + show(n[1], lean)
    if k in ("c1", "c2", "ec"):
        return k + " " + " ".join(show(c, lean) for c in n[1:])
    if k == "to":
        return "to %d %s%s" % (len(n[2]), show(n[1], lean),
                               "".join(" " + (lean_obj(o) if lean else o) for o in n[2]))
    if k == "slot":
        return ("slot " if lean else "slot%s%d " % (n[1], n[2])) + show(n[3], lean)
    raise ValueError(k)


def lean_obj(o):
    """model kinds: d direct, v virtual base, u untracked; a sigc::signal is untracked, a trackable_signal direct"""
    return {"d": "d", "v": "v", "u": "u", "s": "u", "t": "d"}[o[0]] + o[1:]


def lean_b(b):
    return b if b[0] == "val" else (b[0], lean_obj(b[1]))


def case_text(sig, pool, node):
    return "%s ; %s ; %s" % (sig, " ".join(pool), show(node))


# ----------------------------------------------------------------------------------------------
# structure
# ----------------------------------------------------------------------------------------------


def children(n):
    k = n[0]
    if k in ("L", "F", "M", "S", "C"):
        return []
    if k == "bind":
        return [n[2]]
    if k == "bret":
        return [n[1]]
    if k == "hide":
        return [n[2]]
    if k in ("hret", "rt", "rtr"):
        return [n[1]]
    if k in ("c1", "c2", "ec"):
        return list(n[1:])
    if k == "to":
        return [n[1]]
    if k == "slot":
        return [n[3]]
    raise ValueError(k)


def with_children(n, cs):
    k = n[0]
    if k == "bind":
        return ("bind", n[1], cs[0], n[3])
    if k == "bret":
        return ("bret", cs[0], n[2])
    if k == "hide":
        return ("hide", n[1], cs[0])
    if k in ("hret", "rt", "rtr"):
        return (k, cs[0])
    if k in ("c1", "c2", "ec"):
        return (k,) + tuple(cs)
    if k == "to":
        return ("to", cs[0], n[2])
    if k == "slot":
        return ("slot", n[1], n[2], cs[0])
    return n


def depth(n):
    cs = children(n)
    return 0 if not cs else 1 + max(depth(c) for c in cs)


def kinds(n, acc=None):
    acc = acc if acc is not None else []
    acc.append(n[0] if n[0] != "bind" else ("bindL" if n[1] is None else "bindI"))
    for c in children(n):
        kinds(c, acc)
    return acc


def objects(n, acc=None):
    """every object occurrence as (how, obj): how in mf ms sc ref cref copy to"""
    acc = acc if acc is not None else []
    k = n[0]
    if k in ("M", "S", "C"):
        acc.append(({"M": "mf", "S": "ms", "C": "sc"}[k], n[3]))
    if k == "bind":
        for b in n[3]:
            if b[0] != "val":
                acc.append((b[0], b[1]))
    if k == "bret" and n[2][0] != "val":
        acc.append((n[2][0], n[2][1]))
    if k == "to":
        for o in n[2]:
            acc.append(("to", o))
    for c in children(n):
        objects(c, acc)
    return acc


def is_trackable_obj(o):
    return o[0] in "dvt"


def referenced(n):
    """statement side, computed from the text: ids of the trackables the expression refers to by reference"""
    return [int(o[1:]) for how, o in objects(n) if how != "copy" and is_trackable_obj(o)]


def ret_of(n):
    k = n[0]
    if k in ("L", "F", "M", "S", "C"):
        return n[1]
    if k == "bind":
        return ret_of(n[2])
    if k == "bret":
        return "I" if n[2][0] == "val" else "O"
    if k == "hide":
        return ret_of(n[2])
    if k == "hret":
        return "V"
    if k == "rt":
        return ret_of(n[1])
    if k == "rtr":
        return "I"
    if k in ("c1", "c2", "ec", "to"):
        return ret_of(n[1])
    if k == "slot":
        return n[1]
    raise ValueError(k)


def btype(b):
    return "i" if b[0] == "val" else "o"


def child_args(n, args):
    """argument types each child is called with when the node is called with `args`"""
    k = n[0]
    if k == "bind":
        bt = tuple(btype(b) for b in n[3])
        pos = len(args) if n[1] is None else n[1]
        return [tuple(args[:pos]) + bt + tuple(args[pos:])]
    if k == "hide":
        pos = len(args) - 1 if n[1] is None else n[1]
        return [tuple(args[:pos]) + tuple(args[pos + 1:])]
    if k in ("bret", "hret", "rt", "rtr", "to", "slot"):
        return [tuple(args)]
    if k == "c1":
        return [("i" if ret_of(n[2]) == "I" else "o",), tuple(args)]
    if k == "c2":
        return [tuple("i" if ret_of(g) == "I" else "o" for g in n[2:4]), tuple(args), tuple(args)]
    if k == "ec":
        return [tuple(args), ()]
    return []


def well_typed(n, ret, args, top=True):
    """can `n` be called with `args` (tuple of 'i' int / 'o' object reference) giving `ret`?"""
    k = n[0]
    ints = all(a == "i" for a in args)
    if ret_of(n) != ret:
        return False
    if k == "L":
        return ret in "VI"
    if k in ("F", "M"):
        return ints and n[2] == len(args) and len(args) <= 2
    if k == "S":
        return ints and n[2] == len(args) and len(args) <= 1
    if k == "C":
        return top and ints and n[2] == len(args) and len(args) <= 1 and n[3][0] in "dvu"
    cs = children(n)
    ca = child_args(n, args)
    if k == "bind":
        if n[1] is not None and n[1] > len(args):
            return False
        if not n[3]:
            return False
        return well_typed(cs[0], ret, ca[0], False)
    if k == "bret":
        r0 = ret_of(cs[0])
        return r0 in "VI" and well_typed(cs[0], r0, ca[0], False)
    if k == "hide":
        if not args or (n[1] is not None and n[1] >= len(args)):
            return False
        return well_typed(cs[0], ret, ca[0], False)
    if k == "hret":
        return well_typed(cs[0], ret_of(cs[0]), ca[0], False)
    if k == "rt":
        return ints and ret in "VI" and cs[0][0] in ("F", "M", "S", "slot") and well_typed(cs[0], ret, ca[0], False)
    if k == "rtr":
        return ret_of(cs[0]) == "I" and well_typed(cs[0], "I", ca[0], False)
    if k == "c1":
        rg = ret_of(cs[1])
        return rg in "IO" and well_typed(cs[1], rg, ca[1], False) and well_typed(cs[0], ret, ca[0], False)
    if k == "c2":
        for g, a in ((cs[1], ca[1]), (cs[2], ca[2])):
            if ret_of(g) not in "IO" or not well_typed(g, ret_of(g), a, False):
                return False
        return well_typed(cs[0], ret, ca[0], False)
    if k == "ec":
        return ret in "VI" and well_typed(cs[0], ret, ca[0], False) and well_typed(cs[1], ret, ca[1], False)
    if k == "to":
        return len(n[2]) >= 1 and well_typed(cs[0], ret, ca[0], False)
    if k == "slot":
        return ints and len(args) <= 1 and n[2] == len(args) and ret in "VI" and well_typed(cs[0], ret, ca[0], False)
    return False


def case_ok(sig, pool, node):
    ret, n = SIGS[sig]
    if not well_typed(node, ret, ("i",) * n):
        return False
    have = {}
    for p in pool:
        have[p[0]] = p[1:]
    for how, o in objects(node):
        cls = have.get(o[1:])
        if cls is None:
            return False
        if o[0] in "dvu" and cls != o[0].upper():
            return False
        if o[0] in "st" and cls[0] != o[0]:
            return False
    # signal signatures
    def chk(n):
        if n[0] == "S":
            if have[n[3][1:]][1:] != str(SIG_K[(n[1], n[2])]):
                return False
        return all(chk(c) for c in children(n))
    return chk(node)


# ----------------------------------------------------------------------------------------------
# C++ rendering
# ----------------------------------------------------------------------------------------------


def cpp_obj(o):
    return "p.%s(%s)" % (o[0], o[1:])


def cpp_barg(b):
    if b[0] == "val":
        return "5"
    if b[0] == "ref":
        return "std::ref(%s)" % cpp_obj(b[1])
    if b[0] == "cref":
        return "std::cref(%s)" % cpp_obj(b[1])
    return cpp_obj(b[1])  # by value


def cpp(n):
    k = n[0]
    if k == "L":
        return "vs::Leaf%s()" % n[1]
    if k == "F":
        return "&vs::f%s%d" % (n[1], n[2])
    if k == "M":
        # directly-trackable objects bind a method inherited from a non-trackable base (b*), the others their own (m*)
        # … and cycle through the four cv-qualified overloads of mem_fun (by arity and result kind)
        pre = "m"
        if n[3][0] == "d":
            pre = ("b", "bc", "bv", "bw")[(n[2] + (1 if n[1] == "I" else 0) + int(n[3][1:] or 0)) % 4]
        return "sigc::mem_fun(%s, &%s::%s%s%d)" % (cpp_obj(n[3]), CLS_NAME[n[3][0]], pre, n[1], n[2])
    if k == "S":
        return "p.%s<%s>(%s).make_slot()" % (n[3][0], SIG_CPP[(n[1], n[2])], n[3][1:])
    if k == "bind":
        loc = "" if n[1] is None else "<%d>" % n[1]
        return "sigc::bind%s(%s, %s)" % (loc, cpp(n[2]), ", ".join(cpp_barg(b) for b in n[3]))
    if k == "bret":
        return "sigc::bind_return(%s, %s)" % (cpp(n[1]), cpp_barg(n[2]))
    if k == "hide":
        loc = "" if n[1] is None else "<%d>" % n[1]
        return "sigc::hide%s(%s)" % (loc, cpp(n[2]))
    if k == "hret":
        return "sigc::hide_return(%s)" % cpp(n[1])
    if k == "rt":
        c = n[1]
        inner = "sigc::ptr_fun(%s)" % cpp(c) if c[0] == "F" else cpp(c)
        return "sigc::retype(%s)" % inner
    if k == "rtr":
        return "sigc::retype_return<int>(%s)" % cpp(n[1])
    if k in ("c1", "c2"):
        return "sigc::compose(%s)" % ", ".join(cpp(c) for c in n[1:])
    if k == "ec":
        return "sigc::exception_catch(%s, %s)" % (cpp(n[1]), cpp(n[2]))
    if k == "to":
        fn = "sigc::track_object" if all(is_trackable_obj(o) for o in n[2]) else "sigc::track_obj"
        return "%s(%s, %s)" % (fn, cpp(n[1]), ", ".join(cpp_obj(o) for o in n[2]))
    if k == "slot":
        return "sigc::slot<%s>(%s)" % (SIG_CPP[(n[1], n[2])], cpp(n[3]))
    raise ValueError(k)


def victims_of(pool, node):
    refd = set(referenced(node))
    return [(int(p[0]), int(p[0]) in refd) for p in pool if p[1] in "DVt"]


def cpp_case(cid, sig, pool, node):
    ret, n = SIGS[sig]
    spec = " ".join(pool)
    vs_ = ", ".join("{%d,%s}" % (i, "true" if r else "false") for i, r in victims_of(pool, node))
    sigcpp = SIG_CPP[(ret, n)]
    if node[0] == "C":
        body = ("vs::case_body_connect<%s>(%d, \"%s\", {%s}, [](sigc::signal<%s>& sg, vs::Pool& p) "
                "{ static int turn = 0; "      # the const-method and the non-const-method overload take turns
                "return (turn++ %% 2 == 0) ? sigc::signal_connect(sg, %s, &%s::k%s%d) : sigc::signal_connect(sg, %s, &%s::m%s%d); });"
                % (sigcpp, cid, spec, vs_, sigcpp, cpp_obj(node[3]), CLS_NAME[node[3][0]], node[1], node[2],
                   cpp_obj(node[3]), CLS_NAME[node[3][0]], node[1], node[2]))
    else:
        body = ("vs::case_body<%s>(%d, \"%s\", {%s}, [](vs::Pool& p) { return %s; });"
                % (sigcpp, cid, spec, vs_, cpp(node)))
    return "static void case_%d() { %s }\n" % (cid, body)


def cpp_tu(cases):
    """cases: list of (cid, sig, pool, node)"""
    out = ["#include \"visit_support.h\"\n"]
    for c in cases:
        out.append(cpp_case(*c))
    out.append("int main() {\n")
    for c in cases:
        out.append("  vs::forked(%d, &case_%d);\n" % (c[0], c[0]))
    out.append("  return 0;\n}\n")
    return "".join(out)


# ----------------------------------------------------------------------------------------------
# random generation
# ----------------------------------------------------------------------------------------------


class Env:
    """object pool under construction"""

    def __init__(self, rng, ntrk, with_untracked, vbase_p=0.4):
        self.rng = rng
        self.pool = []      # "<id><cls>"
        self.objs = []      # obj tokens d1 v2 u3 of the D/V/U objects
        nid = 1
        for _ in range(ntrk):
            c = "V" if rng.chance(vbase_p) else "D"
            self.pool.append("%d%s" % (nid, c))
            self.objs.append(c.lower() + str(nid))
            nid += 1
        if with_untracked:
            self.pool.append("%dU" % nid)
            self.objs.append("u%d" % nid)
            nid += 1
        self.nid = nid
        self.signals = {}

    def trackables(self):
        return [o for o in self.objs if o[0] != "u"]

    def any_obj(self, trackable_bias=0.85):
        t = self.trackables()
        if t and (self.rng.chance(trackable_bias) or len(t) == len(self.objs)):
            return self.rng.choice(t)
        return self.rng.choice(self.objs)

    def signal(self, ret, n):
        """a signal object of that signature (at most two signal objects per case)"""
        key = (ret, n)
        if key in self.signals and self.rng.chance(0.5):
            return self.signals[key]
        if self.nid > 7 or len(self.signals) >= 2:
            return self.signals.get(key)
        cls = "t" if self.rng.chance(0.6) else "s"
        o = "%s%d" % (cls, self.nid)
        self.pool.append("%d%s%d" % (self.nid, cls, SIG_K[key]))
        self.nid += 1
        self.signals[key] = o
        return o


def gen_barg(env, force_obj=False):
    rng = env.rng
    k = rng.weighted([("val", 0 if force_obj else 3), ("ref", 5), ("cref", 3), ("copy", 2)])
    if k == "val":
        return ("val",)
    return (k, env.any_obj())


def gen_leaf(env, ret, args):
    rng = env.rng
    if ret == "O":
        return None
    ints = all(a == "i" for a in args)
    opts = [("L", 2)]
    if ints and len(args) <= 2:
        opts += [("F", 1), ("M", 6)]
    if ints and len(args) <= 1:
        opts += [("S", 2)]
    k = rng.weighted(opts)
    if k == "L":
        return ("L", ret)
    if k == "F":
        return ("F", ret, len(args))
    if k == "M":
        return ("M", ret, len(args), env.any_obj())
    o = env.signal(ret, len(args))
    if o is None:
        return ("M", ret, len(args), env.any_obj())
    return ("S", ret, len(args), o)


ADAPTORS = [("bindI", 6), ("bindL", 5), ("bret", 4), ("hide", 3), ("hret", 3), ("rt", 2), ("rtr", 2),
            ("c1", 4), ("c2", 4), ("ec", 4), ("to", 4), ("slot", 5)]


def gen(env, ret, args, d, exact=True):
    """an expression of that type with depth d (exactly, if `exact`, else at most d); None if impossible"""
    rng = env.rng
    args = tuple(args)
    if d == 0:
        return gen_leaf(env, ret, args)
    ints = all(a == "i" for a in args)
    order = []
    pairs = list(ADAPTORS)
    while pairs:
        k = rng.weighted(pairs)
        order.append(k)
        pairs = [p for p in pairs if p[0] != k]

    def sub(r, a, deep):
        dd = d - 1 if (deep and exact) else rng.below(d)
        return gen(env, r, a, dd, exact)

    for k in order:
        n = None
        if k in ("bindI", "bindL") and len(args) <= 3:
            nb = rng.weighted([(1, 4), (2, 5), (3, 2)])
            bs = tuple(gen_barg(env) for _ in range(nb))
            if all(b[0] == "val" for b in bs) and rng.chance(0.7):
                bs = bs[:-1] + (gen_barg(env, True),)
            pos = None if k == "bindL" else rng.below(len(args) + 1)
            p = len(args) if pos is None else pos
            f = sub(ret, args[:p] + tuple(btype(b) for b in bs) + args[p:], True)
            if f is not None:
                n = ("bind", pos, f, bs)
        elif k == "bret" and ret in "IO":
            b = ("val",) if ret == "I" else gen_barg(env, True)
            f = sub(rng.choice(["V", "I"]), args, True)
            if f is not None:
                n = ("bret", f, b)
        elif k == "hide" and args:
            pos = None if rng.chance(0.5) else rng.below(len(args))
            p = len(args) - 1 if pos is None else pos
            f = sub(ret, args[:p] + args[p + 1:], True)
            if f is not None:
                n = ("hide", pos, f)
        elif k == "hret" and ret == "V":
            f = sub(rng.weighted([("V", 2), ("I", 3), ("O", 2)]), args, True)
            if f is not None:
                n = ("hret", f)
        elif k == "rt" and ints and ret in "VI" and len(args) <= 2:
            if d == 1:
                c = rng.weighted([("F", 1), ("M", 4), ("S", 2 if len(args) <= 1 else 0)])
                f = None
                if c == "F":
                    f = ("F", ret, len(args))
                elif c == "M":
                    f = ("M", ret, len(args), env.any_obj())
                else:
                    o = env.signal(ret, len(args))
                    f = ("S", ret, len(args), o) if o else ("M", ret, len(args), env.any_obj())
            elif len(args) <= 1:
                g = gen(env, ret, args, d - 2 if exact else rng.below(d - 1), exact)
                f = ("slot", ret, len(args), g) if g is not None else None
            else:
                f = None
            if f is not None:
                n = ("rt", f)
        elif k == "rtr" and ret == "I":
            f = sub("I", args, True)
            if f is not None:
                n = ("rtr", f)
        elif k == "c1":
            deep_setter = rng.chance(0.4)
            g = sub(rng.weighted([("I", 3), ("O", 2)]), args, not deep_setter)
            if g is not None:
                s = sub(ret, ("i" if ret_of(g) == "I" else "o",), deep_setter)
                if s is not None:
                    n = ("c1", s, g)
        elif k == "c2":
            which = rng.below(3)
            g1 = sub(rng.weighted([("I", 3), ("O", 2)]), args, which == 1)
            g2 = sub(rng.weighted([("I", 3), ("O", 2)]), args, which == 2) if g1 is not None else None
            if g1 is not None and g2 is not None:
                s = sub(ret, tuple("i" if ret_of(g) == "I" else "o" for g in (g1, g2)), which == 0)
                if s is not None:
                    n = ("c2", s, g1, g2)
        elif k == "ec" and ret in "VI":
            deep_c = rng.chance(0.4)
            f = sub(ret, args, not deep_c)
            c = sub(ret, (), deep_c) if f is not None else None
            if f is not None and c is not None:
                n = ("ec", f, c)
        elif k == "to":
            f = sub(ret, args, True)
            if f is not None:
                ts = tuple(env.any_obj(0.9) for _ in range(rng.weighted([(1, 3), (2, 2)])))
                n = ("to", f, ts)
        elif k == "slot" and ints and len(args) <= 1 and ret in "VI":
            f = sub(ret, args, True)
            if f is not None:
                n = ("slot", ret, len(args), f)
        if n is not None:
            return n
    return None


def random_case(rng, max_depth=3):
    """(sig, pool, node)"""
    for _ in range(50):
        ntrk = rng.weighted([(1, 2), (2, 5), (3, 4)])
        env = Env(rng, ntrk, rng.chance(0.25))
        sig = rng.weighted([("V0", 4), ("I0", 2), ("V1", 3), ("I1", 2)])
        ret, n = SIGS[sig]
        d = rng.weighted([(0, 1), (1, 4), (2, 6), (3, 6)])
        d = min(d, max_depth)
        if d == 0 and rng.chance(0.3) and n <= 1:
            node = ("C", ret, n, env.any_obj())
        else:
            node = gen(env, ret, ("i",) * n, d)
        if node is None:
            continue
        if not referenced(node) and rng.chance(0.9):
            continue
        if not case_ok(sig, env.pool, node):
            raise AssertionError("generator produced an ill-typed case: " + case_text(sig, env.pool, node))
        return sig, list(env.pool), node
    raise AssertionError("could not generate a case")


# ----------------------------------------------------------------------------------------------
# enumeration (thorough tier)
# ----------------------------------------------------------------------------------------------


def skeleton_wrappers():
    """one-hole contexts: every adaptor kind with canonical parameters; holes for objects are h0,h1,…
    Each wrapper: (name, needs(ret,args)->bool, build(inner_gen)->node or None) expressed as a function
    (ret, args, mk_inner, holes) -> node | None where mk_inner(ret, args) builds the deep child."""
    W = []

    def bind_w(pos, bargs):
        def w(ret, args, inner, H):
            if pos is not None and pos > len(args):
                return None
            bs = tuple(("val",) if b == "val" else (b, H()) for b in bargs)
            p = len(args) if pos is None else pos
            f = inner(ret, args[:p] + tuple(btype(b) for b in bs) + args[p:])
            return None if f is None else ("bind", pos, f, bs)
        return w

    W.append(("bindL-ref", bind_w(None, ("ref",))))
    W.append(("bindL-val-ref-cref", bind_w(None, ("val", "ref", "cref"))))
    W.append(("bind0-ref-ref", bind_w(0, ("ref", "ref"))))
    W.append(("bind0-val-ref", bind_w(0, ("val", "ref"))))
    W.append(("bind1-copy-ref-ref", bind_w(1, ("copy", "ref", "ref"))))
    W.append(("bind0-cref", bind_w(0, ("cref",))))

    def bret_w(kind):
        def w(ret, args, inner, H):
            if (kind == "val") != (ret == "I") or ret == "V":
                return None
            f = inner("V", args)
            return None if f is None else ("bret", f, ("val",) if kind == "val" else (kind, H()))
        return w

    W.append(("bret-val", bret_w("val")))
    W.append(("bret-ref", bret_w("ref")))
    W.append(("bret-cref", bret_w("cref")))

    def hide_w(pos):
        def w(ret, args, inner, H):
            if not args or (pos is not None and pos >= len(args)):
                return None
            p = len(args) - 1 if pos is None else pos
            f = inner(ret, args[:p] + args[p + 1:])
            return None if f is None else ("hide", pos, f)
        return w

    W.append(("hideL", hide_w(None)))
    W.append(("hide0", hide_w(0)))

    def hret_w(r0):
        def w(ret, args, inner, H):
            if ret != "V":
                return None
            f = inner(r0, args)
            return None if f is None else ("hret", f)
        return w

    W.append(("hret-I", hret_w("I")))
    W.append(("hret-O", hret_w("O")))

    def rtr_w(ret, args, inner, H):
        if ret != "I":
            return None
        f = inner("I", args)
        return None if f is None else ("rtr", f)

    W.append(("rtr", rtr_w))

    def rt_slot_w(ret, args, inner, H):
        if ret not in "VI" or not all(a == "i" for a in args) or len(args) > 1:
            return None
        f = inner(ret, args)
        return None if f is None else ("rt", ("slot", ret, len(args), f))

    W.append(("rt-slot", rt_slot_w))

    def c1_w(deep_setter, gret):
        def w(ret, args, inner, H):
            if deep_setter:
                g = ("bret", ("L", "V"), ("val",) if gret == "I" else ("ref", H()))
                s = inner(ret, ("i" if gret == "I" else "o",))
            else:
                g = inner(gret, args)
                s = ("L", ret) if ret in "VI" else None
            return None if (s is None or g is None) else ("c1", s, g)
        return w

    W.append(("c1-deep-setter", c1_w(True, "O")))
    W.append(("c1-deep-getter-I", c1_w(False, "I")))
    W.append(("c1-deep-getter-O", c1_w(False, "O")))

    def c2_w(which):
        def w(ret, args, inner, H):
            if ret not in "VI":
                return None
            lg = lambda: ("M", "I", len(args), H()) if all(a == "i" for a in args) and len(args) <= 2 else ("L", "I")
            if which == 0:
                g1, g2 = lg(), lg()
                s = inner(ret, ("i", "i"))
            elif which == 1:
                g1 = inner("I", args)
                g2 = lg()
                s = ("L", ret)
            else:
                g1 = lg()
                g2 = inner("I", args)
                s = ("L", ret)
            return None if None in (s, g1, g2) else ("c2", s, g1, g2)
        return w

    W.append(("c2-deep-setter", c2_w(0)))
    W.append(("c2-deep-get1", c2_w(1)))
    W.append(("c2-deep-get2", c2_w(2)))

    def ec_w(deep_c):
        def w(ret, args, inner, H):
            if ret not in "VI":
                return None
            if deep_c:
                f = ("L", ret)
                c = inner(ret, ())
            else:
                f = inner(ret, args)
                c = ("M", ret, 0, H())
            return None if None in (f, c) else ("ec", f, c)
        return w

    W.append(("ec-deep-f", ec_w(False)))
    W.append(("ec-deep-catcher", ec_w(True)))

    def to_w(k):
        def w(ret, args, inner, H):
            f = inner(ret, args)
            return None if f is None else ("to", f, tuple(H() for _ in range(k)))
        return w

    W.append(("to1", to_w(1)))
    W.append(("to2", to_w(2)))

    def slot_w(ret, args, inner, H):
        if ret not in "VI" or not all(a == "i" for a in args) or len(args) > 1:
            return None
        f = inner(ret, args)
        return None if f is None else ("slot", ret, len(args), f)

    W.append(("slot", slot_w))
    return W


def skeleton_leaves(ret, args, H):
    """depth-0 skeletons of that type"""
    out = []
    ints = all(a == "i" for a in args)
    if ret in "VI":
        if ints and len(args) <= 2:
            out.append(("M", ret, len(args), H()))
        else:
            out.append(("L", ret))
    return out


def enumerate_skeletons(max_depth, sigs=("V0", "I1")):
    """all chains wrapper_1(wrapper_2(…(leaf))) of depth ≤ max_depth that type-check; objects are holes h<i>.
    Returns list of (sig, node, names)."""
    W = skeleton_wrappers()
    res = []

    def build(ret, args, chain, counter):
        def H():
            counter[0] += 1
            return "h%d" % (counter[0] - 1)
        if not chain:
            ls = skeleton_leaves(ret, args, H)
            return ls[0] if ls else None
        name, w = chain[0]
        return w(ret, tuple(args), lambda r, a: build(r, a, chain[1:], counter), H)

    def chains(d):
        if d == 0:
            yield []
            return
        for c in chains(d - 1):
            for w in W:
                yield [w] + c

    for sig in sigs:
        ret, n = SIGS[sig]
        for d in range(0, max_depth + 1):
            for ch in chains(d):
                node = build(ret, ("i",) * n, ch, [0])
                if node is None:
                    continue
                if depth(node) < d:
                    continue
                res.append((sig, node, [c[0] for c in ch]))
    return res


def holes_of(node):
    return sorted({o for _, o in objects(node) if o[0] == "h"}, key=lambda h: int(h[1:]))


def substitute(node, m):
    """replace hole objects by real ones"""
    def so(o):
        return m.get(o, o)
    k = node[0]
    if k in ("M", "S", "C"):
        return (k, node[1], node[2], so(node[3]))
    if k == "bind":
        return ("bind", node[1], substitute(node[2], m),
                tuple(b if b[0] == "val" else (b[0], so(b[1])) for b in node[3]))
    if k == "bret":
        b = node[2]
        return ("bret", substitute(node[1], m), b if b[0] == "val" else (b[0], so(b[1])))
    if k == "to":
        return ("to", substitute(node[1], m), tuple(so(o) for o in node[2]))
    cs = [substitute(c, m) for c in children(node)]
    return with_children(node, cs) if cs else node


def partitions(k, max_blocks=3):
    """restricted growth strings of length k with at most max_blocks blocks (assignments up to renaming)"""
    res = []

    def rec(pre, mx):
        if len(pre) == k:
            res.append(tuple(pre))
            return
        for b in range(min(mx + 1, max_blocks - 1) + 1):
            rec(pre + [b], max(mx, b))
    if k == 0:
        return [()]
    rec([0], 0)
    return res


def assign(node, part, kinds, extra_unused):
    """holes -> objects according to a partition; kinds[b] in 'dv' is the class of block b; one more
    trackable that the expression does not mention is added when extra_unused"""
    hs = holes_of(node)
    m = {}
    pool = {}
    for h, b in zip(hs, part):
        oid = b + 1
        m[h] = kinds[b] + str(oid)
        pool[oid] = kinds[b].upper()
    nid = (max(pool) if pool else 0) + 1
    if extra_unused:
        pool[nid] = "D"
    return substitute(node, m), ["%d%s" % (i, pool[i]) for i in sorted(pool)]
