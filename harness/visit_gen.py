"""Functor-expression generator for the C09 correspondence check.

A *case* is  `<Sig> ; <pool> ; <expr>`  e.g.  `V0 ; 1D 2V ; bind 0 2 LV ref d1 ref v2`

  Sig   : V0 void()  V1 void(int)  I0 int()  I1 int(int)   — signature of the slot made from the expression
  pool  : objects that exist while the case runs: `<id><class>` with class D (struct : sigc::trackable),
          V (trackable reached through a virtual base), U (not a trackable), s<k> (sigc::signal of signature k),
          t<k> (sigc::trackable_signal); ids are single digits 1..7
  expr  : prefix notation (the Lean driver reads the same text with the C++-only annotations stripped):
            L<r>            functor object accepting any arguments, returning r (V|I)
            F<r><n>         function pointer r(int × n)
            G<r><q><m>      function pointer r(sigc::slot<q(int × m)>)       — takes a functor bound by value
            H<r><q><m>      function pointer r(int, sigc::slot<q(int × m)>)    (like run_then(int, continuation))
            M<r><n> <obj>   mem_fun(obj, &T::m)                 S<r><n> <obj>  obj.make_slot()
            C<r><n> <obj>   signal_connect(sig, obj, &T::m)     (top level only)
            bind <pos|L> <k> <f> <barg × k>      barg: val | ref <obj> | cref <obj> | copy <obj> | xref <obj> | xcref <obj>
                                                       | fun<r><n> <expr>
                                                 (fun: the functor expression <expr>, of signature r(int × n), bound BY VALUE;
                                                  xref / xcref: the object bound with an explicitly spelled reference type,
                                                  `sigc::bind<I, F, …, T&, …>(f, …, obj, …)` / `sigc::bind_return<const T&>(f, obj)`:
                                                  bound_argument<T&> keeps a reference to obj itself — referred to by reference)
            bret <f> <barg>   hide <pos|L> <f>   hret <f>   rt <f>   rtr <f>
            c1 <s> <g>   c2 <s> <g1> <g2>   ec <f> <c>   to <k> <f> <obj × k>   slot<r><n> <f>
          objects: d<id> v<id> u<id> (classes D V U), s<id> t<id> (signals)

Everything random comes from the Rng handed in (seeded by VERIF_SEED).
"""

SIGS = {"V0": ("V", 0), "V1": ("V", 1), "I0": ("I", 0), "I1": ("I", 1)}
SIG_CPP = {("V", 0): "void()", ("V", 1): "void(int)", ("I", 0): "int()", ("I", 1): "int(int)",
           ("V", 2): "void(int,int)", ("I", 2): "int(int,int)"}
SIG_K = {("V", 0): 0, ("V", 1): 1, ("I", 0): 2, ("I", 1): 3}
CLS_NAME = {"d": "vs::TD", "v": "vs::TV", "u": "vs::UT"}
UNARY = ("hide", "hret", "rt", "rtr")
XREF = ("xref", "xcref")     # bound with an explicitly spelled reference type (T& / const T&)

# ----------------------------------------------------------------------------------------------
# parsing / printing
# ----------------------------------------------------------------------------------------------


def parse_expr(toks):
    """tokens -> (node, rest)"""
    if not toks:
        raise ValueError("unexpected end")
    t, r = toks[0], toks[1:]
    if t[0] == "L" and len(t) == 2:
        return ("L", t[1]), r
    if t[0] == "F" and len(t) == 3:
        return ("F", t[1], int(t[2])), r
    if t[0] in "GH" and len(t) == 4 and t[1] in "VI" and t[2] in "VI":
        return (t[0], t[1], t[2], int(t[3])), r
    if t[0] in "MSC" and len(t) == 3 and t[1] in "VI":
        return (t[0], t[1], int(t[2]), r[0]), r[1:]
    if t == "bind":
        pos = None if r[0] == "L" else int(r[0])
        k = int(r[1])
        f, r = parse_expr(r[2:])
        bs = []
        for _ in range(k):
            b, r = parse_barg(r)
            bs.append(b)
        return ("bind", pos, f, tuple(bs)), r
    if t == "bret":
        f, r = parse_expr(r)
        b, r = parse_barg(r)
        return ("bret", f, b), r
    if t == "hide":
        pos = None if r[0] == "L" else int(r[0])
        f, r = parse_expr(r[1:])
        return ("hide", pos, f), r
    if t in ("hret", "rt", "rtr"):
        f, r = parse_expr(r)
        return (t, f), r
    if t == "c1":
        s, r = parse_expr(r)
        g, r = parse_expr(r)
        return ("c1", s, g), r
    if t == "c2":
        s, r = parse_expr(r)
        g1, r = parse_expr(r)
        g2, r = parse_expr(r)
        return ("c2", s, g1, g2), r
    if t == "ec":
        f, r = parse_expr(r)
        c, r = parse_expr(r)
        return ("ec", f, c), r
    if t == "to":
        k = int(r[0])
        f, r = parse_expr(r[1:])
        return ("to", f, tuple(r[:k])), r[k:]
    if t.startswith("slot") and len(t) == 6:
        f, r = parse_expr(r)
        return ("slot", t[4], int(t[5]), f), r
    raise ValueError("bad token " + t)


def parse_barg(r):
    if r[0] == "val":
        return ("val",), r[1:]
    if r[0] in ("ref", "cref", "copy", "xref", "xcref"):
        return (r[0], r[1]), r[2:]
    if r[0].startswith("fun") and len(r[0]) == 5 and r[0][3] in "VI" and r[0][4].isdigit():
        e, rest = parse_expr(r[1:])
        return ("fun", r[0][3], int(r[0][4]), e), rest
    raise ValueError("bad bound argument " + r[0])


def parse_case(text):
    sig, pool, expr = [x.strip() for x in text.split(";")]
    node, rest = parse_expr(expr.split())
    if rest:
        raise ValueError("trailing tokens")
    return sig, pool.split(), node


def show_barg(b, lean=False):
    if b[0] == "val":
        return "val"
    if b[0] == "fun":
        return ("fun " if lean else "fun%s%d " % (b[1], b[2])) + show(b[3], lean)
    return b[0] + " " + (lean_obj(b[1]) if lean else b[1])


def show(n, lean=False):
    """case text of a node; lean=True strips the C++-only annotations"""
    k = n[0]
    if k == "L":
        return "leaf" if lean else "L" + n[1]
    if k == "F":
        return "leaf" if lean else "F%s%d" % (n[1], n[2])
    if k in ("G", "H"):
        return "leaf" if lean else "%s%s%s%d" % (k, n[1], n[2], n[3])
    if k in ("M", "S", "C"):
        if lean:
            return {"M": "mf", "S": "ms", "C": "sc"}[k] + " " + lean_obj(n[3])
        return "%s%s%d %s" % (k, n[1], n[2], n[3])
    if k == "bind":
        return "bind %s %d %s%s" % ("L" if n[1] is None else n[1], len(n[3]), show(n[2], lean),
                                    "".join(" " + show_barg(b, lean) for b in n[3]))
    if k == "bret":
        return "bret %s %s" % (show(n[1], lean), show_barg(n[2], lean))
    if k == "hide":
        return "hide %s %s" % ("L" if n[1] is None else n[1], show(n[2], lean))
    if k in ("hret", "rt", "rtr"):
        return k + " " + show(n[1], lean)
    if k in ("c1", "c2", "ec"):
        return k + " " + " ".join(show(c, lean) for c in n[1:])
    if k == "to":
        return "to %d %s%s" % (len(n[2]), show(n[1], lean),
                               "".join(" " + (lean_obj(o) if lean else o) for o in n[2]))
    if k == "slot":
        return ("slot " if lean else "slot%s%d " % (n[1], n[2])) + show(n[3], lean)
    raise ValueError(k)


def lean_obj(o):
    """model kinds: d direct, v virtual base, u untracked; a sigc::signal is untracked, a trackable_signal direct"""
    return {"d": "d", "v": "v", "u": "u", "s": "u", "t": "d"}[o[0]] + o[1:]


def case_text(sig, pool, node):
    return "%s ; %s ; %s" % (sig, " ".join(pool), show(node))


# ----------------------------------------------------------------------------------------------
# structure
# ----------------------------------------------------------------------------------------------


def children(n):
    """sub-expressions: the adapted functor(s) first, then the functor expressions bound by value"""
    k = n[0]
    if k in ("L", "F", "G", "H", "M", "S", "C"):
        return []
    if k == "bind":
        return [n[2]] + [b[3] for b in n[3] if b[0] == "fun"]
    if k == "bret":
        return [n[1]] + ([n[2][3]] if n[2][0] == "fun" else [])
    if k == "hide":
        return [n[2]]
    if k in ("hret", "rt", "rtr"):
        return [n[1]]
    if k in ("c1", "c2", "ec"):
        return list(n[1:])
    if k == "to":
        return [n[1]]
    if k == "slot":
        return [n[3]]
    raise ValueError(k)


def _refill(bs, cs):
    """bound arguments with their functor expressions replaced, in order, by cs"""
    cs = list(cs)
    return tuple(("fun", b[1], b[2], cs.pop(0)) if b[0] == "fun" else b for b in bs)


def with_children(n, cs):
    k = n[0]
    if k == "bind":
        return ("bind", n[1], cs[0], _refill(n[3], cs[1:]))
    if k == "bret":
        return ("bret", cs[0], _refill((n[2],), cs[1:])[0])
    if k == "hide":
        return ("hide", n[1], cs[0])
    if k in ("hret", "rt", "rtr"):
        return (k, cs[0])
    if k in ("c1", "c2", "ec"):
        return (k,) + tuple(cs)
    if k == "to":
        return ("to", cs[0], n[2])
    if k == "slot":
        return ("slot", n[1], n[2], cs[0])
    return n


def depth(n):
    cs = children(n)
    return 0 if not cs else 1 + max(depth(c) for c in cs)


def kinds(n, acc=None):
    acc = acc if acc is not None else []
    acc.append(n[0] if n[0] != "bind" else ("bindL" if n[1] is None else "bindI"))
    for c in children(n):
        kinds(c, acc)
    return acc


def bound_functors(n, acc=None, inside=False):
    """every functor expression bound by value: (holder 'bind'|'bret', index in the bound tuple, size of the tuple,
    bind position, the bound expression, nested inside another bound functor?)"""
    acc = acc if acc is not None else []
    k = n[0]
    funs = []
    if k == "bind":
        for i, b in enumerate(n[3]):
            if b[0] == "fun":
                acc.append(("bind", i, len(n[3]), n[1], b[3], inside))
                funs.append(b[3])
    if k == "bret" and n[2][0] == "fun":
        acc.append(("bret", 0, 1, None, n[2][3], inside))
        funs.append(n[2][3])
    for c in children(n):
        bound_functors(c, acc, inside or any(c is f for f in funs))
    return acc


def bound_xrefs(n, acc=None, inside=False):
    """every bound argument with an explicitly spelled reference type: (holder 'bind'|'bret', index in the bound tuple,
    size of the tuple, bind position, kind 'xref'|'xcref', object, nested inside a functor bound by value?)"""
    acc = acc if acc is not None else []
    k = n[0]
    funs = []
    if k == "bind":
        for i, b in enumerate(n[3]):
            if b[0] in XREF:
                acc.append(("bind", i, len(n[3]), n[1], b[0], b[1], inside))
            if b[0] == "fun":
                funs.append(b[3])
    if k == "bret":
        if n[2][0] in XREF:
            acc.append(("bret", 0, 1, None, n[2][0], n[2][1], inside))
        if n[2][0] == "fun":
            funs.append(n[2][3])
    for c in children(n):
        bound_xrefs(c, acc, inside or any(c is f for f in funs))
    return acc


def objects(n, acc=None):
    """every object occurrence as (how, obj): how in mf ms sc ref cref copy xref xcref to"""
    acc = acc if acc is not None else []
    k = n[0]
    if k in ("M", "S", "C"):
        acc.append(({"M": "mf", "S": "ms", "C": "sc"}[k], n[3]))
    if k == "bind":
        for b in n[3]:
            if b[0] not in ("val", "fun"):
                acc.append((b[0], b[1]))
    if k == "bret" and n[2][0] not in ("val", "fun"):
        acc.append((n[2][0], n[2][1]))
    if k == "to":
        for o in n[2]:
            acc.append(("to", o))
    for c in children(n):
        objects(c, acc)
    return acc


def is_trackable_obj(o):
    return o[0] in "dvt"


def referenced(n):
    """statement side, computed from the text: ids of the trackables the expression refers to by reference
    (a functor bound by value refers to whatever it refers to; `objects` descends into it)"""
    return [int(o[1:]) for how, o in objects(n) if how != "copy" and is_trackable_obj(o)]


def ret_of(n):
    k = n[0]
    if k in ("L", "F", "G", "H", "M", "S", "C"):
        return n[1]
    if k == "bind":
        return ret_of(n[2])
    if k == "bret":
        return "I" if n[2][0] == "val" else "O"
    if k == "hide":
        return ret_of(n[2])
    if k == "hret":
        return "V"
    if k == "rt":
        return ret_of(n[1])
    if k == "rtr":
        return "I"
    if k in ("c1", "c2", "ec", "to"):
        return ret_of(n[1])
    if k == "slot":
        return n[1]
    raise ValueError(k)


def btype(b):
    """argument type tag of a bound value: 'i' int, 'o' object, 's<r><n>' functor of signature r(int × n)"""
    if b[0] == "fun":
        return "s%s%d" % (b[1], b[2])
    return "i" if b[0] == "val" else "o"


def fun_args(b):
    return ("i",) * b[2]


def child_args(n, args):
    """argument types each child is called with when the node is called with `args`"""
    k = n[0]
    if k == "bind":
        bt = tuple(btype(b) for b in n[3])
        pos = len(args) if n[1] is None else n[1]
        return [tuple(args[:pos]) + bt + tuple(args[pos:])] + [fun_args(b) for b in n[3] if b[0] == "fun"]
    if k == "hide":
        pos = len(args) - 1 if n[1] is None else n[1]
        return [tuple(args[:pos]) + tuple(args[pos + 1:])]
    if k == "bret":
        return [tuple(args)] + ([fun_args(n[2])] if n[2][0] == "fun" else [])
    if k in ("hret", "rt", "rtr", "to", "slot"):
        return [tuple(args)]
    if k == "c1":
        return [("i" if ret_of(n[2]) == "I" else "o",), tuple(args)]
    if k == "c2":
        return [tuple("i" if ret_of(g) == "I" else "o" for g in n[2:4]), tuple(args), tuple(args)]
    if k == "ec":
        return [tuple(args), ()]
    return []


def well_typed(n, ret, args, top=True):
    """can `n` be called with `args` (tuple of 'i' int / 'o' object reference / 's<r><n>' functor value) giving `ret`?"""
    k = n[0]
    ints = all(a == "i" for a in args)
    if ret_of(n) != ret:
        return False
    if k == "L":
        return ret in "VI"
    if k in ("F", "M"):
        return ints and n[2] == len(args) and len(args) <= 2
    if k == "G":
        return ret in "VI" and n[3] <= 1 and tuple(args) == ("s%s%d" % (n[2], n[3]),)
    if k == "H":
        return ret in "VI" and n[3] <= 1 and tuple(args) == ("i", "s%s%d" % (n[2], n[3]))
    if k == "S":
        return ints and n[2] == len(args) and len(args) <= 1
    if k == "C":
        return top and ints and n[2] == len(args) and len(args) <= 1 and n[3][0] in "dvu"
    cs = children(n)
    ca = child_args(n, args)
    if k == "bind":
        if n[1] is not None and n[1] > len(args):
            return False
        if not n[3]:
            return False
        if not all(fun_ok(b) for b in n[3]):
            return False
        return well_typed(cs[0], ret, ca[0], False)
    if k == "bret":
        r0 = ret_of(cs[0])
        return r0 in "VI" and fun_ok(n[2]) and well_typed(cs[0], r0, ca[0], False)
    if k == "hide":
        if not args or (n[1] is not None and n[1] >= len(args)):
            return False
        return well_typed(cs[0], ret, ca[0], False)
    if k == "hret":
        return well_typed(cs[0], ret_of(cs[0]), ca[0], False)
    if k == "rt":
        return ints and ret in "VI" and cs[0][0] in ("F", "M", "S", "slot") and well_typed(cs[0], ret, ca[0], False)
    if k == "rtr":
        return ret_of(cs[0]) == "I" and well_typed(cs[0], "I", ca[0], False)
    if k == "c1":
        rg = ret_of(cs[1])
        return rg in "IO" and well_typed(cs[1], rg, ca[1], False) and well_typed(cs[0], ret, ca[0], False)
    if k == "c2":
        for g, a in ((cs[1], ca[1]), (cs[2], ca[2])):
            if ret_of(g) not in "IO" or not well_typed(g, ret_of(g), a, False):
                return False
        return well_typed(cs[0], ret, ca[0], False)
    if k == "ec":
        return ret in "VI" and well_typed(cs[0], ret, ca[0], False) and well_typed(cs[1], ret, ca[1], False)
    if k == "to":
        return len(n[2]) >= 1 and well_typed(cs[0], ret, ca[0], False)
    if k == "slot":
        return ints and len(args) <= 1 and n[2] == len(args) and ret in "VI" and well_typed(cs[0], ret, ca[0], False)
    return False


def fun_ok(b):
    """a functor bound by value must itself be a well-typed expression of its declared signature"""
    if b[0] != "fun":
        return True
    return b[1] in "VI" and 0 <= b[2] <= 1 and well_typed(b[3], b[1], fun_args(b), False)


def case_ok(sig, pool, node):
    ret, n = SIGS[sig]
    if not well_typed(node, ret, ("i",) * n):
        return False
    have = {}
    for p in pool:
        have[p[0]] = p[1:]
    for how, o in objects(node):
        cls = have.get(o[1:])
        if cls is None:
            return False
        if o[0] in "dvu" and cls != o[0].upper():
            return False
        if o[0] in "st" and cls[0] != o[0]:
            return False
    # signal signatures
    def chk(n):
        if n[0] == "S":
            if have[n[3][1:]][1:] != str(SIG_K[(n[1], n[2])]):
                return False
        return all(chk(c) for c in children(n))
    return chk(node)


# ----------------------------------------------------------------------------------------------
# C++ rendering
# ----------------------------------------------------------------------------------------------


def cpp_obj(o):
    return "p.%s(%s)" % (o[0], o[1:])


def cpp_btype(b, name):
    """the explicitly spelled template argument of a bound value: `T&` / `const T&` for xref / xcref, the deduced type
    (decltype of the by-value lambda parameter `name`) for everything else"""
    if b[0] == "xref":
        return "%s&" % CLS_NAME[b[1][0]]
    if b[0] == "xcref":
        return "const %s&" % CLS_NAME[b[1][0]]
    return "decltype(%s)" % name


def cpp_bind_explicit(n):
    """a bind with at least one bound type spelled as an explicit reference.  sigc::bind()'s template parameters are
    <[int I_location,] typename T_functor, typename... T_bound>, so the functor type has to be spelled too: the functor and
    the bound values of deduced type are first made parameters of a generic lambda (by value, exactly as sigc::bind()
    takes them), the referenced objects are named directly.
      bind <I>  : sigc::bind<I, F, T_bound...>(f, b...)
      bind L    : sigc::bind<-1, F, T_bound...>(f, b...)  or  sigc::bind<F, T_bound...>(f, b...)  (the overload without
                  a position; chosen by the parity of the number of bound values + the first referenced object's id)"""
    params = ["auto f"]
    args = [cpp(n[2])]
    types = []
    calls = []
    first = None
    for i, b in enumerate(n[3]):
        if b[0] in XREF:
            first = first if first is not None else int(b[1][1:])
            calls.append(cpp_obj(b[1]))
            types.append(cpp_btype(b, None))
        else:
            nm = "b%d" % i
            params.append("auto " + nm)
            args.append(cpp_barg(b))
            calls.append(nm)
            types.append(cpp_btype(b, nm))
    if n[1] is not None:
        head = "%d, " % n[1]
    else:
        head = "-1, " if (len(n[3]) + first) % 2 == 0 else ""
    return "[&p](%s) { return sigc::bind<%sdecltype(f), %s>(f, %s); }(%s)" % (
        ", ".join(params), head, ", ".join(types), ", ".join(calls), ", ".join(args))


def cpp_barg(b):
    if b[0] == "val":
        return "5"
    if b[0] == "ref":
        return "std::ref(%s)" % cpp_obj(b[1])
    if b[0] == "cref":
        return "std::cref(%s)" % cpp_obj(b[1])
    if b[0] == "fun":
        return cpp(b[3])  # the functor itself, by value
    return cpp_obj(b[1])  # by value


def cpp(n):
    k = n[0]
    if k == "L":
        return "vs::Leaf%s()" % n[1]
    if k == "F":
        return "&vs::f%s%d" % (n[1], n[2])
    if k == "G":
        return "&vs::g%s_%s%d" % (n[1], n[2], n[3])
    if k == "H":
        return "&vs::h%s_%s%d" % (n[1], n[2], n[3])
    if k == "M":
        # directly-trackable objects bind a method inherited from a non-trackable base (b*), the others their own (m*)
        # … and cycle through the four cv-qualified overloads of mem_fun (by arity and result kind)
        pre = "m"
        if n[3][0] == "d":
            pre = ("b", "bc", "bv", "bw")[(n[2] + (1 if n[1] == "I" else 0) + int(n[3][1:] or 0)) % 4]
        return "sigc::mem_fun(%s, &%s::%s%s%d)" % (cpp_obj(n[3]), CLS_NAME[n[3][0]], pre, n[1], n[2])
    if k == "S":
        return "p.%s<%s>(%s).make_slot()" % (n[3][0], SIG_CPP[(n[1], n[2])], n[3][1:])
    if k == "bind":
        if any(b[0] in XREF for b in n[3]):
            return cpp_bind_explicit(n)
        loc = "" if n[1] is None else "<%d>" % n[1]
        return "sigc::bind%s(%s, %s)" % (loc, cpp(n[2]), ", ".join(cpp_barg(b) for b in n[3]))
    if k == "bret":
        if n[2][0] in XREF:
            return "sigc::bind_return<%s>(%s, %s)" % (cpp_btype(n[2], None), cpp(n[1]), cpp_obj(n[2][1]))
        return "sigc::bind_return(%s, %s)" % (cpp(n[1]), cpp_barg(n[2]))
    if k == "hide":
        loc = "" if n[1] is None else "<%d>" % n[1]
        return "sigc::hide%s(%s)" % (loc, cpp(n[2]))
    if k == "hret":
        return "sigc::hide_return(%s)" % cpp(n[1])
    if k == "rt":
        c = n[1]
        inner = "sigc::ptr_fun(%s)" % cpp(c) if c[0] == "F" else cpp(c)
        return "sigc::retype(%s)" % inner
    if k == "rtr":
        return "sigc::retype_return<int>(%s)" % cpp(n[1])
    if k in ("c1", "c2"):
        return "sigc::compose(%s)" % ", ".join(cpp(c) for c in n[1:])
    if k == "ec":
        return "sigc::exception_catch(%s, %s)" % (cpp(n[1]), cpp(n[2]))
    if k == "to":
        fn = "sigc::track_object" if all(is_trackable_obj(o) for o in n[2]) else "sigc::track_obj"
        return "%s(%s, %s)" % (fn, cpp(n[1]), ", ".join(cpp_obj(o) for o in n[2]))
    if k == "slot":
        return "sigc::slot<%s>(%s)" % (SIG_CPP[(n[1], n[2])], cpp(n[3]))
    raise ValueError(k)


def victims_of(pool, node):
    refd = set(referenced(node))
    return [(int(p[0]), int(p[0]) in refd) for p in pool if p[1] in "DVt"]


def cpp_case(cid, sig, pool, node):
    ret, n = SIGS[sig]
    spec = " ".join(pool)
    vs_ = ", ".join("{%d,%s}" % (i, "true" if r else "false") for i, r in victims_of(pool, node))
    sigcpp = SIG_CPP[(ret, n)]
    if node[0] == "C":
        body = ("vs::case_body_connect<%s>(%d, \"%s\", {%s}, [](sigc::signal<%s>& sg, vs::Pool& p) "
                "{ return sigc::signal_connect(sg, %s, &%s::%s%s%d); });"
                % (sigcpp, cid, spec, vs_, sigcpp, cpp_obj(node[3]), CLS_NAME[node[3][0]],
                   "k" if (cid + node[2]) % 2 else "m",      # const-method and non-const-method overloads alternate
                   node[1], node[2]))
    else:
        body = ("vs::case_body<%s>(%d, \"%s\", {%s}, [](vs::Pool& p) { return %s; });"
                % (sigcpp, cid, spec, vs_, cpp(node)))
    return "static void case_%d() { %s }\n" % (cid, body)


def cpp_tu(cases):
    """cases: list of (cid, sig, pool, node)"""
    out = ["#include \"visit_support.h\"\n"]
    for c in cases:
        out.append(cpp_case(*c))
    out.append("int main() {\n")
    for c in cases:
        out.append("  vs::forked(%d, &case_%d);\n" % (c[0], c[0]))
    out.append("  return 0;\n}\n")
    return "".join(out)


# ----------------------------------------------------------------------------------------------
# random generation
# ----------------------------------------------------------------------------------------------


class Env:
    """object pool under construction"""

    def __init__(self, rng, ntrk, with_untracked, vbase_p=0.4):
        self.rng = rng
        self.pool = []      # "<id><cls>"
        self.objs = []      # obj tokens d1 v2 u3 of the D/V/U objects
        nid = 1
        for _ in range(ntrk):
            c = "V" if rng.chance(vbase_p) else "D"
            self.pool.append("%d%s" % (nid, c))
            self.objs.append(c.lower() + str(nid))
            nid += 1
        if with_untracked:
            self.pool.append("%dU" % nid)
            self.objs.append("u%d" % nid)
            nid += 1
        self.nid = nid
        self.signals = {}
        self.fun_w = 2      # weight of a functor-valued bound argument among the bound-argument kinds
        self.xref_w = 3     # weight of an explicitly spelled T& (and 2/3 of it: const T&) among the bound-argument kinds

    def trackables(self):
        return [o for o in self.objs if o[0] != "u"]

    def any_obj(self, trackable_bias=0.85):
        t = self.trackables()
        if t and (self.rng.chance(trackable_bias) or len(t) == len(self.objs)):
            return self.rng.choice(t)
        return self.rng.choice(self.objs)

    def signal(self, ret, n):
        """a signal object of that signature (at most two signal objects per case)"""
        key = (ret, n)
        if key in self.signals and self.rng.chance(0.5):
            return self.signals[key]
        if self.nid > 7 or len(self.signals) >= 2:
            return self.signals.get(key)
        cls = "t" if self.rng.chance(0.6) else "s"
        o = "%s%d" % (cls, self.nid)
        self.pool.append("%d%s%d" % (self.nid, cls, SIG_K[key]))
        self.nid += 1
        self.signals[key] = o
        return o


def gen_barg(env, force_obj=False, dmax=0):
    """one bound argument; a functor bound by value has depth ≤ dmax"""
    rng = env.rng
    k = rng.weighted([("val", 0 if force_obj else 3), ("ref", 5), ("cref", 3), ("copy", 2), ("fun", env.fun_w),
                      ("xref", env.xref_w), ("xcref", (2 * env.xref_w + 2) // 3)])
    if k == "val":
        return ("val",)
    if k == "fun":
        return gen_fun_barg(env, dmax)
    return (k, env.any_obj())


def gen_fun_barg(env, dmax):
    """a functor expression bound by value: mem_fun functors, plain functors, make_slot functors, slots stored by
    value, adaptor expressions — of depth ≤ dmax"""
    rng = env.rng
    r = rng.choice(["V", "I"])
    n = rng.weighted([(0, 3), (1, 2)])
    args = ("i",) * n
    deep = 3 if dmax >= 1 else 0
    style = rng.weighted([("M", 5), ("leaf", 1), ("S", 1), ("slot", deep), ("expr", deep)])
    e = None
    if style == "leaf":
        e = ("L", r) if rng.chance(0.5) else ("F", r, n)
    elif style == "S":
        o = env.signal(r, n)
        e = ("S", r, n, o) if o else None
    elif style == "slot":
        inner = gen(env, r, args, rng.below(dmax), False)
        e = ("slot", r, n, inner) if inner is not None else None
    elif style == "expr":
        e = gen(env, r, args, 1 + rng.below(dmax), False)
    if e is None:
        e = ("M", r, n, env.any_obj())
    return ("fun", r, n, e)


def gen_leaf(env, ret, args):
    rng = env.rng
    if ret == "O":
        return None
    ints = all(a == "i" for a in args)
    opts = [("L", 2)]
    if ints and len(args) <= 2:
        opts += [("F", 1), ("M", 6)]
    if ints and len(args) <= 1:
        opts += [("S", 2)]
    if len(args) == 1 and args[0][0] == "s":
        opts += [("G", 6)]
    if len(args) == 2 and args[0] == "i" and args[1][0] == "s":
        opts += [("H", 8)]
    k = rng.weighted(opts)
    if k == "L":
        return ("L", ret)
    if k in ("G", "H"):
        return (k, ret, args[-1][1], int(args[-1][2]))
    if k == "F":
        return ("F", ret, len(args))
    if k == "M":
        return ("M", ret, len(args), env.any_obj())
    o = env.signal(ret, len(args))
    if o is None:
        return ("M", ret, len(args), env.any_obj())
    return ("S", ret, len(args), o)


ADAPTORS = [("bindI", 6), ("bindL", 5), ("bret", 4), ("hide", 3), ("hret", 3), ("rt", 2), ("rtr", 2),
            ("c1", 4), ("c2", 4), ("ec", 4), ("to", 4), ("slot", 5)]


def gen(env, ret, args, d, exact=True):
    """an expression of that type with depth d (exactly, if `exact`, else at most d); None if impossible"""
    rng = env.rng
    args = tuple(args)
    if d == 0:
        return gen_leaf(env, ret, args)
    ints = all(a == "i" for a in args)
    order = []
    pairs = list(ADAPTORS)
    while pairs:
        k = rng.weighted(pairs)
        order.append(k)
        pairs = [p for p in pairs if p[0] != k]

    def sub(r, a, deep):
        dd = d - 1 if (deep and exact) else rng.below(d)
        return gen(env, r, a, dd, exact)

    for k in order:
        n = None
        if k in ("bindI", "bindL") and len(args) <= 3:
            nb = rng.weighted([(1, 4), (2, 5), (3, 2)])
            bs = tuple(gen_barg(env, False, d - 1) for _ in range(nb))
            if all(b[0] == "val" for b in bs) and rng.chance(0.7):
                bs = bs[:-1] + (gen_barg(env, True, d - 1),)
            pos = None if k == "bindL" else rng.below(len(args) + 1)
            p = len(args) if pos is None else pos
            f = sub(ret, args[:p] + tuple(btype(b) for b in bs) + args[p:], True)
            if f is not None:
                n = ("bind", pos, f, bs)
        elif k == "bret" and ret in "IO":
            b = ("val",) if ret == "I" else gen_barg(env, True, d - 1)
            f = sub(rng.choice(["V", "I"]), args, True)
            if f is not None:
                n = ("bret", f, b)
        elif k == "hide" and args:
            pos = None if rng.chance(0.5) else rng.below(len(args))
            p = len(args) - 1 if pos is None else pos
            f = sub(ret, args[:p] + args[p + 1:], True)
            if f is not None:
                n = ("hide", pos, f)
        elif k == "hret" and ret == "V":
            f = sub(rng.weighted([("V", 2), ("I", 3), ("O", 2)]), args, True)
            if f is not None:
                n = ("hret", f)
        elif k == "rt" and ints and ret in "VI" and len(args) <= 2:
            if d == 1:
                c = rng.weighted([("F", 1), ("M", 4), ("S", 2 if len(args) <= 1 else 0)])
                f = None
                if c == "F":
                    f = ("F", ret, len(args))
                elif c == "M":
                    f = ("M", ret, len(args), env.any_obj())
                else:
                    o = env.signal(ret, len(args))
                    f = ("S", ret, len(args), o) if o else ("M", ret, len(args), env.any_obj())
            elif len(args) <= 1:
                g = gen(env, ret, args, d - 2 if exact else rng.below(d - 1), exact)
                f = ("slot", ret, len(args), g) if g is not None else None
            else:
                f = None
            if f is not None:
                n = ("rt", f)
        elif k == "rtr" and ret == "I":
            f = sub("I", args, True)
            if f is not None:
                n = ("rtr", f)
        elif k == "c1":
            deep_setter = rng.chance(0.4)
            g = sub(rng.weighted([("I", 3), ("O", 2)]), args, not deep_setter)
            if g is not None:
                s = sub(ret, ("i" if ret_of(g) == "I" else "o",), deep_setter)
                if s is not None:
                    n = ("c1", s, g)
        elif k == "c2":
            which = rng.below(3)
            g1 = sub(rng.weighted([("I", 3), ("O", 2)]), args, which == 1)
            g2 = sub(rng.weighted([("I", 3), ("O", 2)]), args, which == 2) if g1 is not None else None
            if g1 is not None and g2 is not None:
                s = sub(ret, tuple("i" if ret_of(g) == "I" else "o" for g in (g1, g2)), which == 0)
                if s is not None:
                    n = ("c2", s, g1, g2)
        elif k == "ec" and ret in "VI":
            deep_c = rng.chance(0.4)
            f = sub(ret, args, not deep_c)
            c = sub(ret, (), deep_c) if f is not None else None
            if f is not None and c is not None:
                n = ("ec", f, c)
        elif k == "to":
            f = sub(ret, args, True)
            if f is not None:
                ts = tuple(env.any_obj(0.9) for _ in range(rng.weighted([(1, 3), (2, 2)])))
                n = ("to", f, ts)
        elif k == "slot" and ints and len(args) <= 1 and ret in "VI":
            f = sub(ret, args, True)
            if f is not None:
                n = ("slot", ret, len(args), f)
        if n is not None:
            return n
    return None


def random_case(rng, max_depth=3):
    """(sig, pool, node)"""
    focus = rng.chance(0.15)     # this case must contain a functor bound by value
    xfocus = (not focus) and rng.chance(0.15)   # this case must contain a bound type spelled as an explicit reference
    for _ in range(200 if (focus or xfocus) else 50):
        ntrk = rng.weighted([(1, 2), (2, 5), (3, 4)])
        env = Env(rng, ntrk, rng.chance(0.25))
        if focus:
            env.fun_w = 14
        if xfocus:
            env.xref_w = 12
        sig = rng.weighted([("V0", 4), ("I0", 2), ("V1", 3), ("I1", 2)])
        ret, n = SIGS[sig]
        d = rng.weighted([(0, 0 if (focus or xfocus) else 1), (1, 4), (2, 6), (3, 6)])
        d = max(1, min(d, max_depth)) if (focus or xfocus) else min(d, max_depth)
        if d == 0 and rng.chance(0.3) and n <= 1:
            node = ("C", ret, n, env.any_obj())
        else:
            node = gen(env, ret, ("i",) * n, d)
        if node is None:
            continue
        if focus and not bound_functors(node):
            continue
        if xfocus and not any(is_trackable_obj(x[5]) for x in bound_xrefs(node)):
            continue
        if not referenced(node) and rng.chance(0.9):
            continue
        if not case_ok(sig, env.pool, node):
            raise AssertionError("generator produced an ill-typed case: " + case_text(sig, env.pool, node))
        return sig, list(env.pool), node
    raise AssertionError("could not generate a case")


# ----------------------------------------------------------------------------------------------
# enumeration (thorough tier)
# ----------------------------------------------------------------------------------------------


def skeleton_wrappers():
    """one-hole contexts: every adaptor kind with canonical parameters; holes for objects are h0,h1,…
    Each wrapper: (name, needs(ret,args)->bool, build(inner_gen)->node or None) expressed as a function
    (ret, args, mk_inner, holes) -> node | None where mk_inner(ret, args) builds the deep child."""
    W = []

    def bind_w(pos, bargs):
        def w(ret, args, inner, H):
            if pos is not None and pos > len(args):
                return None
            bs = tuple(skeleton_barg(b, H) for b in bargs)
            p = len(args) if pos is None else pos
            f = inner(ret, args[:p] + tuple(btype(b) for b in bs) + args[p:])
            return None if f is None else ("bind", pos, f, bs)
        return w

    W.append(("bindL-ref", bind_w(None, ("ref",))))
    W.append(("bindL-val-ref-cref", bind_w(None, ("val", "ref", "cref"))))
    W.append(("bind0-ref-ref", bind_w(0, ("ref", "ref"))))
    W.append(("bind0-val-ref", bind_w(0, ("val", "ref"))))
    W.append(("bind1-copy-ref-ref", bind_w(1, ("copy", "ref", "ref"))))
    W.append(("bind0-cref", bind_w(0, ("cref",))))
    # bound types spelled as explicit references (T& / const T&): alone, after a value, last of a mixed tuple
    W.append(("bindL-xref", bind_w(None, ("xref",))))
    W.append(("bind0-val-xcref", bind_w(0, ("val", "xcref"))))
    W.append(("bind1-val-ref-xref", bind_w(1, ("val", "ref", "xref"))))
    # functors bound by value, first / middle / last of the tuple
    W.append(("bindL-funM", bind_w(None, ("funM",))))
    W.append(("bind0-val-funSlot", bind_w(0, ("val", "funSlot"))))
    W.append(("bind1-funAd-ref-funM", bind_w(1, ("funAd", "ref", "funM"))))

    def bind_fun_deep(ret, args, inner, H):
        # the chain continues INSIDE the functor bound by value
        if ret not in "VI":
            return None
        e = inner("V", ())
        return None if e is None else ("bind", None, ("L", ret), (("val",), ("fun", "V", 0, e)))

    W.append(("bindL-val-fun-deep", bind_fun_deep))

    def bret_w(kind):
        def w(ret, args, inner, H):
            if (kind == "val") != (ret == "I") or ret == "V":
                return None
            f = inner("V", args)
            return None if f is None else ("bret", f, skeleton_barg(kind, H))
        return w

    W.append(("bret-val", bret_w("val")))
    W.append(("bret-ref", bret_w("ref")))
    W.append(("bret-cref", bret_w("cref")))
    W.append(("bret-xref", bret_w("xref")))
    W.append(("bret-funM", bret_w("funM")))
    W.append(("bret-funSlot", bret_w("funSlot")))

    def bret_fun_deep(ret, args, inner, H):
        if ret != "O":
            return None
        e = inner("I", ("i",))
        return None if e is None else ("bret", ("L", "V"), ("fun", "I", 1, e))

    W.append(("bret-fun-deep", bret_fun_deep))

    def hide_w(pos):
        def w(ret, args, inner, H):
            if not args or (pos is not None and pos >= len(args)):
                return None
            p = len(args) - 1 if pos is None else pos
            f = inner(ret, args[:p] + args[p + 1:])
            return None if f is None else ("hide", pos, f)
        return w

    W.append(("hideL", hide_w(None)))
    W.append(("hide0", hide_w(0)))

    def hret_w(r0):
        def w(ret, args, inner, H):
            if ret != "V":
                return None
            f = inner(r0, args)
            return None if f is None else ("hret", f)
        return w

    W.append(("hret-I", hret_w("I")))
    W.append(("hret-O", hret_w("O")))

    def rtr_w(ret, args, inner, H):
        if ret != "I":
            return None
        f = inner("I", args)
        return None if f is None else ("rtr", f)

    W.append(("rtr", rtr_w))

    def rt_slot_w(ret, args, inner, H):
        if ret not in "VI" or not all(a == "i" for a in args) or len(args) > 1:
            return None
        f = inner(ret, args)
        return None if f is None else ("rt", ("slot", ret, len(args), f))

    W.append(("rt-slot", rt_slot_w))

    def c1_w(deep_setter, gret):
        def w(ret, args, inner, H):
            if deep_setter:
                g = ("bret", ("L", "V"), ("val",) if gret == "I" else ("ref", H()))
                s = inner(ret, ("i" if gret == "I" else "o",))
            else:
                g = inner(gret, args)
                s = ("L", ret) if ret in "VI" else None
            return None if (s is None or g is None) else ("c1", s, g)
        return w

    W.append(("c1-deep-setter", c1_w(True, "O")))
    W.append(("c1-deep-getter-I", c1_w(False, "I")))
    W.append(("c1-deep-getter-O", c1_w(False, "O")))

    def c2_w(which):
        def w(ret, args, inner, H):
            if ret not in "VI":
                return None
            lg = lambda: ("M", "I", len(args), H()) if all(a == "i" for a in args) and len(args) <= 2 else ("L", "I")
            if which == 0:
                g1, g2 = lg(), lg()
                s = inner(ret, ("i", "i"))
            elif which == 1:
                g1 = inner("I", args)
                g2 = lg()
                s = ("L", ret)
            else:
                g1 = lg()
                g2 = inner("I", args)
                s = ("L", ret)
            return None if None in (s, g1, g2) else ("c2", s, g1, g2)
        return w

    W.append(("c2-deep-setter", c2_w(0)))
    W.append(("c2-deep-get1", c2_w(1)))
    W.append(("c2-deep-get2", c2_w(2)))

    def ec_w(deep_c):
        def w(ret, args, inner, H):
            if ret not in "VI":
                return None
            if deep_c:
                f = ("L", ret)
                c = inner(ret, ())
            else:
                f = inner(ret, args)
                c = ("M", ret, 0, H())
            return None if None in (f, c) else ("ec", f, c)
        return w

    W.append(("ec-deep-f", ec_w(False)))
    W.append(("ec-deep-catcher", ec_w(True)))

    def to_w(k):
        def w(ret, args, inner, H):
            f = inner(ret, args)
            return None if f is None else ("to", f, tuple(H() for _ in range(k)))
        return w

    W.append(("to1", to_w(1)))
    W.append(("to2", to_w(2)))

    def slot_w(ret, args, inner, H):
        if ret not in "VI" or not all(a == "i" for a in args) or len(args) > 1:
            return None
        f = inner(ret, args)
        return None if f is None else ("slot", ret, len(args), f)

    W.append(("slot", slot_w))
    return W


def skeleton_barg(kind, H):
    """canonical bound arguments of the enumeration; funM / funSlot / funAd: a mem_fun functor, a slot, an adaptor
    expression bound by value"""
    if kind == "val":
        return ("val",)
    if kind == "funM":
        return ("fun", "V", 0, ("M", "V", 0, H()))
    if kind == "funSlot":
        return ("fun", "I", 1, ("slot", "I", 1, ("M", "I", 1, H())))
    if kind == "funAd":
        return ("fun", "V", 1, ("hide", None, ("M", "V", 0, H())))
    return (kind, H())


def skeleton_leaves(ret, args, H):
    """depth-0 skeletons of that type"""
    out = []
    ints = all(a == "i" for a in args)
    if ret in "VI":
        if ints and len(args) <= 2:
            out.append(("M", ret, len(args), H()))
        else:
            out.append(("L", ret))
    return out


def enumerate_skeletons(max_depth, sigs=("V0", "I1")):
    """all chains wrapper_1(wrapper_2(…(leaf))) of depth ≤ max_depth that type-check; objects are holes h<i>.
    Returns list of (sig, node, names)."""
    W = skeleton_wrappers()
    res = []

    def build(ret, args, chain, counter):
        def H():
            counter[0] += 1
            return "h%d" % (counter[0] - 1)
        if not chain:
            ls = skeleton_leaves(ret, args, H)
            return ls[0] if ls else None
        name, w = chain[0]
        return w(ret, tuple(args), lambda r, a: build(r, a, chain[1:], counter), H)

    def chains(d):
        if d == 0:
            yield []
            return
        for c in chains(d - 1):
            for w in W:
                yield [w] + c

    for sig in sigs:
        ret, n = SIGS[sig]
        for d in range(0, max_depth + 1):
            for ch in chains(d):
                node = build(ret, ("i",) * n, ch, [0])
                if node is None:
                    continue
                if depth(node) < d:
                    continue
                res.append((sig, node, [c[0] for c in ch]))
    return res


def holes_of(node):
    return sorted({o for _, o in objects(node) if o[0] == "h"}, key=lambda h: int(h[1:]))


def substitute(node, m):
    """replace hole objects by real ones"""
    def so(o):
        return m.get(o, o)
    k = node[0]
    if k in ("M", "S", "C"):
        return (k, node[1], node[2], so(node[3]))
    def sb(b):
        if b[0] == "val":
            return b
        if b[0] == "fun":
            return ("fun", b[1], b[2], substitute(b[3], m))
        return (b[0], so(b[1]))
    if k == "bind":
        return ("bind", node[1], substitute(node[2], m), tuple(sb(b) for b in node[3]))
    if k == "bret":
        return ("bret", substitute(node[1], m), sb(node[2]))
    if k == "to":
        return ("to", substitute(node[1], m), tuple(so(o) for o in node[2]))
    cs = [substitute(c, m) for c in children(node)]
    return with_children(node, cs) if cs else node


def partitions(k, max_blocks=3):
    """restricted growth strings of length k with at most max_blocks blocks (assignments up to renaming)"""
    res = []

    def rec(pre, mx):
        if len(pre) == k:
            res.append(tuple(pre))
            return
        for b in range(min(mx + 1, max_blocks - 1) + 1):
            rec(pre + [b], max(mx, b))
    if k == 0:
        return [()]
    rec([0], 0)
    return res


def assign(node, part, kinds, extra_unused):
    """holes -> objects according to a partition; kinds[b] in 'dv' is the class of block b; one more
    trackable that the expression does not mention is added when extra_unused"""
    hs = holes_of(node)
    m = {}
    pool = {}
    for h, b in zip(hs, part):
        oid = b + 1
        m[h] = kinds[b] + str(oid)
        pool[oid] = kinds[b].upper()
    nid = (max(pool) if pool else 0) + 1
    if extra_unused:
        pool[nid] = "D"
    return substitute(node, m), ["%d%s" % (i, pool[i]) for i in sorted(pool)]
