"""Generator helpers of the C05 compile-probe correspondence (DESIGN.md §5 C05) and of the C20 call-type table.

A *probe* pairs a signal/slot signature with a functor (kind, parameters, result), an optional adaptor hop and
a route.  It has two renderings that must describe the same program:
  * `line(p)`  – the description the Lean driver (`sigc_model types`) decides (`accept` / `reject <why>`),
  * `cpp(p, ns)` – the C++ text (namespace-scope declarations + one statement on a marker line).

`statement_category(p)` is the *monitor*: what the property statement of C05 demands for this probe, computed from
explicit first-principle tables below — deliberately not derived from the Lean model's formulas.
"""
import itertools
import re

OLD_BASES = ["int", "long", "double", "bool", "A", "B", "pA", "pB", "pcA"]
# types whose explicit and implicit convertibility differ: `enum class E : int`, `struct Xb { explicit operator bool() const; }`,
# `struct Xd { explicit operator double() const; }` (types_prelude.h)
EXPLICIT_ONLY_BASES = ["E", "Xb", "Xd"]
BASES = OLD_BASES + EXPLICIT_ONLY_BASES
SHAPES = ["v", "l", "c", "r"]
CPP_BASE = {"int": "int", "long": "long", "double": "double", "bool": "bool", "A": "tp::A", "B": "tp::B",
            "pA": "tp::pA", "pB": "tp::pB", "pcA": "tp::pcA", "E": "tp::E", "Xb": "tp::Xb", "Xd": "tp::Xd"}
KINDS_DIRECT = ["fn", "ptrfun", "fobj", "fobjc", "lam", "lammut"]
MQS = ["n", "c", "v", "cv"]
KINDS_MEM = ["mem:%s:%s" % (o, q) for o in "oc" for q in MQS]
ROUTES = ["slot", "connect", "sigconn", "accum"]
# a slot *object* as the argument: `sigc::slot<FR(FP...)> so = <lambda>;` then `so` / `std::as_const(so)` / `std::move(so)`
SLOT_FORMS = ["l", "c", "r"]
KINDS_SLOTOBJ = ["slotobj:%s" % f for f in SLOT_FORMS]
# the connect entry points of signal.h: {signal, trackable_signal} x {plain, ::accumulated<Acc>} x {connect, connect_first}
# x {const slot_type&, slot_type&&} — route token `ep:<sig|tsig>:<plain|acc>:<connect|first>:<c|r|any>`; `c` / `r` select
# that overload by hand (through a pointer to member of exactly that type), `any` is the plain call expression.
EP_CLASSES = ["sig", "tsig"]
EP_ACCS = ["plain", "acc"]
EP_FNS = ["connect", "first"]
EP_OVERLOADS = ["c", "r"]
EP_FAMILIES = ["ep:%s:%s:%s" % (c, a, f) for c in EP_CLASSES for a in EP_ACCS for f in EP_FNS]
ENTRY_POINTS = ["%s:%s" % (fam, o) for fam in EP_FAMILIES for o in EP_OVERLOADS]      # the sixteen declared members
ENTRY_CALLS = ["%s:any" % fam for fam in EP_FAMILIES]                                 # the eight call expressions
ALL_PARAMS = ["%s:%s" % (b, s) for b in BASES for s in SHAPES]
SIG_RETS = ["void"] + ["%s:v" % b for b in BASES]
FN_RETS = ["void"] + ["%s:%s" % (b, s) for b in BASES for s in "vlc"]
EXPRS = ["%s:%s" % (b, c) for b in BASES for c in ("l", "cl", "x", "cx", "p")]

# Corners excluded from the universe (the two compilers disagree with each other on the unchanged tree, so they
# cannot serve as an oracle there):
#  * binding `const A*&&` to an xvalue/prvalue of type `A*`: similar types are reference-related (CWG 2352); clang++-14
#    creates the temporary the standard asks for, g++-12 rejects.  Both reject the lvalue / const cases.
#  * `static_cast<const bool&>(xb)` / `static_cast<bool&&>(xb)` for a class with `explicit operator bool()` (and the
#    same with double): [over.match.ref] makes the explicit conversion function a candidate for the direct reference
#    initialisation; clang++-14 accepts, g++-12 rejects.  Both accept `static_cast<bool>(xb)` and reject every
#    implicit use.
def excluded_pair(param, expr_base, expr_is_nonconst_rvalue):
    return param == "pcA:r" and expr_base == "pA" and expr_is_nonconst_rvalue


def excluded_cast_pair(param, expr_base):
    return (param in ("bool:c", "bool:r") and expr_base == "Xb") or (param in ("double:c", "double:r") and expr_base == "Xd")


def cpp_type(tok):
    """C++ spelling of a parameter/result token (`int:v`, `A:l`, `pcA:r`, `void`)"""
    if tok == "void":
        return "void"
    b, s = tok.split(":")
    t = CPP_BASE[b]
    return {"v": t, "l": t + "&", "c": "const " + t + "&", "r": t + "&&"}[s]


def cpp_expr_decl(tok):
    """declared type E such that `tp::mk<E>()` is the expression `tok` (`int:l`, `int:cl`, `int:x`, `int:cx`, `int:p`)"""
    b, c = tok.split(":")
    t = CPP_BASE[b]
    return {"l": t + "&", "cl": "const " + t + "&", "x": t + "&&", "cx": "const " + t + "&&", "p": t}[c]


class Probe:
    __slots__ = ("route", "adaptor", "kind", "sret", "sig", "fret", "fpar")

    def __init__(self, route, adaptor, kind, sret, sig, fret, fpar):
        self.route, self.adaptor, self.kind = route, adaptor, kind
        self.sret, self.sig, self.fret, self.fpar = sret, tuple(sig), fret, tuple(fpar)

    def key(self):
        return line(self)

    def copy(self, **kw):
        d = {k: getattr(self, k) for k in self.__slots__}
        d.update(kw)
        return Probe(**d)


def line(p):
    return "probe %s %s %s R=%s S=%s FR=%s FP=%s" % (
        p.route, p.adaptor, p.kind, p.sret, ",".join(p.sig) or "-", p.fret, ",".join(p.fpar) or "-")


def parse_line(s):
    w = s.split()
    assert w[0] == "probe", s
    f = dict(x.split("=", 1) for x in w[4:])
    lst = lambda v: [] if v == "-" else v.split(",")
    return Probe(w[1], w[2], w[3], f["R"], lst(f["S"]), f["FR"], lst(f["FP"]))


# --------------------------------------------------------------------------------------
# C++ rendering
# --------------------------------------------------------------------------------------

def _body(fret):
    return "{}" if fret == "void" else "{ return tp::mk<%s>(); }" % cpp_type(fret)


def cpp(p):
    """returns (declarations, statement): namespace-scope declarations and the single probe statement"""
    ps = ", ".join(cpp_type(t) for t in p.fpar)
    fr = cpp_type(p.fret)
    decl = []
    pre = ""
    k = p.kind
    if k in ("fn", "ptrfun"):
        decl.append("%s f(%s);" % (fr, ps))
        fun = "&f" if k == "fn" else "sigc::ptr_fun(&f)"
    elif k in ("fobj", "fobjc"):
        decl.append("struct F { %s operator()(%s)%s; };" % (fr, ps, " const" if k == "fobjc" else ""))
        fun = "F()"
    elif k in ("lam", "lammut"):
        fun = "[](%s)%s -> %s %s" % (ps, " mutable" if k == "lammut" else "", fr, _body(p.fret))
    elif k.startswith("mem:"):
        _, o, q = k.split(":")
        qual = {"n": "", "c": " const", "v": " volatile", "cv": " const volatile"}[q]
        decl.append("struct C { %s m(%s)%s; };" % (fr, ps, qual))
        decl.append("extern C o; extern const C co;")
        obj = "o" if o == "o" else "co"
        fun = "sigc::mem_fun(%s, &C::m)" % obj
    elif k.startswith("slotobj:"):
        # the argument is an object of another (or the same) slot type; it is created from a lambda of literally its
        # own signature (always well-formed).  A slot's result is `void` or an object type (`slot::operator()` of an
        # empty slot returns `T_return()`).
        if p.adaptor != "none" or p.route == "sigconn" or not (p.fret == "void" or p.fret.endswith(":v")):
            raise ValueError("slotobj: no adaptor, no signal_connect, value or void result")
        pre = "sigc::slot<%s(%s)> so = [](%s) -> %s %s; " % (fr, ps, ps, fr, _body(p.fret))
        fun = {"l": "so", "c": "std::as_const(so)", "r": "std::move(so)"}[k.split(":")[1]]
    else:
        raise ValueError(k)
    ad = p.adaptor.split(":")
    if ad[0] == "hide":
        fun = "sigc::hide%s(%s)" % ("" if ad[1] == "last" else "<%s>" % ad[1], fun)
    elif ad[0] == "bind":
        bs = [] if ad[2] == "-" else ad[2].split(",")
        args = "".join(", tp::mk<%s>()" % CPP_BASE[b] for b in bs)
        fun = "sigc::bind%s(%s%s)" % ("" if ad[1] == "last" else "<%s>" % ad[1], fun, args)
    elif ad[0] == "retype":
        if k == "fn":
            fun = "sigc::ptr_fun(&f)"
        fun = "sigc::retype(%s)" % fun
    sg = "%s(%s)" % (cpp_type(p.sret), ", ".join(cpp_type(t) for t in p.sig))
    if p.route == "slot":
        stmt = "sigc::slot<%s> s = %s;" % (sg, fun)
    elif p.route == "connect":
        stmt = "sigc::signal<%s> sg; sg.connect(%s);" % (sg, fun)
    elif p.route == "accum":
        stmt = "sigc::signal<%s>::accumulated<tp::Acc> sg; sg.connect(%s);" % (sg, fun)
    elif p.route == "sigconn":
        if k == "fn":
            stmt = "sigc::signal<%s> sg; sigc::signal_connect(sg, &f);" % sg
        elif k.startswith("mem:"):
            stmt = "sigc::signal<%s> sg; sigc::signal_connect(sg, %s, &C::m);" % (sg, obj)
        else:
            raise ValueError("sigconn needs fn or mem")
    elif p.route.startswith("ep:"):
        _, c, a, f, o = p.route.split(":")
        if c not in EP_CLASSES or a not in EP_ACCS or f not in EP_FNS or o not in EP_OVERLOADS + ["any"]:
            raise ValueError(p.route)
        ty = "sigc::%s<%s>%s" % ("signal" if c == "sig" else "trackable_signal", sg,
                                 "::accumulated<tp::Acc>" if a == "acc" else "")
        member = "connect" if f == "connect" else "connect_first"
        if o == "any":
            stmt = "%s sg; sg.%s(%s);" % (ty, member, fun)
        else:
            par = "const S::slot_type&" if o == "c" else "S::slot_type&&"
            stmt = ("using S = %s; S sg; (sg.*static_cast<sigc::connection (S::*)(%s)>(&S::%s))(%s);"
                    % (ty, par, member, fun))
    else:
        raise ValueError(p.route)
    return decl, pre + stmt


def tu(probes, prelude="types_prelude.h"):
    """One translation unit for a list of probes.  Returns (text, {index: marker line number})."""
    out = ['#include "%s"' % prelude]
    marks = {}
    for i, p in enumerate(probes):
        decl, stmt = cpp(p)
        out.append("namespace n%d {" % i)
        out.extend(decl)
        out.append("void t() {")
        out.append("  " + stmt)
        marks[i] = len(out)
        out.append("}")
        out.append("}")
    return "\n".join(out) + "\n", marks


# --------------------------------------------------------------------------------------
# The monitor: the statement of C05 on one probe, from first principles
# --------------------------------------------------------------------------------------
# "standard implicit conversions" between the (cv-unqualified) object types of the universe, as an explicit table.
# The scoped enumeration E and the classes Xb / Xd (explicit conversion functions only) convert implicitly to
# themselves and to nothing else; nothing converts implicitly to them.
ARITH = ("int", "long", "double", "bool")
CONVERTIBLE = set()
for _a in BASES:
    CONVERTIBLE.add((_a, _a))
for _a in ARITH:
    for _b in ARITH:
        CONVERTIBLE.add((_a, _b))                      # integral/floating conversions, incl. to bool
for _p in ("pA", "pB", "pcA"):
    CONVERTIBLE.add((_p, "bool"))                      # boolean conversion of a pointer
CONVERTIBLE.add(("B", "A"))                            # derived to base (copy of the base subobject)
CONVERTIBLE.update({("pB", "pA"), ("pB", "pcA"), ("pA", "pcA")})   # derived-to-base pointer, added const
# conversions that exist only *explicitly* (static_cast / direct-initialisation); not "standard implicit conversions":
EXPLICIT_ONLY = {("E", a) for a in ARITH} | {(a, "E") for a in ARITH} | {("Xb", "bool"), ("Xd", "double")}
assert not (EXPLICIT_ONLY & CONVERTIBLE)
SAME_OR_DERIVED_OBJECT = {(b, b) for b in BASES} | {("B", "A")}    # (argument type, reference target type)


def library_passes(sig_param):
    """how the library documents passing a declared signature parameter to the slot (type_trait_take_t):
    value and const reference as a const lvalue, `T&` as a modifiable lvalue, `T&&` as an rvalue"""
    b, s = sig_param.split(":")
    return b, {"v": "const-lvalue", "c": "const-lvalue", "l": "lvalue", "r": "rvalue"}[s]


def position_category(fparam, arg_base, arg_how):
    """'ok' | 'reject:<why>' | 'unclassified' for one parameter position"""
    fb, fs = fparam.split(":")
    if fs in ("v", "c"):
        return "ok" if (arg_base, fb) in CONVERTIBLE else "reject:non-convertible parameter"
    if fs == "l":
        if arg_how in ("const-lvalue", "rvalue"):
            return "reject:non-const reference parameter from a value or const argument"
        # modifiable lvalue argument: binds only to the object itself or its base class subobject
        if (arg_base, fb) in SAME_OR_DERIVED_OBJECT:
            return "ok"
        return "reject:non-const reference parameter would bind to a converted value"
    # T&& parameter
    if (arg_base, fb) not in CONVERTIBLE:
        return "reject:non-convertible parameter"
    if {arg_base, fb} == {"pA", "pcA"}:
        return "unclassified"                          # similar pointer types: CWG 2352 corner
    if (arg_base, fb) in SAME_OR_DERIVED_OBJECT:
        if arg_how == "rvalue":
            return "ok"
        return "reject:non-convertible parameter (an rvalue reference does not bind an lvalue of its own type)"
    return "ok"                                        # different type: binds the converted temporary


def result_category(fret, sret):
    if sret == "void":
        return "ok" if fret == "void" else "unclassified"   # the statement does not name value→void explicitly
    if fret == "void":
        return "reject:incompatible result type"
    sb, ss = sret.split(":")
    fb, _ = fret.split(":")
    if ss != "v":
        return "unclassified"
    return "ok" if (fb, sb) in CONVERTIBLE else "reject:incompatible result type"


def statement_category(p):
    """'must_accept' | 'must_reject:<why>' | 'unclassified' — what C05's statement says about this probe."""
    k = p.kind
    if k.startswith("mem:"):
        _, o, q = k.split(":")
        if o == "c" and q in ("n", "v"):
            return "must_reject:non-const method on a const object"
    ad = p.adaptor.split(":")
    unclear = False
    # the arguments the functor is documented to receive
    args = [library_passes(s) for s in p.sig]
    if ad[0] == "hide":
        n = len(args)
        if n == 0:
            return "must_reject:arity mismatch"
        i = n - 1 if ad[1] == "last" else int(ad[1])
        if i >= n:
            return "must_reject:arity mismatch"
        if any(h == "rvalue" for _, h in args):
            unclear = True          # rvalue references through an adaptor's argument tuple: not named by the statement
        args = args[:i] + args[i + 1:]
    elif ad[0] == "bind":
        bs = [] if ad[2] == "-" else ad[2].split(",")
        n = len(args)
        i = n if ad[1] == "last" else int(ad[1])
        if i > n:
            return "must_reject:arity mismatch"
        if any(h == "rvalue" for _, h in args):
            unclear = True
        args = args[:i] + [(b, "bound") for b in bs] + args[i:]
    if len(args) != len(p.fpar):
        return "must_reject:arity mismatch"
    cats = []
    if ad[0] == "retype":
        unclear = True                                  # explicit casts: not "standard implicit conversions"
    else:
        for fp, (ab, how) in zip(p.fpar, args):
            if how == "bound":
                fb, fs = fp.split(":")
                if fs in ("v", "c"):
                    cats.append("ok" if (ab, fb) in CONVERTIBLE else "reject:non-convertible parameter")
                elif (ab, fb) not in CONVERTIBLE:
                    cats.append("reject:non-convertible parameter")
                else:
                    cats.append("unclassified")
            else:
                cats.append(position_category(fp, ab, how))
    cats.append(result_category(p.fret, p.sret))
    rej = [c for c in cats if c.startswith("reject:")]
    if rej:
        # a definite reason to reject stands whatever the unclear positions do
        return "must_" + rej[0]
    if unclear or "unclassified" in cats:
        return "unclassified"
    if k.startswith("mem:") and k.split(":")[2] in ("v", "cv"):
        return "unclassified"                           # volatile methods: not named by the statement
    if (p.route.startswith("ep:") and p.route.endswith(":r") and k.startswith("slotobj:") and k != "slotobj:r"
            and tuple(p.sig) == tuple(p.fpar) and p.sret == p.fret):
        # the `slot_type&&` overload, selected by hand, given an lvalue of the signal's *own* slot type: an rvalue
        # reference does not bind it — a matter of value categories, not of the typing the statement is about
        return "unclassified"
    if p.route == "sigconn":
        # signal_connect() deduces R(A...) from the signal and from the pointer: it is only *applicable* to an
        # identical signature; with conversions the statement's "accepted" clause is about slot / connect().
        exact = tuple(p.sig) == tuple(p.fpar) and p.sret == p.fret and (
            k == "fn" or k in ("mem:o:n", "mem:o:c", "mem:c:c"))
        return "must_accept" if exact else "unclassified"
    return "must_accept"


# --------------------------------------------------------------------------------------
# Library-free tables (binds / cast) and `passed` spies
# --------------------------------------------------------------------------------------

def table_tu(kind, rows, prelude="types_prelude.h"):
    """rows: list of (param token, expr token, model bool).  One static_assert per row, on its own line.
    kind in {'binds','cast'}"""
    out = ['#include "%s"' % prelude]
    marks = {}
    tmpl = "tp::binds_t" if kind == "binds" else "tp::cast_t"
    for i, (p, e, v) in enumerate(rows):
        out.append('static_assert(%s<%s, %s>::value == %s, "%s %s %s");'
                   % (tmpl, cpp_type(p), cpp_expr_decl(e), "true" if v else "false", kind, p, e))
        marks[len(out)] = i
    return "\n".join(out) + "\n", marks


def expr_as_forwarding_ref(tok):
    """the type `X&&` a forwarding-reference parameter has when called with expression `tok`"""
    b, c = tok.split(":")
    t = CPP_BASE[b]
    return {"l": t + "&", "cl": "const " + t + "&", "x": t + "&&", "cx": "const " + t + "&&", "p": t + "&&"}[c]


def spy_tu(rows, prelude="types_prelude.h"):
    """rows: list of (sig param token, model `passed` expr token).  A functor with a forwarding-reference
    operator() asserts the exact expression type that reaches it through slot<void(S)>."""
    out = ['#include "%s"' % prelude,
           "template<int N, typename Expected> struct Spy {",
           "  template<typename X> void operator()(X&& x) const {",
           '    static_assert(std::is_same<X&&, Expected>::value, "passed_as");',
           "  }",
           "};",
           "void t() {"]
    marks = {}
    for i, (s, e) in enumerate(rows):
        out.append("  { sigc::slot<void(%s)> s = Spy<%d, %s>(); }" % (cpp_type(s), i, expr_as_forwarding_ref(e)))
        marks[len(out)] = i
    out.append("}")
    return "\n".join(out) + "\n", marks


# --------------------------------------------------------------------------------------
# C20: the function type of the erased call pointer
# --------------------------------------------------------------------------------------
SITES = ["slotcall", "emitvalue", "emitvoid", "emitaccum"]


def c20_line(site, sret, sig):
    return "c20 %s R=%s S=%s" % (site, sret, ",".join(sig) or "-")


def fnty_cpp(s):
    """`int:v(rep*,int:c,A:l)` → C++ function pointer type"""
    m = re.match(r"^([^()]+)\((.*)\)$", s)
    r, ps = m.group(1), [x for x in m.group(2).split(",") if x]
    conv = lambda t: "sigc::internal::slot_rep*" if t == "rep*" else cpp_type(t)
    return "%s (*)(%s)" % (conv(r), ", ".join(conv(t) for t in ps))


def c20_tu(cases):
    """cases: list of dict(site, sret, sig, produced, castback).  No PCH (compiled with -fno-access-control,
    the emitters' `call_type` is private).  Each case: the model's types against the code's, and — the monitor —
    the code's own two types against each other."""
    out = ["#include <sigc++/sigc++.h>", "#include <type_traits>",
           "namespace tp { struct A { int a; }; struct B : A { int b; }; using pA = A*; using pB = B*; using pcA = const A*; "
           "enum class E : int { e0 = 3, e1 = 7 }; struct Xb { explicit operator bool() const; }; "
           "struct Xd { explicit operator double() const; }; }",
           "struct Acc { using result_type = int; template<typename I> int operator()(I, I) const { return 0; } };"]
    marks = {}
    for i, c in enumerate(cases):
        r = cpp_type(c["sret"])
        ps = ", ".join(cpp_type(t) for t in c["sig"])
        rps = r + (", " + ps if ps else "")
        out.append("namespace c%d {" % i)
        out.append("struct F { %s operator()(%s); };" % (r, ps))
        out.append("using produced = decltype(&sigc::internal::slot_call<F, %s>::call_it);" % rps)
        site = c["site"]
        if site in ("slotcall", "emitaccum"):
            out.append("using castback = typename sigc::slot<%s(%s)>::call_type;" % (r, ps))
        elif site == "emitvalue":
            out.append("using castback = typename sigc::internal::signal_emit<%s, void%s>::call_type;"
                       % (r, ", " + ps if ps else ""))
        elif site == "emitvoid":
            out.append("using castback = typename sigc::internal::signal_emit<void, void%s>::call_type;"
                       % (", " + ps if ps else ""))
        out.append('static_assert(std::is_same<produced, %s>::value, "model-produced");' % fnty_cpp(c["produced"]))
        marks[len(out)] = (i, "model-produced")
        out.append('static_assert(std::is_same<castback, %s>::value, "model-castback");' % fnty_cpp(c["castback"]))
        marks[len(out)] = (i, "model-castback")
        out.append('static_assert(std::is_same<produced, castback>::value, "monitor: call through original type");')
        marks[len(out)] = (i, "monitor")
        out.append("}")
    return "\n".join(out) + "\n", marks


def emit_probe(site, sret, sig):
    """a statement that instantiates the call site for this signature (emission / direct slot call)"""
    r = cpp_type(sret)
    ps = ", ".join(cpp_type(t) for t in sig)
    args = ", ".join("tp::mk<%s>()" % cpp_type(library_arg(t)) for t in sig)
    if site == "slotcall":
        return "sigc::slot<%s(%s)> s; s(%s);" % (r, ps, args)
    if site in ("emitvalue", "emitvoid"):
        return "sigc::signal<%s(%s)> sg; sg.emit(%s);" % (r, ps, args)
    return ("sigc::signal<%s(%s)>::accumulated<Acc> sg; sg.emit(%s);" % (r, ps, args))


def library_arg(t):
    """an argument expression type the user may pass to emit() for a declared parameter"""
    b, s = t.split(":")
    return {"v": b + ":v", "c": b + ":c", "l": b + ":l", "r": b + ":r"}[s]
