#include <sigc++/sigc++.h>
#include <iostream>
int main(){
  // D2: empty slot connected, removed by deferred sweep
  sigc::signal<void()> sig;
  sigc::connection c2;
  sig.connect(sigc::slot<void()>());           // empty slot
  sig.connect([&]{ c2.disconnect(); });        // disconnects another during emission -> deferred sweep
  c2 = sig.connect([]{});
  std::cout << "size before " << sig.size() << "\n";
  sig.emit();
  std::cout << "size after " << sig.size() << "\n";
}
