#include <sigc++/sigc++.h>
#include <iostream>
int main(){
  sigc::signal<void()> a; a.connect([]{});
  sigc::signal<void()> b = a;
  a = std::move(b);
  std::cout << "D5 a.size=" << a.size() << " b.size(after being moved from)=" << b.size() << "\n";
  sigc::signal<void()> c; c.connect([]{});
  sigc::signal<void()> d; d = std::move(c);
  std::cout << "normal move: d.size=" << d.size() << " c.size=" << c.size() << "\n";
}
