#include <sigc++/sigc++.h>
#include <iostream>
#include <string>
void f(std::string& s){ s += "x"; }
int g(std::string& s){ s += "y"; return 1; }
int main(){
  std::string str;
  { sigc::signal<void(std::string&)> sig; sig.connect(sigc::ptr_fun(&f)); sig.emit(str); std::cout << "direct: " << str << "\n"; }
  str.clear();
  { sigc::signal<void(std::string&)> sig; sig.connect(sigc::hide_return(&g)); sig.emit(str); std::cout << "hide_return outermost: " << str << "\n"; }
  str.clear();
  { sigc::signal<void(std::string&, int)> sig; sig.connect(sigc::hide(sigc::hide_return(&g))); sig.emit(str, 1); std::cout << "hide(hide_return(g)): '" << str << "'\n"; }
  str.clear();
  { sigc::signal<void(std::string&, int)> sig; sig.connect(sigc::hide(&f)); sig.emit(str, 1); std::cout << "hide(f): '" << str << "'\n"; }
  str.clear();
  { sigc::signal<int(std::string&, int)> sig; sig.connect(sigc::hide(sigc::bind_return(&f, 5))); sig.emit(str, 1); std::cout << "hide(bind_return(f,5)): '" << str << "'\n"; }
  str.clear();
  { sigc::signal<void(std::string&, int)> sig; sig.connect(sigc::hide(sigc::exception_catch(&f, []{}))); sig.emit(str, 1); std::cout << "hide(exception_catch(f)): '" << str << "'\n"; }
  str.clear();
  { sigc::signal<void(std::string&)> sig; sig.connect(sigc::bind(sigc::hide<-1>(sigc::hide_return(&g)),3)); sig.emit(str); std::cout << "bind(hide(hide_return(g)),3): '" << str << "'\n"; }
  str.clear();
  { sigc::slot<void(std::string&)> in = &f; sigc::signal<void(std::string&, int)> sig; sig.connect(sigc::hide(sigc::retype(in))); sig.emit(str, 1); std::cout << "hide(retype(slot f)): '" << str << "'\n"; }
}
