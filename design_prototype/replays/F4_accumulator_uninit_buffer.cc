#include <sigc++/sigc++.h>
#include <cstdio>
struct Sum { using result_type=int; template<class It> int operator()(It first, It last) const { int s=0; for(; first!=last; ++first) s += *first; return s; } };
int one(){ return 1; }
int main(){
  sigc::signal<int()>::accumulated<Sum> sig;
  auto c = sig.connect(&one);
  c.block();
  sig.connect(&one);
  int r = sig.emit();
  std::printf("sum with first slot blocked = %d (expected 1 if blocked position contributes default 0)\n", r);
  // also: all blocked
  sigc::signal<int()>::accumulated<Sum> sig2; auto c2 = sig2.connect(&one); c2.block();
  std::printf("sum with only slot blocked = %d\n", sig2.emit());
}
