#include <sigc++/sigc++.h>
#include <iostream>
#include <memory>
struct T : sigc::trackable { int v=0; };
void f3(T& a, T& b, int x){ a.v+=x; b.v+=x; }
void g3(int x, T& a, T& b){ a.v+=x; b.v+=x; }
int main(){
  {
    auto t1 = std::make_unique<T>(); auto t2 = std::make_unique<T>();
    sigc::slot<void(int)> s2 = sigc::bind(&g3, std::ref(*t1), std::ref(*t2));
    t2.reset();
    std::cout << "bind<-1>(g,ref t1,ref t2), destroy t2: slot.empty=" << s2.empty() << "\n";
  }
  {
    auto t1 = std::make_unique<T>(); auto t2 = std::make_unique<T>();
    sigc::slot<void(int)> s = sigc::bind<0>(&f3, std::ref(*t1), std::ref(*t2));
    t2.reset();
    std::cout << "D1 bind<0>(f,ref t1,ref t2), destroy t2: slot.empty=" << s.empty() << "\n";
    if(!s.empty()) s(1); // UAF under ASan
  }
}
