"""Runtime correspondence: generated programs of the operation language, run on the real library
(harness built from /repo's working tree, ASan+UBSan+LSan) and on the Lean model (`sigc_model run`),
traces diffed.  Used by the checks of C01-C04, C06-C08, C12-C15, C17-C20."""
import os
import re
import subprocess
import sys
from concurrent.futures import ThreadPoolExecutor

sys.path.insert(0, os.path.dirname(os.path.abspath(__file__)))
import common

HARNESS_SRC = os.path.join(common.VERIF, "harness", "sigc_harness.cc")
STRATS = ["sum", "sum", "twice", "rev", "never", "postinc", "stop20", "stop60", "wdid", "wdidxd", "wcidcxd", "wiixdd",
          "wdddi"]


# --------------------------------------------------------------------------------------------
# program generator
# --------------------------------------------------------------------------------------------

DEFAULT_W = {
    # trackables
    "newT": 4, "delT": 3, "notifyT": 1, "cpT": 1, "mvT": 1, "asgT": 1, "masgT": 1,
    # slots
    "mkS": 5, "mkS0": 1, "cpS": 2, "mvS": 1, "asgS": 2, "masgS": 1, "setS": 1, "delS": 2, "discS": 1,
    "blockS": 2, "blockedS?": 1, "emptyS?": 3, "boolS?": 1, "callS": 3,
    # signals
    "newG": 3, "cpG": 2, "mvG": 1, "asgG": 1, "masgG": 1, "delG": 2,
    "conn": 4, "connfn": 8, "emit": 8, "tryemit": 1, "clear": 1, "size?": 3, "emptyG?": 1, "blockedG?": 1,
    "blockG": 1,
    # connections
    "newC": 1, "cpC": 2, "asgC": 1, "delC": 1, "disc": 4, "connected?": 4, "emptyC?": 1, "blockedC?": 1,
    "blockC": 2,
    # scoped
    "newK0": 1, "newK": 2, "asgKC": 1, "mvK": 1, "masgK": 1, "swapK": 1, "relK": 1, "discK": 1, "delK": 2,
    "connectedK?": 1, "blockedK?": 1, "blockK": 1,
    "live?": 2,
}

DEFAULT_BODY_W = {
    "connfn": 4, "conn": 1, "disc": 5, "blockC": 3, "blockS": 1, "blockG": 1, "clear": 1, "delT": 3, "notifyT": 1,
    "delG": 2, "cpG": 1, "asgG": 1, "masgG": 1, "emit": 3, "tryemit": 1, "throw": 0, "callS": 1, "delS": 1,
    "discS": 1, "delC": 1, "delK": 1, "discK": 1, "connected?": 2, "emptyS?": 1, "asgS": 1, "mvS": 1, "setS": 1,
    "mkS": 1, "newT": 1, "blockedC?": 1, "cpC": 1, "relK": 1, "mvK": 1, "newK": 1, "mvG": 1,
}


class Profile:
    def __init__(self, **kw):
        self.w = dict(DEFAULT_W)
        self.bw = dict(DEFAULT_BODY_W)
        self.nT = 3
        self.nS = 4
        self.nG = 3
        self.nC = 6
        self.nK = 3
        self.nF = 8            # functor ids
        self.flavours = ["V", "I", "A", "TV", "TI", "TA", "AV", "TAV"]
        self.specs = {"fn": 6, "mem": 2, "sc": 1, "trk": 2, "trk2": 1, "bref": 1, "nest": 1, "fwd": 1, "ownT": 1, "ownK": 1, "ownG": 1}
        self.body_prob = 0.3   # probability that a functor id has a body
        self.body_len = (1, 4)
        self.len = (10, 60)
        self.maxdepth = 4
        self.prelude = 6       # number of "set the scene" operations at the start
        self.teardown_prob = 0.5
        self.empty_slot_connect = 0.05
        self.allow_only = None
        for k, v in kw.items():
            if k == "w":
                self.w.update(v)
            elif k == "bw":
                self.bw.update(v)
            else:
                setattr(self, k, v)
        if self.allow_only is not None:
            for k in list(self.w):
                if k not in self.allow_only:
                    self.w[k] = 0


class Gen:
    """mostly-valid programs: tracks an approximation of which names are alive and of which type"""

    def __init__(self, rng, prof):
        self.r = rng
        self.p = prof
        self.T = set()
        self.S = {}    # name -> 'I'|'V'
        self.G = {}    # name -> flavour
        self.Groot = {}   # signal name -> name of the newG it descends from (copies and moves keep it)
        self.C = set()
        self.K = set()
        self.lines = []
        self.bodies = {}
        # program mode: owning functors XOR connecting empty slots (docs/LANGUAGE.md)
        self.owners = bool(prof.specs.get("ownT", 0) or prof.specs.get("ownK", 0) or prof.specs.get("ownG", 0)) and rng.chance(0.5)

    # --- helpers
    def pick(self, pool, n, want_alive, alive_p=0.9):
        alive = sorted(pool) if not isinstance(pool, dict) else sorted(pool.keys())
        if want_alive:
            if alive and self.r.chance(alive_p):
                return self.r.choice(alive)
            return self.r.below(n)
        dead = [i for i in range(n) if i not in alive]
        if dead and self.r.chance(alive_p):
            return self.r.choice(dead)
        return self.r.below(n)

    def slot_type_for(self, fl):
        return "V" if fl in ("V", "TV", "AV", "TAV") else "I"

    def spec(self, want_void=None, level=None):
        kinds = [(k, w) for k, w in self.p.specs.items() if w > 0 and (self.owners or k not in ("ownT", "ownK", "ownG"))]
        k = self.r.weighted(kinds)
        fid = self.r.below(self.p.nF)
        if k == "fn":
            return "fn:%d" % fid
        if k == "sc":
            return "sc:%d:T%d" % (fid % 8, self.pick(self.T, self.p.nT, True))
        if k in ("mem", "trk", "bref"):
            return "%s:%d:T%d" % (k, fid, self.pick(self.T, self.p.nT, True))
        if k == "trk2":
            return "trk:%d:T%d:T%d" % (fid, self.pick(self.T, self.p.nT, True), self.pick(self.T, self.p.nT, True))
        if k == "ownT":
            return "ownT:%d:T%d" % (fid, self.pick(self.T, self.p.nT, True))
        if k == "ownK":
            return "ownK:%d:K%d" % (fid, self.pick(self.K, self.p.nK, True))
        if k == "ownG":
            return "ownG:%d:G%d" % (fid, self.pick(self.G, self.p.nG, True))
        if k == "nest":
            cands = [s for s, t in self.S.items() if want_void is None or t == ("V" if want_void else "I")
                     or (want_void and t == "I")]
            if cands:
                return "nest:S%d" % self.r.choice(sorted(cands))
            return "fn:%d" % fid
        if k == "fwd":
            cands = [g for g, fl in self.G.items()
                     if (want_void is None or (fl in ("V", "TV", "AV", "TAV")) == want_void) and (level is None or g < level)]
            if cands:
                return "fwd:G%d" % self.r.choice(sorted(cands))
            return "fn:%d" % fid
        return "fn:%d" % fid

    def one(self, w, in_body=False):
        """produce one op line from weight table w (updates the shadow only for top-level ops)"""
        r, p = self.r, self.p
        items = [(k, v) for k, v in w.items() if v > 0]
        op = r.weighted(items)
        b = str(r.below(2))
        if op == "newT":
            t = self.pick(self.T, p.nT, False)
            if not in_body:
                self.T.add(t)
            return "newT T%d" % t
        if op in ("delT", "notifyT"):
            t = self.pick(self.T, p.nT, True)
            if op == "delT" and not in_body:
                self.T.discard(t)
            return "%s T%d" % (op, t)
        if op in ("cpT", "mvT"):
            j = self.pick(self.T, p.nT, False)
            i = self.pick(self.T, p.nT, True)
            if not in_body and i in self.T:
                self.T.add(j)
            return "%s T%d T%d" % (op, j, i)
        if op in ("asgT", "masgT"):
            return "%s T%d T%d" % (op, self.pick(self.T, p.nT, True), self.pick(self.T, p.nT, True))
        if op == "mkS":
            i = self.pick(self.S, p.nS, False)
            ty = r.choice(["I", "I", "V"])
            sp = self.spec(want_void=(ty == "V"))
            if not in_body and i not in self.S:
                self.S[i] = ty
            return "mkS S%d %s %s" % (i, ty, sp)
        if op == "mkS0":
            i = self.pick(self.S, p.nS, False)
            ty = r.choice(["I", "V"])
            if not in_body and i not in self.S:
                self.S[i] = ty
            return "mkS0 S%d %s" % (i, ty)
        if op in ("cpS", "mvS"):
            j = self.pick(self.S, p.nS, False)
            i = self.pick(self.S, p.nS, True)
            if not in_body and i in self.S and j not in self.S:
                self.S[j] = self.S[i]
            return "%s S%d S%d" % (op, j, i)
        if op in ("asgS", "masgS"):
            j = self.pick(self.S, p.nS, True)
            same = [s for s in self.S if self.S.get(s) == self.S.get(j)]
            i = r.choice(sorted(same)) if same and r.chance(0.85) else self.pick(self.S, p.nS, True)
            return "%s S%d S%d" % (op, j, i)
        if op == "setS":
            i = self.pick(self.S, p.nS, True)
            return "setS S%d %s" % (i, self.spec(want_void=(self.S.get(i) == "V")))
        if op in ("delS", "discS", "blockedS?", "emptyS?", "boolS?"):
            i = self.pick(self.S, p.nS, True)
            if op == "delS" and not in_body:
                self.S.pop(i, None)
            return "%s S%d" % (op, i)
        if op == "blockS":
            return "blockS S%d %s" % (self.pick(self.S, p.nS, True), b)
        if op == "callS":
            return "callS S%d %d" % (self.pick(self.S, p.nS, True), r.below(10))
        if op == "newG":
            i = self.pick(self.G, p.nG, False)
            fl = r.choice(p.flavours)
            if not in_body and i not in self.G:
                self.G[i] = fl
                self.Groot[i] = i
            return "newG G%d %s" % (i, fl)
        if op in ("cpG", "mvG"):
            j = self.pick(self.G, p.nG, False)
            i = self.pick(self.G, p.nG, True)
            if not in_body and i in self.G and j not in self.G:
                self.G[j] = self.G[i]
                self.Groot[j] = self.Groot.get(i, i)
            return "%s G%d G%d" % (op, j, i)
        if op in ("asgG", "masgG"):
            j = self.pick(self.G, p.nG, True)
            # assignment is only defined between signal objects descending from the same `newG` (same level):
            # mostly pick another member of j's family, sometimes j itself (self-assignment), sometimes anything
            family = [g for g in self.G if g != j and self.Groot.get(g, g) == self.Groot.get(j, j)
                      and self.G.get(g) == self.G.get(j)]
            same = [g for g in self.G if self.G.get(g) == self.G.get(j)]
            if family and r.chance(0.7):
                i = r.choice(sorted(family))
            elif same and r.chance(0.6):
                i = r.choice(sorted(same))
            else:
                i = self.pick(self.G, p.nG, True)
            return "%s G%d G%d" % (op, j, i)
        if op in ("delG", "clear", "size?", "emptyG?", "blockedG?"):
            i = self.pick(self.G, p.nG, True)
            if op == "delG" and not in_body:
                self.G.pop(i, None)
            return "%s G%d" % (op, i)
        if op == "blockG":
            return "blockG G%d %s" % (self.pick(self.G, p.nG, True), b)
        if op == "conn":
            g = self.pick(self.G, p.nG, True)
            want = self.slot_type_for(self.G.get(g, "I"))
            cands = [s for s, t in self.S.items() if t == want]
            s = r.choice(sorted(cands)) if cands and r.chance(0.9) else self.pick(self.S, p.nS, True)
            k = r.below(p.nC)
            if not in_body:
                self.C.add(k)
            return "%s C%d G%d S%d" % (r.choice(["conn", "conn", "connf", "connmv", "connfmv"]), k, g, s)
        if op == "connfn":
            g = self.pick(self.G, p.nG, True)
            k = r.below(p.nC)
            if not in_body:
                self.C.add(k)
            fl = self.G.get(g, "I")
            return "%s C%d G%d %s" % (r.choice(["connfn", "connfn", "connffn"]), k, g,
                                        self.spec(want_void=(fl in ("V", "TV", "AV", "TAV")), level=g))
        if op in ("emit", "tryemit"):
            g = self.pick(self.G, p.nG, True)
            fl = self.G.get(g, "I")
            if fl in ("A", "TA") and r.chance(0.7):
                return "%s G%d %d %s" % (op, g, r.below(10), r.choice(STRATS))
            if fl in ("AV", "TAV") and r.chance(0.7):
                # (no threshold strategies: a void accumulator sees no values)
                return "%s G%d %d %s" % (op, g, r.below(10), r.choice([x for x in STRATS if not x.startswith("stop")]))
            if r.chance(0.04):
                # malformed stream: any strategy on any flavour (ignored without accumulator; a threshold on a void
                # accumulator is the plain walk) — the language is total
                return "%s G%d %d %s" % (op, g, r.below(10), r.choice(STRATS))
            return "%s G%d %d" % (op, g, r.below(10))
        if op == "throw":
            return "throw"
        if op == "newC":
            k = self.pick(self.C, p.nC, False)
            if not in_body:
                self.C.add(k)
            return "newC C%d" % k
        if op == "cpC":
            j = self.pick(self.C, p.nC, False)
            i = self.pick(self.C, p.nC, True)
            if not in_body and i in self.C:
                self.C.add(j)
            return "cpC C%d C%d" % (j, i)
        if op == "asgC":
            return "asgC C%d C%d" % (self.pick(self.C, p.nC, True), self.pick(self.C, p.nC, True))
        if op in ("delC", "disc", "connected?", "emptyC?", "blockedC?"):
            i = self.pick(self.C, p.nC, True)
            if op == "delC" and not in_body:
                self.C.discard(i)
            return "%s C%d" % (op, i)
        if op == "blockC":
            return "blockC C%d %s" % (self.pick(self.C, p.nC, True), b)
        if op == "newK0":
            k = self.pick(self.K, p.nK, False)
            if not in_body:
                self.K.add(k)
            return "newK0 K%d" % k
        if op == "newK":
            k = self.pick(self.K, p.nK, False)
            c = self.pick(self.C, p.nC, True)
            if not in_body and c in self.C:
                self.K.add(k)
            return "newK K%d C%d" % (k, c)
        if op == "asgKC":
            return "asgKC K%d C%d" % (self.pick(self.K, p.nK, True), self.pick(self.C, p.nC, True))
        if op == "mvK":
            j = self.pick(self.K, p.nK, False)
            i = self.pick(self.K, p.nK, True)
            if not in_body and i in self.K:
                self.K.add(j)
            return "mvK K%d K%d" % (j, i)
        if op in ("masgK", "swapK"):
            return "%s K%d K%d" % (op, self.pick(self.K, p.nK, True), self.pick(self.K, p.nK, True))
        if op == "relK":
            c = r.below(p.nC)
            k = self.pick(self.K, p.nK, True)
            if not in_body and k in self.K:
                self.C.add(c)
            return "relK C%d K%d" % (c, k)
        if op in ("discK", "delK", "connectedK?", "blockedK?"):
            i = self.pick(self.K, p.nK, True)
            if op == "delK" and not in_body:
                self.K.discard(i)
            return "%s K%d" % (op, i)
        if op == "blockK":
            return "blockK K%d %s" % (self.pick(self.K, p.nK, True), b)
        if op == "live?":
            return "live? %d" % r.below(p.nF)
        return "live? 0"

    def program(self):
        r, p = self.r, self.p
        # prelude: make the scene (signals, trackables) so that most later ops hit live objects
        for _ in range(p.prelude):
            self.lines.append(self.one({k: v for k, v in {"newT": 3 if p.w.get("newT") else 0,
                                                           "newG": 4 if p.w.get("newG") else 0,
                                                           "mkS": 2 if p.w.get("mkS") else 0,
                                                           "connfn": 2 if p.w.get("connfn") else 0}.items()} or p.w))
        n = p.len[0] + r.below(p.len[1] - p.len[0] + 1)
        for _ in range(n):
            if not self.owners and r.chance(p.empty_slot_connect) and self.G and p.w.get("conn"):
                # connect an empty / invalidated slot (K1/F2 territory): mkS0 + conn
                i = self.pick(self.S, p.nS, False)
                g = self.pick(self.G, p.nG, True)
                ty = self.slot_type_for(self.G.get(g, "I"))
                if i not in self.S:
                    self.S[i] = ty
                    self.lines.append("mkS0 S%d %s" % (i, ty))
                    k = r.below(p.nC)
                    self.C.add(k)
                    self.lines.append("conn C%d G%d S%d" % (k, g, i))
                    continue
            self.lines.append(self.one(p.w))
        if r.chance(p.teardown_prob):
            # explicit teardown in random order with occasional operations in between
            objs = [("delT T%d" % t) for t in sorted(self.T)] + [("delS S%d" % s) for s in sorted(self.S)] \
                + [("delG G%d" % g) for g in sorted(self.G)] + [("delC C%d" % c) for c in sorted(self.C)] \
                + [("delK K%d" % k) for k in sorted(self.K)]
            for o in r.shuffle(objs):
                self.lines.append(o)
                if r.chance(0.25):
                    self.lines.append(self.one({k: v for k, v in p.w.items()
                                                if k in ("emit", "connected?", "emptyS?", "size?", "callS", "disc",
                                                         "blockC", "live?", "connectedK?") and v > 0}
                                               or {"live?": 1}, in_body=True))
        # bodies
        for fid in range(p.nF):
            if r.chance(p.body_prob):
                ln = p.body_len[0] + r.below(p.body_len[1] - p.body_len[0] + 1)
                body = [self.one(p.bw, in_body=True) for _ in range(ln)]
                # `emit` directly before `throw`: the harness performs every other such emission during
                # stack unwinding (from a destructor), see sigc_harness.cc Interp::leaf
                if p.bw.get("emit", 0) > 0 and self.G:
                    body2 = []
                    for l in body:
                        if l == "throw" and not (body2 and body2[-1].startswith("emit ")) and r.chance(0.3):
                            body2.append(self.one({"emit": 1}, in_body=True))
                        body2.append(l)
                    body = body2
                self.bodies[fid] = body
        out = ["maxdepth %d" % p.maxdepth] + (["owners"] if self.owners else [])
        for fid, b in sorted(self.bodies.items()):
            out.append("body %d" % fid)
            out += ["  " + l for l in b]
            out.append("end")
        out += self.lines
        return "\n".join(out) + "\n"


def gen_program(rng, prof):
    return Gen(rng, prof).program()


# --------------------------------------------------------------------------------------------
# running both sides
# --------------------------------------------------------------------------------------------

def build_main_harness(kind="asan"):
    if kind == "asan":
        return common.build_harness(HARNESS_SRC, "main")
    if kind == "tsan":
        return common.build_harness(HARNESS_SRC, "tsan", cxx="clang++-14",
                                    flags=["-std=c++17", "-O1", "-g", "-fsanitize=thread", "-DHARNESS_NO_NEW_OVERRIDE"])
    raise ValueError(kind)


SAN_ENV = {"ASAN_OPTIONS": "detect_leaks=1:abort_on_error=0:exitcode=23:allocator_may_return_null=1:detect_stack_use_after_return=0",
           "UBSAN_OPTIONS": "print_stacktrace=1:halt_on_error=1:exitcode=24",
           "LSAN_OPTIONS": "exitcode=25"}


def classify_stderr(rc, err):
    if rc == 0 and not err.strip():
        return None
    m = re.search(r"ERROR: AddressSanitizer: ([\w-]+)", err)
    if m:
        return "asan:" + m.group(1)
    if "LeakSanitizer" in err:
        return "lsan:leak"
    if "runtime error" in err:
        m = re.search(r"runtime error: ([^\n]{0,80})", err)
        return "ubsan:" + (m.group(1) if m else "")
    if "ThreadSanitizer" in err:
        m = re.search(r"WARNING: ThreadSanitizer: ([\w -]+)", err)
        return "tsan:" + (m.group(1).strip() if m else "")
    if rc == 124:
        return "timeout"
    if rc != 0:
        return "crash:rc=%d" % rc
    return None


def run_real(exe, progs, jobs=common.NCPU, timeout=60, args=()):
    """one process per program (a sanitizer abort must not hide later programs).
    returns list of (trace_text, verdict or None, stderr_tail)"""
    env = dict(os.environ)
    env.update(SAN_ENV)

    def one(p):
        try:
            r = subprocess.run([exe] + list(args), input=p, stdout=subprocess.PIPE, stderr=subprocess.PIPE, text=True,
                               timeout=timeout, env=env, errors="replace")
            rc, out, err = r.returncode, r.stdout, r.stderr
        except subprocess.TimeoutExpired as ex:
            rc, out, err = 124, (ex.stdout or ""), "timeout"
            if isinstance(out, bytes):
                out = out.decode(errors="replace")
        v = classify_stderr(rc, err)
        return out, v, err[-3000:]

    with ThreadPoolExecutor(max_workers=jobs) as ex:
        return list(ex.map(one, progs))


def run_model(progs, jobs=common.NCPU, mode="run"):
    """batch the programs through `sigc_model run` (mechanism model) or `sigc_model spec` (statement-level
    specification); returns list of trace texts"""
    drv = common.driver()
    n = len(progs)
    if n == 0:
        return []
    chunk = max(1, (n + jobs - 1) // jobs)
    chunks = [list(range(i, min(n, i + chunk))) for i in range(0, n, chunk)]

    def one(idx):
        text = "".join("=== %d\n%s" % (i, progs[i] if progs[i].endswith("\n") else progs[i] + "\n") for i in idx)
        try:
            r = subprocess.run([drv, mode], input=text, stdout=subprocess.PIPE, stderr=subprocess.PIPE, text=True,
                               timeout=1200)
        except subprocess.TimeoutExpired:
            # (cannot happen for programs of the language: the budget bounds their work; never hang a check)
            return {i: "MODEL-TIMEOUT\n" for i in idx}
        res = {}
        cur = None
        for line in r.stdout.split("\n"):
            if line.startswith("=== "):
                cur = int(line[4:])
                res[cur] = []
            elif cur is not None and line != "":
                res[cur].append(line)
        return {i: "\n".join(res.get(i, ["MODEL-MISSING"])) + "\n" for i in idx}

    out = {}
    with ThreadPoolExecutor(max_workers=jobs) as ex:
        for d in ex.map(one, chunks):
            out.update(d)
    return [out[i] for i in range(n)]


IGNORED = re.compile(r"^\d+ allocs\? => ")


def canon(trace):
    return [l for l in trace.split("\n") if l and not IGNORED.match(l)]


def first_diff(a, b):
    la, lb = canon(a), canon(b)
    for i in range(max(len(la), len(lb))):
        x = la[i] if i < len(la) else "<end>"
        y = lb[i] if i < len(lb) else "<end>"
        if x != y:
            return i, x, y
    return None


def spec_diff(impl, spec):
    """first line where the implementation's trace is not allowed by the specification's
    (`=> *` in the specification allows any result of that operation)"""
    la, lb = canon(impl), canon(spec)
    for i in range(max(len(la), len(lb))):
        x = la[i] if i < len(la) else "<end>"
        y = lb[i] if i < len(lb) else "<end>"
        if x == y:
            continue
        if y.endswith(" => *") and x.rsplit(" => ", 1)[0] == y[:-5]:
            continue
        return i, x, y
    return None


def known_label(impl, spec_pure):
    """which known finding explains a difference between the implementation and the pure specification"""
    d = spec_diff(impl, spec_pure)
    if d is None:
        return None
    words = (d[1].split(" ") + ["?", "?"])
    op = words[1]
    if op in ("size?", "emptyG?"):
        return "K1 size()/empty() count a connected empty slot only until the next deferred sweep (at: %s)" % d[1]
    return "K2 accumulated emission nested in an emission of the same list sees the outer end markers as extra positions (at: %s)" % d[1]


def compare(exe, progs, jobs=common.NCPU, args=(), with_spec=True):
    """returns list of dicts {i, input, impl, model, spec, verdict, diff (impl vs mechanism model),
    sdiff (impl vs specification with the known findings K1/K2 reproduced), known (label or None:
    the implementation differs from the pure specification exactly as a known finding says)}"""
    real = run_real(exe, progs, jobs, args=args)
    model = run_model(progs, jobs)
    spec = run_model(progs, jobs, mode="spec-known") if with_spec else [None] * len(progs)
    pure = run_model(progs, jobs, mode="spec") if with_spec else [None] * len(progs)
    res = []
    for i, p in enumerate(progs):
        out, verdict, err = real[i]
        d = first_diff(out, model[i])
        sd = spec_diff(out, spec[i]) if with_spec else None
        kn = known_label(out, pure[i]) if (with_spec and sd is None and verdict is None) else None
        res.append({"i": i, "input": p, "impl": out, "model": model[i], "spec": spec[i], "verdict": verdict,
                    "stderr": err, "diff": d, "sdiff": sd, "known": kn})
    return res


# --------------------------------------------------------------------------------------------
# shrinking (delta debugging over lines)
# --------------------------------------------------------------------------------------------

def shrink(exe, prog, still_fails, budget=200):
    """greedy line removal; still_fails(result_dict) -> bool"""
    lines = prog.rstrip("\n").split("\n")

    def ok_structure(ls):
        depth = 0
        for l in ls:
            s = l.strip()
            if s.startswith("body "):
                if depth:
                    return False
                depth = 1
            elif s == "end":
                if not depth:
                    return False
                depth = 0
        return depth == 0

    def test(ls):
        if not ok_structure(ls):
            return False
        r = compare(exe, ["\n".join(ls) + "\n"], jobs=1)[0]
        return still_fails(r)

    n = 2
    used = 0
    while len(lines) >= 2 and used < budget:
        size = max(1, len(lines) // n)
        removed = False
        for start in range(0, len(lines), size):
            cand = lines[:start] + lines[start + size:]
            used += 1
            if cand and test(cand):
                lines = cand
                n = max(n - 1, 2)
                removed = True
                break
            if used >= budget:
                break
        if not removed:
            if size == 1:
                break
            n = min(len(lines), n * 2)
    return "\n".join(lines) + "\n"
