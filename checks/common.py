"""Shared machinery of the /verif checks (see DESIGN.md §3.4).

Everything here is deterministic given VERIF_SEED.  Nothing is kept under /tmp:
all scratch lives in /verif/.cache (git-ignored) and is rebuilt when missing.
"""
import fcntl
import hashlib
import json
import os
import re
import shutil
import subprocess
import sys
import time

VERIF = os.path.dirname(os.path.dirname(os.path.abspath(__file__)))
REPO = os.environ.get("SIGC_REPO", "/repo")
LEAN = os.path.join(VERIF, "lean")
CACHE = os.path.join(VERIF, ".cache")
# (VERIF_OUT_DIR redirects evidence and replay files, e.g. when a check is run against a seeded mutation)
_OUT = os.environ.get("VERIF_OUT_DIR")
EVIDENCE = os.path.join(_OUT, "evidence") if _OUT else os.path.join(VERIF, "evidence")
REPLAYS = os.path.join(_OUT, "replays_out") if _OUT else os.path.join(VERIF, "replays_out")
NCPU = os.cpu_count() or 4

ALLOWED_AXIOMS = {"propext", "Quot.sound", "Classical.choice"}
FORBIDDEN = re.compile(
    r"\bsorry\b|\badmit\b|^\s*axiom\s|native_decide|bv_decide|implemented_by|\bunsafe\s|maxHeartbeats\s+0\b"
)


def sh(cmd, cwd=None, timeout=None, env=None, input=None):
    """run a command, return (rc, stdout+stderr)"""
    e = dict(os.environ)
    if env:
        e.update(env)
    try:
        p = subprocess.run(cmd, cwd=cwd, shell=isinstance(cmd, str), stdout=subprocess.PIPE,
                           stderr=subprocess.STDOUT, timeout=timeout, env=e, input=input,
                           text=True, errors="replace")
        return p.returncode, p.stdout
    except subprocess.TimeoutExpired as ex:
        out = ex.stdout or ""
        if isinstance(out, bytes):
            out = out.decode(errors="replace")
        return 124, out + "\nTIMEOUT"


def ensure_dir(d):
    os.makedirs(d, exist_ok=True)
    return d


class FileLock:
    def __init__(self, name):
        ensure_dir(CACHE)
        self.path = os.path.join(CACHE, name + ".lock")

    def __enter__(self):
        self.f = open(self.path, "w")
        fcntl.flock(self.f, fcntl.LOCK_EX)
        return self

    def __exit__(self, *a):
        fcntl.flock(self.f, fcntl.LOCK_UN)
        self.f.close()


# --------------------------------------------------------------------------------------
# Lean side: build, forbidden-token scan, axiom audit
# --------------------------------------------------------------------------------------

def strip_lean_comments(src):
    """remove -- line comments and (nested) /- -/ block comments; keeps string literals naive"""
    out = []
    i, n, depth = 0, len(src), 0
    while i < n:
        if src.startswith("/-", i):
            depth += 1
            i += 2
        elif depth and src.startswith("-/", i):
            depth -= 1
            i += 2
        elif depth:
            if src[i] == "\n":
                out.append("\n")
            i += 1
        elif src.startswith("--", i):
            while i < n and src[i] != "\n":
                i += 1
        else:
            out.append(src[i])
            i += 1
    return "".join(out)


def lean_files():
    res = []
    for root, _, files in os.walk(LEAN):
        if ".lake" in root:
            continue
        for f in files:
            if f.endswith(".lean"):
                res.append(os.path.join(root, f))
    return sorted(res)


def forbidden_scan():
    hits = []
    for f in lean_files():
        txt = strip_lean_comments(open(f).read())
        for ln, line in enumerate(txt.split("\n"), 1):
            if FORBIDDEN.search(line):
                hits.append("%s:%d: %s" % (os.path.relpath(f, VERIF), ln, line.strip()[:120]))
    return hits


def lean_build(module=None):
    """lake build of the driver and of one property module with everything it imports (or of the whole
    library when module is None).  Returns (ok, log).  Building per module keeps one property's broken
    proof from masking the others."""
    targets = ["sigc_model"] + ([module] if module else ["Sigc"])
    with FileLock("lake"):
        rc, out = sh(["lake", "build"] + targets, cwd=LEAN, timeout=3600)
    return rc == 0, out


def driver():
    return os.path.join(LEAN, ".lake", "build", "bin", "sigc_model")


def theorems_in(module):
    """names of the `theorem`s declared in lean/<module path>.lean, fully qualified"""
    path = os.path.join(LEAN, module.replace(".", "/") + ".lean")
    if not os.path.exists(path):
        return []
    txt = strip_lean_comments(open(path).read())
    ns = []
    names = []
    for line in txt.split("\n"):
        m = re.match(r"\s*namespace\s+(\S+)", line)
        if m:
            ns.append(m.group(1))
            continue
        m = re.match(r"\s*end\s+(\S+)", line)
        if m and ns and ns[-1] == m.group(1):
            ns.pop()
            continue
        m = re.match(r"\s*(?:@\[[^\]]*\]\s*)*(?:private\s+|protected\s+)?theorem\s+([^\s:({\[]+)", line)
        if m:
            names.append(".".join(ns + [m.group(1)]))
    return names


def audit_axioms(module, names):
    """#print axioms for each name.  Returns {name: [axioms] | 'ERROR: ...'}"""
    ensure_dir(CACHE)
    tmp = os.path.join(CACHE, "audit_%s_%d.lean" % (module.replace(".", "_"), os.getpid()))
    with open(tmp, "w") as f:
        f.write("import %s\n" % module)
        for n in names:
            f.write("#print axioms %s\n" % n)
    rc, out = sh(["lake", "env", "lean", tmp], cwd=LEAN, timeout=1200)
    os.unlink(tmp)
    res = {}
    flat = re.sub(r"\n\s+", " ", out)
    for n in names:
        m = re.search(r"'%s' depends on axioms: \[([^\]]*)\]" % re.escape(n), flat)
        if m:
            res[n] = [a.strip() for a in m.group(1).split(",") if a.strip()]
        elif re.search(r"'%s' does not depend on any axioms" % re.escape(n), flat):
            res[n] = []
        else:
            res[n] = "ERROR: " + out[-400:]
    return res


def leanchecker(module):
    rc, out = sh(["lake", "env", "leanchecker", module], cwd=LEAN, timeout=3600)
    return rc == 0, out[-600:]


def proof_obligations(module, required, thorough=False, extra_modules=()):
    """Step 1 of every check.  Returns dict with obligations/discharged/failed/axioms.
    `extra_modules`: further property files whose theorems this property relies on (e.g. the refinement
    theorem): they are built and audited too and count as obligations of this check."""
    t0 = time.time()
    ok, log = lean_build(module)
    for em in extra_modules:
        if ok:
            ok, log = lean_build(em)
    res = {"module": module, "build_ok": ok, "failed": [], "axioms": {}, "obligations": 0,
           "discharged": 0, "forbidden_hits": [], "leanchecker": None}
    if not ok:
        res["failed"].append("lake build failed: " + log[-1500:])
        res["obligations"] = max(1, len(required))
        return res
    hits = forbidden_scan()
    res["forbidden_hits"] = hits
    names = theorems_in(module)
    extra_names = {em: theorems_in(em) for em in extra_modules}
    allnames = names + [n for em in extra_modules for n in extra_names[em]]
    missing = [r for r in required if r not in allnames]
    for m in missing:
        res["failed"].append("required theorem missing: " + m)
    ax = audit_axioms(module, names) if names else {}
    for em in extra_modules:
        if extra_names[em]:
            ax.update(audit_axioms(em, extra_names[em]))
    names = allnames
    res["axioms"] = ax
    res["obligations"] = len(names) + len(missing)
    for n, a in ax.items():
        if isinstance(a, str):
            res["failed"].append("%s: %s" % (n, a[:300]))
        elif not set(a) <= ALLOWED_AXIOMS:
            res["failed"].append("%s depends on disallowed axioms %s" % (n, a))
        else:
            res["discharged"] += 1
    if hits:
        res["failed"].append("forbidden tokens in Lean sources: " + "; ".join(hits[:5]))
        res["discharged"] = 0
    if thorough and ok:
        for m in [module] + list(extra_modules):
            lok, lout = leanchecker(m)
            res["leanchecker"] = "ok" if lok and res.get("leanchecker") in (None, "ok") else (res.get("leanchecker") or lout)
            if not lok:
                res["failed"].append("leanchecker rejected " + m + ": " + lout)
    res["wall_s"] = round(time.time() - t0, 2)
    return res


# --------------------------------------------------------------------------------------
# C++ side: build the library from /repo's current working tree
# --------------------------------------------------------------------------------------

LIB_CC = ["sigc++/connection.cc", "sigc++/scoped_connection.cc", "sigc++/signal_base.cc",
          "sigc++/trackable.cc", "sigc++/functors/slot_base.cc"]


def repo_hash(extra=""):
    h = hashlib.sha256()
    base = os.path.join(REPO, "sigc++")
    for root, dirs, files in sorted(os.walk(base)):
        dirs.sort()
        for f in sorted(files):
            if f.endswith((".h", ".cc")):
                p = os.path.join(root, f)
                h.update(p.encode())
                h.update(open(p, "rb").read())
    h.update(open(os.path.join(REPO, "sigc++config.h.cmake"), "rb").read())
    h.update(extra.encode())
    return h.hexdigest()[:16]


def gen_config_header(incdir, disable_deprecated=False):
    """sigc++config.h from /repo/sigc++config.h.cmake (what CMake's configure_file does)."""
    src = open(os.path.join(REPO, "sigc++config.h.cmake")).read()
    vals = {"SIGCXX_MAJOR_VERSION": "3", "SIGCXX_MINOR_VERSION": "4", "SIGCXX_MICRO_VERSION": "0"}
    try:
        cm = open(os.path.join(REPO, "CMakeLists.txt")).read()
        for k in list(vals):
            m = re.search(r"set\s*\(\s*%s\s+(\d+)" % k, cm)
            if m:
                vals[k] = m.group(1)
    except OSError:
        pass
    out = []
    for line in src.split("\n"):
        m = re.match(r"#cmakedefine\s+(\w+)(.*)", line)
        if m:
            k = m.group(1)
            if k == "SIGCXX_DISABLE_DEPRECATED":
                out.append("#define SIGCXX_DISABLE_DEPRECATED 1" if disable_deprecated
                           else "/* #undef SIGCXX_DISABLE_DEPRECATED */")
            else:
                out.append("#define %s %s" % (k, vals.get(k, "0")))
        else:
            out.append(line)
    ensure_dir(incdir)
    p = os.path.join(incdir, "sigc++config.h")
    new = "\n".join(out)
    if not os.path.exists(p) or open(p).read() != new:
        open(p, "w").write(new)
    return incdir


def prune_cache(keep_prefix_current, pattern, keep=3):
    """remove old build directories of the same family (disk is limited)"""
    if not os.path.isdir(CACHE):
        return
    def mtime(d):
        try:
            return os.path.getmtime(os.path.join(CACHE, d))
        except OSError:
            return 0
    fam = sorted((d for d in os.listdir(CACHE) if d.startswith(pattern)), key=mtime)
    now = time.time()
    for d in fam[:-keep]:
        # never remove a build another check running at the same time may be using (built in the last 3 hours)
        if d != keep_prefix_current and now - mtime(d) > 3 * 3600:
            shutil.rmtree(os.path.join(CACHE, d), ignore_errors=True)


def parallel(cmds, jobs=NCPU, timeout=600):
    """run list of (key, argv, cwd) in parallel; returns {key: (rc, out)}"""
    from concurrent.futures import ThreadPoolExecutor
    res = {}

    def one(c):
        key, argv, cwd = c
        return key, sh(argv, cwd=cwd, timeout=timeout)

    with ThreadPoolExecutor(max_workers=jobs) as ex:
        for key, r in ex.map(one, cmds):
            res[key] = r
    return res


def build_harness(source, tag, cxx="g++", flags=None, disable_deprecated=False, extra_sources=(),
                  extra_key=""):
    """Compile `source` (+ the five library .cc of the *current* /repo tree) into an executable.
    Cached by hash(repo sources, harness source, flags).  Returns (exe or None, log)."""
    flags = flags or ["-std=c++17", "-O1", "-g", "-fsanitize=address,undefined",
                      "-fno-sanitize-recover=all", "-fno-omit-frame-pointer"]
    srcs = [source] + list(extra_sources)
    key = repo_hash(cxx + " ".join(flags) + str(disable_deprecated) + extra_key
                    + "".join(open(s).read() for s in srcs))
    d = os.path.join(CACHE, "h_%s_%s" % (tag, key))
    exe = os.path.join(d, "harness")
    with FileLock("build_" + tag):
        if os.path.exists(exe):
            os.utime(d)
            return exe, "cached"
        prune_cache("h_%s_%s" % (tag, key), "h_%s_" % tag)
        ensure_dir(d)
        inc = gen_config_header(os.path.join(d, "inc"), disable_deprecated)
        common = [cxx] + flags + ["-I", inc, "-I", REPO, "-DSIGC_BUILD"]
        cmds = []
        objs = []
        for i, s in enumerate([os.path.join(REPO, c) for c in LIB_CC] + srcs):
            o = os.path.join(d, "o%d.o" % i)
            objs.append(o)
            cmds.append((o, common + ["-c", s, "-o", o], d))
        res = parallel(cmds)
        log = ""
        for o, (rc, out) in res.items():
            if rc != 0:
                log += out[-3000:]
        if log:
            shutil.rmtree(d, ignore_errors=True)
            return None, log
        rc, out = sh([cxx] + flags + objs + ["-o", exe, "-lpthread"], cwd=d)
        if rc != 0:
            shutil.rmtree(d, ignore_errors=True)
            return None, out[-3000:]
        for o in objs:
            os.unlink(o)
    return exe, "built"


# --------------------------------------------------------------------------------------
# Known findings, evidence, verdict
# --------------------------------------------------------------------------------------

def known_findings(pid):
    p = os.path.join(VERIF, "known_findings.json")
    if not os.path.exists(p):
        return []
    return [e for e in json.load(open(p))["findings"] if pid in e.get("properties", [e.get("property")])]


def write_replay(pid, name, payload):
    ensure_dir(REPLAYS)
    p = os.path.join(REPLAYS, "%s_%s.json" % (pid, name))
    with open(p, "w") as f:
        json.dump(payload, f, indent=1)
    return p


def write_evidence(pid, tier, seed, level, coverage, assumptions, wall_s, violations):
    ensure_dir(EVIDENCE)
    ev = {"property_id": pid, "tier": tier, "seed": int(seed), "level": level, "coverage": coverage,
          "assumptions": assumptions, "wall_s": round(wall_s, 2), "violations": int(violations)}
    p = os.path.join(EVIDENCE, pid + ".json")
    with open(p, "w") as f:
        json.dump(ev, f, indent=1, sort_keys=True)
    return p


class Rng:
    """xorshift64* — the single PRNG every generator derives its choices from"""

    def __init__(self, seed):
        self.s = (int(seed) * 0x9E3779B97F4A7C15 + 0x1234567) & 0xFFFFFFFFFFFFFFFF or 1

    def next(self):
        x = self.s
        x ^= (x >> 12)
        x ^= (x << 25) & 0xFFFFFFFFFFFFFFFF
        x ^= (x >> 27)
        self.s = x
        return (x * 0x2545F4914F6CDD1D) & 0xFFFFFFFFFFFFFFFF

    def below(self, n):
        return self.next() % n if n > 0 else 0

    def chance(self, p):
        return (self.next() % 10000) < int(p * 10000)

    def choice(self, xs):
        return xs[self.below(len(xs))]

    def weighted(self, pairs):
        tot = sum(w for _, w in pairs)
        r = self.below(tot)
        for x, w in pairs:
            if r < w:
                return x
            r -= w
        return pairs[-1][0]

    def shuffle(self, xs):
        xs = list(xs)
        for i in range(len(xs) - 1, 0, -1):
            j = self.below(i + 1)
            xs[i], xs[j] = xs[j], xs[i]
        return xs
