#!/usr/bin/env python3
"""(maintenance tool) keep a confirmed seed:  seed_keep.py <seed_dir> <id> <eval.json>
copies patch.diff, demo.cc, the seeder's meta.json and my evaluation into /verif/seeded/<id>/"""
import json, os, shutil, sys
VERIF = os.path.dirname(os.path.dirname(os.path.abspath(__file__)))
seed, sid, ev = sys.argv[1], sys.argv[2], sys.argv[3]
d = os.path.join(VERIF, "seeded", sid)
os.makedirs(d, exist_ok=True)
for f in os.listdir(seed):
    if f.endswith((".diff", ".cc", ".sh", ".h")) and os.path.abspath(seed) != os.path.abspath(d):
        shutil.copy(os.path.join(seed, f), os.path.join(d, f))
meta = {}
try:
    meta = json.load(open(os.path.join(seed, "meta.json")))
except Exception as e:
    meta = {"seeder_meta_unreadable": str(e)}
e = json.load(open(ev))
out = {
    "id": sid,
    "property": meta.get("property"),
    "summary": meta.get("summary"),
    "needs_to_manifest": meta.get("needs_to_manifest"),
    "files_changed": meta.get("files_changed"),
    "seeder_verification": meta.get("how_verified") or meta.get("seeder_verification"),
    "confirmed_here": {
        "patch_applies": e.get("patch_applies"), "tests": e.get("tests"), "tests_pass": e.get("tests_pass"),
        "demo_on_clean_tree": e.get("demo_clean"), "demo_on_patched_tree": e.get("demo_patched"),
        "what_was_run": "checks/seed_eval.py: rsync /repo to a scratch copy, patch -p1, cmake+ninja+ctest, demo.cc built with "
                        "g++ -fsanitize=address,undefined against clean and patched sources, then the quick checks below with "
                        "SIGC_REPO=<patched copy>",
    },
    "checks": {p: {"reported": bool(c["violation_lines"]), "violation_line": (c["violation_lines"] or [""])[0].split(" replay=")[0],
                   "kind": ("failing-input" if c["violation_lines"] and "no-failing-input-found" not in c["violation_lines"][0]
                            else ("no-failing-input-found" if c["violation_lines"] else "not reported")),
                   "what": c["what"], "wall_s": c["wall_s"]} for p, c in e.get("checks", {}).items()},
    "replays": e.get("replays", {}),
}
json.dump(out, open(os.path.join(d, "meta.json"), "w"), indent=1)
print("kept", d, {p: v["kind"] for p, v in out["checks"].items()})
