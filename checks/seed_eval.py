#!/usr/bin/env python3
"""(maintenance tool) evaluate a seeded mutation:  seed_eval.py <seed_dir> <target pid> [other pids...]
 - copies /repo to a scratch directory, applies <seed_dir>/patch.diff
 - confirms: builds with cmake/ninja, the 42 tests pass, demo.cc passes on the clean tree and fails on the patched one
 - runs the quick checks of the given properties against the patched copy (SIGC_REPO), outputs redirected
 - prints a JSON summary (to be stored as meta in /verif/seeded/<id>/)"""
import json, os, re, shutil, subprocess, sys, time

VERIF = os.path.dirname(os.path.dirname(os.path.abspath(__file__)))
LIB = ["sigc++/connection.cc", "sigc++/scoped_connection.cc", "sigc++/signal_base.cc", "sigc++/trackable.cc",
       "sigc++/functors/slot_base.cc"]


def sh(cmd, cwd=None, timeout=1800, env=None):
    e = dict(os.environ)
    if env:
        e.update(env)
    p = subprocess.run(cmd, cwd=cwd, shell=isinstance(cmd, str), stdout=subprocess.PIPE, stderr=subprocess.STDOUT,
                       text=True, timeout=timeout, env=e, errors="replace")
    return p.returncode, p.stdout


def demo(repo, democc, work):
    exe = os.path.join(work, "demo_" + os.path.basename(repo.rstrip("/")))
    inc = os.path.join(work, "inc")
    os.makedirs(inc, exist_ok=True)
    sys.path.insert(0, os.path.join(VERIF, "checks"))
    import common
    os.environ.setdefault("SIGC_REPO", repo)
    common.REPO = repo
    common.gen_config_header(inc)
    rc, out = sh(["g++", "-std=c++17", "-g", "-O1", "-fsanitize=address,undefined", "-fno-sanitize-recover=all", "-I", repo, "-I", inc, democc]
                 + [os.path.join(repo, c) for c in LIB] + ["-o", exe])
    if rc != 0:
        return "compile-error", out[-1500:]
    rc, out = sh([exe], env={"ASAN_OPTIONS": "detect_leaks=1"}, timeout=120)
    return ("pass" if rc == 0 else "fail(rc=%d)" % rc), out[-1200:]


def main():
    seed = os.path.abspath(sys.argv[1])
    pids = sys.argv[2:]
    work = "/tmp/seedeval_%d" % os.getpid()
    shutil.rmtree(work, ignore_errors=True)
    os.makedirs(work)
    patched = os.path.join(work, "repo")
    sh(["rsync", "-a", "--exclude", "_build", "--exclude", ".git", "--exclude", "seed*", "/repo/", patched + "/"])
    rc, out = sh(["patch", "-p1", "-i", os.path.join(seed, "patch.diff")], cwd=patched)
    res = {"seed": seed, "patch_applies": rc == 0}
    if rc != 0:
        res["patch_output"] = out[-800:]
        print(json.dumps(res, indent=1))
        return
    # 1. the test suite still passes
    rc, out = sh("cmake -G Ninja -S . -B _b -DCMAKE_BUILD_TYPE=Release >/dev/null && cmake --build _b 2>&1 | tail -3 && "
                 "ctest --test-dir _b -j8 --timeout 300 2>&1 | tail -4", cwd=patched)
    m = re.search(r"(\d+)% tests passed, (\d+) tests failed out of (\d+)", out)
    res["tests"] = m.group(0) if m else out[-600:]
    res["tests_pass"] = bool(m and m.group(2) == "0")
    shutil.rmtree(os.path.join(patched, "_b"), ignore_errors=True)
    # 2. the demonstration
    democc = os.path.join(seed, "demo.cc")
    demosh = os.path.join(seed, "demo.sh")
    if os.path.exists(demosh):
        # script-style demonstration (compile probes / configuration matrices): run it inside a clean and a patched copy
        clean = os.path.join(work, "clean")
        sh(["rsync", "-a", "--exclude", "_build", "--exclude", ".git", "--exclude", "seed*", "/repo/", clean + "/"])
        for nm, tree in (("clean", clean), ("patched", patched)):
            sd = os.path.join(tree, "seedx")
            shutil.copytree(seed, sd)
            rc, out = sh(["sh", os.path.join(sd, "demo.sh")], cwd=tree, timeout=1800)
            res["demo_" + nm] = "pass" if rc == 0 else "fail(rc=%d)" % rc
            if nm == "patched":
                res["demo_patched_output"] = out[-800:]
            shutil.rmtree(sd, ignore_errors=True)
    elif os.path.exists(democc):
        res["demo_clean"], o1 = demo("/repo", democc, work)
        res["demo_patched"], o2 = demo(patched, democc, work)
        res["demo_patched_output"] = o2[-600:]
    # 3. the checks
    res["checks"] = {}
    outdir = os.path.join(work, "out")
    for pid in pids:
        t0 = time.time()
        rc, out = sh([sys.executable, os.path.join(VERIF, "checks", "check.py"), pid, "quick"], cwd=VERIF,
                     env={"SIGC_REPO": patched, "VERIF_OUT_DIR": outdir, "VERIF_SEED": os.environ.get("VERIF_SEED", "1")})
        vio = [l for l in out.split("\n") if l.startswith("VIOLATION")]
        what = ""
        for v in vio:
            m2 = re.search(r"replay=(\S+)", v)
            if m2 and os.path.exists(m2.group(1)):
                j = json.load(open(m2.group(1)))
                what = (j.get("what") or str(j.get("theorems_no_longer_checked") or j.get("correspondence_no_longer_checked") or ""))[:400]
                if j.get("case", {}).get("input"):
                    res.setdefault("replays", {})[pid] = j["case"]["input"][:1500]
        res["checks"][pid] = {"exit": rc, "violation_lines": vio, "what": what, "wall_s": round(time.time() - t0, 1)}
    shutil.rmtree(work, ignore_errors=True)
    print(json.dumps(res, indent=1))


if __name__ == "__main__":
    main()
