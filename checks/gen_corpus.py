#!/usr/bin/env python3
"""(maintenance tool) generate the directed *matrix* corpora: systematic enumerations of small scenarios
that random generation reaches only with low probability.  Output: corpus/Cxx/matrix_*.prog (committed)."""
import itertools
import os

VERIF = os.path.dirname(os.path.dirname(os.path.abspath(__file__)))
HEAD = ["maxsteps 1000000", "maxdepth 4"]


def write(pid, name, comment, lines):
    d = os.path.join(VERIF, "corpus", pid)
    os.makedirs(d, exist_ok=True)
    with open(os.path.join(d, name), "w") as f:
        f.write("# " + comment + "\n" + "\n".join(HEAD + lines) + "\n")
    print(pid, name, len(lines), "lines")


FLAVOURS = ["V", "I", "A", "TV", "TI", "TA", "AV", "TAV"]
VOIDF = ("V", "TV", "AV", "TAV")


def c12():
    L = []
    g = 0
    for fl in FLAVOURS:
        for pattern in itertools.product((0, 1), repeat=3):          # which of three slots is blocked
            for how in ("conn", "slot", "signal"):
                G = "G%d" % g
                L.append("newG %s %s" % (G, fl))
                ty = "V" if fl in VOIDF else "I"
                if how == "slot":
                    for i, b in enumerate(pattern):
                        L += ["mkS S%d %s fn:%d" % (i, ty, i + 1)] + (["blockS S%d 1" % i] if b else []) + ["conn C%d %s S%d" % (i, G, i), "delS S%d" % i]
                else:
                    for i in range(3):
                        L.append("connfn C%d %s fn:%d" % (i, G, i + 1))
                    if how == "conn":
                        for i, b in enumerate(pattern):
                            if b:
                                L.append("blockC C%d 1" % i)
                    else:
                        if any(pattern):
                            L.append("blockG %s 1" % G)
                            for i, b in enumerate(pattern):
                                if not b:
                                    L.append("blockC C%d 0" % i)
                L += ["blockedG? %s" % G, "emit %s 4" % G, "emit %s 5" % G, "size? %s" % G]
                for i in range(3):
                    L += ["blockedC? C%d" % i, "connected? C%d" % i]
                L += ["blockG %s 0" % G, "emit %s 6" % G, "blockG %s 1" % G, "connfn C3 %s fn:4" % G, "emit %s 7" % G, "blockedG? %s" % G,
                      "delG %s" % G]
                g = (g + 1) % 3
    write("C12", "matrix_block.prog", "flavour x blocking pattern of three slots x who blocks (slot before connect / connection / signal)", L)


def c13():
    L = []
    strats = ["sum", "twice", "rev", "never", "postinc", "stop20", "stop60", "wdid", "wdidxd", "wcidcxd", "wiixdd", "wdddi", "wxdidix"]
    for fl in ("A", "TA", "I", "TI", "AV", "TAV"):
        for pat in itertools.product("vbi", repeat=3):      # valid / blocked / invalidated
            L += ["newG G0 %s" % fl, "newT T0"]
            for i, k in enumerate(pat):
                if k == "i":
                    L.append("connfn C%d G0 trk:%d:T0" % (i, i + 1))
                else:
                    L.append("connfn C%d G0 fn:%d" % (i, i + 1))
                    if k == "b":
                        L.append("blockC C%d 1" % i)
            # invalid slots: disconnect them inside an emission so that they stay as invalid positions? no: outside
            # an emission they are erased; keep a body-free variant: invalidate now (erased) ...
            L.append("delT T0")
            if fl in ("A", "TA", "AV", "TAV"):
                for st in strats:
                    if fl in ("AV", "TAV") and st.startswith("stop"):
                        continue
                    L.append("emit G0 3 %s" % st)
            else:
                L += ["emit G0 3", "emit G0 4"]
            L += ["size? G0", "delG G0"]
    write("C13", "matrix_acc.prog", "accumulated/value flavours x valid/blocked/invalidated pattern of three slots x every strategy", L)
    # invalid positions that are still in the range: slots disconnected by an earlier slot of the same emission
    L = ["body 1", "  disc C1", "end", "body 3", "  blockC C2 1", "  blockC C0 1", "end"]
    for fl in ("A", "TA", "AV", "TAV"):
        for st in strats:
            if fl in ("AV", "TAV") and st.startswith("stop"):
                continue
            L += ["newG G0 %s" % fl, "connfn C0 G0 fn:1", "connfn C1 G0 fn:2", "connfn C2 G0 fn:4", "emit G0 2 %s" % st, "size? G0", "delG G0"]
            L += ["newG G0 %s" % fl, "connfn C0 G0 fn:3", "connfn C1 G0 fn:2", "connfn C2 G0 fn:4", "emit G0 2 %s" % st, "emit G0 2 %s" % st, "delG G0"]
    write("C13", "matrix_acc_reentrant.prog", "a slot disconnects / blocks later (and earlier) positions during the accumulator's walk, every strategy", L)


def c14():
    L = []
    for fl in ("I", "V", "A", "TI", "TA"):
        for op in ("cpG", "mvG", "asgG", "masgG"):
            for src_has in (0, 1):
                for dst in (("none", "empty", "own", "shared") if op in ("asgG", "masgG") else ("new",)):
                    L += ["newG G0 %s" % fl]
                    if src_has:
                        L += ["connfn C0 G0 fn:1"]
                    if dst == "new":
                        L += ["%s G1 G0" % op]
                    else:
                        if dst == "shared":
                            L += ["cpG G1 G0"]
                        else:
                            L += ["mvG G1 G0" if False else "cpG G2 G0", "delG G2"]   # (level bookkeeping: G1 must descend from G0)
                            L += ["cpG G1 G0"]
                            if dst in ("none", "empty", "own"):
                                # detach G1 from G0's list: move G1's handle content away
                                L += ["mvG G3 G1", "delG G3"] if fl not in ("A", "TA") else []
                            if dst == "own":
                                L += ["connfn C1 G1 fn:2"]
                            if dst == "empty":
                                L += ["connfn C1 G1 fn:2", "disc C1"]
                        L += ["%s G1 G0" % op]
                    L += ["size? G0", "size? G1", "emptyG? G0", "emptyG? G1", "connfn C2 G1 fn:3", "size? G0", "size? G1", "emit G0 1", "emit G1 2",
                          "connfn C3 G0 fn:4", "size? G0", "size? G1", "connected? C0", "connected? C1", "delG G0", "emit G1 3", "connected? C0", "connected? C2",
                          "delG G1", "connected? C2", "connected? C3", "live? 1", "live? 2", "live? 3"]
        # self assignment
        L += ["newG G0 %s" % fl, "connfn C0 G0 fn:1", "asgG G0 G0", "masgG G0 G0", "size? G0", "emit G0 1", "delG G0"]
    write("C14", "matrix_handles.prog", "flavour x special member x source with/without list x destination none/empty/own/shared", L)


def c17():
    L = []
    states = ("live", "dead", "empty")
    def mk(k, st, conn, fid):
        out = []
        if st == "empty":
            out.append("newK0 %s" % k)
        else:
            out += ["connfn %s G0 fn:%d" % (conn, fid), "newK %s %s" % (k, conn)]
            if st == "dead":
                out.append("disc %s" % conn)
        return out
    for op in ("delK", "discK", "relK", "mvK", "asgKC"):
        for st in states:
            L += ["newG G0 I"] + mk("K0", st, "C0", 1)
            if op == "relK":
                L += ["relK C5 K0", "connected? C5", "connectedK? K0", "size? G0", "delK K0", "connected? C5", "size? G0"]
            elif op == "mvK":
                L += ["mvK K1 K0", "connectedK? K0", "connectedK? K1", "size? G0", "delK K0", "size? G0", "delK K1", "size? G0"]
            elif op == "asgKC":
                L += ["connfn C6 G0 fn:9", "asgKC K0 C6", "size? G0", "connectedK? K0", "connected? C0", "connected? C6", "delK K0", "size? G0", "connected? C6"]
            else:
                L += ["%s K0" % op, "size? G0", "connected? C0", "connectedK? K0", "delK K0", "size? G0"]
            L += ["emit G0 1", "delG G0"]
    for op in ("masgK", "swapK"):
        for a in states:
            for b in states:
                L += ["newG G0 I"] + mk("K0", a, "C0", 1) + mk("K1", b, "C1", 2)
                L += ["%s K0 K1" % op, "connectedK? K0", "connectedK? K1", "connected? C0", "connected? C1", "size? G0", "emit G0 1",
                      "delK K1", "size? G0", "connected? C0", "connected? C1", "delK K0", "size? G0", "connected? C0", "connected? C1", "delG G0"]
    write("C17", "matrix_scoped.prog", "every scoped_connection operation x state of the operands (live / already disconnected / empty)", L)


def c17_empty():
    """scoped connections that manage the connection of an EMPTY or INVALIDATED slot: connected() is false and empty() is
    true for such a connection, yet its entry is still in the list and the scoped connection is responsible for it"""
    L = []

    def setup(kind):
        if kind == "empty":
            return ["newG G0 V", "mkS0 S0 V", "conn C0 G0 S0"]
        if kind == "invalid":
            return ["newG G0 V", "newT T0", "mkS S0 V mem:1:T0", "delT T0", "conn C0 G0 S0"]
        return ["newG G0 V", "connfn C0 G0 fn:1"]

    def partner(kind):
        if kind == "none":
            return ["newK0 K1"]
        if kind == "dead":
            return ["connfn C1 G0 fn:2", "disc C1", "newK K1 C1"]
        if kind == "live":
            return ["connfn C1 G0 fn:2", "newK K1 C1"]
        return ["mkS0 S1 V", "conn C1 G0 S1", "newK K1 C1"]

    Q = ["size? G0", "connectedK? K0", "connectedK? K1", "connected? C0"]
    ops = {"swap_ab": ["swapK K0 K1"], "swap_ba": ["swapK K1 K0"], "masg": ["masgK K1 K0"], "masg_rev": ["masgK K0 K1"],
           "mv": ["mvK K2 K0"], "rel": ["relK C5 K0"], "asgKC": ["asgKC K1 C0"], "disc": ["discK K0"]}
    for sk in ("empty", "invalid", "live"):
        for pk in ("none", "dead", "live", "empty"):
            for on, o in ops.items():
                for order in (("K0", "K1"), ("K1", "K0")):
                    L += setup(sk) + ["newK K0 C0"] + partner(pk) + Q + o + Q
                    for k in order:
                        L += ["delK " + k] + Q
                    L += ["delK K2", "size? G0", "emit G0 1", "size? G0",
                          "delC C0", "delC C1", "delC C5", "delS S0", "delS S1", "delT T0", "delG G0"]
    write("C17", "matrix_scoped_empty_slots.prog",
          "scoped connection of an empty / invalidated / live slot x partner (none / dead / live / empty-slot) x operation x "
          "destruction order", L)


def c04():
    L = []
    ways = ["disc", "othercopy", "delT", "clear", "delG", "scoped", "indisc", "inclear", "indelT"]
    for way in ways:
        for fl in ("I", "V", "A"):
            L += ["newG G0 %s" % fl, "newT T0", "connfn C9 G0 fn:7"]
            L += ["connfn C0 G0 trk:1:T0", "cpC C1 C0", "newC C2", "asgC C2 C0", "connected? C0", "connected? C1", "connected? C2", "emptyC? C2", "blockedC? C1"]
            if way == "disc":
                L.append("disc C0")
            elif way == "othercopy":
                L.append("disc C1")
            elif way == "delT":
                L.append("delT T0")
            elif way == "clear":
                L.append("clear G0")
            elif way == "delG":
                L.append("delG G0")
            elif way == "scoped":
                L += ["newK K0 C2", "delK K0"]
            else:
                # from inside an emission: functor 7 (connected first) acts
                pass
            L += ["connected? C0", "connected? C1", "connected? C2", "emptyC? C0", "disc C0", "disc C1", "disc C2", "cpC C3 C1", "connected? C3", "asgC C3 C9",
                  "connected? C3", "size? G0", "emit G0 1", "delC C0", "delC C1", "delC C2", "delC C3", "delC C9", "size? G0", "delG G0", "delT T0"]
    write("C04", "matrix_connection.prog", "every way a slot disappears x copies/assignments of its connection x later uses", L)
    L = ["body 7", "  disc C0", "  connected? C1", "  cpC C4 C1", "  connected? C4", "  disc C4", "  delC C4", "end",
         "body 8", "  clear G0", "  connected? C1", "  cpC C4 C0", "  connected? C4", "  delC C4", "end",
         "body 9", "  delT T0", "  connected? C0", "  cpC C4 C2", "  connected? C4", "  delC C4", "end"]
    for f in (7, 8, 9):
        for fl in ("I", "V", "A"):
            for first in (0, 1):
                L += ["newG G0 %s" % fl, "newT T0"]
                L += (["connfn C9 G0 fn:%d" % f, "connfn C0 G0 trk:1:T0"] if first else ["connfn C0 G0 trk:1:T0", "connfn C9 G0 fn:%d" % f])
                L += ["cpC C1 C0", "newC C2", "asgC C2 C0", "emit G0 3", "connected? C0", "connected? C1", "connected? C2", "size? G0", "disc C1",
                      "emit G0 4", "delC C0", "delC C1", "delC C2", "delC C9", "delG G0", "delT T0"]
    write("C04", "matrix_connection_reentrant.prog", "a slot disappears during an emission (disconnect / clear / trackable death), before or after its turn; "
          "copies made in that window are used afterwards", L)


def c08():
    L = ["body 1", "  throw", "end", "body 2", "  disc C2", "  throw", "end", "body 3", "  tryemit G0 9", "end", "body 4", "  emit G0 9", "end",
         "body 5", "  disc C0", "end"]
    for fl in FLAVOURS:
        for pos in range(3):
            for thrower in (1, 2):
                L += ["newG G0 %s" % fl]
                for i in range(3):
                    L.append("connfn C%d G0 fn:%d" % (i, thrower if i == pos else 6 + i))
                L += ["emit G0 1", "size? G0", "tryemit G0 2", "size? G0", "emit G0 3", "connfn C3 G0 fn:9", "size? G0", "emit G0 4", "connected? C2",
                      "disc C%d" % pos, "emit G0 5", "size? G0", "delG G0"]
        # nested: the outer slot catches / does not catch
        for outer in (3, 4):
            L += ["newG G0 %s" % fl, "connfn C0 G0 fn:%d" % outer, "connfn C1 G0 fn:1", "connfn C2 G0 fn:7", "emit G0 1", "size? G0", "emit G0 2", "size? G0", "delG G0"]
    write("C08", "matrix_throw.prog", "flavour x throwing position x throw after a re-entrant disconnect; nested emissions that catch or propagate; continuation", L)


def c18():
    L = []
    t = 0
    for tfl in ("TI", "TV", "TA", "I", "V"):
        ty_up = "V" if tfl in ("TV", "V") else "I"
        for act in ("delG", "mvG", "masgG", "cpGdel", "none"):
            if act == "delG" and tfl in ("I", "V"):
                continue
            T, H, X, Y = "G%d" % t, "G%d" % (t + 100), "G%d" % (t + 200), "G%d" % (t + 300)   # target, host, extra objects
            t += 1
            L += ["newG %s %s" % (T, tfl), "newG %s %s" % (H, ty_up), "connfn C0 %s fn:1" % T, "connfn C1 %s fwd:%s" % (H, T),
                  "connfn C2 %s fwd:%s" % (H, T), "mkS S0 %s fwd:%s" % (ty_up, T), "emit %s 3" % H, "callS S0 4", "size? %s" % H]
            if act == "delG":
                L.append("delG %s" % T)
            elif act == "mvG":
                L.append("mvG %s %s" % (X, T))
            elif act == "masgG":
                L += ["cpG %s %s" % (X, T), "mvG %s %s" % (Y, X), "delG %s" % Y, "masgG %s %s" % (X, T)]
            elif act == "cpGdel":
                L += ["cpG %s %s" % (X, T), "delG %s" % X]
            L += ["size? %s" % H, "connected? C1", "connected? C2", "emptyS? S0", "emit %s 5" % H, "callS S0 6", "delS S0", "clear %s" % H, "delG %s" % H]
    write("C18", "matrix_forward.prog", "forwarders to every flavour x what happens to the target object (destroyed / moved from / move-assigned from / a copy destroyed)", L)


def c01():
    L = []
    for fl in FLAVOURS:
        for order in itertools.product(("connfn", "connffn"), repeat=3):
            L += ["newG G0 %s" % fl]
            for i, o in enumerate(order):
                L.append("%s C%d G0 fn:%d" % (o, i, i + 1))
            L += ["size? G0", "emptyG? G0", "emit G0 2", "disc C1", "size? G0", "emit G0 3", "clear G0", "size? G0", "emptyG? G0", "emit G0 4", "delG G0"]
    write("C01", "matrix_order.prog", "flavour x every mix of connect / connect_first for three slots; size/empty; disconnect; clear", L)


if __name__ == "__main__":
    c01(); c04(); c08(); c12(); c13(); c14(); c17(); c17_empty(); c18()
