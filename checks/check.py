#!/usr/bin/env python3
"""Entry point of every registered check:  check.py <Cxx> quick|thorough   |   check.py <Cxx> --replay <file>

Decision procedure (DESIGN.md §3.4):
  1. proof obligations: lake build, forbidden-token scan, #print axioms of every theorem in
     Sigc/Props/<Cxx>.lean (thorough: + leanchecker)
  2. correspondence: model (Lean driver) vs implementation (built from /repo's working tree) on the
     directed corpus and on generated cases; property monitor on the implementation's own behaviour
  3. monitor failure on the implementation  -> VIOLATION with the failing input as replay
  4. broken obligation or model/impl disagreement -> search for a failing input; found -> as 3;
     none -> VIOLATION ... no-failing-input-found (replay names what no longer checks)
  5. replay known findings -> KNOWN-FINDING lines; exit 0
"""
import importlib
import json
import os
import sys
import time
import traceback

sys.path.insert(0, os.path.dirname(os.path.abspath(__file__)))
import common  # noqa: E402


class Ctx:
    def __init__(self, pid, tier, seed):
        self.pid = pid
        self.tier = tier
        self.seed = seed
        self.rng = common.Rng(seed)
        self.thorough = tier == "thorough"
        self.t0 = time.time()


def main():
    if len(sys.argv) < 3:
        print(__doc__)
        return 2
    pid = sys.argv[1]
    mod = importlib.import_module("props." + pid.lower())
    seed = int(os.environ.get("VERIF_SEED", "1") or "1")
    if sys.argv[2] == "--replay":
        ctx = Ctx(pid, "quick", seed)
        return mod.replay(ctx, sys.argv[3])
    tier = sys.argv[2]
    if os.environ.get("VERIF_TIER") in ("quick", "thorough") and len(sys.argv) == 3 and tier not in ("quick", "thorough"):
        tier = os.environ["VERIF_TIER"]
    ctx = Ctx(pid, tier, seed)
    t0 = time.time()

    # ---- step 1
    ob = common.proof_obligations(mod.MODULE, getattr(mod, "REQUIRED", []), thorough=ctx.thorough,
                                 extra_modules=getattr(mod, "EXTRA_MODULES", ()))

    # ---- step 2
    try:
        corr = mod.correspondence(ctx)
    except Exception:
        corr = {"evaluations": 0, "distinct_nontrivial": 0, "rule": "", "samples": [],
                "disagreements": [], "monitor_failures": [],
                "infra_errors": ["correspondence crashed: " + traceback.format_exc()[-2000:]]}
    mon = [c for c in corr.get("monitor_failures", []) if not c.get("known")]
    dis = [c for c in corr.get("disagreements", []) if not c.get("known")]
    infra = corr.get("infra_errors", [])
    violations = 0
    lines = []

    # ---- step 3
    if mon:
        c = mon[0]
        path = common.write_replay(pid, "failing_input", {
            "property": pid, "kind": "failing-input", "seed": seed, "tier": tier,
            "what": c.get("detail", ""), "case": c, "others": mon[1:5]})
        lines.append("VIOLATION property=%s replay=%s" % (pid, path))
        violations = len(mon)
    # ---- step 4
    elif ob["failed"] or dis or infra:
        found = []
        if hasattr(mod, "search") and not infra:
            try:
                found = [c for c in mod.search(ctx, dis) if not c.get("known")]
            except Exception:
                infra.append("search crashed: " + traceback.format_exc()[-1500:])
        if found:
            c = found[0]
            path = common.write_replay(pid, "failing_input", {
                "property": pid, "kind": "failing-input (found by search after a broken obligation/correspondence)",
                "seed": seed, "tier": tier, "what": c.get("detail", ""), "case": c,
                "broken_obligations": ob["failed"], "disagreements": dis[:3]})
            lines.append("VIOLATION property=%s replay=%s" % (pid, path))
            violations = len(found)
        else:
            path = common.write_replay(pid, "unproved", {
                "property": pid, "kind": "no-failing-input-found", "seed": seed, "tier": tier,
                "theorems_no_longer_checked": ob["failed"],
                "correspondence_no_longer_checked": dis[:5],
                "infrastructure": infra,
                "note": "the property is no longer shown to hold: the items above name the theorem(s) or the "
                        "model/implementation correspondence that no longer check; the search found no input on "
                        "which the implementation itself violates the property monitor"})
            lines.append("VIOLATION property=%s replay=%s no-failing-input-found" % (pid, path))
            violations = max(1, len(dis) + len(ob["failed"]) + len(infra))

    # ---- step 5
    known_lines = []
    for c in corr.get("monitor_failures", []) + corr.get("disagreements", []):
        if c.get("known"):
            l = "KNOWN-FINDING: property=%s %s" % (pid, c["known"])
            if l not in known_lines:
                known_lines.append(l)
    if hasattr(mod, "known"):
        try:
            for l in mod.known(ctx):
                l = "KNOWN-FINDING: property=%s %s" % (pid, l)
                if l not in known_lines:
                    known_lines.append(l)
        except Exception:
            pass

    # ---- evidence
    cov = {
        "obligations": max(1, ob["obligations"]),
        "discharged": ob["discharged"],
        "checker_cmd": "cd /verif/lean && lake build && lake env lean <#print axioms of every theorem in %s>%s"
                       % (mod.MODULE, " && lake env leanchecker " + mod.MODULE if ctx.thorough else ""),
        "trusted_base": getattr(mod, "TRUSTED", []),
        "theorems": ob["axioms"],
        "broken_obligations": ob["failed"],
        "leanchecker": ob.get("leanchecker"),
        "evaluations": max(1, int(corr.get("evaluations", 0))),
        "distinct_nontrivial": int(corr.get("distinct_nontrivial", 0)),
        "rule": corr.get("rule", ""),
        "samples": corr.get("samples", [])[:6] or ["<none: correspondence did not run>"],
        "traces_validated_against_impl": int(corr.get("traces_validated_against_impl", corr.get("evaluations", 0))),
        "disagreements": len(dis),
        "monitor_failures": len(mon),
        "known_findings_reproduced": known_lines,
        "distribution": corr.get("distribution", {}),
        "partial_obligations": getattr(mod, "PARTIAL", []),
        "infra_errors": infra,
        "explanation": getattr(mod, "EXPLANATION", ""),
    }
    for k, v in corr.items():
        if k not in cov and k not in ("disagreements", "monitor_failures", "infra_errors"):
            cov[k] = v
    common.write_evidence(pid, tier, seed, mod.LEVEL, cov, getattr(mod, "ASSUMPTIONS", []),
                          time.time() - t0, violations)
    for l in known_lines:
        print(l)
    for l in lines:
        print(l)
    print("%s %s seed=%d: obligations %d/%d, evaluations %d, distinct %d, disagreements %d, monitor failures %d, %.1fs"
          % (pid, tier, seed, ob["discharged"], max(1, ob["obligations"]), cov["evaluations"],
             cov["distinct_nontrivial"], len(dis), len(mon), time.time() - t0))
    return 1 if lines else 0


if __name__ == "__main__":
    sys.exit(main())
