#!/usr/bin/env python3
"""(maintenance tool) regenerate seeded/SUMMARY.md from seeded/*/meta.json"""
import glob, json, os
VERIF = os.path.dirname(os.path.dirname(os.path.abspath(__file__)))
rows = []
for f in sorted(glob.glob(os.path.join(VERIF, "seeded", "*", "meta.json"))):
    m = json.load(open(f))
    checks = m.get("checks", {})
    det = ", ".join("%s: %s" % (p, c["kind"]) for p, c in checks.items())
    tgt = m.get("property") or m["id"].split("_")[0]
    first = checks.get(tgt) or (list(checks.values())[0] if checks else {})
    rows.append((m["id"], tgt, (m.get("summary") or "").replace("\n", " ")[:220], (m.get("needs_to_manifest") or "").replace("\n", " ")[:200],
                 "yes" if m.get("confirmed_here", {}).get("tests_pass") else "NO",
                 "%s / %s" % (m.get("confirmed_here", {}).get("demo_on_clean_tree"), m.get("confirmed_here", {}).get("demo_on_patched_tree")),
                 det, (first.get("what") or "").replace("\n", " ").replace("|", "/")[:200]))
out = ["# Seeded mutations (written by independent sub-agents from the property text only; confirmed here)\n",
       "Columns: id; target property; the change; what it needs to manifest; the 42 tests still pass; demonstration on clean / patched tree; "
       "which quick checks reported it (failing-input = `VIOLATION … replay=<program>`; no-failing-input-found; not reported); what the target's check printed.\n",
       "| id | property | change | needs | tests pass | demo clean / patched | checks | report of the target's check |", "|---|---|---|---|---|---|---|---|"]
for r in rows:
    out.append("| " + " | ".join(str(x).replace("|", "/") for x in r) + " |")
n = len(rows)
hit = sum(1 for r in rows if (r[1] + ": failing-input") in r[6])
out.append("\n%d seeds kept; %d reported by their target property's quick check with a concrete failing input.\n" % (n, hit))
open(os.path.join(VERIF, "seeded", "SUMMARY.md"), "w").write("\n".join(out) + "\n")
print(n, "seeds,", hit, "caught by target check with failing input")
