#!/usr/bin/env python3
"""(maintenance tool) regenerate /verif/MANIFEST.json from the table below; run after a check is added"""
import json
import os

VERIF = os.path.dirname(os.path.dirname(os.path.abspath(__file__)))

RT_NOTE = ("Trusted base: Lean 4.33 kernel (+ leanchecker in the thorough tier); axioms of every theorem printed into the "
           "evidence (allowed: propext, Quot.sound, Classical.choice; no sorry/axiom/native_decide); the hand-written "
           "models lean/Sigc/Model.lean (mechanism model P) and lean/Sigc/Spec.lean (specification S) — tied to /repo's "
           "current working tree only by this run's differential correspondence (generated + corpus programs, real library "
           "under ASan/UBSan/LSan vs. compiled Lean driver); harness/sigc_harness.cc; generator/differ/shrinker in "
           "checks/runtime.py; g++ 12 / libstdc++ 12. The theorems are about the model, not about the C++.")

RT_TEXT = ("Lean 4 theorems about the executable mechanism model P of the runtime core and the executable statement-level "
           "specification S (Sigc/Props/%s.lean and the shared Props/Refine.lean — P is allowed by S' = S with the two known "
           "findings reproduced, for every program, including the harness teardown and the printed text: refines, "
           "runProgram_refines —, Props/SpecK.lean — S' = S on every run the executable predicate clearTop accepts —, "
           "Props/SpecProps.lean — the statements read off S —, Props/Fuel.lean — every program terminates and its printed text does not depend on the fuel; all audited with #print axioms on every run) + correspondence "
           "check on every run: the real library, built from /repo's current working tree with ASan/UBSan/LSan, P and S are "
           "run on the directed corpus and on generated programs of the total operation language (docs/LANGUAGE.md); a trace "
           "of the real library that the specification does not allow (or a sanitizer report) is reported with the shrunk "
           "program as replay; a model/implementation difference or a theorem that no longer checks is reported as "
           "no-failing-input-found. %s")

SLOTG = (" Object graphs among slot *variables* (connection(slot_base&), slots with a parent through std::ref, self-owning "
         "cycles, slots held by value in functors, functor-owned connections) are covered by the SlotG component: model lean/Sigc/SlotG.lean, 34 theorems in Props/SlotG.lean (audited "
         "here), own harness and generator (checks/slotg.py, docs/SLOTG.md), merged into this check's correspondence.")

SWEEPL = (" Owner functors whose destructors disconnect other slots of the same list at the moment the library destroys them "
          "(inside an erase, a sweep, a clear), together with connected empty slots — the combination the program mode `owners` "
          "keeps apart — are covered for one slot list by the SweepL component: model lean/Sigc/SweepL.lean with exact "
          "exec_count_/deferred_/holder scopes, 23 theorems in Props/SweepL.lean (audited here), own harness and generator "
          "(checks/sweepl.py, docs/SWEEPL.md), merged into this check's correspondence.")

CHECKS = {
    "C01": ("§5 C01", "Theorems: connect appends / connect_first prepends; one step of the emitter invokes exactly a valid, "
            "unblocked cell and skips empty/blocked/marker cells; turns_eq_snapshot: for every program and nesting, the "
            "slots an emission offers a turn are exactly the snapshot taken when it started (Sigc/Lemmas/Emit*.lean). "
            "Known finding K1 is replayed.", "Lean proof + differential correspondence (model/spec vs real library)"),
    "C02": ("§5 C02", "Theorems: after notify_callbacks()/destruction of a trackable no slot variable and no list cell refers "
            "to it, those that did are empty and hold no functor copy, the others are untouched; tracks_live: in every "
            "reachable state, at every operation boundary at any nesting depth and after teardown, every tracked object is "
            "alive. The correspondence also samples adaptor expressions through the C09 machinery.",
            "Lean proof + differential correspondence under ASan"),
    "C03": ("§5 C03", "Theorems: safe / safe_inside (no reachable state of any program, inside or outside emissions at any "
            "depth, has an iterator invalidated, an end marker missing, a list destroyed during its emission or a forwarder to "
            "a dead signal: invariant Inv + frame relation, mutual induction on fuel), frame, emit_restores_exec, "
            "quiescent_clean, owned_not_pinned, the deferral rule. Known finding F6 is replayed." + SWEEPL,
            "Lean proof + differential correspondence under ASan (re-entrant bodies, owning functors)"),
    "C04": ("§5 C04", "Theorems: connected() iff the cell is still in a list and valid; erasing a cell nulls every connection "
            "and scoped connection to it and no other; connection-variable operations touch nothing else; all-history: a "
            "connection never dangles." + SLOTG, "Lean proof + differential correspondence under ASan"),
    "C06": ("§5 C06", "Theorems: the last reference to a list destroys it and nulls the connections into it; a referenced or "
            "emitting list survives; destroying connection / slot variables touches nothing else; all-history invariants (no "
            "orphan lists, registrations balance, after teardown in any order everything is empty, ownedG_named)." + SLOTG,
            "Lean proof + differential correspondence under ASan/LSan with teardown permutations"),
    "C07": ("§5 C07", "Theorems: functor copies live only in representations of slot variables and list cells; invalidation "
            "releases the copy; sweep/erase remove exactly the cells they should; all-history accounting. The harness "
            "additionally counts live functor copies (live?), LeakSanitizer checks the end of every program, and "
            "state-restoring cycles are compared at 2 vs 40 repetitions." + SLOTG + SWEEPL,
            "Lean proof + differential correspondence under LSan + allocation-growth cycles"),
    "C08": ("§5 C08", "Theorems: consistent / consistent_quiescent (after an exception escapes an emission at any depth the "
            "signal is as consistent as after a normal return), propagates, a body stops at the first escaping exception, the "
            "emitter stops at the throwing slot. The harness throws three dynamic exception types and makes emissions during "
            "stack unwinding.", "Lean proof + differential correspondence with exception injection"),
    "C12": ("§5 C12", "Theorems: block() returns the previous state and affects only that slot; signal.block sets exactly the "
            "current cells; blocked() iff all (vacuous cases); the emitter skips a blocked cell; the Step family for "
            "connections and scoped connections." + SLOTG, "Lean proof + differential correspondence"),
    "C13": ("§5 C13", "Theorems about slot_iterator_buf::operator* and the accumulator call: dereferencing twice invokes once, "
            "blocked/invalid/marker positions are never invoked, a callable position buffers the result, the accumulator is "
            "called exactly once over [first, marker), never-connected signal returns the default, last-value and "
            "bidirectional-walk families. Known finding K2 is replayed.",
            "Lean proof + differential correspondence with accumulator strategies"),
    "C14": ("§5 C14", "Theorems: impl() creates the list on demand; copy/assignment share, move transfers and empties the "
            "source, last owner tears down, a functor-owned handle keeps the list and dies in collect "
            "(functor_owned_handle_keeps_list, collect_drops_unheld_owned_handle_wf, run_leaves_owned_handles_held).",
            "Lean proof + differential correspondence"),
    "C15": ("§5 C15", "Theorems about the slot-value layer: default empty; copy of empty/invalidated is empty; copy of valid "
            "keeps functor and blocking state; move empties the source and preserves behaviour; disconnect empties; copy "
            "construction is independent state; all four assignment branches; S agrees with P on slot operations." + SLOTG,
            "Lean proof + differential correspondence"),
    "C17": ("§5 C17", "Theorems: move construction, swap and release transfer without disconnecting; destruction and "
            "disconnect() disconnect exactly the held cell; an owned scoped connection lives while a functor copy holds it.",
            "Lean proof + differential correspondence"),
    "C18": ("§5 C18", "Theorems: a make_slot() forwarder emits its target with the same argument and yields its result; it "
            "tracks the target iff that is a trackable_signal; a copy has a fresh trackable identity; destroying (or moving "
            "from) a trackable_signal invalidates every slot forwarding to it.",
            "Lean proof + differential correspondence under ASan"),
}

OTHER = {}   # filled in by the component checks as they are integrated (see below)


def entry(pid, ref, text, tech, note=RT_NOTE, level="proof", fmt=RT_TEXT):
    return {
        "property_id": pid,
        "quick_cmd": "python3 checks/check.py %s quick" % pid,
        "thorough_cmd": "python3 checks/check.py %s thorough" % pid,
        "evidence_file": "/verif/evidence/%s.json" % pid,
        "replay_cmd_template": "python3 checks/check.py %s --replay {path}" % pid,
        "engine": "lean-proof+correspondence",
        "level_claimed": {"category": level, "text": (fmt % (pid, text)) if fmt else text, "design_ref": ref},
        "level_note": note,
        "technique": tech,
    }


def main():
    props = [json.loads(l) for l in open(os.path.join(VERIF, "properties.jsonl"))]
    extra = {}
    p = os.path.join(VERIF, "checks", "manifest_extra.json")
    if os.path.exists(p):
        extra = json.load(open(p))
    checks = []
    claimed = set()
    for pr in props:
        pid = pr["id"]
        if pid in CHECKS:
            ref, text, tech = CHECKS[pid]
            checks.append(entry(pid, ref, text, tech))
            claimed.add(pid)
        elif pid in extra.get("checks", {}):
            e = extra["checks"][pid]
            checks.append(entry(pid, e["design_ref"], e["text"], e["technique"], note=e["note"],
                                level=e.get("level", "proof"), fmt=None))
            claimed.add(pid)
    na = [{"property_id": pr["id"], "reason": extra.get("not_applicable", {}).get(
        pr["id"], "check not integrated yet (build phase in progress; see DESIGN.md §5)")}
        for pr in props if pr["id"] not in claimed]
    m = {
        "version": 1,
        "setup_cmd": "python3 checks/setup.py",
        "hooks": {
            "guard": "SIGCXX_VERIF_HOOKS",
            "enable": "no hooks are needed: every check compiles /repo/sigc++/**/*.cc and the headers of the current working "
                      "tree into its own harness (public API + sanitizers); -DSIGCXX_VERIF_HOOKS is accepted and changes nothing",
            "baseline_off_cmd": "cmake -G Ninja -S /repo -B /repo/_build && cmake --build /repo/_build && "
                                "ctest --test-dir /repo/_build -j8 --timeout 900",
            "source_commits": [],
            "add_only": True,
        },
        "engines": [
            {"name": "lean-proof+correspondence", "path": "checks/check.py",
             "serves_properties": sorted(claimed),
             "kind_free_text": "Lean 4 theorems about hand-written executable models (lean/Sigc), audited on every run, "
                               "+ differential correspondence of the models against the real library built from /repo's "
                               "working tree"}],
        "checks": checks,
        "notes": "fix: commits in /repo: a8e014a (F1), 7d5ea9e (F2), e9fc7e7 (F3), 34d9d5c (F4), 266d9a0 (F5), a0cfce0 (F7), 1ac45b9 (F9), "
                 "a8d1bb0 (F10), 6def444 (F11), 1467ef2 (F12), f795db9 (F13), 076d91d (F14); known findings F6, F8, K1, K2 in "
                 "known_findings.json; see DESIGN.md §2",
        "not_applicable": na,
    }
    json.dump(m, open(os.path.join(VERIF, "MANIFEST.json"), "w"), indent=1)
    print("claimed:", sorted(claimed), "not yet:", [x["property_id"] for x in na])


if __name__ == "__main__":
    main()
