"""slotg — differential stage for object graphs *among slot variables* (docs/SLOTG.md).

Model side : `sigc_model slotg` (lean/Sigc/SlotG.lean; theorems in lean/Sigc/Props/SlotG.lean).
Real side  : harness/slotg_harness.cc over the library built from common.REPO (ASan+UBSan+LSan).
Both interpret the same program text and print the same trace; `stage(ctx, focus)` generates programs with a
profile for the property in focus ("C06", "C12", "C04", "C15"), runs both sides, compares the traces, evaluates
a trace-only monitor on the real side, shrinks whatever fails and returns a dict of the same shape as a
property module's `correspondence(ctx)`.

Nothing is kept under /tmp; every random choice comes from ctx.rng.
"""
import collections
import os
import re
import subprocess
import sys
import time

sys.path.insert(0, os.path.dirname(os.path.abspath(__file__)))
import common  # noqa: E402

MODULE = "Sigc.Props.SlotG"
HARNESS_SRC = os.path.join(common.VERIF, "harness", "slotg_harness.cc")
CORPUS = os.path.join(common.VERIF, "corpus", "SlotG")
SAN_ENV = {"ASAN_OPTIONS": "detect_leaks=1:abort_on_error=0:halt_on_error=1:exitcode=23:symbolize=0",
           "UBSAN_OPTIONS": "halt_on_error=1:print_stacktrace=0", "LSAN_OPTIONS": "exitcode=23"}
FOCI = ("C06", "C12", "C04", "C15", "C07")
RULE = ("a program is non-trivial when at least three operations are performed (not refused) and it contains a "
        "copy/move/assignment of a slot variable or a destruction (delS/delT/notifyT/clrS) or a connection use")

# --------------------------------------------------------------------------------------
# generator
# --------------------------------------------------------------------------------------

NS, NT, NC, NF = 5, 3, 4, 6


class Gen:
    """mostly-valid programs: a light shadow (which names exist, roughly what they hold) steers the choices; the
    shadow need not be exact — every operation is total on both sides"""

    def __init__(self, rng, focus):
        self.r = rng
        self.focus = focus
        self.lines = []
        self.S = set()      # live slot names (approximate)
        self.T = set()
        self.C = set()
        self.tags = set()

    # -- helpers
    def emit(self, l):
        self.lines.append(l)

    def fid(self):
        return 1 + self.r.below(NF)

    def arg(self):
        return self.r.below(10)

    def s_new(self):
        free = [i for i in range(1, NS + 1) if i not in self.S]
        if free and not self.r.chance(0.05):
            return self.r.choice(free)
        return 1 + self.r.below(NS)

    def s_any(self):
        if self.S and not self.r.chance(0.04):
            return self.r.choice(sorted(self.S))
        if not self.S and not self.r.chance(0.1):
            return self.mk()
        return 1 + self.r.below(NS + 1)

    def t_any(self):
        if self.T and not self.r.chance(0.05):
            return self.r.choice(sorted(self.T))
        return 1 + self.r.below(NT)

    def t_get(self):
        """a live trackable, created when there is none"""
        if not self.T or self.r.chance(0.25):
            free = [i for i in range(1, NT + 1) if i not in self.T]
            if free:
                t = self.r.choice(free)
                self.emit("newT T%d" % t)
                self.T.add(t)
                return t
        return self.t_any()

    def c_new(self):
        free = [i for i in range(1, NC + 1) if i not in self.C]
        if free and not self.r.chance(0.05):
            return self.r.choice(free)
        return 1 + self.r.below(NC)

    def c_any(self):
        if self.C and not self.r.chance(0.05):
            return self.r.choice(sorted(self.C))
        return 1 + self.r.below(NC)

    def spec(self, dst=None, kinds=None):
        k = self.r.weighted(kinds or [("fn", 5), ("mem", 3), ("sref", 4), ("own", 2), ("ownT", 2), ("nest", 3),
                                      ("ownc", 1)])
        f = self.fid()
        if k == "ownc":
            return "ownc:%d:C%d" % (f, self.c_any())
        if k == "nest":
            return "nest:%d:S%d" % (f, self.s_any())
        if k == "fn":
            return "fn:%d" % f
        if k == "mem":
            return "mem:%d:T%d" % (f, self.t_get())
        if k == "sref":
            return "sref:%d:S%d" % (f, self.s_any())
        tgt = dst if (dst is not None and self.r.chance(0.6)) else self.s_any()
        if k == "own":
            return "own:%d:S%d" % (f, tgt)
        return "own:%d:S%d:T%d" % (f, tgt, self.t_get())

    def mk(self, v=None, kinds=None):
        v = self.s_new() if v is None else v
        if self.r.chance(0.12):
            self.emit("mkS0 S%d" % v)
        else:
            self.emit("mkS S%d %s" % (v, self.spec(kinds=kinds)))
        self.S.add(v)
        return v

    def xfer(self, how, d, x, p=0.85):
        """a copy/move/assignment `how` in {cp, mv, asg, masg} of x into d, surrounded (with probability p) by the
        queries the trace monitor needs: emptiness and flag of the source before, of both afterwards"""
        probe = self.r.chance(p)
        if probe:
            if how in ("mv", "masg") and self.r.chance(0.6):
                self.emit("parentS? S%d" % x)
            self.emit("emptyS? S%d" % x)
            self.emit("blockedS? S%d" % x)
        self.emit("%sS S%d S%d" % (how, d, x))
        if probe:
            self.emit(("emptyS? S%d" if self.r.chance(0.7) else "boolS? S%d") % x)
            for v in self.r.shuffle([x, d]):
                self.emit("blockedS? S%d" % v)

    def probes(self, names):
        for v in names:
            q = self.r.weighted([("blockedS?", 4), ("emptyS?", 3), ("boolS?", 1), ("parentS?", 2), ("callS", 3)])
            self.emit("%s S%d%s" % (q, v, (" %d" % self.arg()) if q == "callS" else ""))

    # -- scenario templates
    def t_parented_move(self):
        """a variable that has a parent (another slot's functor refers to it) is blocked and moved/assigned"""
        self.tags.add("parented-move")
        a = self.mk(kinds=[("fn", 5), ("mem", 3), ("own", 1)])
        b = self.s_new()
        self.emit("mkS S%d sref:%d:S%d" % (b, self.fid(), a))
        self.S.add(b)
        if self.r.chance(0.8):
            self.emit("blockS S%d %d" % (a, 0 if self.r.chance(0.15) else 1))
        if self.r.chance(0.3):
            self.emit("parentS? S%d" % a)
        d = self.s_new()
        how = self.r.weighted([("masg", 4), ("mv", 4), ("asg", 2), ("cp", 2)])
        if how in ("masg", "asg"):
            if d not in self.S:
                self.mk(d, kinds=[("fn", 4), ("mem", 2)])
            if self.r.chance(0.5):
                self.emit("blockS S%d %d" % (d, self.r.below(2)))
            self.xfer(how, d, a)
        else:
            if d in self.S:
                self.emit("delS S%d" % d)
            self.xfer(how, d, a)
            self.S.add(d)
        for v in self.r.shuffle([a, d]):
            self.emit("blockedS? S%d" % v)
        if self.r.chance(0.5):
            self.emit("callS S%d %d" % (self.r.choice([a, b, d]), self.arg()))

    def t_conn_move(self):
        """connS, then the variable is moved from / assigned / invalidated, destroyed, then the handle is used"""
        self.tags.add("conn-move")
        a = self.mk(kinds=[("fn", 5), ("mem", 3), ("sref", 1)])
        c = self.c_new()
        self.emit("connS C%d S%d" % (c, a))
        self.C.add(c)
        if self.r.chance(0.3):
            c2 = self.c_new()
            self.emit("cpC C%d C%d" % (c2, c))
            self.C.add(c2)
        if self.r.chance(0.3):
            self.emit("blockC C%d 1" % c)
        how = self.r.weighted([("masg", 5), ("mv", 4), ("asg", 1), ("set", 1), ("disc", 1), ("none", 1)])
        d = self.s_new()
        if how == "masg":
            if d not in self.S:
                if self.r.chance(0.5):
                    self.emit("mkS0 S%d" % d)
                    self.S.add(d)
                else:
                    self.mk(d, kinds=[("fn", 3), ("mem", 1)])
            self.emit("masgS S%d S%d" % (d, a))
        elif how == "mv":
            if d in self.S:
                self.emit("delS S%d" % d)
            self.emit("mvS S%d S%d" % (d, a))
            self.S.add(d)
        elif how == "asg":
            self.emit("asgS S%d S%d" % (a, self.s_any()))
        elif how == "set":
            self.emit("setS S%d %s" % (a, self.spec(dst=a)))
        elif how == "disc":
            self.emit("discS S%d" % a)
        if self.r.chance(0.4):
            self.emit("connected? C%d" % c)
        if self.r.chance(0.8):
            self.emit("delS S%d" % a)
            self.S.discard(a)
        for _ in range(1 + self.r.below(3)):
            self.conn_op(c if self.r.chance(0.7) else None)

    def t_self_own(self):
        """a slot variable owned (transitively) by its own functor, invalidated through a trackable"""
        self.tags.add("self-own")
        a = self.s_new()
        if a not in self.S:
            if self.r.chance(0.5):
                self.emit("mkS0 S%d" % a)
                self.S.add(a)
            else:
                self.mk(a, kinds=[("fn", 3), ("mem", 1)])
        t = self.t_get()
        if self.r.chance(0.75):
            self.emit("setS S%d own:%d:S%d:T%d" % (a, self.fid(), a, t))
        else:
            # two-step ownership: b's functor owns a, a's functor owns b
            b = self.mk(kinds=[("fn", 1)])
            self.emit("setS S%d own:%d:S%d" % (a, self.fid(), b))
            self.emit("setS S%d own:%d:S%d:T%d" % (b, self.fid(), a, t))
        k = self.r.below(4)
        if k == 0:
            c = self.c_new()
            self.emit("connS C%d S%d" % (c, a))
            self.C.add(c)
        elif k == 1:
            j = self.s_new()
            if j not in self.S:
                self.emit("cpS S%d S%d" % (j, a))
                self.S.add(j)
        elif k == 2:
            self.emit("callS S%d %d" % (a, self.arg()))
        kill = "delT" if self.r.chance(0.6) else "notifyT"
        self.emit("%s T%d" % (kill, t))
        if kill == "delT":
            self.T.discard(t)
        self.probes([a])
        if k != 1:
            self.S.discard(a)       # (the cycle is gone unless a copy of the functor is held elsewhere)

    def t_empty_assign_owned(self):
        """F12: a slot variable kept alive by the functor it stores (directly or through a second variable) is
        emptied by clrS or by an assignment from an empty slot"""
        self.tags.add("empty-assign-owned")
        a = self.s_new()
        if a not in self.S:
            self.emit("mkS0 S%d" % a if self.r.chance(0.6) else "mkS S%d fn:%d" % (a, self.fid()))
            self.S.add(a)
        victim = a
        if self.r.chance(0.7):
            sp = "own:%d:S%d" % (self.fid(), a)
            if self.r.chance(0.3):
                sp += ":T%d" % self.t_get()
            self.emit("setS S%d %s" % (a, sp))
        else:
            b = self.mk(kinds=[("fn", 1)])
            self.emit("setS S%d own:%d:S%d" % (a, self.fid(), b))
            self.emit("setS S%d own:%d:S%d" % (b, self.fid(), a))
            victim = self.r.choice([a, b])
        k = self.r.below(5)
        if k == 0:
            c = self.c_new()
            self.emit("connS C%d S%d" % (c, victim))
            self.C.add(c)
        elif k == 1:
            j = self.s_new()
            if j not in self.S:
                self.emit("cpS S%d S%d" % (j, victim))
                self.S.add(j)
        elif k == 2:
            self.emit("blockS S%d 1" % victim)
        elif k == 3:
            j = self.s_new()
            if j not in self.S:
                self.emit("mkS S%d sref:%d:S%d" % (j, self.fid(), victim))
                self.S.add(j)
        how = self.r.weighted([("clr", 4), ("asg", 3), ("masg", 3)])
        if how == "clr":
            self.emit("clrS S%d" % victim)
        else:
            e = self.s_new()
            if e in self.S:
                self.emit("clrS S%d" % e)
            else:
                self.emit("mkS0 S%d" % e)
                self.S.add(e)
            self.emit("%sS S%d S%d" % (how, victim, e))
        self.probes([victim])
        self.emit("live? %d" % self.fid())

    def t_stale_parent_move(self):
        """a variable that had a parent, was invalidated while it had it, was given a new functor and is then
        moved from: it has no parent any more, so the move must empty it"""
        self.tags.add("stale-parent-move")
        a = self.mk(kinds=[("fn", 4), ("mem", 3)])
        o = self.s_new()
        self.emit("mkS S%d sref:%d:S%d" % (o, self.fid(), a))
        self.S.add(o)
        if self.r.chance(0.5):
            self.emit("parentS? S%d" % a)
        m = re.search(r"mem:\d+:T(\d+)$", self.lines[-3] if len(self.lines) >= 3 else "")
        if m and self.r.chance(0.4):
            self.emit("%s T%s" % ("delT" if self.r.chance(0.5) else "notifyT", m.group(1)))
        else:
            self.emit("discS S%d" % a)
        if self.r.chance(0.85):
            self.emit(self.r.choice(["delS S%d", "setS S%d fn:1", "clrS S%d"]) % o)
            if self.lines[-1].startswith("delS"):
                self.S.discard(o)
        g = self.fid()
        how = self.r.weighted([("set", 5), ("asg", 2), ("masg", 2)])
        if how == "set":
            self.emit("setS S%d fn:%d" % (a, g))
        else:
            x = self.s_new()
            if x in self.S:
                self.emit("setS S%d fn:%d" % (x, g))
            else:
                self.emit("mkS S%d fn:%d" % (x, g))
                self.S.add(x)
            self.emit("%sS S%d S%d" % (how, a, x))
        if self.r.chance(0.3):
            self.emit("blockS S%d %d" % (a, self.r.below(2)))
        self.emit("parentS? S%d" % a)
        self.emit("emptyS? S%d" % a)
        self.emit("blockedS? S%d" % a)
        if self.r.chance(0.6):
            self.emit("live? %d" % g)
        d = self.s_new()
        if self.r.chance(0.5):
            if d in self.S:
                self.emit("delS S%d" % d)
            self.emit("mvS S%d S%d" % (d, a))
        else:
            if d not in self.S:
                self.emit("mkS0 S%d" % d if self.r.chance(0.5) else "mkS S%d fn:%d" % (d, self.fid()))
            self.emit("masgS S%d S%d" % (d, a))
        self.S.add(d)
        self.emit(("emptyS? S%d" if self.r.chance(0.6) else "boolS? S%d") % a)
        if self.r.chance(0.6):
            self.emit("live? %d" % g)
        self.emit("blockedS? S%d" % d)
        self.emit("callS S%d %d" % (self.r.choice([a, d]), self.arg()))

    def ufid(self):
        """a functor id used for one spec only (the monitor can then tell where its single copy lives)"""
        self.nufid = getattr(self, "nufid", 0) + 1
        return 20 + self.nufid

    def t_nested(self):
        """slots stored by value in other slots' functors (2 and 3 levels, mixed with by-reference outer slots);
        the innermost is invalidated through its trackable / disconnected; who still holds a functor afterwards?"""
        self.tags.add("nested")
        t = self.t_get()
        inner = self.s_new()
        fi = self.ufid()
        self.emit("mkS S%d %s" % (inner, self.r.choice(["mem:%d:T%d" % (fi, t), "mem:%d:T%d" % (fi, t),
                                                        "own:%d:S%d:T%d" % (fi, self.s_any(), t)])))
        self.S.add(inner)
        if self.r.chance(0.2):
            self.emit("blockS S%d 1" % inner)
        chain = [(inner, fi)]
        levels = self.r.weighted([(1, 3), (2, 5), (3, 2)])
        for lv in range(levels):
            below = chain[-1][0]
            v = self.s_new()
            if v in self.S:
                break
            f = self.ufid()
            kind = "nest" if (lv == 0 or self.r.chance(0.5)) else "sref"
            self.emit("mkS S%d %s:%d:S%d" % (v, kind, f, below))
            self.S.add(v)
            chain.append((v, f))
        if self.r.chance(0.3):
            j = self.s_new()
            if j not in self.S:
                self.emit("cpS S%d S%d" % (j, self.r.choice(chain)[0]))
                self.S.add(j)
        if self.r.chance(0.5):
            self.emit("callS S%d %d" % (chain[-1][0], self.arg()))
        for v, f in chain:
            if self.r.chance(0.5):
                self.emit("live? %d" % f)
        how = self.r.weighted([("delT", 5), ("notifyT", 2), ("discS", 2), ("delS", 1), ("clrS", 1)])
        if how in ("delT", "notifyT"):
            self.emit("%s T%d" % (how, t))
            if how == "delT":
                self.T.discard(t)
        else:
            v = self.r.choice(chain)[0]
            self.emit("%s S%d" % (how, v))
            if how == "delS":
                self.S.discard(v)
        for v, f in self.r.shuffle(chain):
            self.emit("emptyS? S%d" % v)
        for v, f in chain:
            self.emit("live? %d" % f)
        if self.r.chance(0.4):
            self.emit("callS S%d %d" % (chain[-1][0], self.arg()))

    def t_ownc(self):
        """F14: a functor that owns (shared_ptr) a connection — made from its own slot variable (the cycle), from
        another one, or registered on the representation that is being replaced — then every way the slot variable
        loses that functor, with other connections watching and copies sharing the connection"""
        self.tags.add("ownc")
        sv = self.s_new()
        c = self.c_new()
        if sv in self.S or c in self.C:
            return self.rand_op()
        f = self.ufid()
        shape = self.r.weighted([("cycle", 6), ("foreign", 2), ("prereg", 2)])
        c2 = None
        if shape == "cycle":
            self.emit("mkS0 S%d" % sv)
            self.emit("newC C%d" % c)
            self.emit("setS S%d ownc:%d:C%d" % (sv, f, c))
            c2 = self.c_new()
            if c2 in self.C or c2 == c:
                c2 = None
                self.emit("connected? C%d" % c)
            else:
                self.emit("connS C%d S%d" % (c2, sv))
                self.emit("asgC C%d C%d" % (c, c2))
                if self.r.chance(0.6):
                    self.emit("delC C%d" % c2)
                    c2 = None
                else:
                    self.C.add(c2)
        elif shape == "foreign":
            o = self.s_any()
            self.emit("connS C%d S%d" % (c, o))
            self.emit("mkS S%d ownc:%d:C%d" % (sv, f, c))
        else:
            self.emit("mkS S%d fn:%d" % (sv, self.fid()))
            self.emit("connS C%d S%d" % (c, sv))
            self.emit("setS S%d ownc:%d:C%d" % (sv, f, c))
        self.S.add(sv)
        self.C.add(c)
        holders = [sv]
        if self.r.chance(0.35):
            j = self.s_new()
            if j not in self.S:
                self.emit("cpS S%d S%d" % (j, sv))
                self.S.add(j)
                holders.append(j)
        if self.r.chance(0.3):
            o = self.s_new()
            if o not in self.S:
                self.emit("mkS S%d %s:%d:S%d" % (o, self.r.choice(["sref", "nest"]), self.ufid(), sv))
                self.S.add(o)
        if self.r.chance(0.3):
            self.emit("%s C%d" % (self.r.choice(["connected?", "blockedC?", "emptyC?"]), c))
        if self.r.chance(0.3):
            self.emit("callS S%d %d" % (sv, self.arg()))
        for rnd in range(2 if len(holders) > 1 else 1):
            v = holders[rnd]
            how = self.r.weighted([("asg0", 3), ("asg", 3), ("masg", 3), ("set", 2), ("clr", 3), ("disc", 1),
                                   ("del", 2), ("delT", 2)])
            if how in ("asg0", "asg", "masg"):
                x = self.s_new()
                if x in self.S:
                    x = self.s_any()
                elif how == "asg0":
                    self.emit("mkS0 S%d" % x)
                    self.S.add(x)
                else:
                    self.emit("mkS S%d %s" % (x, self.spec(kinds=[("fn", 4), ("mem", 2), ("sref", 2)])))
                    self.S.add(x)
                self.emit("%sS S%d S%d" % ("masg" if how == "masg" else "asg", v, x))
            elif how == "set":
                self.emit("setS S%d %s" % (v, self.spec(dst=v)))
            elif how == "clr":
                self.emit("clrS S%d" % v)
            elif how == "disc":
                self.emit("discS S%d" % v)
                self.emit("clrS S%d" % v)
            elif how == "del":
                self.emit("delS S%d" % v)
                self.S.discard(v)
            else:
                t = self.t_get()
                h = self.s_new()
                if h not in self.S:
                    self.emit("mkS S%d own:%d:S%d:T%d" % (h, self.fid(), v, t))
                    self.S.add(h)
                    self.emit("%s T%d" % (self.r.choice(["delT", "notifyT"]), t))
                else:
                    self.emit("clrS S%d" % v)
            self.emit("connected? C%d" % c)
            if c2 is not None:
                self.emit("connected? C%d" % c2)
            self.emit("live? %d" % f)
            if self.r.chance(0.4):
                self.emit("emptyS? S%d" % v)
        if self.r.chance(0.3):
            self.emit("delC C%d" % c)

    def t_own_chain(self):
        self.tags.add("own-chain")
        a = self.mk()
        b = self.s_new()
        withT = self.r.chance(0.4)
        sp = "own:%d:S%d" % (self.fid(), a) + ((":T%d" % self.t_get()) if withT else "")
        if b in self.S:
            self.emit("setS S%d %s" % (b, sp))
        else:
            self.emit("mkS S%d %s" % (b, sp))
            self.S.add(b)
        if self.r.chance(0.4):
            j = self.s_new()
            self.emit("cpS S%d S%d" % (j, b))
            self.S.add(j)
        if self.r.chance(0.4):
            c = self.c_new()
            self.emit("connS C%d S%d" % (c, a))
            self.C.add(c)
        if self.r.chance(0.3):
            self.emit("mkS S%d sref:%d:S%d" % (self.s_new(), self.fid(), b))
        self.emit(self.r.choice(["delS S%d" % b, "clrS S%d" % b, "setS S%d fn:%d" % (b, self.fid()),
                                 "masgS S%d S%d" % (b, self.s_any()), "asgS S%d S%d" % (b, self.s_any())]))
        self.probes([a])

    def t_outer_copy(self):
        """copies of an outer slot `sref:…:inner` come and go; the parent link of inner belongs to one of them"""
        self.tags.add("outer-copy")
        inner = self.mk(kinds=[("mem", 6), ("fn", 2), ("ownT", 1)])
        outer = self.s_new()
        self.emit("mkS S%d sref:%d:S%d" % (outer, self.fid(), inner))
        self.S.add(outer)
        self.emit("parentS? S%d" % inner)
        copies = []
        for _ in range(1 + self.r.below(2)):
            j = self.s_new()
            how = self.r.weighted([("cp", 5), ("asg", 3), ("mv", 2), ("masg", 2)])
            if how in ("cp", "mv"):
                if j in self.S:
                    continue
                self.emit("%sS S%d S%d" % (how, j, outer))
            else:
                if j not in self.S:
                    self.emit("mkS0 S%d" % j)
                self.emit("%sS S%d S%d" % (how, j, outer))
            self.S.add(j)
            copies.append(j)
        for j in self.r.shuffle(copies + ([outer] if self.r.chance(0.3) else [])):
            if self.r.chance(0.75):
                self.emit(self.r.choice(["delS S%d", "clrS S%d", "setS S%d fn:1", "discS S%d"]) % j)
        self.emit("parentS? S%d" % inner)
        m = re.search(r"T(\d+)", " ".join(self.lines[-12:]))
        if m and self.r.chance(0.8):
            self.emit("%s T%s" % ("delT" if self.r.chance(0.5) else "notifyT", m.group(1)))
        else:
            self.emit("discS S%d" % inner)
        for v in [outer] + copies:
            self.emit("emptyS? S%d" % v)

    def t_parent_exchange(self):
        """assignments whose deletion of the old representation destroys that representation's parent (the
        situations of the fixed findings F10/F11): a self-referring slot, a parented variable whose functor owns"""
        self.tags.add("parent-exchange")
        if self.r.chance(0.4):
            a = self.mk(kinds=[("fn", 3), ("mem", 1)])
            self.emit("setS S%d sref:%d:S%d" % (a, self.fid(), a))
            if self.r.chance(0.5):
                self.emit("parentS? S%d" % a)
            self.emit(self.r.choice(["setS S%d fn:%d" % (a, self.fid()), "asgS S%d S%d" % (a, self.s_any()),
                                     "masgS S%d S%d" % (a, self.s_any())]))
            self.emit("parentS? S%d" % a)
            self.emit(self.r.choice(["discS S%d", "clrS S%d", "delS S%d"]) % a)
            return
        a = self.mk(kinds=[("fn", 1)])
        b = self.s_new()
        self.emit("mkS S%d sref:%d:S%d" % (b, self.fid(), a))
        self.S.add(b)
        tgt = b if self.r.chance(0.5) else self.mk(kinds=[("fn", 1)])
        self.emit("setS S%d own:%d:S%d" % (a, self.fid(), tgt))
        self.emit(self.r.choice(["setS S%d fn:%d" % (a, self.fid()), "asgS S%d S%d" % (a, self.s_any()),
                                 "masgS S%d S%d" % (a, self.s_any()), "clrS S%d" % a, "discS S%d" % a]))
        self.emit("parentS? S%d" % a)
        self.emit("discS S%d" % a)

    # -- single random operations
    def conn_op(self, c=None):
        c = self.c_any() if c is None else c
        k = self.r.weighted([("connected?", 5), ("emptyC?", 2), ("blockedC?", 3), ("blockC", 3), ("unblockC", 1),
                             ("disc", 2), ("cpC", 2), ("asgC", 2), ("delC", 2), ("newC", 1), ("connS", 3)])
        if k in ("connected?", "emptyC?", "blockedC?", "unblockC", "disc"):
            self.emit("%s C%d" % (k, c))
        elif k == "blockC":
            self.emit("blockC C%d %d" % (c, self.r.below(2)))
        elif k == "cpC":
            n = self.c_new()
            self.emit("cpC C%d C%d" % (n, c))
            self.C.add(n)
        elif k == "asgC":
            self.emit("asgC C%d C%d" % (self.c_any(), c))
        elif k == "delC":
            self.emit("delC C%d" % c)
            self.C.discard(c)
        elif k == "newC":
            n = self.c_new()
            self.emit("newC C%d" % n)
            self.C.add(n)
        else:
            n = self.c_new()
            self.emit("connS C%d S%d" % (n, self.s_any()))
            self.C.add(n)

    def rand_op(self):
        w = {"mk": 6, "cp": 4, "mv": 4, "asg": 4, "masg": 5, "set": 4, "clr": 2, "delS": 3, "discS": 2,
             "block": 4, "unblock": 1, "query": 6, "call": 5, "conn": 5, "newT": 1, "delT": 2, "notifyT": 1,
             "live": 1, "bad": 0}
        f = self.focus
        if f == "C12":
            w.update(block=9, unblock=3, query=9, call=7, cp=5, mv=6, masg=7, asg=5)
        elif f == "C04":
            w.update(conn=14, delS=5, discS=4, masg=6, mv=5, delT=3)
        elif f == "C15":
            w.update(cp=7, mv=8, asg=7, masg=8, set=5, clr=3, call=7, query=8)
        elif f == "C07":
            w.update(delT=6, notifyT=3, live=8, query=8, delS=4, discS=3, clr=3, set=5, cp=5, call=4)
        else:
            w.update(delS=6, delT=4, notifyT=2, clr=3, set=5, conn=7)
        if self.r.chance(0.01):
            w["bad"] = 40
        if len(self.S) < 2:
            w["mk"] = 40
        if not self.C:
            w["conn"] = min(w["conn"], 3)
        k = self.r.weighted(sorted(w.items()))
        if k == "mk":
            self.mk()
        elif k in ("cp", "mv"):
            j = self.s_new()
            self.xfer(k, j, self.s_any(), 0.6 if self.focus in ("C12", "C15") else 0.2)
            self.S.add(j)
        elif k in ("asg", "masg"):
            self.xfer(k, self.s_any(), self.s_any(), 0.6 if self.focus in ("C12", "C15") else 0.2)
        elif k == "set":
            d = self.s_any()
            self.emit("setS S%d %s" % (d, self.spec(dst=d)))
        elif k == "clr":
            self.emit("clrS S%d" % self.s_any())
        elif k == "delS":
            v = self.s_any()
            self.emit("delS S%d" % v)
            self.S.discard(v)
        elif k == "discS":
            self.emit("discS S%d" % self.s_any())
        elif k == "block":
            self.emit("blockS S%d %d" % (self.s_any(), 0 if self.r.chance(0.25) else 1))
        elif k == "unblock":
            self.emit("unblockS S%d" % self.s_any())
        elif k == "query":
            self.probes([self.s_any()])
        elif k == "call":
            self.emit("callS S%d %d" % (self.s_any(), self.arg()))
        elif k == "conn":
            self.conn_op()
        elif k == "newT":
            t = 1 + self.r.below(NT)
            self.emit("newT T%d" % t)
            self.T.add(t)
        elif k in ("delT", "notifyT"):
            if not self.T and not self.r.chance(0.1):
                return self.rand_op()
            t = self.t_any()
            self.emit("%s T%d" % (k, t))
            if k == "delT":
                self.T.discard(t)
        elif k == "live":
            self.emit("live? %d" % self.fid())
        else:
            self.emit(self.r.choice(["blockS S1 2", "callS S1", "mkS S1 fn", "frob S1", "connS S1 C1", "mkS S1 own:1",
                                     "delS T1", "cpS S1", "mkS S9 sref:1:C1"]))

    def program(self):
        f = self.focus
        tw = {"C06": [("conn", 5), ("selfown", 6), ("chain", 4), ("parented", 2), ("outer", 3), ("xp", 1), ("eao", 3), ("stale", 1), ("nested", 3), ("ownc", 4), ("none", 3)],
              "C12": [("parented", 9), ("conn", 2), ("selfown", 1), ("chain", 1), ("outer", 2), ("xp", 1), ("eao", 1), ("stale", 3), ("nested", 1), ("ownc", 1), ("none", 3)],
              "C04": [("conn", 10), ("selfown", 2), ("chain", 2), ("parented", 2), ("outer", 2), ("xp", 1), ("eao", 2), ("stale", 1), ("nested", 2), ("ownc", 4), ("none", 3)],
              "C15": [("parented", 6), ("conn", 4), ("selfown", 2), ("chain", 3), ("outer", 5), ("xp", 1), ("eao", 2), ("stale", 4), ("nested", 3), ("ownc", 2), ("none", 3)],
              "C07": [("nested", 10), ("selfown", 3), ("chain", 3), ("outer", 2), ("conn", 2), ("eao", 2), ("parented", 1), ("xp", 1), ("stale", 1), ("ownc", 2), ("none", 3)]}[f]
        n_tpl = self.r.weighted([(1, 5), (2, 4), (3, 1)])
        for _ in range(self.r.below(4)):
            self.rand_op()
        for _ in range(n_tpl):
            k = self.r.weighted(tw)
            {"conn": self.t_conn_move, "selfown": self.t_self_own, "chain": self.t_own_chain,
             "parented": self.t_parented_move, "xp": self.t_parent_exchange, "outer": self.t_outer_copy, "eao": self.t_empty_assign_owned, "stale": self.t_stale_parent_move, "nested": self.t_nested, "ownc": self.t_ownc, "none": self.rand_op}[k]()
            for _ in range(self.r.below(5)):
                self.rand_op()
        # closing probes: everything observable about what is left
        for v in sorted(self.S):
            self.emit("blockedS? S%d" % v)
            if self.r.chance(0.5):
                self.emit("emptyS? S%d" % v)
        for c in sorted(self.C):
            self.emit("connected? C%d" % c)
        return "\n".join(self.lines)


def gen_program(rng, focus):
    g = Gen(rng, focus)
    return g.program(), g.tags


# --------------------------------------------------------------------------------------
# running both sides
# --------------------------------------------------------------------------------------

def build():
    return common.build_harness(HARNESS_SRC, "slotg")


def _batch_text(progs, ids):
    return "".join("=== %d\n%s\n" % (i, progs[i]) for i in ids)


def _split_out(out):
    res, cur = {}, None
    for line in out.split("\n"):
        if line.startswith("=== "):
            try:
                cur = int(line[4:].strip())
            except ValueError:
                cur = None
                continue
            res[cur] = []
        elif cur is not None and line:
            res[cur].append(line)
    return res


def _complete(lines):
    return bool(lines) and lines[-1].startswith("0 final ")


def _san_summary(out):
    m = re.search(r"(SUMMARY: [^\n]*)", out)
    if m:
        return m.group(1)[:300]
    m = re.search(r"(ERROR: [^\n]*|runtime error: [^\n]*)", out)
    if m:
        return m.group(1)[:300]
    return out[-300:].replace("\n", " | ")


def run_impl(exe, progs, ids, timeout=120):
    """returns {id: (lines, crash_text or None)}; after a crash the rest of the batch is re-run"""
    res = {}
    todo = list(ids)
    while todo:
        p = subprocess.run([exe], input=_batch_text(progs, todo), stdout=subprocess.PIPE, stderr=subprocess.PIPE,
                           text=True, errors="replace", timeout=timeout, env=dict(os.environ, **SAN_ENV))
        outs = _split_out(p.stdout)
        done = 0
        for i in todo:
            if i in outs and _complete(outs[i]):
                res[i] = (outs[i], None)
                done += 1
            else:
                break
        if done == len(todo):
            if p.returncode != 0:
                # (LeakSanitizer reports at exit: attribute by re-running one by one)
                if len(todo) == 1:
                    res[todo[0]] = (res[todo[0]][0], "exit %d: %s" % (p.returncode, _san_summary(p.stderr)))
                else:
                    for i in todo:
                        res.update(run_impl(exe, progs, [i], timeout))
            break
        bad = todo[done]
        res[bad] = (outs.get(bad, []), "exit %d: %s" % (p.returncode, _san_summary(p.stderr)))
        todo = todo[done + 1:]
    return res


def run_model(progs, ids, timeout=300):
    p = subprocess.run([common.driver(), "slotg"], input=_batch_text(progs, ids), stdout=subprocess.PIPE,
                       stderr=subprocess.STDOUT, text=True, errors="replace", timeout=timeout)
    outs = _split_out(p.stdout)
    return {i: outs.get(i, ["<model produced no output: %s>" % p.stdout[-200:]]) for i in ids}


def run_both(exe, progs, jobs=None):
    """progs: list of program texts -> list of dicts {impl, crash, model}"""
    from concurrent.futures import ThreadPoolExecutor
    jobs = jobs or common.NCPU
    n = len(progs)
    if n == 0:
        return []
    nchunks = max(1, min(n, jobs * 2))
    chunks = [list(range(k, n, nchunks)) for k in range(nchunks)]
    impl, model = {}, {}

    def one(task):
        kind, ids = task
        return kind, (run_impl(exe, progs, ids) if kind == "impl" else run_model(progs, ids))

    with ThreadPoolExecutor(max_workers=jobs) as ex:
        for kind, r in ex.map(one, [("impl", c) for c in chunks] + [("model", c) for c in chunks]):
            (impl if kind == "impl" else model).update(r)
    return [{"impl": impl[i][0], "crash": impl[i][1], "model": model[i]} for i in range(n)]


# --------------------------------------------------------------------------------------
# the trace-only monitor (C06/C12/C04 clauses that can be read off the real trace alone)
# --------------------------------------------------------------------------------------

_OPLINE = re.compile(r"^0 (\S+)((?: \S+)*) => (\S+)$")
REFUSALS = ("dead", "exists", "pinned", "owned", "norep", "badop")
# operations that change neither emptiness nor the representation of any slot variable
_NEUTRAL = {"blockedS?", "emptyS?", "boolS?", "parentS?", "callS", "connected?", "emptyC?", "blockedC?", "live?",
            "blockS", "unblockS", "blockC", "unblockC", "connS", "newC", "cpC", "asgC", "delC"}


def monitor(prog, lines):
    """The property statements evaluated on the real trace alone — no representations, parents, lists, no model.
    Per slot variable an *expected* blocked flag is kept, derived from the statements only:

      C12  "block()/unblock() on a slot … return the previous state and affect only that slot":
           blockS/unblockS return the expected flag and set it; **nothing else** changes a variable's flag except
           an operation whose destination (or moved-from source) it is (B1).
      C15  "a copy is an independent slot with its own … blocking state": cpS/asgS from a source *observed
           non-empty* give the destination the source's flag, the source is untouched (V1); "moving from a slot
           leaves the source empty and the destination behaving as the source did": mvS/masgS from a source observed
           non-empty give the destination the source's flag; afterwards the source is either observed empty (its
           flag is then not judged) or — the library copies instead of moving when the source is referred to —
           observed to still have its functor, and then it is completely unchanged *including its flag* (V2).
           A default-constructed slot, a slot made from a functor and a slot that was assigned a functor (`setS`,
           assignment from a fresh slot) are unblocked.
           What is NOT relied on: the flag after a copy/assignment from an empty source and after `clrS`
           (the statements do not fix it) — the expectation is dropped there.
      M1   C15 "moving from a slot leaves the source empty" — the only exception the library makes is a source
           that *currently has a parent* (observable: `parentS? S => 1`).  If `parentS? S => 0` was observed and
           nothing since could have given S a parent, then after `mvS D S` / `masgS D S` with S observed non-empty
           just before, `emptyS? S` must report 1 and `boolS? S` 0, and `live?` of S's functor id, if it was
           queried right before and right after, must not have grown (a move makes no copy).
           "Could have given S a parent" (the knowledge is dropped): a functor spec `sref:…:S` is instantiated
           (mkS/setS); a copy/assignment/move whose source variable may hold a functor referring to S (a variable
           is such a holder from the `sref:…:S` spec it was given, or from a copy/assignment/move out of a holder,
           until it is given another functor, emptied by name or destroyed); S itself is created anew.
      L1   C07/C02 "an invalidated slot holds no functor copy": if functor id f was instantiated by exactly one
           spec, into variable S, and S was never the source of a copy/assignment/move or of a `nest:` spec (so
           the library holds at most the one copy in S), and S was not disconnected by name (`discS S`, `disc` /
           through a connection — `disconnect()` alone keeps the functor until the slot is reassigned), then once
           `emptyS? S => 1` was observed `live? f` must report 0.  Dropped when S is given another functor,
           emptied by name or destroyed.
      B2   a slot expected to be blocked, or just observed empty, logs no call and returns 0.
      P1   C15 "destroying, disconnecting … or reassigning one [copy] never affects the other": while only copies
           made after `parentS? I => 1` was observed are destroyed / emptied / disconnected / given a plain functor
           (and nothing else but queries, blocking and connection bookkeeping happens), `parentS? I` stays 1.
      K1   C04: once the variable a connection was made for has been destroyed by name, the connection and every
           copy report connected? 0 / blockedC? 0 / blockC 0 until they are re-assigned.
      A1   C06/C07: nothing is left alive after the teardown (live=0 slots=0): it empties every slot variable
           (`*s = slot()`, which since the fix of F12 also breaks self-owning cycles) and destroys them.
    """
    bad = []
    flag = {}            # slot name -> expected blocked flag
    nonempty = {}        # slot name -> observed emptiness (False = non-empty), valid until the next non-neutral op
    pending = {}         # moved-from source -> its flag before the move, until its emptiness is observed
    bound = {}           # connection name -> slot name it was made for (while certain)
    gone = set()         # connection names whose variable was destroyed by name
    watch = {}           # inner slot name -> trace index of the first `parentS? => 1` of the current window
    born = {}            # slot name -> trace index at which its present content was made as a copy / harmless new
    noparent = {}        # slot name -> trace index of `parentS? => 0` while nothing could have given it a parent
    holders = collections.defaultdict(set)   # slot name S -> variables that may hold a functor referring to S
    fid = {}             # slot name -> id of the functor it stores (while certain)
    must_empty = {}      # moved-from source that must be observed empty -> (trace index of the move, parent line)
    live_seen = {}       # functor id -> count observed since the last non-neutral operation
    live_before = {}     # moved-from source -> (functor id, count observed right before the move)
    spec_count = collections.Counter()       # functor id -> number of specs instantiated with it
    sole = {}            # functor id -> the variable holding its only copy (L1), while certain
    emptied = {}         # variable -> trace index of `emptyS? => 1` (while it holds a sole functor)
    calls = 0
    for idx, ln in enumerate(lines):
        if re.match(r"^\d+ call f\d+ \d+$", ln):
            calls += 1
            continue
        m = _OPLINE.match(ln)
        if not m:
            if ln.startswith("0 final "):
                if not ln.startswith("0 final live=0 slots=0"):
                    bad.append("A1 (C06/C07): the teardown empties and destroys every slot variable, yet something "
                               "is left: " + ln)
            continue
        op, args, res = m.group(1), m.group(2).split(), m.group(3)
        ncalls, calls = calls, 0
        if res in REFUSALS:
            continue
        # ---- P1: is this operation harmless for the parent link of a watched variable?
        if op not in _NEUTRAL:
            for inner in list(watch):
                t0 = watch[inner]
                a0 = args[0] if args else None
                fresh = a0 is not None and a0 != inner and born.get(a0, -1) > t0
                ok = False
                if op in ("delS", "clrS", "discS") and fresh:
                    ok = True
                elif op == "setS" and fresh and args[1].startswith(("fn:", "mem:")):
                    ok = True
                elif op == "cpS" and a0 != inner:
                    ok = True
                elif op == "asgS" and fresh and args[0] != args[1]:
                    ok = True
                elif op == "mkS0" and a0 != inner:
                    ok = True
                elif op == "mkS" and a0 != inner and args[1].startswith(("fn:", "mem:")):
                    ok = True
                if not ok:
                    del watch[inner]
        # ---- L1 bookkeeping
        def drop_var(v):
            for f0 in [f0 for f0, w0 in sole.items() if w0 == v]:
                del sole[f0]
            emptied.pop(v, None)
        if op in ("mkS", "setS"):
            spec0 = args[1].split(":")
            drop_var(args[0])
            spec_count[spec0[1]] += 1
            if spec_count[spec0[1]] == 1:
                sole[spec0[1]] = args[0]
            else:
                sole.pop(spec0[1], None)
            if spec0[0] == "nest":
                drop_var(spec0[2])
        elif op in ("cpS", "asgS", "mvS", "masgS"):
            if args[0] != args[1]:
                drop_var(args[0])
                drop_var(args[1])
        elif op in ("mkS0", "clrS", "delS", "discS"):
            drop_var(args[0])
        elif op == "disc":
            if args[0] in bound:
                drop_var(bound[args[0]])
            else:
                sole.clear()
                emptied.clear()
        elif op == "emptyS?" and res == "1" and args[0] in sole.values():
            emptied.setdefault(args[0], idx)
        elif op == "live?" and args[0] in sole and sole[args[0]] in emptied and res != "0":
            v0 = sole[args[0]]
            bad.append("L1 (C07/C02 an invalidated slot holds no functor copy): `%s` although %s, the only holder "
                       "of functor f%s, was observed empty (`emptyS? %s => 1`, trace line %d) and was never "
                       "disconnected by name, copied or moved" % (ln[2:], v0, args[0], v0, emptied[v0] + 1))
            del sole[args[0]]
        # ---- M1 bookkeeping: who may refer to whom, functor ids, what may give a variable a parent
        if op in ("mkS", "setS"):
            v, spec = args[0], args[1].split(":")
            for hs in holders.values():
                hs.discard(v)
            if spec[0] == "sref":
                holders[spec[2]].add(v)
                noparent.pop(spec[2], None)
            fid[v] = spec[1]
            if op == "mkS":
                noparent.pop(v, None)
        elif op == "mkS0":
            for hs in holders.values():
                hs.discard(args[0])
            fid.pop(args[0], None)
            noparent.pop(args[0], None)
        elif op in ("cpS", "asgS", "mvS", "masgS") and args[0] != args[1]:
            d, x = args[0], args[1]
            for tgt, hs in holders.items():
                if x in hs:
                    noparent.pop(tgt, None)     # a clone of a functor referring to tgt binds tgt
                    hs.add(d)
                else:
                    hs.discard(d)
            if op in ("cpS", "mvS"):
                noparent.pop(d, None)           # a new variable
            if x in fid:
                fid[d] = fid[x]
            else:
                fid.pop(d, None)
        elif op in ("clrS", "delS"):
            for hs in holders.values():
                hs.discard(args[0])
            fid.pop(args[0], None)
            if op == "delS":
                noparent.pop(args[0], None)
        # ---- per operation
        if op == "live?":
            f = args[0]
            for v, (fv, n0, t_mv, t_par) in list(live_before.items()):
                if fv == f and v in must_empty and int(res) > n0:
                    bad.append("M1 (C15 moving leaves the source empty, no copy is made): `%s` but it was %d right "
                               "before `%s` (trace line %d), and %s had no parent (`parentS? => 0`, trace line %d)"
                               % (ln[2:], n0, lines[t_mv][2:], t_mv + 1, v, t_par + 1))
                    del live_before[v]
            live_seen[f] = int(res)
        if op in ("mvS", "masgS") and args[0] != args[1]:
            x = args[1]
            if x in noparent and nonempty.get(x) is False:
                must_empty[x] = (idx, noparent[x])
                if fid.get(x) in live_seen:
                    live_before[x] = (fid[x], live_seen[fid[x]], idx, noparent[x])
        if op in ("emptyS?", "boolS?") and args[0] in must_empty:
            t_mv, t_par = must_empty[args[0]]
            still = (res == "0") if op == "emptyS?" else (res == "1")
            if still:
                bad.append("M1 (C15 moving from a slot leaves the source empty): `%s` after `%s` (trace line %d) "
                           "although %s had no parent (`parentS? => 0`, trace line %d) and nothing since could have "
                           "given it one" % (ln[2:], lines[t_mv][2:], t_mv + 1, args[0], t_par + 1))
                del must_empty[args[0]]
        if op == "parentS?" and res == "0":
            noparent[args[0]] = idx
        if op in ("blockS", "unblockS", "blockedS?"):
            v = args[0]
            pending.pop(v, None)                    # not judged: its emptiness was not observed first
            if v in flag and res != str(flag[v]):
                what = "returns" if op != "blockedS?" else "reports"
                bad.append("B1/V (C12, C15): `%s` %s %s but the blocking state of %s must be %d: nothing but "
                           "block/unblock and assignments to that variable may change it"
                           % (ln[2:], what, res, v, flag[v]))
            flag[v] = int(args[1]) if op == "blockS" else 0 if op == "unblockS" else int(res)
        elif op in ("emptyS?", "boolS?"):
            v = args[0]
            if op == "emptyS?":
                nonempty[v] = (res == "1")          # value: "is empty"
                still = (res == "0")
            else:
                if res == "0":
                    nonempty[v] = True
                still = (res == "1")
            if v in pending:
                fb = pending.pop(v)
                if still:
                    flag[v] = fb                    # V2: not moved from after all: completely unchanged
                else:
                    flag.pop(v, None)
        elif op == "parentS?":
            v = args[0]
            if res == "1":
                watch.setdefault(v, idx)
            else:
                if v in watch:
                    bad.append("P1 (C15 independence of copies): `%s` — %s had its parent link (trace line %d) and "
                               "since then only copies made afterwards were destroyed, emptied, disconnected or "
                               "reassigned" % (ln[2:], v, watch[v] + 1))
                    del watch[v]
        elif op == "callS":
            v = args[0]
            if (flag.get(v) == 1 or nonempty.get(v) is True) and (ncalls or res != "0"):
                bad.append("B2 (C12): `%s`: a blocked or empty slot was invoked (%d call lines)" % (ln[2:], ncalls))
        elif op in ("mkS", "mkS0", "setS"):
            flag[args[0]] = 0
            pending.pop(args[0], None)
            born[args[0]] = idx if (op == "mkS0" or args[1].startswith(("fn:", "mem:"))) and op != "setS" else -1
        elif op in ("cpS", "asgS", "mvS", "masgS"):
            d, x = args[0], args[1]
            if d != x:
                src_ok = nonempty.get(x) is False and x in flag and x not in pending
                fx = flag.get(x)
                pending.pop(d, None)
                if src_ok:
                    flag[d] = fx
                else:
                    flag.pop(d, None)
                if op in ("mvS", "masgS"):
                    flag.pop(x, None)
                    if src_ok:
                        pending[x] = fx
                    born[d] = -1
                else:
                    born[d] = idx
        elif op == "clrS":
            flag.pop(args[0], None)
            pending.pop(args[0], None)
        elif op == "delS":
            v = args[0]
            flag.pop(v, None)
            pending.pop(v, None)
            born.pop(v, None)
            for c, w in list(bound.items()):
                if w == v:
                    gone.add(c)
                    del bound[c]
        elif op in ("blockC", "unblockC"):
            if args[0] in gone and res != "0":
                bad.append("K1 (C04): `%s` after the variable was destroyed" % ln[2:])
            if args[0] in bound:
                flag.pop(bound[args[0]], None)
                pending.pop(bound[args[0]], None)
            else:
                flag.clear()
                pending.clear()
        elif op == "connS":
            bound[args[0]] = args[1]
            gone.discard(args[0])
        elif op == "cpC":
            gone.discard(args[0])
            bound.pop(args[0], None)
            if args[1] in gone:
                gone.add(args[0])
            elif args[1] in bound:
                bound[args[0]] = bound[args[1]]
        elif op == "asgC":
            src_gone = args[1] in gone
            src_bound = bound.get(args[1])
            gone.discard(args[0])
            bound.pop(args[0], None)
            if src_gone:
                gone.add(args[0])
            elif src_bound is not None:
                bound[args[0]] = src_bound
        elif op in ("newC", "delC"):
            gone.discard(args[0])
            bound.pop(args[0], None)
        elif op in ("connected?", "blockedC?"):
            if args[0] in gone and res != "0":
                bad.append("K1 (C04): `%s` after the variable was destroyed" % ln[2:])
        elif op == "emptyC?":
            if args[0] in gone and res != "1":
                bad.append("K1 (C04): `%s` after the variable was destroyed" % ln[2:])
        if op not in _NEUTRAL:
            nonempty.clear()
            live_seen.clear()
            if not (op in ("mvS", "masgS") and args[0] != args[1]):
                must_empty.clear()
                live_before.clear()
            else:
                for v in list(must_empty):
                    if must_empty[v][0] != idx:
                        del must_empty[v]
                        live_before.pop(v, None)
    return bad


def monitor_checked(prog, lines):
    return monitor(prog, lines)


# --------------------------------------------------------------------------------------
# classification, shrinking, statistics
# --------------------------------------------------------------------------------------

def classify(prog, r):
    """-> (kind, detail) with kind in None | 'monitor' | 'disagree'"""
    tail = " (program: %s)" % "; ".join(l for l in prog.split("\n") if l and not l.startswith("#"))[:400]
    if r["crash"]:
        return "monitor", "slot-variable graph: the real library fails under the sanitizers: " + r["crash"] + tail
    mon = monitor_checked(prog, r["impl"])
    if mon:
        return "monitor", "slot-variable graph: " + mon[0] + tail
    if r["impl"] != r["model"]:
        for k, (a, b) in enumerate(zip(r["impl"] + ["<end>"], r["model"] + ["<end>"])):
            if a != b:
                return "disagree", ("slot-variable graph: implementation and model differ at trace line %d: impl `%s` "
                                    "model `%s`" % (k + 1, a, b)) + tail
        return "disagree", "slot-variable graph: implementation and model traces differ in length" + tail
    return None, ""


def shrink(exe, prog, kind, budget=12, deadline=None):
    """greedy line removal (all single-line removals evaluated in one parallel batch per round)"""
    lines = [l for l in prog.split("\n") if l.strip()]
    for _ in range(budget):
        if deadline is not None and time.time() > deadline:
            break
        cands = []
        # larger chunks first, then single lines
        n = len(lines)
        for size in sorted({max(1, n // 2), max(1, n // 4), 1}, reverse=True):
            for i in range(0, n, size):
                c = lines[:i] + lines[i + size:]
                if c and c not in cands:
                    cands.append(c)
        texts = ["\n".join(c) for c in cands]
        rs = run_both(exe, texts)
        best = None
        for c, t, r in zip(cands, texts, rs):
            k, _ = classify(t, r)
            if k == kind and (best is None or len(c) < len(best)):
                best = c
        if best is None:
            break
        lines = best
    return "\n".join(lines)


def nontrivial(lines):
    done = 0
    interesting = False
    for ln in lines:
        m = _OPLINE.match(ln)
        if not m:
            continue
        if m.group(3) in ("dead", "exists", "pinned", "owned", "norep", "badop"):
            continue
        done += 1
        if m.group(1) in ("cpS", "mvS", "asgS", "masgS", "setS", "clrS", "delS", "delT", "notifyT", "connS",
                          "disc", "discS", "blockC", "cpC", "asgC"):
            interesting = True
    return done >= 3 and interesting


def stats(progs, results, tags):
    ops = collections.Counter()
    res = collections.Counter()
    feats = collections.Counter()
    lens = []
    for prog, r, tg in zip(progs, results, tags):
        lens.append(len(prog.split("\n")))
        for t in tg:
            feats["template:" + t] += 1
        depth = 0
        seen = set()
        for ln in r["model"]:
            m = _OPLINE.match(ln)
            if not m:
                mm = re.match(r"^(\d+) call", ln)
                if mm:
                    depth = max(depth, int(mm.group(1)))
                continue
            ops[m.group(1)] += 1
            rr = m.group(3)
            res[rr if not rr.isdigit() else "<number>"] += 1
            seen.add((m.group(1), rr))
        if depth >= 1:
            feats["nested invocation through sref"] += 1
        if depth >= 4:
            feats["invocation depth limit reached"] += 1
        for rr in ("pinned", "owned", "norep"):
            if any(x[1] == rr for x in seen):
                feats["program with a `%s` refusal" % rr] += 1
        fin = r["model"][-1] if r["model"] else ""
        if fin.startswith("0 final") and not fin.startswith("0 final live=0 slots=0"):
            feats["self-owning cycle left after teardown"] += 1
    n = max(1, len(progs))
    return {
        "programs": len(progs),
        "lines_per_program_avg": round(sum(lens) / n, 1),
        "operations": dict(ops.most_common()),
        "results": dict(res.most_common()),
        "features": dict(feats.most_common()),
    }


def load_corpus():
    out = []
    if os.path.isdir(CORPUS):
        for f in sorted(os.listdir(CORPUS)):
            if f.endswith(".prog"):
                out.append((f, open(os.path.join(CORPUS, f)).read().strip()))
    return out


def stage(ctx, focus="C06"):
    """the differential stage; same dict shape as a property module's correspondence(ctx)"""
    t0 = time.time()
    out = {"evaluations": 0, "distinct_nontrivial": 0, "rule": RULE, "samples": [], "distribution": {},
           "disagreements": [], "monitor_failures": [], "infra_errors": [], "traces_validated_against_impl": 0}
    if focus not in FOCI:
        out["infra_errors"].append("slotg.stage: unknown focus %r" % (focus,))
        return out
    if not os.path.exists(common.driver()):
        ok, log = common.lean_build(MODULE)
        if not ok:
            out["infra_errors"].append("lake build failed: " + log[-800:])
            return out
    exe, log = build()
    if not exe:
        out["infra_errors"].append("slotg harness does not compile: " + log[-1500:])
        return out
    n = 60000 if ctx.thorough else 6000
    corpus = load_corpus()
    progs, tags, names = [], [], []
    for f, text in corpus:
        progs.append(text)
        tags.append({"corpus"})
        names.append("corpus/SlotG/" + f)
    for i in range(n):
        p, tg = gen_program(ctx.rng, focus)
        progs.append(p)
        tags.append(tg)
        names.append("generated#%d" % i)
    try:
        results = run_both(exe, progs)
    except subprocess.TimeoutExpired as e:
        out["infra_errors"].append("slotg run timed out: %r" % (e,))
        return out
    fails = []
    distinct = set()
    for name, prog, r in zip(names, progs, results):
        kind, detail = classify(prog, r)
        if r["model"] and nontrivial(r["model"]) and prog not in distinct:
            distinct.add(prog)
        if kind:
            fails.append((name, prog, r, kind, detail))
    # shrink and report (at most a few of each kind; the rest is counted)
    reported = collections.Counter()
    for name, prog, r, kind, detail in fails:
        if reported[kind] >= 2:
            reported[kind + "_more"] += 1
            continue
        reported[kind] += 1
        small = prog
        try:
            if not name.startswith("corpus/") or len(prog.split("\n")) > 6:
                small = shrink(exe, prog, kind, deadline=t0 + (240 if ctx.thorough else 30))
        except Exception as e:  # shrinking is best effort
            out["infra_errors"].append("shrink failed: %r" % (e,))
        rs = run_both(exe, [small])[0]
        k2, d2 = classify(small, rs)
        case = {"input": small, "shrunk_from": prog if small != prog else "", "name": name, "focus": focus, "component": "SlotG",
                "impl": "\n".join(rs["impl"]) + (("\n<" + rs["crash"] + ">") if rs["crash"] else ""),
                "model": "\n".join(rs["model"]), "detail": d2 or detail}
        (out["monitor_failures"] if kind == "monitor" else out["disagreements"]).append(case)
    out["evaluations"] = len(progs)
    out["traces_validated_against_impl"] = sum(1 for r in results if not r["crash"] and r["impl"] == r["model"])
    out["distinct_nontrivial"] = len(distinct)
    out["samples"] = [p for p in progs[len(corpus):len(corpus) + 3]] + [p for p in progs[:2]]
    d = stats(progs, results, tags)
    d["focus"] = focus
    d["failing_programs_total"] = len(fails)
    d["failing_generated"] = sum(1 for f in fails if f[0].startswith("generated#"))
    d["wall_s"] = round(time.time() - t0, 1)
    out["distribution"] = d
    return out


def replay_text(prog):
    """run one program on both sides, print what happens; returns 1 when it fails"""
    exe, log = build()
    if not exe:
        print("harness does not compile:", log[-800:])
        return 2
    r = run_both(exe, [prog])[0]
    kind, detail = classify(prog, r)
    print("--- program\n" + prog)
    print("--- real library\n" + "\n".join(r["impl"]) + (("\n<" + r["crash"] + ">") if r["crash"] else ""))
    print("--- model\n" + "\n".join(r["model"]))
    print("--- verdict:", kind or "agree", detail)
    return 1 if kind else 0


if __name__ == "__main__":
    # python3 checks/slotg.py <focus> [seed] [thorough]   |   python3 checks/slotg.py --replay <file.prog>
    if len(sys.argv) >= 3 and sys.argv[1] == "--replay":
        sys.exit(replay_text(open(sys.argv[2]).read().strip()))

    class _Ctx:
        pass

    c = _Ctx()
    c.seed = int(sys.argv[2]) if len(sys.argv) > 2 else int(os.environ.get("VERIF_SEED", "1") or "1")
    c.rng = common.Rng(c.seed)
    c.thorough = len(sys.argv) > 3 and sys.argv[3] == "thorough"
    c.tier = "thorough" if c.thorough else "quick"
    res = stage(c, sys.argv[1] if len(sys.argv) > 1 else "C06")
    import json
    if os.environ.get("SLOTG_JSON"):
        json.dump(res, open(os.environ["SLOTG_JSON"], "w"), indent=1)
    d = res["distribution"]
    print("slotg %s seed=%d: evaluations %d, distinct %d, validated %d, failing %s (generated %s), wall %ss" % (
        d.get("focus"), c.seed, res["evaluations"], res["distinct_nontrivial"],
        res["traces_validated_against_impl"], d.get("failing_programs_total"), d.get("failing_generated"),
        d.get("wall_s")))
    print(" results:", d.get("results"))
    print(" features:", d.get("features"))
    for k in ("monitor_failures", "disagreements"):
        for cse in res[k]:
            print(" %s%s [%s]: %s" % (k[:-1], " (KNOWN)" if cse.get("known") else "", cse.get("name"),
                                      cse["detail"][:200]))
            if not cse.get("known"):
                print("   | " + cse["input"].replace("\n", "\n   | "))
    for e in res["infra_errors"]:
        print(" infra:", e[:500])
    sys.exit(1 if (res["disagreements"] or [m for m in res["monitor_failures"] if not m.get("known")]
                   or res["infra_errors"]) else 0)
