#!/usr/bin/env python3
"""MANIFEST.setup_cmd: build the framework offline from files on disk (Lean library + driver).
The C++ harnesses are built by the checks themselves from /repo's current working tree."""
import os
import sys
sys.path.insert(0, os.path.dirname(os.path.abspath(__file__)))
import common

ok, log = common.lean_build()
print(log[-2000:])
if not ok:
    sys.exit(1)
print("driver:", common.driver(), os.path.exists(common.driver()))
sys.exit(0 if os.path.exists(common.driver()) else 1)
