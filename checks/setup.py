#!/usr/bin/env python3
"""MANIFEST.setup_cmd: build the framework offline from files on disk (Lean driver + every property module).
The C++ harnesses are built by the checks themselves from /repo's current working tree."""
import glob
import os
import sys
sys.path.insert(0, os.path.dirname(os.path.abspath(__file__)))
import common

ok, log = common.lean_build("Sigc.Run")
print(log[-1500:])
if not ok or not os.path.exists(common.driver()):
    print("driver does not build")
    sys.exit(1)
bad = []
for f in sorted(glob.glob(os.path.join(common.LEAN, "Sigc", "Props", "*.lean"))):
    mod = "Sigc.Props." + os.path.basename(f)[:-5]
    ok, log = common.lean_build(mod)
    print(mod, "ok" if ok else "FAILED")
    if not ok:
        bad.append(mod)
        print(log[-1500:])
print("driver:", common.driver(), "property modules that do not build:", bad)
sys.exit(0)
