#!/usr/bin/env python3
"""mechanical mutation sweep (maintenance experiment, not a registered check):
   mutsweep.py gen <outdir> <n> <seed>      -> writes <outdir>/mNNN/patch.diff (+desc)
   mutsweep.py run <outdir> <first> <last>   -> for each mutant: apply to scratch copy, run quick checks with SIGC_REPO,
                                               if nothing reports it, run the 42 tests; summary in <outdir>/mNNN/result.json"""
import json, os, random, re, shutil, subprocess, sys, time

FILES = ["sigc++/signal_base.cc", "sigc++/functors/slot_base.cc", "sigc++/connection.cc", "sigc++/scoped_connection.cc",
         "sigc++/trackable.cc", "sigc++/signal.h", "sigc++/signal_base.h", "sigc++/functors/slot.h",
         "sigc++/functors/slot_base.h", "sigc++/trackable.h", "sigc++/connection.h", "sigc++/scoped_connection.h"]
RT = ["C01", "C02", "C03", "C04", "C06", "C07", "C08", "C12", "C13", "C14", "C15", "C16", "C17", "C18"]


def sh(cmd, cwd=None, timeout=3600, env=None):
    e = dict(os.environ)
    if env:
        e.update(env)
    p = subprocess.run(cmd, cwd=cwd, shell=isinstance(cmd, str), stdout=subprocess.PIPE, stderr=subprocess.STDOUT, text=True,
                       timeout=timeout, env=e, errors="replace")
    return p.returncode, p.stdout


def code_lines(path):
    """indices of lines that are code (not inside comments / doxygen), with the text"""
    src = open(path).read().split("\n")
    res = []
    inblock = False
    for i, l in enumerate(src):
        s = l.strip()
        if inblock:
            if "*/" in s:
                inblock = False
            continue
        if s.startswith("/*"):
            if "*/" not in s:
                inblock = True
            continue
        if s.startswith("//") or s.startswith("*") or s.startswith("#") or not s:
            continue
        res.append(i)
    return src, res


SWAPS = [("==", "!="), ("!=", "=="), ("&&", "||"), ("||", "&&"), ("true", "false"), ("false", "true"),
         ("> 0", ">= 0"), ("== 0", "!= 0"), ("begin()", "end()"), ("++", "--"), ("--", "++"),
         ("std::move(", "("), ("nullptr", "this") ]


def candidates(repo):
    out = []
    for f in FILES:
        p = os.path.join(repo, f)
        src, idx = code_lines(p)
        for i in idx:
            l = src[i]
            s = l.strip()
            # 1. delete a statement
            if s.endswith(";") and not s.startswith(("return", "using", "typedef", "class", "struct", "friend", "template",
                                                      "virtual", "static", "explicit", "inline", "}", "{", "public", "private",
                                                      "protected", "case", "break", "const", "auto ", "bool ", "int ", "void ",
                                                      "extern", "namespace", "typename", "T_", "slot", "signal", "std::", "sigc::",
                                                      "connection", "trackable", "size_type", "iterator", "operator", "~")) \
                    and "(" in s and "=" not in s.split("(")[0] and not re.match(r"^[\w:<>,\s\*&~]+\s+[\w:~]+\(.*\)\s*(const)?\s*(noexcept)?\s*(override)?;$", s):
                out.append((f, i, "delete statement `%s`" % s, None))
            if re.match(r"^\w[\w\.\->_\[\]\*\(\)]*\s*=\s*[^=].*;$", s) and not s.startswith(("auto", "const", "using")):
                out.append((f, i, "delete assignment `%s`" % s, None))
            # 2. negate a condition
            m = re.match(r"^(\s*)(if|while) \((.*)\)\s*$", l)
            if m:
                out.append((f, i, "negate `%s`" % s, "%s%s (!(%s))" % (m.group(1), m.group(2), m.group(3))))
            # 3. token swaps
            for a, b in SWAPS:
                if a in l and not s.startswith(("template", "using")):
                    k = l.index(a)
                    out.append((f, i, "`%s` -> `%s` in `%s`" % (a, b, s), l[:k] + b + l[k + len(a):]))
    return out


def gen(outdir, n, seed):
    os.makedirs(outdir, exist_ok=True)
    cands = candidates("/repo")
    rng = random.Random(seed)
    rng.shuffle(cands)
    print("candidates", len(cands))
    k = 0
    for (f, i, desc, repl) in cands:
        if k >= n:
            break
        src = open(os.path.join("/repo", f)).read().split("\n")
        new = list(src)
        if repl is None:
            ind = re.match(r"^\s*", src[i]).group(0)
            new[i] = ind + ";"
        else:
            new[i] = repl
        d = os.path.join(outdir, "m%03d" % k)
        os.makedirs(d, exist_ok=True)
        tmp = os.path.join(d, "new")
        open(tmp, "w").write("\n".join(new))
        rc, diff = sh(["diff", "-u", "--label", "a/" + f, "--label", "b/" + f, os.path.join("/repo", f), tmp])
        os.remove(tmp)
        open(os.path.join(d, "patch.diff"), "w").write(diff)
        json.dump({"file": f, "line": i + 1, "desc": desc}, open(os.path.join(d, "desc.json"), "w"))
        k += 1
    print("generated", k)


def run_one(d):
    work = "/tmp/mutw_%s" % os.path.basename(d)
    shutil.rmtree(work, ignore_errors=True)
    os.makedirs(work)
    repo = os.path.join(work, "repo")
    sh(["rsync", "-a", "--exclude", "_build", "--exclude", ".git", "/repo/", repo + "/"])
    rc, out = sh(["patch", "-p1", "-i", os.path.join(d, "patch.diff")], cwd=repo)
    res = {"desc": json.load(open(os.path.join(d, "desc.json")))}
    if rc != 0:
        res["status"] = "patch-failed"
        return res
    # quick syntax check: compile the five .cc files
    inc = os.path.join(work, "inc")
    os.makedirs(inc)
    sys.path.insert(0, "/verif/checks")
    import common
    common.REPO = repo
    common.gen_config_header(inc)
    rc, out = sh("g++ -std=c++17 -fsyntax-only -I%s -I%s %s/sigc++/signal_base.cc %s/sigc++/functors/slot_base.cc %s/sigc++/connection.cc "
                 "%s/sigc++/scoped_connection.cc %s/sigc++/trackable.cc %s/tests/test_signal.cc 2>&1 | tail -3" % (repo, inc, repo, repo, repo, repo, repo, repo))
    if "error" in out:
        res["status"] = "does-not-compile"
        shutil.rmtree(work, ignore_errors=True)
        return res
    t0 = time.time()
    procs = {}
    for p in RT:
        env = dict(os.environ, SIGC_REPO=repo, VERIF_OUT_DIR=os.path.join(work, "out_" + p), VERIF_SEED="1")
        procs[p] = subprocess.Popen(["python3", "/verif/checks/check.py", p, "quick"], stdout=subprocess.PIPE, stderr=subprocess.STDOUT,
                                    text=True, env=env, errors="replace")
    caught = {}
    for p, pr in procs.items():
        try:
            out, _ = pr.communicate(timeout=1500)
        except subprocess.TimeoutExpired:
            pr.kill()
            out = "TIMEOUT"
        v = [l for l in out.split("\n") if l.startswith("VIOLATION")]
        if v or pr.returncode != 0:
            caught[p] = (v[0].split(" replay=")[0] + (" no-failing-input-found" if "no-failing-input-found" in v[0] else "")) if v else "rc=%s %s" % (pr.returncode, out[-200:])
    res["caught_by"] = caught
    res["checks_wall_s"] = round(time.time() - t0)
    if not caught:
        rc, out = sh("cmake -G Ninja -S . -B _b -DCMAKE_BUILD_TYPE=Release >/dev/null && cmake --build _b 2>&1 | tail -3 && "
                     "ctest --test-dir _b -j8 --timeout 120 2>&1 | tail -4", cwd=repo)
        m = re.search(r"(\d+)% tests passed, (\d+) tests failed out of (\d+)", out)
        res["tests"] = m.group(0) if m else out[-400:]
        res["status"] = "SURVIVES-BOTH" if (m and m.group(2) == "0") else "killed-by-tests-only"
    else:
        res["status"] = "caught"
    shutil.rmtree(work, ignore_errors=True)
    return res


def run(outdir, a, b):
    for k in range(a, b + 1):
        d = os.path.join(outdir, "m%03d" % k)
        if not os.path.isdir(d) or os.path.exists(os.path.join(d, "result.json")):
            continue
        r = run_one(d)
        json.dump(r, open(os.path.join(d, "result.json"), "w"), indent=1)
        print(os.path.basename(d), r["status"], r["desc"]["file"], r["desc"]["line"], r["desc"]["desc"][:90],
              sorted(r.get("caught_by", {}).keys()), flush=True)


if __name__ == "__main__":
    if sys.argv[1] == "gen":
        gen(sys.argv[2], int(sys.argv[3]), int(sys.argv[4]))
    else:
        run(sys.argv[2], int(sys.argv[3]), int(sys.argv[4]))
