"""Generic engine of the runtime-family checks (C01-C04, C06-C08, C12-C15, C17, C18).

A property module supplies: PID, MODULE, REQUIRED, profiles (quick/thorough program generators), its
directed corpus directory, which known findings it replays.  The engine runs

    R  = the real library (harness built from /repo's working tree, ASan+UBSan+LSan)
    P  = the mechanism model   (`sigc_model run`,  the object of the theorems)
    S' = the statement-level specification with the known findings reproduced (`sigc_model spec-known`)
    S  = the specification proper (`sigc_model spec`)

on the same programs.  Monitor failure (a concrete failing input): R's trace is not allowed by S', or a
sanitizer reported / the harness crashed.  Disagreement: R != P.  Known finding: R allowed by S' but not by
S, exactly at the signature of a finding listed in known_findings.json for this property.
"""
import glob
import hashlib
import json
import os
import re
import sys
import time
import collections

sys.path.insert(0, os.path.dirname(os.path.dirname(os.path.abspath(__file__))))
import common
import runtime

TRUSTED_RT = [
    "Lean 4.33.0 kernel (lake build; leanchecker in the thorough tier); axioms per theorem listed under coverage.theorems",
    "hand-written models lean/Sigc/Model.lean (mechanism model P) and lean/Sigc/Spec.lean (specification S); tied to the "
    "code only by this run's differential correspondence on the generated and corpus programs",
    "harness/sigc_harness.cc (interpreter over the real library), checks/runtime.py (generator, differ, shrinker)",
    "g++ 12 / libstdc++ 12 (std::list, std::shared_ptr as per the standard), ASan/UBSan/LSan as memory-safety oracle",
]

ASSUMPTIONS_RT = [
    "histories are programs of the operation language (docs/LANGUAGE.md): every operation is total (dead/exists/busy/"
    "pinned/badorder/toodeep/budget results), user code runs only in functor bodies",
    "excluded by the language: deleting or reassigning a slot variable during its own direct invocation (busy), "
    "destroying a non-trackable signal that is forwarded to (pinned), forwarding cycles (levels), recursion beyond maxdepth",
    "functor kinds with post-call self access (bind_return/compose/exception_catch) are not in the runtime alphabet "
    "(known finding F6)",
]


def load_corpus(pid):
    d = os.path.join(common.VERIF, "corpus", pid)
    res = []
    for f in sorted(glob.glob(os.path.join(d, "*.prog"))):
        res.append((os.path.basename(f), open(f).read()))
    return res


def trace_stats(traces):
    """input distribution measured on the implementation's traces"""
    ops = collections.Counter()
    results = collections.Counter()
    calls = 0
    maxdepth = 0
    nested_emit = 0
    exc = 0
    for t in traces:
        seen_nested = False
        for l in t.split("\n"):
            if not l:
                continue
            w = l.split(" ")
            try:
                d = int(w[0])
            except ValueError:
                continue
            maxdepth = max(maxdepth, d)
            if len(w) > 1 and w[1] == "call":
                calls += 1
                continue
            if " => " in l:
                op = w[1]
                res = l.rsplit(" => ", 1)[1]
                ops[op] += 1
                cls = res if res in ("dead", "exists", "busy", "pinned", "badtype", "badorder", "badlevel", "toodeep",
                                     "budget", "exc", "caught", "badop", "self") else "effective"
                results[cls] += 1
                if res == "exc":
                    exc += 1
                if op in ("emit", "tryemit") and d > 0 and cls == "effective":
                    seen_nested = True
        nested_emit += 1 if seen_nested else 0
    return {"ops": dict(ops.most_common()), "result_classes": dict(results), "functor_invocations": calls,
            "max_body_depth": maxdepth, "programs_with_nested_emission": nested_emit, "exceptions": exc}


def harness_stats(stderrs):
    """what the harness-only variations did (exception types thrown, emissions made during stack unwinding)"""
    tot = collections.Counter()
    for e in stderrs:
        for l in (e or "").split("\n"):
            if l.startswith("#harness-stats"):
                for kv in l.split()[1:]:
                    k, _, v = kv.partition("=")
                    try:
                        tot[k] += int(v)
                    except ValueError:
                        pass
    return dict(tot)


def nontrivial(trace):
    """a program is non-trivial if the implementation invoked at least one functor and at least 8
    operations had an effect (were not answered dead/exists/...)"""
    calls = 0
    eff = 0
    for l in trace.split("\n"):
        w = l.split(" ")
        if len(w) > 1 and w[1] == "call":
            calls += 1
        elif " => " in l:
            res = l.rsplit(" => ", 1)[1]
            if res not in ("dead", "exists", "busy", "pinned", "badtype", "badorder", "badlevel", "toodeep", "budget",
                           "badop", "self"):
                eff += 1
    return calls >= 1 and eff >= 8


def case_of(r, name, what):
    return {"input": r["input"], "name": name, "impl": r["impl"][-4000:], "model": (r["model"] or "")[-4000:],
            "spec": (r.get("spec") or "")[-4000:], "verdict": r["verdict"], "stderr": (r.get("stderr") or "")[-2500:],
            "detail": what}


def is_monitor_failure(r):
    return bool(r["verdict"]) or r["sdiff"] is not None


def fixed_cc_replays(pid):
    """repaired findings whose replay is a stand-alone C++ program (graphs outside the operation languages): built against
    the current tree under ASan+UBSan and run with every listed argument; a sanitizer report means the defect is back"""
    import subprocess
    out = []
    for e in common.known_findings(pid):
        rp = e.get("replay") or ""
        if e.get("status") != "fixed" or not rp.endswith(".cc") or (e.get("properties") or [pid])[0] != pid:
            continue
        src = os.path.join(common.VERIF, rp)
        if not os.path.exists(src):
            out.append({"input": rp, "name": rp, "impl": "", "model": "", "detail": "replay of the repaired finding %s is missing" % e["id"]})
            continue
        rexe, rlog = common.build_harness(src, "replay_" + e["id"].lower())
        if not rexe:
            out.append({"input": open(src).read()[:4000], "name": rp, "impl": "", "model": "",
                        "detail": "replay of the repaired finding %s does not build against the current tree: %s" % (e["id"], rlog[-600:])})
            continue
        env = dict(os.environ)
        env.update(runtime.SAN_ENV)
        for a in (e.get("replay_arg_sets") or [[]]):
            pr = subprocess.run([rexe] + [str(x) for x in a], stdout=subprocess.PIPE, stderr=subprocess.PIPE, text=True, timeout=120,
                                env=env, errors="replace")
            v = runtime.classify_stderr(pr.returncode, pr.stderr)
            if v:
                out.append({"input": "// run with arguments %s\n%s" % (a, open(src).read()[:6000]), "name": rp, "impl": pr.stdout[-500:],
                            "model": "", "verdict": v, "stderr": pr.stderr[-2500:],
                            "detail": "the repaired finding %s is back: %s (arguments %s): %s" % (e["id"], rp, a, v)})
                break
    return out


def run(ctx, mod):
    """the correspondence() of a runtime-family property module"""
    t0 = time.time()
    exe, log = runtime.build_main_harness()
    if not exe:
        return {"evaluations": 0, "distinct_nontrivial": 0, "rule": "", "samples": [], "disagreements": [],
                "monitor_failures": [], "infra_errors": ["harness does not build against the current tree: " + log[-2500:]]}
    corpus = load_corpus(mod.PID)
    n = mod.N_THOROUGH if ctx.thorough else mod.N_QUICK
    profiles = mod.profiles(ctx.thorough)
    progs = [p for _, p in corpus]
    names = [nm for nm, _ in corpus]
    for k in range(n):
        prof = profiles[k % len(profiles)]
        progs.append(runtime.gen_program(ctx.rng, prof))
        names.append("gen%d" % k)
    if hasattr(mod, "extra_programs"):
        for nm, p in mod.extra_programs(ctx):
            progs.append(p)
            names.append(nm)
    res = []
    B = 4000
    for a in range(0, len(progs), B):
        res += runtime.compare(exe, progs[a:a + B])
    mon, dis, known = [], [], collections.Counter()
    allowed_known = getattr(mod, "KNOWN_IDS", ())
    for r, nm in zip(res, names):
        if is_monitor_failure(r):
            what = ("sanitizer/crash verdict %s" % r["verdict"]) if r["verdict"] else \
                ("implementation trace not allowed by the specification at line %d: impl `%s` spec `%s`" % r["sdiff"])
            mon.append((r, nm, what))
        elif r["diff"] is not None:
            dis.append((r, nm, "implementation and mechanism model differ at line %d: impl `%s` model `%s`" % r["diff"]))
        if r.get("known"):
            known[r["known"][:2]] += 1
    extra_mon = []
    if hasattr(mod, "post_monitor"):
        extra_mon = mod.post_monitor(ctx, dict(zip(names, res)))
    extra_mon = list(extra_mon) + fixed_cc_replays(mod.PID)
    # shrink the first failing / diverging programs
    out_mon, out_dis = list(extra_mon), []
    for (r, nm, what) in mon[:3]:
        v0 = r["verdict"]
        small = runtime.shrink(exe, r["input"],
                               (lambda x: (x["verdict"] is not None) if v0 else (x["sdiff"] is not None and not x["verdict"])),
                               budget=120 if not ctx.thorough else 300)
        rr = runtime.compare(exe, [small], jobs=1)[0]
        if not is_monitor_failure(rr):
            rr = r
        w2 = ("sanitizer/crash verdict %s" % rr["verdict"]) if rr["verdict"] else \
            ("implementation trace not allowed by the specification at line %d: impl `%s` spec `%s`" % rr["sdiff"])
        out_mon.append(case_of(rr, nm, w2))
    for (r, nm, what) in mon[3:20]:
        out_mon.append(case_of(r, nm, what))
    for (r, nm, what) in dis[:2]:
        small = runtime.shrink(exe, r["input"], lambda x: x["diff"] is not None and not is_monitor_failure(x), budget=100)
        rr = runtime.compare(exe, [small], jobs=1)[0]
        if rr["diff"] is None:
            rr = r
        out_dis.append(case_of(rr, nm, "implementation and mechanism model differ at line %d: impl `%s` model `%s`" % rr["diff"]))
    for (r, nm, what) in dis[2:10]:
        out_dis.append(case_of(r, nm, what))
    distinct = set()
    for r in res:
        if nontrivial(r["impl"]):
            distinct.add(hashlib.sha1(r["input"].encode()).hexdigest())
    stats = trace_stats([r["impl"] for r in res])
    try:
        clear = runtime.run_model(progs, mode="clear")
        stats["programs_clear_of_known_findings"] = sum(1 for c in clear if c.strip() == "true")
        stats["programs_clear_note"] = ("runs satisfying SpecK.clearTop (evaluated by the driver): covered end to end by "
                                        "SpecK.model_refines_pure_spec (mechanism model allowed by the specification proper)")
    except Exception as e:
        stats["programs_clear_of_known_findings"] = "not evaluated: %r" % (e,)
    stats["harness_variations"] = harness_stats([r.get("stderr") for r in res])
    stats["programs_with_owning_functors"] = sum(1 for r in res if r["input"].startswith("owners") or "\nowners\n" in r["input"])
    stats["programs_touching_known_findings"] = dict(known)
    stats["corpus_programs"] = len(corpus)
    samples = []
    for r, nm in list(zip(res, names))[:2] + list(zip(res, names))[len(corpus):len(corpus) + 2]:
        samples.append({"name": nm, "program": r["input"][:1500], "impl_trace_head": r["impl"][:800]})
    out = {
        "evaluations": len(progs),
        "distinct_nontrivial": len(distinct),
        "rule": "programs of the operation language: the directed corpus corpus/%s/*.prog first, then programs drawn from "
                "the property's profile(s) with the single PRNG seeded by VERIF_SEED (mostly-valid generator that tracks "
                "which names are alive, plus a dead-name stream); non-trivial = the implementation invoked >= 1 functor and "
                ">= 8 operations had an effect; distinct by SHA-1 of the program text" % mod.PID,
        "samples": samples,
        "traces_validated_against_impl": len(progs),
        "distribution": stats,
        "disagreements": out_dis,
        "monitor_failures": out_mon,
        "infra_errors": [],
        "harness_build": log if log in ("cached", "built") else "built",
        "correspondence_wall_s": round(time.time() - t0, 1),
    }
    return out


def add_slotg_stage(ctx, res, focus):
    """the slot-variable-graph component (checks/slotg.py, model lean/Sigc/SlotG.lean, docs/SLOTG.md): object graphs
    among slot *variables* — connection(slot_base&), slots with a parent through std::ref, self-owning cycles — which the
    signal-centred language cannot express; merged into the property's correspondence"""
    try:
        import slotg
        res.setdefault("distribution", {})
        res.setdefault("traces_validated_against_impl", 0)
        sub = slotg.stage(ctx, focus)
        res["evaluations"] += sub.get("evaluations", 0)
        res["distinct_nontrivial"] += sub.get("distinct_nontrivial", 0)
        res["traces_validated_against_impl"] = res.get("traces_validated_against_impl", 0) + sub.get("traces_validated_against_impl", 0)
        res["distribution"]["slot_variable_graphs_SlotG"] = {
            "focus": focus, "evaluations": sub.get("evaluations", 0), "distinct_nontrivial": sub.get("distinct_nontrivial", 0),
            "rule": sub.get("rule", ""), "distribution": sub.get("distribution", {})}
        res["samples"] = res.get("samples", []) + sub.get("samples", [])[:1]
        res["monitor_failures"] += sub.get("monitor_failures", [])
        res["disagreements"] += sub.get("disagreements", [])
        res["infra_errors"] += sub.get("infra_errors", [])
    except Exception as e:
        res["infra_errors"].append("SlotG stage crashed: %r" % (e,))
    return res


def add_sweepl_stage(ctx, res, focus):
    """the single-list component with EXACT destruction timing (checks/sweepl.py, model lean/Sigc/SweepL.lean,
    docs/SWEEPL.md): owner functors whose destructors disconnect other slots of the same list at the moment the library
    destroys them — inside an erase, a sweep, a clear — together with connected empty slots, the combination the program
    mode `owners` of the main language keeps apart; merged into the property's correspondence"""
    try:
        import sweepl
        res.setdefault("distribution", {})
        res.setdefault("traces_validated_against_impl", 0)
        sub = sweepl.stage(ctx, focus)
        res["evaluations"] += sub.get("evaluations", 0)
        res["distinct_nontrivial"] += sub.get("distinct_nontrivial", 0)
        res["traces_validated_against_impl"] = res.get("traces_validated_against_impl", 0) + sub.get("traces_validated_against_impl", 0)
        res["distribution"]["single_list_exact_destruction_SweepL"] = {
            "focus": focus, "evaluations": sub.get("evaluations", 0), "distinct_nontrivial": sub.get("distinct_nontrivial", 0),
            "rule": sub.get("rule", ""), "distribution": sub.get("distribution", {})}
        res["samples"] = res.get("samples", []) + sub.get("samples", [])[:1]
        res["monitor_failures"] += sub.get("monitor_failures", [])
        res["disagreements"] += sub.get("disagreements", [])
        res["infra_errors"] += sub.get("infra_errors", [])
    except Exception as e:
        res["infra_errors"].append("SweepL stage crashed: %r" % (e,))
    return res


def search(ctx, mod, disagreements):
    """mutate around diverging programs looking for one whose implementation trace violates the spec"""
    exe, log = runtime.build_main_harness()
    if not exe:
        return []
    profiles = mod.profiles(True)
    n = (mod.N_QUICK * 4) if not ctx.thorough else mod.N_QUICK * 10
    progs = []
    # programs derived from the diverging ones: append random suffixes of the same profile
    for c in disagreements[:5]:
        base = c["input"]
        for k in range(40):
            extra = runtime.gen_program(ctx.rng, profiles[k % len(profiles)])
            tail = [l for l in extra.split("\n") if l and not l.startswith(("body", "end", " ", "maxdepth"))]
            progs.append(base + "\n".join(tail[:10 + 2 * k]) + "\n")
    for k in range(n):
        progs.append(runtime.gen_program(ctx.rng, profiles[k % len(profiles)]))
    res = runtime.compare(exe, progs)
    out = []
    for r in res:
        if is_monitor_failure(r):
            what = ("sanitizer/crash verdict %s" % r["verdict"]) if r["verdict"] else \
                ("implementation trace not allowed by the specification at line %d: impl `%s` spec `%s`" % r["sdiff"])
            out.append(case_of(r, "search", what))
            if len(out) >= 3:
                break
    return out


def known(ctx, mod):
    """replay the known findings listed for this property; returns the lines for those that still fail"""
    lines = []
    exe, log = runtime.build_main_harness()
    if not exe:
        return lines
    for e in common.known_findings(mod.PID):
        if e.get("status") != "known":
            continue
        rp = e.get("replay")
        if rp and rp.endswith(".cc"):
            # a stand-alone C++ replay (functor kinds outside the operation language): build it against the
            # current tree under ASan; it still fails iff the sanitizer reports
            src = os.path.join(common.VERIF, rp)
            if os.path.exists(src):
                rexe, rlog = common.build_harness(src, "replay_" + e["id"].lower())
                if rexe:
                    env = dict(os.environ)
                    env.update(runtime.SAN_ENV)
                    import subprocess
                    pr = subprocess.run([rexe] + list(e.get("replay_args", [])), stdout=subprocess.PIPE, stderr=subprocess.PIPE, text=True, timeout=120,
                                        env=env, errors="replace")
                    if runtime.classify_stderr(pr.returncode, pr.stderr):
                        lines.append(e["what"])
            continue
        if not rp or not rp.endswith(".prog"):
            continue
        path = os.path.join(common.VERIF, rp)
        if not os.path.exists(path):
            continue
        prog = open(path).read()
        r = runtime.compare(exe, [prog], jobs=1)[0]
        if r.get("known") and r["known"].startswith(e["id"]):
            lines.append(e["what"])
        elif is_monitor_failure(r):
            lines.append("%s (replay now fails differently: %s)" % (e["what"], r["verdict"] or str(r["sdiff"])))
    return lines


def replay(ctx, mod, path):
    j = json.load(open(path))
    case = j.get("case") or (j.get("correspondence_no_longer_checked") or [{}])[0]
    prog = case.get("input")
    if not prog:
        print("replay file has no program; it names what no longer checks:")
        print(json.dumps(j, indent=1)[:3000])
        return 0
    comp = case.get("component") or ("SlotG" if "focus" in case and "slot list:" not in (case.get("detail") or "") and "corpus/SweepL" not in (case.get("name") or "") else
                                     ("SweepL" if "focus" in case else None))
    if comp in ("SlotG", "SweepL"):
        # a program of a component language (docs/SLOTG.md, docs/SWEEPL.md): replayed by that component
        import importlib
        m = importlib.import_module("slotg" if comp == "SlotG" else "sweepl")
        rc = m.replay_text(prog)
        if rc == 1:
            print("VIOLATION property=%s replay=%s" % (mod.PID, path))
        return 1 if rc else 0
    if (case.get("name") or "").endswith(".cc"):
        for e in fixed_cc_replays(mod.PID):
            print(e["detail"])
            print("VIOLATION property=%s replay=%s" % (mod.PID, path))
            return 1
        print("the stand-alone replays of the repaired findings of %s pass on the current tree" % mod.PID)
        return 0
    exe, log = runtime.build_main_harness()
    if not exe:
        print("harness does not build:", log[-2000:])
        return 1
    r = runtime.compare(exe, [prog], jobs=1)[0]
    print("--- program\n" + prog)
    print("--- implementation trace\n" + r["impl"])
    print("--- verdict:", r["verdict"], "\n--- impl vs spec:", r["sdiff"], "\n--- impl vs model:", r["diff"])
    if r["verdict"]:
        print(r["stderr"][-3000:])
    if is_monitor_failure(r):
        print("VIOLATION property=%s replay=%s" % (mod.PID, path))
        return 1
    return 0
