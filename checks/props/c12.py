"""C12 — blocking suspends a slot without disconnecting it  (runtime family; engine: props/rt.py, see DESIGN.md §5 C12)"""
import os
import sys
sys.path.insert(0, os.path.dirname(os.path.dirname(os.path.abspath(__file__))))
from runtime import Profile
from props import rt

PID = "C12"
LEVEL = "proof"
MODULE = "Sigc.Props.C12"
EXTRA_MODULES = ("Sigc.Props.Refine", "Sigc.Props.Fuel", "Sigc.Props.SpecK", "Sigc.Props.SpecProps", "Sigc.Props.SlotG",)   # refinement P ⊑ S', S' ≡ S on runs clear of the known findings, the statements read off S
REQUIRED = ["Sigc.SlotG.block_returns_previous", "Sigc.SlotG.cpS_blocked", "Sigc.SlotG.mvS_blocked", "Sigc.SlotG.asgS_blocked", "Sigc.SlotG.masgS_blocked", "Sigc.SlotG.blocked_or_empty_callS", "Sigc.SlotG.foreign_block_untouched", "Sigc.Fuel.terminates", "Sigc.Fuel.runProgram_fuel_independent", "Sigc.Refine.refines", "Sigc.Refine.runProgram_refines", "Sigc.SpecK.model_refines_pure_spec"]
TRUSTED = rt.TRUSTED_RT
ASSUMPTIONS = rt.ASSUMPTIONS_RT + []
PARTIAL = []
KNOWN_IDS = ()
N_QUICK = 600
N_THOROUGH = 20000
EXPLANATION = ''

def profiles(thorough):
    p = Profile(nT=1, nS=4, nG=3, nC=8, nK=3, specs={"fn": 6, "trk": 1, "nest": 2}, body_prob=0.3,
                len=(15, 60 if not thorough else 150),
                w={"blockS": 8, "blockedS?": 5, "blockC": 8, "blockedC?": 5, "blockK": 4, "blockedK?": 3, "blockG": 5, "blockedG?": 6,
                   "connfn": 10, "conn": 6, "mkS": 5, "cpS": 4, "asgS": 2, "callS": 6, "emit": 10, "disc": 3, "size?": 4, "newK": 3,
                   "connected?": 3},
                bw={"blockC": 8, "blockG": 3, "blockS": 3, "disc": 2, "throw": 0})
    return [p]


def correspondence(ctx):
    return rt.add_slotg_stage(ctx, rt.run(ctx, sys.modules[__name__]), 'C12')


def search(ctx, disagreements):
    return rt.search(ctx, sys.modules[__name__], disagreements)


def known(ctx):
    return rt.known(ctx, sys.modules[__name__])


def replay(ctx, path):
    return rt.replay(ctx, sys.modules[__name__], path)
