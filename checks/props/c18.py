"""C18 — signals chain through make_slot(); a dying trackable_signal unhooks itself  (runtime family; engine: props/rt.py, see DESIGN.md §5 C18)"""
import os
import sys
sys.path.insert(0, os.path.dirname(os.path.dirname(os.path.abspath(__file__))))
from runtime import Profile
from props import rt

PID = "C18"
LEVEL = "proof"
MODULE = "Sigc.Props.C18"
EXTRA_MODULES = ("Sigc.Props.Refine", "Sigc.Props.Fuel", "Sigc.Props.SpecK",)   # refinement P ⊑ S', S' ≡ S on runs clear of the known findings
REQUIRED = ["Sigc.Fuel.terminates", "Sigc.Fuel.runProgram_fuel_independent", "Sigc.Refine.refines", "Sigc.Refine.runProgram_refines", "Sigc.SpecK.model_refines_pure_spec"]
TRUSTED = rt.TRUSTED_RT
ASSUMPTIONS = rt.ASSUMPTIONS_RT + []
PARTIAL = []
KNOWN_IDS = ()
N_QUICK = 400
N_THOROUGH = 10000
EXPLANATION = ''

def profiles(thorough):
    p = Profile(nT=1, nS=3, nG=5, nC=8, nK=1, flavours=["TI", "TV", "TA", "I", "V", "TI", "TV"],
                specs={"fn": 4, "fwd": 7, "trk": 1, "ownT": 2, "ownK": 1}, body_prob=0.3, len=(15, 60 if not thorough else 150), prelude=8,
                w={"newG": 8, "connfn": 14, "mkS": 4, "conn": 4, "emit": 12, "cpG": 5, "mvG": 5, "masgG": 3, "asgG": 2, "delG": 6,
                   "size?": 5, "connected?": 6, "emptyS?": 3, "callS": 2},
                bw={"delG": 6, "mvG": 3, "masgG": 2, "emit": 3, "disc": 2, "throw": 0})
    return [p]


def correspondence(ctx):
    return rt.run(ctx, sys.modules[__name__])


def search(ctx, disagreements):
    return rt.search(ctx, sys.modules[__name__], disagreements)


def known(ctx):
    return rt.known(ctx, sys.modules[__name__])


def replay(ctx, path):
    return rt.replay(ctx, sys.modules[__name__], path)
