"""C09 — auto-disconnection reaches through every adaptor and nesting.

Proof: lean/Sigc/Props/C09.lean about the visitor table in lean/Sigc/Visit.lean.
Correspondence: functor expressions of the property's grammar are rendered both as C++ (real library, ASan)
and as driver input (`sigc_model visit`); compared are (R) what `visit_each_trackable` reaches on the stored
functor, (A) `slot.empty()` / `signal.size()` after each trackable of the case is destroyed first, (B) the
behaviour when slot and signal are destroyed first and the trackables afterwards.
Bound arguments of bind / bind<I> / bind_return are plain values, std::ref / std::cref, by-value objects,
objects bound with an *explicitly spelled reference type* (`xref` / `xcref`: `sigc::bind_return<T&>(f, obj)`,
`sigc::bind<I, F, …, const T&, …>(f, …, obj, …)`, `sigc::bind<F, T&>(f, obj)` — bound_argument<T&> keeps a reference to
the object itself and its visitor hands the object to the action with its own, derived, type instead of through a
limit_reference) and *functor expressions bound by value* (`fun<r><n> <expr>`: mem_fun functors, slots, make_slot
functors, adaptor expressions), at every position of the bound tuple; the statement side counts an explicitly
referenced object, and what a bound functor refers to, as referred to by the whole expression.
"""
import glob
import json
import os
import re
import shutil
import sys
import time

sys.path.insert(0, os.path.dirname(os.path.dirname(os.path.abspath(__file__))))
import common  # noqa: E402

sys.path.insert(0, os.path.join(common.VERIF, "harness"))
import visit_gen as G  # noqa: E402

PID = "C09"
LEVEL = "proof"
MODULE = "Sigc.Props.C09"
REQUIRED = ["Sigc.C09.visited_eq_referenced", "Sigc.C09.visitedAll_eq_referenced", "Sigc.C09.ties_all",
            "Sigc.C09.no_trace", "Sigc.C09.f1_witness", "Sigc.C09.scan_perm_referenced", "Sigc.C09.bound_perm_refs",
            "Sigc.C09.bound_leaf_witness", "Sigc.C09.by_type_dropped_witness"]
PARTIAL = []
TRUSTED = [
    "Lean 4 kernel (axioms per theorem as audited: propext, Quot.sound, Classical.choice only)",
    "hand-written model lean/Sigc/Visit.lean: FExpr grammar, the visitor table `codeTable` (one row per "
    "sigc::visitor<> specialisation, one for the overload set of slot_do_bind/slot_do_unbind), `scan`, `Rep.invalidatedBy` (parent chain), callback list add/remove; tied to "
    "/repo only by the correspondence below (differential, bounded by what the generator reaches)",
    "the invalidation cascade (~trackable -> notify_slot_rep_invalidated -> disconnect -> parent) is abstracted as "
    "`Rep.invalidatedBy`; its heap-level mechanism belongs to the protocol model (C02)",
    "harness/visit_support.h, harness/visit_gen.py (typing rules of the expression grammar, C++ rendering), "
    "g++ 12 / libstdc++, AddressSanitizer as the oracle for 'no trace' (stale callback = heap-use-after-free)",
    "the `referenced` flag handed to the C++ side is computed from the expression text by visit_gen.referenced",
]
ASSUMPTIONS = [
    "targets never destroy objects during their own invocation (known finding F6 is out of scope here)",
    "referenced non-trackable objects (std::ref of a plain struct, sigc::signal behind make_slot) outlive the slot "
    "— the user's obligation; they are never chosen as victims",
    "the slot is made from the expression while all referenced objects are alive",
]
EXPLANATION = ("theorems quantify over all expressions (bound arguments: values, std::ref/cref, by-value objects, objects "
               "bound with an explicitly spelled reference type T& / const T&, functor expressions bound by value); the "
               "correspondence samples/enumerates expressions up to depth 3 "
               "with 1-3 trackables (+ optional untracked object, + signals for make_slot)")

CXXFLAGS = ["-std=c++17", "-O0", "-g1", "-fsanitize=address", "-fno-omit-frame-pointer",
            "-Wno-virtual-move-assign", "-DSIGC_BUILD"]
HARNESS = os.path.join(common.VERIF, "harness")
CORPUS = os.path.join(common.VERIF, "corpus", "C09")
ASAN_ENV = {"ASAN_OPTIONS": "detect_leaks=0:abort_on_error=0:allocator_may_return_null=1:print_legend=0"}


# ------------------------------------------------------------------------------------------------
# building
# ------------------------------------------------------------------------------------------------

def lib_objects():
    """the five library .cc of the current tree, compiled once per tree state"""
    key = common.repo_hash("c09lib" + " ".join(CXXFLAGS))
    d = os.path.join(common.CACHE, "c09lib_" + key)
    objs = [os.path.join(d, "lib%d.o" % i) for i in range(len(common.LIB_CC))]
    inc = os.path.join(d, "inc")
    with common.FileLock("build_c09lib"):
        if all(os.path.exists(o) for o in objs) and os.path.exists(os.path.join(inc, "sigc++config.h")):
            os.utime(d)
            return objs, inc, ""
        common.prune_cache("c09lib_" + key, "c09lib_", keep=2)
        common.ensure_dir(d)
        common.gen_config_header(inc)
        cmds = [(o, ["g++"] + CXXFLAGS + ["-I", inc, "-I", common.REPO, "-c", os.path.join(common.REPO, c), "-o", o], d)
                for o, c in zip(objs, common.LIB_CC)]
        res = common.parallel(cmds)
        log = "".join(out[-2000:] for rc, out in res.values() if rc != 0)
        if log:
            shutil.rmtree(d, ignore_errors=True)
            return None, None, log
    return objs, inc, ""


def run_cases(cases, tag, per_tu):
    """cases: list of (cid, sig, pool, node).  Returns ({cid: [lines]}, {cid: stderr tail}, infra_errors, timings)"""
    objs, inc, log = lib_objects()
    if objs is None:
        return {}, {}, ["library does not compile: " + log[-1500:]], {}
    work = os.path.join(common.CACHE, "c09_%s_%d" % (tag, os.getpid()))
    shutil.rmtree(work, ignore_errors=True)
    common.ensure_dir(work)
    infra = []
    out_lines = {}
    errs = {}
    tm = {}
    try:
        tus = [cases[i:i + per_tu] for i in range(0, len(cases), per_tu)]
        import subprocess
        env = dict(os.environ)
        env.update(ASAN_ENV)
        cc_s = [0.0]

        def one(i):
            """compile, run and remove one translation unit (bounds the disk use)"""
            tu = tus[i]
            src = os.path.join(work, "tu%d.cc" % i)
            exe = os.path.join(work, "tu%d" % i)
            with open(src, "w") as f:
                f.write(G.cpp_tu(tu))
            t1 = time.time()
            rc, out = common.sh(["g++"] + CXXFLAGS + ["-I", inc, "-I", common.REPO, "-I", HARNESS, src] + objs
                                + ["-o", exe], cwd=work, timeout=900)
            cc_s[0] += time.time() - t1
            if rc != 0:
                first = [l for l in out.split("\n") if "error" in l][:3]
                return i, None, "TU %d does not compile (cases %s): %s" % (
                    i, ", ".join(G.case_text(*c[1:]) for c in tu[:3]), " | ".join(first)[:600] or out[-600:]), ""
            try:
                p = subprocess.run([exe], cwd=work, stdout=subprocess.PIPE, stderr=subprocess.PIPE, timeout=600,
                                   env=env, text=True, errors="replace")
                r = (i, p.returncode, p.stdout, p.stderr)
            except subprocess.TimeoutExpired:
                r = (i, 124, "", "TIMEOUT")
            for f in (src, exe):
                try:
                    os.unlink(f)
                except OSError:
                    pass
            return r

        t0 = time.time()
        from concurrent.futures import ThreadPoolExecutor
        with ThreadPoolExecutor(max_workers=common.NCPU) as ex:
            for i, rc, so, se in ex.map(one, range(len(tus))):
                if rc is None:
                    infra.append(so)
                    continue
                if rc != 0:
                    infra.append("TU %d: harness exited with %d: %s" % (i, rc, se[-400:]))
                for l in so.split("\n"):
                    w = l.split()
                    if len(w) >= 2 and w[0] in "RABXE" and w[1].isdigit():
                        out_lines.setdefault(int(w[1]), []).append(l)
                # attribute sanitizer reports to the cases that crashed in this TU
                crashed = [int(l.split()[1]) for l in so.split("\n") if l.startswith("X ")]
                reports = re.split(r"(?==+\d+==ERROR)", se)
                reports = [r for r in reports if "ERROR" in r]
                for cid, rep in zip(crashed, reports):
                    m = re.search(r"ERROR: AddressSanitizer: (\S+)", rep)
                    frames = re.findall(r"#\d+ 0x[0-9a-f]+ in (\S+)", rep)[:6]
                    errs[cid] = "%s in %s" % (m.group(1) if m else "error", " < ".join(frames))
        tm["compile_and_run_wall_s"] = round(time.time() - t0, 1)
        tm["compile_cpu_s"] = round(cc_s[0], 1)
        tm["translation_units"] = len(tus)
    finally:
        shutil.rmtree(work, ignore_errors=True)
    return out_lines, errs, infra, tm


def model_lines(nodes):
    """driver output for each expression"""
    inp = "\n".join(G.show(n, lean=True) for n in nodes) + "\n"
    rc, out = common.sh([common.driver(), "visit"], input=inp, timeout=300)
    lines = [l for l in out.split("\n") if l.strip()]
    if rc != 0 or len(lines) != len(nodes):
        return None, "driver failed (rc %d, %d lines for %d cases): %s" % (rc, len(lines), len(nodes), out[-300:])
    return lines, ""


def parse_model(line):
    d = {}
    for w in line.split():
        if "=" in w:
            k, v = w.split("=", 1)
            d[k] = [x for x in v.split(",") if x]
    return d


def norm_regs(xs):
    return sorted("own" if x.startswith("own") else x for x in xs)


# ------------------------------------------------------------------------------------------------
# judging one case
# ------------------------------------------------------------------------------------------------

def judge(case, lines, mline, err):
    """returns (disagreement detail | None, monitor failure detail | None, impl summary, model summary, info)"""
    cid, sig, pool, node = case
    m = parse_model(mline)
    victims = G.victims_of(pool, node)
    tied = set(int(x) for x in m.get("tied", []))
    impl = []
    model = []
    dis = []
    mon = []
    info = {"order_differs": False}
    got = {"R": None, "A": {}, "B": None, "X": None, "gone": False}
    for l in lines:
        w = l.split()
        if w[0] == "R":
            got["R"] = w[2]
        elif w[0] == "A":
            got["A"][int(w[2])] = dict(x.split("=") for x in w[3:])
        elif w[0] == "B" and w[2] == "slot-gone":
            got["gone"] = True
        elif w[0] == "B":
            got["B"] = dict(x.split("=") for x in w[2:])
        elif w[0] == "X":
            got["X"] = w[2]
    # R: what the visitors reach
    if node[0] != "C":
        mr = m.get("regs", [])
        model.append("R " + (",".join(mr) or "-"))
        if got["R"] is not None:
            ir = [] if got["R"] == "-" else got["R"].split(",")
            impl.append("R " + got["R"])
            if norm_regs(ir) != norm_regs(mr):
                dis.append("visit_each_trackable reaches {%s}, the model's table gives {%s}"
                           % (",".join(ir), ",".join(mr)))
            elif ["own" if x.startswith("own") else x for x in mr] != ir:
                info["order_differs"] = True
    # A: each victim first
    crashed_in = None
    for vid, refd in victims:
        exp_e, exp_n = ("1", "0") if vid in tied else ("0", "1")
        model.append("A %d empty=%s size=%s" % (vid, exp_e, exp_n))
        a = got["A"].get(vid)
        if a is None:
            if crashed_in is None:
                crashed_in = "A victim %d" % vid
            continue
        impl.append("A %d empty=%s size=%s calls=%s" % (vid, a["empty"], a["size"], a["calls"]))
        if a["before"] != "0/1":
            dis.append("slot/connection not valid before any destruction (before=%s)" % a["before"])
        if (a["empty"], a["size"]) != (exp_e, exp_n):
            dis.append("after destroying trackable %d: empty=%s size=%s, model empty=%s size=%s"
                       % (vid, a["empty"], a["size"], exp_e, exp_n))
        if refd:
            if a["empty"] != "1":
                mon.append("trackable %d is referred to by reference, was destroyed first, and slot.empty() is false "
                           "(the slot still refers to the destroyed object; invocation skipped)" % vid)
            elif a["size"] != "0":
                mon.append("trackable %d destroyed first: the connected copy is still in the signal (size=%s)"
                           % (vid, a["size"]))
            elif a["calls"] != "0":
                mon.append("trackable %d destroyed first: invoking the slot / emitting still called %s target(s)"
                           % (vid, a["calls"]))
    # B: slot first
    model.append("B user=k/k no-crash")
    if got["B"] is not None:
        impl.append("B user=%s calls=%s" % (got["B"]["user"], got["B"]["calls"]))
        u, k = got["B"]["user"].split("/")
        if u != k:
            mon.append("slot and signal destroyed first: %s of %s user callbacks registered in the trackables were "
                       "notified (other registrations were disturbed)" % (u, k))
        if got["B"]["calls"] != "0":
            mon.append("destruction called %s target(s)" % got["B"]["calls"])
    elif crashed_in is None:
        crashed_in = "B after slot-gone (trackables destroyed after the slot)" if got["gone"] else "B"
    if got["X"] is not None:
        impl.append("CRASH %s in %s%s" % (got["X"], crashed_in or "?", (": " + err) if err else ""))
        mon.append("the harness process died (%s) in phase %s%s" % (got["X"], crashed_in or "?",
                                                                  (": " + err) if err else ""))
    elif crashed_in is not None:
        dis.append("missing output for phase " + crashed_in)
    return ("; ".join(dis) or None, "; ".join(mon) or None, " | ".join(impl), " | ".join(model), info)


def evaluate(cases, tag, per_tu):
    """run implementation + model on the cases; returns dict(results=[...], infra=[...], timings)"""
    nodes = [c[3] for c in cases]
    ml, e = model_lines(nodes)
    if ml is None:
        return {"results": [], "infra": [e], "timings": {}}
    infra = []
    for c, l in zip(cases, ml):
        if l.startswith("parse-error"):
            infra.append("driver cannot parse: " + G.show(c[3], lean=True))
    out, errs, inf2, tm = run_cases(cases, tag, per_tu)
    infra += inf2
    results = []
    for c, l in zip(cases, ml):
        if l.startswith("parse-error"):
            continue
        lines = out.get(c[0])
        if not lines:
            continue   # its TU did not compile / run: already an infra error
        dis, mon, impl, model, info = judge(c, lines, l, errs.get(c[0]))
        results.append({"case": c, "text": G.case_text(*c[1:]), "dis": dis, "mon": mon, "impl": impl,
                        "model": model, "mline": l, "info": info})
    return {"results": results, "infra": infra, "timings": tm}


def case_dict(r, detail):
    return {"input": r["text"], "lean_input": G.show(r["case"][3], lean=True), "cpp": G.cpp(r["case"][3])
            if r["case"][3][0] != "C" else "signal_connect", "impl": r["impl"], "model": r["model"], "detail": detail}


# ------------------------------------------------------------------------------------------------
# shrinking
# ------------------------------------------------------------------------------------------------

def simplest(ret, args):
    if ret in "VI":
        return ("L", ret)
    return None


def shrink_candidates(sig, pool, node):
    """smaller well-typed variants of the case"""
    ret, n = G.SIGS[sig]
    res = []

    def rec(nd, ctx, r, args):
        # replace this subtree by the simplest expression of its type
        s = simplest(r, args)
        if s is not None and s != nd and nd[0] != "C":
            res.append(ctx(s))
        # hoist a child of the same type
        cs = G.children(nd)
        ca = G.child_args(nd, args)
        for i, c in enumerate(cs):
            if G.ret_of(c) == r and tuple(ca[i]) == tuple(args):
                res.append(ctx(c))
        # drop bound arguments / tracked objects
        if nd[0] == "bind" and len(nd[3]) > 1:
            for j in range(len(nd[3])):
                res.append(ctx(("bind", nd[1], nd[2], nd[3][:j] + nd[3][j + 1:])))
        if nd[0] == "bind":
            for j, b in enumerate(nd[3]):
                if b[0] == "fun":     # a functor bound by value -> a plain value
                    res.append(ctx(("bind", nd[1], nd[2], nd[3][:j] + (("val",),) + nd[3][j + 1:])))
        if nd[0] == "to" and len(nd[2]) > 1:
            for j in range(len(nd[2])):
                res.append(ctx(("to", nd[1], nd[2][:j] + nd[2][j + 1:])))
        for i, c in enumerate(cs):
            def ctx2(x, i=i, cs=cs, nd=nd, ctx=ctx):
                return ctx(G.with_children(nd, cs[:i] + [x] + cs[i + 1:]))
            rec(c, ctx2, G.ret_of(c), ca[i])

    rec(node, lambda x: x, ret, ("i",) * n)
    res.append(node)   # same expression, pool reduced to the objects it mentions
    out = []
    seen = set()
    for cand in res:
        used = {o[1:] for _, o in G.objects(cand)}
        p2 = [p for p in pool if p[0] in used]
        if not G.case_ok(sig, p2, cand):
            if G.case_ok(sig, pool, cand):
                p2 = pool
            else:
                continue
        t = G.case_text(sig, p2, cand)
        if t not in seen and len(t) < len(G.case_text(sig, pool, node)):
            seen.add(t)
            out.append((sig, p2, cand))
    out.sort(key=lambda c: len(G.show(c[2])))
    return out


def shrink(r, want, budget_s=25):
    """greedy: smallest candidate that still shows the same kind of failure (`want` in 'mon','dis')"""
    t0 = time.time()
    best = r
    rounds = 0
    while time.time() - t0 < budget_s and rounds < 6:
        rounds += 1
        _, sig, pool, node = best["case"]
        cands = shrink_candidates(sig, pool, node)[:24]
        if not cands:
            break
        cases = [(i + 1,) + c for i, c in enumerate(cands)]
        ev = evaluate(cases, "shrink", 3)
        hit = [x for x in ev["results"] if x[want]]
        if not hit:
            break
        hit.sort(key=lambda x: len(x["text"]))
        best = hit[0]
    return best


# ------------------------------------------------------------------------------------------------
# case streams
# ------------------------------------------------------------------------------------------------

def corpus_cases():
    res = []
    for f in sorted(glob.glob(os.path.join(CORPUS, "*.cases"))):
        for ln, line in enumerate(open(f), 1):
            line = line.split("#")[0].strip()
            if not line:
                continue
            sig, pool, node = G.parse_case(line)
            if not G.case_ok(sig, pool, node):
                raise ValueError("%s:%d: ill-typed corpus case: %s" % (f, ln, line))
            res.append((sig, pool, node))
    return res


def enumerated_cases(rng, budget):
    """thorough tier: every adaptor chain to depth 2 with every assignment of ≤3 trackables to its holes
    (up to renaming), every depth-3 chain with a rotating assignment; thinned to `budget` by seeded sampling
    of the depth-3 part only"""
    sk = G.enumerate_skeletons(3)
    sk = [s for s in sk if G.depth(s[1]) <= 3]
    shallow, deep = [], []
    rot = 0
    for sig, node, names in sk:
        hs = G.holes_of(node)
        parts = G.partitions(len(hs), 3)
        if G.depth(node) <= 2 and len(hs) <= 4:
            for pi, part in enumerate(parts):
                nb = (max(part) + 1) if part else 0
                kinds = "".join("dv"[(pi + b + rot) % 2] for b in range(nb))
                nd, pool = G.assign(node, part, kinds, (pi + rot) % 3 == 0)
                shallow.append((sig, pool, nd))
                rot += 1
        else:
            part = parts[rot % len(parts)]
            nb = (max(part) + 1) if part else 0
            kinds = "".join("dv"[(b + rot // 2) % 2] for b in range(nb))
            nd, pool = G.assign(node, part, kinds, rot % 4 == 0)
            deep.append((sig, pool, nd))
            rot += 1
    total = (len(shallow), len(deep))
    room = max(0, budget - len(shallow))
    if len(deep) > room:
        deep = rng.shuffle(deep)[:room]
    return shallow + deep, total


def malformed_stream(rng, n):
    """edge stream: expressions referring to nothing, only to untracked objects, only by-value copies;
    plus ill-formed driver lines (the driver must answer parse-error, never crash)"""
    cs = [("V0", ["1D"], ("L", "V")),
          ("V0", ["1D", "2U"], ("M", "V", 0, "u2")),
          ("V0", ["1D", "2U"], ("bind", None, ("L", "V"), (("ref", "u2"), ("copy", "d1")))),
          ("I1", ["1V"], ("bret", ("F", "V", 1), ("val",))),
          ("V1", ["1D", "2s1"], ("S", "V", 1, "s2")),
          ("V0", ["1V", "2U"], ("to", ("L", "V"), ("u2",))),
          ("V0", ["1D"], ("hret", ("bret", ("L", "V"), ("copy", "d1")))),
          # functors bound by value that refer to nothing / only to untracked objects / only to private copies
          ("V0", ["1D"], ("bind", None, ("L", "V"), (("fun", "V", 0, ("L", "V")), ("fun", "I", 1, ("F", "I", 1))))),
          ("V0", ["1D", "2U"], ("bind", 0, ("L", "V"), (("fun", "V", 0, ("M", "V", 0, "u2")),))),
          ("V0", ["1D"], ("bind", None, ("G", "V", "V", 0),
                          (("fun", "V", 0, ("bind", None, ("L", "V"), (("copy", "d1"),))),))),
          ("V0", ["1V"], ("hret", ("bret", ("L", "V"), ("fun", "V", 0, ("slot", "V", 0, ("L", "V")))))),
          # explicit reference types that refer to nothing tracked: an untracked object as U& / const U&
          ("V0", ["1D", "2U"], ("hret", ("bret", ("L", "V"), ("xref", "u2")))),
          ("V0", ["1V", "2U"], ("bind", 0, ("L", "V"), (("xcref", "u2"), ("copy", "v1"), ("xref", "u2"))))]
    return [c for c in cs if G.case_ok(*c)][:n]


BAD_LINES = ["bind 0 2 leaf ref d1", "mf x1", "", "slot", "to 1 leaf", "c2 leaf leaf", "bind Q 1 leaf val",
             "leaf leaf", "hide L", "bind L 1 leaf fun", "bret leaf fun", "bind L 1 leaf fun val", "fun leaf",
             "bret leaf xref", "bind L 1 leaf xref x1", "bind 0 2 leaf xcref d1", "xref d1"]


# ------------------------------------------------------------------------------------------------
# entry points
# ------------------------------------------------------------------------------------------------

def distribution(cases):
    from collections import Counter
    d = {"depth": Counter(), "adaptor_kinds": Counter(), "signature": Counter(), "trackables_in_pool": Counter(),
         "victims_referenced": 0, "victims_unreferenced": 0, "same_trackable_twice": 0, "virtual_base_referenced": 0,
         "inner_slots": Counter(), "bind_bound_count": Counter(), "bind_position": Counter(),
         "bound_arg_kinds": Counter(), "untracked_referenced": 0, "by_value_copy": 0,
         "cases_with_bound_functor": 0, "cases_with_bound_functor_referring_to_trackable": 0,
         "bound_functor_root": Counter(), "bound_functor_place": Counter(), "bound_functor_nested_in_bound_functor": 0,
         "slot_parameter_targets": 0,
         "cases_with_explicit_reference_bound": 0, "cases_with_explicit_reference_to_trackable": 0,
         "explicit_reference_place": Counter(), "explicit_reference_spelling": Counter(),
         "explicit_reference_object_class": Counter(), "explicit_reference_nested_in_bound_functor": 0,
         "explicit_reference_below_other_adaptor": 0}
    for cid, sig, pool, node in cases:
        d["depth"][str(G.depth(node))] += 1
        ks = G.kinds(node)
        d["adaptor_kinds"].update(ks)
        d["signature"][sig] += 1
        d["trackables_in_pool"][str(sum(1 for p in pool if p[1] in "DVt"))] += 1
        for vid, refd in G.victims_of(pool, node):
            d["victims_referenced" if refd else "victims_unreferenced"] += 1
        refs = G.referenced(node)
        if len(refs) != len(set(refs)):
            d["same_trackable_twice"] += 1
        objs = G.objects(node)
        if any(o[0] == "v" and how != "copy" for how, o in objs):
            d["virtual_base_referenced"] += 1
        if any(o[0] in "us" for how, o in objs):
            d["untracked_referenced"] += 1
        if any(how == "copy" for how, o in objs):
            d["by_value_copy"] += 1
        d["inner_slots"][str(ks.count("slot"))] += 1
        bf = G.bound_functors(node)
        if bf:
            d["cases_with_bound_functor"] += 1
            if any(G.referenced(e) for _, _, _, _, e, _ in bf):
                d["cases_with_bound_functor_referring_to_trackable"] += 1
        for holder, i, k, pos, e, inside in bf:
            d["bound_functor_root"][e[0]] += 1
            d["bound_functor_place"]["bind_return" if holder == "bret" else
                                     "bind%s arg %d of %d" % ("" if pos is None else "<I>", i + 1, k)] += 1
            if inside:
                d["bound_functor_nested_in_bound_functor"] += 1
        d["slot_parameter_targets"] += sum(1 for x in ks if x in ("G", "H"))
        bx = G.bound_xrefs(node)
        if bx:
            d["cases_with_explicit_reference_bound"] += 1
            if any(G.is_trackable_obj(o) for _, _, _, _, _, o, _ in bx):
                d["cases_with_explicit_reference_to_trackable"] += 1
            if node[0] not in ("bind", "bret") or any(x[6] for x in bx):
                d["explicit_reference_below_other_adaptor"] += 1
        for holder, i, k, pos, kind, o, inside in bx:
            d["explicit_reference_place"]["bind_return" if holder == "bret" else
                                          "bind%s arg %d of %d" % ("" if pos is None else "<I>", i + 1, k)] += 1
            d["explicit_reference_spelling"]["T&" if kind == "xref" else "const T&"] += 1
            d["explicit_reference_object_class"][{"d": "direct", "v": "virtual base", "u": "untracked"}[o[0]]] += 1
            if inside:
                d["explicit_reference_nested_in_bound_functor"] += 1

        def walk(n):
            if n[0] == "bind":
                d["bind_bound_count"][str(len(n[3]))] += 1
                d["bind_position"]["last" if n[1] is None else str(n[1])] += 1
                d["bound_arg_kinds"].update(b[0] for b in n[3])
            if n[0] == "bret":
                d["bound_arg_kinds"]["bind_return:" + n[2][0]] += 1
            for c in G.children(n):
                walk(c)
        walk(node)
    return {k: (dict(sorted(v.items())) if hasattr(v, "items") else v) for k, v in d.items()}


def correspondence(ctx):
    rng = ctx.rng
    infra = []
    stream = []          # (origin, sig, pool, node)
    try:
        for c in corpus_cases():
            stream.append(("corpus",) + c)
    except Exception as ex:   # noqa: BLE001
        infra.append("corpus: %s" % ex)
    for c in malformed_stream(rng, 13):
        stream.append(("edge",) + c)
    enum_total = None
    if ctx.thorough:
        en, enum_total = enumerated_cases(rng, 5000)
        for c in en:
            stream.append(("enum",) + c)
        n_random = 300
    else:
        n_random = 140
    for _ in range(n_random):
        stream.append(("random",) + G.random_case(rng))
    # de-duplicate by text
    seen = set()
    cases = []
    origin = {}
    for o, sig, pool, node in stream:
        t = G.case_text(sig, pool, node)
        if t in seen:
            continue
        seen.add(t)
        cases.append((len(cases) + 1, sig, pool, node))
        origin[len(cases)] = o
    # ill-formed driver lines
    rc, out = common.sh([common.driver(), "visit"], input="\n".join(l for l in BAD_LINES if l) + "\n", timeout=60)
    bad_ok = rc == 0 and all(l.startswith("parse-error") for l in out.split("\n") if l.strip())
    if not bad_ok:
        infra.append("driver does not reject ill-formed lines cleanly: " + out[-200:])
    per_tu = 12 if ctx.thorough else max(3, (len(cases) + common.NCPU - 1) // common.NCPU)
    ev = evaluate(cases, "%s_%s" % (ctx.tier, ctx.seed), per_tu)
    infra += ev["infra"]
    results = ev["results"]
    mon = [r for r in results if r["mon"]]
    dis = [r for r in results if r["dis"] and not r["mon"]]
    mon_cases, dis_cases = [], []
    if mon:
        mon.sort(key=lambda r: len(r["text"]))
        small = shrink(mon[0], "mon")
        mon_cases.append(case_dict(small, small["mon"]))
        if small is not mon[0]:
            mon_cases[0]["shrunk_from"] = mon[0]["text"]
        for r in mon[:20]:
            if r["text"] != small["text"]:
                mon_cases.append(case_dict(r, r["mon"]))
    if dis:
        dis.sort(key=lambda r: len(r["text"]))
        small = shrink(dis[0], "dis") if not mon else dis[0]
        dis_cases.append(case_dict(small, small["dis"]))
        for r in dis[:20]:
            if r["text"] != small["text"]:
                dis_cases.append(case_dict(r, r["dis"]))
    n_pairs = sum(len(G.victims_of(c[2], c[3])) for c in cases)
    nontrivial = [r for r in results if G.referenced(r["case"][3])]
    from collections import Counter
    dist = distribution(cases)
    dist["origin"] = dict(Counter(origin.values()))
    dist["expression_x_victim_pairs"] = n_pairs
    dist["visit_order_differs_from_table_order"] = sum(1 for r in results if r["info"]["order_differs"])
    if enum_total:
        dist["enumeration"] = {"depth<=2 chains x assignments": enum_total[0], "depth-3 chains": enum_total[1],
                               "depth-3 taken": sum(1 for o in origin.values() if o == "enum") - enum_total[0]}
    dist["timings"] = ev["timings"]
    samples = [r["text"] + "  =>  impl: " + r["impl"] + "  ||  model: " + r["mline"] for r in results[:3]]
    samples += [r["text"] + "  =>  impl: " + r["impl"] + "  ||  model: " + r["mline"]
                for r in results if origin[r["case"][0]] == "random"][:3]
    return {"evaluations": len(results), "distinct_nontrivial": len({r["text"] for r in nontrivial}),
            "rule": "a case is one expression with its pool (each run: visitor recording, every trackable of the pool "
                    "as first victim, slot-first teardown); non-trivial = the expression refers to at least one "
                    "trackable by reference",
            "samples": samples, "traces_validated_against_impl": len(results), "distribution": dist,
            "disagreements": dis_cases, "monitor_failures": mon_cases, "infra_errors": infra}


def search(ctx, disagreements):
    """look around diverging cases: wrap / vary the diverging expressions and look for a monitor failure"""
    rng = ctx.rng
    cases = []
    for d in disagreements[:5]:
        try:
            sig, pool, node = G.parse_case(d["input"])
        except Exception:   # noqa: BLE001
            continue
        cases.append((sig, pool, node))
        ret, n = G.SIGS[sig]
        for w in ("to", "slot", "hret", "ec"):
            if w == "to":
                trk = [p for p in pool if p[1] in "DV"]
                if trk:
                    cases.append((sig, pool, ("to", node, (trk[0][1].lower() + trk[0][0],))))
            elif w == "slot" and n <= 1 and node[0] != "C":
                cases.append((sig, pool, ("slot", ret, n, node)))
            elif w == "hret" and ret == "V" and node[0] != "C":
                cases.append((sig, pool, ("hret", node)))
            elif w == "ec" and node[0] != "C":
                cases.append((sig, pool, ("ec", node, ("L", ret))))
    for _ in range(60):
        cases.append(G.random_case(rng))
    cases = [c for c in cases if G.case_ok(*c)]
    ev = evaluate([(i + 1,) + c for i, c in enumerate(cases)], "search", 6)
    return [case_dict(r, r["mon"]) for r in ev["results"] if r["mon"]]


def replay(ctx, path):
    data = json.load(open(path))
    c = data.get("case") or (data.get("correspondence_no_longer_checked") or [None])[0]
    if not c:
        print("nothing to replay in", path)
        print(json.dumps(data, indent=1)[:2000])
        return 0
    sig, pool, node = G.parse_case(c["input"])
    print("case      :", c["input"])
    print("C++       :", G.cpp(node) if node[0] != "C" else "sigc::signal_connect(sig, obj, &T::m)")
    print("model in  :", G.show(node, lean=True))
    ok, log = common.lean_build()
    if not ok:
        print("lake build failed:", log[-500:])
        return 2
    ev = evaluate([(1, sig, pool, node)], "replay", 1)
    for e in ev["infra"]:
        print("infra     :", e)
    rc = 0
    for r in ev["results"]:
        print("model out :", r["mline"])
        print("model     :", r["model"])
        print("impl      :", r["impl"])
        if r["dis"]:
            print("DISAGREE  :", r["dis"])
            rc = 1
        if r["mon"]:
            print("VIOLATED  :", r["mon"])
            rc = 1
    if rc == 0 and not ev["infra"]:
        print("the case passes on the current tree")
    return rc if not ev["infra"] else 2
