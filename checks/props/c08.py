"""C08 — an exception thrown by a slot propagates and leaves the signal consistent  (runtime family; engine: props/rt.py, see DESIGN.md §5 C08)"""
import os
import sys
sys.path.insert(0, os.path.dirname(os.path.dirname(os.path.abspath(__file__))))
from runtime import Profile
from props import rt

PID = "C08"
LEVEL = "proof"
MODULE = "Sigc.Props.C08"
EXTRA_MODULES = ("Sigc.Props.Refine", "Sigc.Props.Fuel", "Sigc.Props.SpecK", "Sigc.Props.SpecProps",)   # refinement P ⊑ S', S' ≡ S on runs clear of the known findings, the statements read off S
REQUIRED = ["Sigc.C08.consistent", "Sigc.C08.consistent_quiescent", "Sigc.C08.propagates", "Sigc.C08.runBody_stops_at_exc", "Sigc.C08.emitLoop_stops_at_exc", "Sigc.Fuel.terminates", "Sigc.Fuel.runProgram_fuel_independent", "Sigc.Refine.refines", "Sigc.Refine.runProgram_refines", "Sigc.SpecK.model_refines_pure_spec"]
TRUSTED = rt.TRUSTED_RT
ASSUMPTIONS = rt.ASSUMPTIONS_RT + []
PARTIAL = []
KNOWN_IDS = ()
N_QUICK = 500
N_THOROUGH = 15000
EXPLANATION = ''

def profiles(thorough):
    sig_ops = ["newG", "connfn", "emit", "tryemit", "clear", "size?", "emptyG?", "disc", "connected?", "blockC", "newT", "delT",
               "live?", "cpG", "delG"]
    p = Profile(allow_only=sig_ops, nT=2, nG=3, nC=8, specs={"fn": 6, "trk": 2}, body_prob=0.6, body_len=(1, 4),
                len=(15, 60 if not thorough else 150), maxdepth=5 if thorough else 4,
                w={"connfn": 12, "emit": 8, "tryemit": 8, "size?": 4, "connected?": 4, "disc": 3},
                bw={"throw": 7, "disc": 5, "connfn": 3, "emit": 4, "tryemit": 3, "clear": 1, "delT": 2, "blockC": 2,
                    "delG": 1, "cpG": 0, "asgG": 0, "masgG": 0, "mvG": 0, "callS": 0, "delS": 0, "discS": 0, "delK": 0,
                    "discK": 0, "asgS": 0, "mvS": 0, "setS": 0, "mkS": 0, "relK": 0, "mvK": 0, "newK": 0, "emptyS?": 0})
    return [p]


def correspondence(ctx):
    return rt.run(ctx, sys.modules[__name__])


def search(ctx, disagreements):
    return rt.search(ctx, sys.modules[__name__], disagreements)


def known(ctx):
    return rt.known(ctx, sys.modules[__name__])


def replay(ctx, path):
    return rt.replay(ctx, sys.modules[__name__], path)
