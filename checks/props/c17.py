"""C17 — a scoped_connection disconnects its slot exactly when it gives up ownership  (runtime family; engine: props/rt.py, see DESIGN.md §5 C17)"""
import os
import sys
sys.path.insert(0, os.path.dirname(os.path.dirname(os.path.abspath(__file__))))
from runtime import Profile
from props import rt

PID = "C17"
LEVEL = "proof"
MODULE = "Sigc.Props.C17"
EXTRA_MODULES = ("Sigc.Props.Refine", "Sigc.Props.Fuel", "Sigc.Props.SpecK",)   # refinement P ⊑ S', S' ≡ S on runs clear of the known findings
REQUIRED = ["Sigc.Fuel.terminates", "Sigc.Fuel.runProgram_fuel_independent", "Sigc.Refine.refines", "Sigc.Refine.runProgram_refines", "Sigc.SpecK.model_refines_pure_spec"]
TRUSTED = rt.TRUSTED_RT
ASSUMPTIONS = rt.ASSUMPTIONS_RT + []
PARTIAL = []
KNOWN_IDS = ()
N_QUICK = 500
N_THOROUGH = 15000
EXPLANATION = ''

def profiles(thorough):
    p = Profile(nT=1, nS=1, nG=3, nC=6, nK=5, specs={"fn": 6, "trk": 1, "ownT": 0, "ownK": 2}, body_prob=0.25,
                len=(15, 60 if not thorough else 150),
                w={"connfn": 12, "newK": 8, "newK0": 2, "asgKC": 6, "mvK": 6, "masgK": 6, "swapK": 5, "relK": 5, "discK": 4, "delK": 6,
                   "connectedK?": 6, "blockedK?": 2, "blockK": 2, "connected?": 8, "cpC": 4, "size?": 6, "emit": 5, "disc": 2},
                bw={"delK": 4, "discK": 3, "relK": 2, "mvK": 2, "newK": 2, "throw": 0})
    # scoped connections that manage the connection of an *empty* slot (connected() is false, yet disconnect() removes
    # the entry): no owning functors in this profile, so empty slots can be connected
    q = Profile(nT=1, nS=3, nG=2, nC=6, nK=4, specs={"fn": 6, "trk": 1}, body_prob=0.15, empty_slot_connect=0.5,
                len=(15, 50 if not thorough else 120),
                w={"mkS0": 6, "conn": 10, "connfn": 6, "newK": 10, "newK0": 3, "asgKC": 7, "mvK": 5, "masgK": 8, "swapK": 4, "relK": 7,
                   "discK": 4, "delK": 7, "connectedK?": 4, "connected?": 6, "disc": 3, "size?": 10, "emptyG?": 3, "emit": 3, "delS": 1},
                bw={"delK": 3, "discK": 2, "relK": 2, "throw": 0})
    return [p, p, q]


def correspondence(ctx):
    return rt.run(ctx, sys.modules[__name__])


def search(ctx, disagreements):
    return rt.search(ctx, sys.modules[__name__], disagreements)


def known(ctx):
    return rt.known(ctx, sys.modules[__name__])


def replay(ctx, path):
    return rt.replay(ctx, sys.modules[__name__], path)
