"""C19 — object graphs confined to different threads never interfere  (partial; DESIGN.md §5 C19)

1. theorem (Sigc/Props/C19.lean): product state + per-thread operations => every interleaving gives
   each thread its solo result (any number of threads);
2. the hypothesis "no hidden shared mutable state" is decided on the code by enumeration on every run:
   clang-query over the five .cc files and a TU including every public header (every variable with static
   or thread storage duration declared under sigc++/ that is neither const-qualified nor constexpr) and
   `nm` on the compiled library objects + the harness object (writable data symbols in sigc::);
3. ThreadSanitizer build of the harness: T independent generated programs on T threads behind a barrier
   with seeded sched_yield injection; every thread's trace must equal the model's single-threaded trace.
"""
import os
import re
import subprocess
import sys
import hashlib
import time

sys.path.insert(0, os.path.dirname(os.path.dirname(os.path.abspath(__file__))))
import common
import runtime
from runtime import Profile
from props import rt

PID = "C19"
LEVEL = "proof"
MODULE = "Sigc.Props.C19"
REQUIRED = ["Sigc.C19.interleaving_independent", "Sigc.C19.model_threads_independent"]
TRUSTED = rt.TRUSTED_RT + [
    "clang-query-14 (AST matcher varDecl(hasStaticStorageDuration/hasThreadStorageDuration)) and nm as the decision that "
    "the library has no static/thread-local mutable object",
    "ThreadSanitizer (clang++-14) as data-race oracle; the C++ memory model, the scheduler and malloc are the runtime's",
]
ASSUMPTIONS = rt.ASSUMPTIONS_RT + [
    "PARTIAL: a theorem cannot exhibit a data race; it proves independence of interleavings under the no-shared-state "
    "hypothesis, which is enumerated on the code; races are searched for with TSan on sampled schedules only"]
PARTIAL = ["C19.interleaving_independent is about an abstract product machine instantiated with the model; that the real "
           "library's state is such a product is the enumerated hypothesis, not a theorem"]
KNOWN_IDS = ()
EXPLANATION = "partial: independence theorem + exhaustive static-state enumeration + TSan differential on sampled schedules"
N_QUICK = 24      # rounds
N_THOROUGH = 600


def profiles(thorough):
    return [Profile(len=(10, 40), body_prob=0.3)]


QUERY = """set bind-root true
match varDecl(anyOf(hasStaticStorageDuration(), hasThreadStorageDuration()), isExpansionInFileMatching("sigc[+][+]/"), unless(hasType(isConstQualified())), unless(isConstexpr()))
match varDecl(anyOf(hasStaticStorageDuration(), hasThreadStorageDuration()), isExpansionInFileMatching("sigc[+][+]/"))
"""


def static_scan():
    """returns (mutable_statics: list of str, n_all_static: int, nm_writable: list of str, errors: list)"""
    d = common.ensure_dir(os.path.join(common.CACHE, "c19_scan"))
    inc = common.gen_config_header(os.path.join(d, "inc"))
    allh = os.path.join(d, "all_headers.cc")
    hdrs = []
    base = os.path.join(common.REPO, "sigc++")
    for root, dirs, files in sorted(os.walk(base)):
        dirs.sort()
        for f in sorted(files):
            if f.endswith(".h"):
                hdrs.append(os.path.relpath(os.path.join(root, f), common.REPO))
    open(allh, "w").write("".join('#include <%s>\n' % h for h in hdrs) + "int main() { return 0; }\n")
    q = os.path.join(d, "q.txt")
    open(q, "w").write(QUERY)
    srcs = [allh] + [os.path.join(common.REPO, c) for c in common.LIB_CC]
    rc, out = common.sh(["clang-query-14", "-f", q] + srcs + ["--", "-std=c++17", "-w", "-I", common.REPO, "-I", inc],
                        timeout=600)
    errors = []
    if "error:" in out and "matches." not in out and "match." not in out:
        errors.append("clang-query failed: " + out[-1500:])
    counts = re.findall(r"^(\d+) match(?:es)?\.$", out, re.M)
    blocks = out.split("\n")
    mutable = []
    n_all = 0
    if len(counts) >= 2:
        n_mut = int(counts[0])
        n_all = int(counts[1])
        if n_mut:
            # collect the "binds here" locations of the first query
            idx = out.index(counts[0] + " match")
            for m in re.finditer(r"^(\S+:\d+:\d+): note: \"root\" binds here\n(.*)$", out[:idx], re.M):
                mutable.append(m.group(1) + ": " + m.group(2).strip())
    elif not errors:
        errors.append("clang-query output not understood: " + out[-800:])
    # nm on the library objects (g++ -O1) and on the harness object
    objs = []
    cmds = []
    for i, c in enumerate(common.LIB_CC + [os.path.relpath(runtime.HARNESS_SRC, common.REPO)]):
        src = os.path.join(common.REPO, c) if not c.startswith("..") else runtime.HARNESS_SRC
        o = os.path.join(d, "n%d.o" % i)
        objs.append(o)
        cmds.append((o, ["g++", "-std=c++17", "-O1", "-w", "-I", inc, "-I", common.REPO, "-DSIGC_BUILD", "-c", src, "-o", o], d))
    res = common.parallel(cmds)
    for o, (rc2, out2) in res.items():
        if rc2 != 0:
            errors.append("compile for nm failed: " + out2[-600:])
    writable = []
    for o in objs:
        if not os.path.exists(o):
            continue
        rc3, out3 = common.sh(["nm", "-C", o])
        for line in out3.split("\n"):
            m = re.match(r"^[0-9a-f]*\s+([bBdDuCsSgG])\s+(.*)$", line)
            if m and ("sigc::" in m.group(2)) and not m.group(2).startswith(("vtable for", "typeinfo", "VTT for", "guard variable for std::")):
                writable.append("%s %s (%s)" % (m.group(1), m.group(2), os.path.basename(o)))
        os.unlink(o)
    return mutable, n_all, writable, errors


def correspondence(ctx):
    t0 = time.time()
    mutable, n_all, writable, errors = static_scan()
    mon = []
    for m in mutable:
        mon.append({"input": m, "impl": m, "model": "no variable with static/thread storage duration (other than constants)",
                    "detail": "hidden shared mutable state: non-const variable with static or thread storage duration in the "
                              "library sources: " + m})
    for w in writable:
        mon.append({"input": w, "impl": w, "model": "no writable data symbol in sigc::",
                    "detail": "hidden shared mutable state: writable data symbol in the compiled library: " + w})
    exe, log = runtime.build_main_harness("tsan")
    if not exe:
        return {"evaluations": 0, "distinct_nontrivial": 0, "rule": "", "samples": [], "disagreements": [],
                "monitor_failures": mon, "infra_errors": errors + ["TSan harness does not build: " + log[-2500:]]}
    rounds = N_THOROUGH if ctx.thorough else N_QUICK
    prof = profiles(ctx.thorough)[0]
    sizes = [2, 4, 8, 16] if ctx.thorough else [2, 4, 8]
    env = dict(os.environ)
    env["TSAN_OPTIONS"] = "halt_on_error=0:exitcode=66:report_signal_unsafe=0"
    total_threads = 0
    dis = []
    distinct = set()
    samples = []
    batch = []
    for r in range(rounds):
        T = sizes[r % len(sizes)]
        progs = [runtime.gen_program(ctx.rng, prof) for _ in range(T)]
        batch.append((r, T, progs, ctx.rng.below(1 << 20) + 1))
    # run rounds in parallel processes (each round is itself multi-threaded)
    from concurrent.futures import ThreadPoolExecutor

    def one(job):
        r, T, progs, yseed = job
        text = "".join("=== %d\n%s" % (i, p) for i, p in enumerate(progs))
        try:
            pr = subprocess.run([exe, "--threads", "--yield=%d" % yseed], input=text, stdout=subprocess.PIPE,
                                stderr=subprocess.PIPE, text=True, timeout=120, env=env, errors="replace")
            return job, pr.returncode, pr.stdout, pr.stderr
        except subprocess.TimeoutExpired:
            return job, 124, "", "timeout"

    with ThreadPoolExecutor(max_workers=max(2, common.NCPU // 4)) as ex:
        results = list(ex.map(one, batch))
    allprogs = []
    for job, rc, out, err in results:
        allprogs += job[2]
    model = runtime.run_model(allprogs)
    k = 0
    for job, rc, out, err in results:
        r, T, progs, yseed = job
        total_threads += T
        per = {}
        cur = None
        for line in out.split("\n"):
            if line.startswith("=== "):
                cur = int(line[4:])
                per[cur] = []
            elif cur is not None and line:
                per[cur].append(line)
        verdict = runtime.classify_stderr(rc, err)
        if verdict:
            mon.append({"input": "".join("=== %d\n%s" % (i, p) for i, p in enumerate(progs)), "impl": out[-3000:],
                        "model": "", "verdict": verdict, "stderr": err[-3000:],
                        "detail": "round %d with %d threads (--yield=%d): %s" % (r, T, yseed, verdict)})
        for i, p in enumerate(progs):
            tr = "\n".join(per.get(i, [])) + "\n"
            d = runtime.first_diff(tr, model[k])
            if d is not None and not verdict:
                mon.append({"input": "".join("=== %d\n%s" % (j, q) for j, q in enumerate(progs)), "impl": tr[-3000:],
                            "model": model[k][-3000:], "verdict": None,
                            "detail": "thread %d of round %d (%d threads) did not observe its single-threaded behaviour: "
                                      "line %d impl `%s` model `%s`" % (i, r, T, d[0], d[1], d[2])})
            if rt.nontrivial(tr):
                distinct.add(hashlib.sha1(p.encode()).hexdigest())
            if len(samples) < 2:
                samples.append({"round": r, "threads": T, "thread": i, "program": p[:800], "trace_head": tr[:400]})
            k += 1
    return {
        "evaluations": total_threads,
        "distinct_nontrivial": len(distinct),
        "rule": "rounds of T in {2,4,8(,16)} threads; every thread runs its own generated program (default profile, disjoint "
                "object graphs) behind a barrier with seeded sched_yield injection under ThreadSanitizer; a thread's case is "
                "non-trivial if >= 1 functor ran and >= 8 operations had an effect; distinct by program text",
        "samples": samples,
        "traces_validated_against_impl": total_threads,
        "distribution": {"rounds": rounds, "threads_per_round": sizes,
                         "static_or_thread_storage_decls_in_library": n_all,
                         "of_which_mutable": len(mutable), "writable_sigc_data_symbols": len(writable)},
        "exhaustive_static_scan": True,
        "disagreements": dis,
        "monitor_failures": mon,
        "infra_errors": errors,
        "correspondence_wall_s": round(time.time() - t0, 1),
    }


def replay(ctx, path):
    import json
    j = json.load(open(path))
    print(json.dumps(j, indent=1)[:4000])
    return 1 if j.get("kind", "").startswith("failing") else 0
