"""C06 — library objects can be destroyed in any order without dangling access  (runtime family; engine: props/rt.py, see DESIGN.md §5 C06)"""
import os
import sys
sys.path.insert(0, os.path.dirname(os.path.dirname(os.path.abspath(__file__))))
from runtime import Profile
from props import rt

PID = "C06"
LEVEL = "proof"
MODULE = "Sigc.Props.C06"
EXTRA_MODULES = ("Sigc.Props.Refine", "Sigc.Props.Fuel", "Sigc.Props.SpecK", "Sigc.Props.SlotG",)   # refinement P ⊑ S', S' ≡ S on runs clear of the known findings
REQUIRED = ["Sigc.SlotG.assign_owned_connection_safe", "Sigc.SlotG.wf_reachable", "Sigc.SlotG.no_dangling", "Sigc.SlotG.no_fuel_error", "Sigc.SlotG.rep_held_unique", "Sigc.SlotG.live_count_spec", "Sigc.C06.ownedG_named", "Sigc.Fuel.terminates", "Sigc.Fuel.runProgram_fuel_independent", "Sigc.Refine.refines", "Sigc.Refine.runProgram_refines", "Sigc.SpecK.model_refines_pure_spec"]
TRUSTED = rt.TRUSTED_RT
ASSUMPTIONS = rt.ASSUMPTIONS_RT + []
PARTIAL = []
KNOWN_IDS = ()
N_QUICK = 400
N_THOROUGH = 12000
EXPLANATION = ''

def profiles(thorough):
    p = Profile(nT=3, nS=4, nG=3, nC=6, nK=3, specs={"fn": 3, "mem": 3, "trk": 3, "trk2": 1, "bref": 2, "nest": 2, "fwd": 2, "ownT": 2, "ownK": 2, "ownG": 2, "sc": 2},
                body_prob=0.15, len=(6, 25 if not thorough else 60), teardown_prob=1.0, prelude=8,
                w={"newT": 5, "newG": 5, "mkS": 7, "conn": 7, "connfn": 7, "cpC": 3, "newK": 4, "cpG": 3, "cpS": 3, "relK": 1, "mvK": 1,
                   "delT": 1, "delS": 1, "delG": 1, "delC": 1, "delK": 1, "emit": 2})
    return [p]


def correspondence(ctx):
    return rt.add_slotg_stage(ctx, rt.run(ctx, sys.modules[__name__]), 'C06')


def search(ctx, disagreements):
    return rt.search(ctx, sys.modules[__name__], disagreements)


def known(ctx):
    return rt.known(ctx, sys.modules[__name__])


def replay(ctx, path):
    return rt.replay(ctx, sys.modules[__name__], path)
