"""C02 — destroying a trackable invalidates and disconnects every slot that refers to it  (runtime family; engine: props/rt.py, see DESIGN.md §5 C02)"""
import os
import sys
sys.path.insert(0, os.path.dirname(os.path.dirname(os.path.abspath(__file__))))
from runtime import Profile
from props import rt

PID = "C02"
LEVEL = "proof"
MODULE = "Sigc.Props.C02"
EXTRA_MODULES = ("Sigc.Props.Refine", "Sigc.Props.Fuel", "Sigc.Props.SpecK",)   # refinement P ⊑ S', S' ≡ S on runs clear of the known findings
REQUIRED = ["Sigc.Fuel.terminates", "Sigc.Fuel.runProgram_fuel_independent", "Sigc.Refine.refines", "Sigc.Refine.runProgram_refines", "Sigc.SpecK.model_refines_pure_spec"]
TRUSTED = rt.TRUSTED_RT
ASSUMPTIONS = rt.ASSUMPTIONS_RT + []
PARTIAL = []
KNOWN_IDS = ('F6',)
N_QUICK = 500
N_THOROUGH = 15000
EXPLANATION = ''

def profiles(thorough):
    p = Profile(nT=4, nS=5, nG=3, nC=8, nK=2, specs={"fn": 1, "mem": 4, "trk": 4, "trk2": 2, "bref": 3, "nest": 3, "fwd": 0, "ownT": 2, "ownK": 0, "sc": 3},
                body_prob=0.35, len=(15, 60 if not thorough else 150),
                w={"newT": 5, "delT": 6, "notifyT": 2, "cpT": 1, "mvT": 2, "asgT": 2, "masgT": 2, "mkS": 8, "cpS": 4, "mvS": 3,
                   "asgS": 4, "masgS": 3, "conn": 8, "connfn": 6, "emptyS?": 6, "callS": 4, "connected?": 5, "size?": 4,
                   "emit": 6, "newK": 0, "newK0": 0, "asgKC": 0, "mvK": 0, "masgK": 0, "swapK": 0, "relK": 0, "discK": 0, "delK": 0,
                   "connectedK?": 0, "blockedK?": 0, "blockK": 0, "cpG": 1, "mvG": 0, "asgG": 0, "masgG": 0},
                bw={"delT": 8, "notifyT": 2, "throw": 0})
    return [p]


def correspondence(ctx):
    """runtime family + (the statement says "any adaptor built on them") the expression-level auto-disconnection
    correspondence of C09 on a sample of adaptor expressions"""
    res = rt.run(ctx, sys.modules[__name__])
    try:
        from props import c09
        sub = c09.correspondence(ctx)
        res["evaluations"] += sub.get("evaluations", 0)
        res["distribution"]["adaptor_expressions_via_C09_machinery"] = {
            "evaluations": sub.get("evaluations", 0), "distinct_nontrivial": sub.get("distinct_nontrivial", 0)}
        res["monitor_failures"] += sub.get("monitor_failures", [])
        res["disagreements"] += sub.get("disagreements", [])
        res["infra_errors"] += sub.get("infra_errors", [])
    except Exception as e:   # the C09 machinery is an addition; its absence must not mask the runtime result
        res["distribution"]["adaptor_expressions_via_C09_machinery"] = "not run: %r" % (e,)
    return res


def search(ctx, disagreements):
    return rt.search(ctx, sys.modules[__name__], disagreements)


def known(ctx):
    return rt.known(ctx, sys.modules[__name__])


def replay(ctx, path):
    return rt.replay(ctx, sys.modules[__name__], path)
