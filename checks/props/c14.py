"""C14 — signal objects are shared handles; the slot list lives as long as any handle  (runtime family; engine: props/rt.py, see DESIGN.md §5 C14)"""
import os
import sys
sys.path.insert(0, os.path.dirname(os.path.dirname(os.path.abspath(__file__))))
from runtime import Profile
from props import rt

PID = "C14"
LEVEL = "proof"
MODULE = "Sigc.Props.C14"
EXTRA_MODULES = ("Sigc.Props.Refine", "Sigc.Props.Fuel", "Sigc.Props.SpecK", "Sigc.Props.SpecProps",)   # refinement P ⊑ S', S' ≡ S on runs clear of the known findings, the statements read off S
REQUIRED = ["Sigc.C14.functor_owned_handle_keeps_list", "Sigc.C14.collect_drops_unheld_owned_handle_wf", "Sigc.C14.run_leaves_owned_handles_held", "Sigc.C14.delG_cases", "Sigc.Fuel.terminates", "Sigc.Fuel.runProgram_fuel_independent", "Sigc.Refine.refines", "Sigc.Refine.runProgram_refines", "Sigc.SpecK.model_refines_pure_spec"]
TRUSTED = rt.TRUSTED_RT
ASSUMPTIONS = rt.ASSUMPTIONS_RT + []
PARTIAL = []
KNOWN_IDS = ()
N_QUICK = 500
N_THOROUGH = 15000
EXPLANATION = ''

def profiles(thorough):
    p = Profile(nT=2, nS=2, nG=5, nC=8, nK=2, specs={"fn": 5, "trk": 2, "mem": 1, "ownG": 3}, body_prob=0.3,
                len=(15, 60 if not thorough else 150),
                w={"newG": 6, "cpG": 8, "mvG": 6, "asgG": 7, "masgG": 6, "delG": 6, "connfn": 10, "emit": 8, "disc": 4, "size?": 8,
                   "emptyG?": 3, "blockedG?": 2, "blockG": 2, "connected?": 6, "clear": 3, "live?": 3},
                bw={"delG": 5, "asgG": 3, "masgG": 3, "cpG": 2, "mvG": 2, "disc": 3, "throw": 0})
    return [p]


def correspondence(ctx):
    return rt.run(ctx, sys.modules[__name__])


def search(ctx, disagreements):
    return rt.search(ctx, sys.modules[__name__], disagreements)


def known(ctx):
    return rt.known(ctx, sys.modules[__name__])


def replay(ctx, path):
    return rt.replay(ctx, sys.modules[__name__], path)
