"""C05 — type-unsafe connections are rejected at compile time; well-typed ones compile.

Proof:          lean/Sigc/Props/C05.lean (+ Props/C20Types.lean, TypesLemmas.lean) about the executable model
                lean/Sigc/Types.lean.
Correspondence: oracle = the compilers.  Python generates compile probes (harness/types_gen.py), the Lean driver
                (`sigc_model types`) predicts `accept` / `reject`, `g++` and `clang++-14` (`-std=c++17 -fsyntax-only -w`,
                precompiled header of <sigc++/sigc++.h> built from the *current* tree) give the implementation's verdict.
                Positive probes are batched per translation unit, every negative probe is its own TU (the error arises
                inside `call_it`'s body, not in a SFINAE context) and must fail *at its marker line*.
                In addition: exhaustive library-free `binds` / `static_cast` tables (the formalisation of the C++ rules
                against both compilers), `passed_as` spies (what expression reaches the functor), the C20 call-type table
                (`static_assert(is_same)` on every call site, a source scan of the `function_pointer_cast` sites and a
                `clang++ -fsanitize=function` run of harness/types_c20_run.cc).
                The universe contains three types whose explicit and implicit convertibility differ (`enum class E : int`,
                `struct Xb { explicit operator bool() const; }`, `struct Xd { explicit operator double() const; }`): the
                model (`conv` = implicit, `onlyExplicit` = static_cast only) and the monitor table (CONVERTIBLE vs
                EXPLICIT_ONLY) say that only implicit convertibility makes a result / an argument acceptable; the
                generator draws them at parameter, bound-argument and result positions on all four routes (slot, connect,
                accumulated-signal connect, signal_connect) and has two dedicated defect flavours (`explicitresult`,
                `explicitparam`); retype() is the one place where the explicit conversions are expected to be accepted.
                Probe family "slot object into entry point": the sixteen connect entry points of signal.h ({signal,
                trackable_signal} x {plain, ::accumulated<Acc>} x {connect, connect_first} x {const slot_type&, slot_type&&};
                model: the table `entryDecl`, theorem `entry_points_agree`) are each called — the overload selected by
                hand through a pointer to member of exactly its type, or by the plain call expression — with an argument
                that is a slot *object* `sigc::slot<U> so` of another slot type, written `so`, `std::as_const(so)` or
                `std::move(so)`; U is drawn compatible with / defective against the signal's signature with the same defect
                flavours as above (wrong arity, non-convertible parameter, non-const reference from a value, rvalue
                reference, incompatible / void / explicit-only result, explicit-only parameter).  The declared parameter
                type `slot_type` is the whole type check of these members (their bodies forward to signal_base, which
                stores any slot_base): a `slot_base` parameter would bind any slot object directly, unchecked.
Monitor:        harness/types_gen.statement_category — the statement of C05 per probe, from first-principle tables.
"""
import json
import os
import re
import shutil
import sys
import time

sys.path.insert(0, os.path.dirname(os.path.dirname(os.path.abspath(__file__))))
import common  # noqa: E402

sys.path.insert(0, os.path.join(common.VERIF, "harness"))
import types_gen as G  # noqa: E402

PID = "C05"
LEVEL = "proof"
MODULE = "Sigc.Props.C05"
REQUIRED = [
    "Sigc.C05.passed_as", "Sigc.C05.chain_passed", "Sigc.C05.accepts_iff",
    "Sigc.C05.wrong_arity_rejected", "Sigc.C05.nonconvertible_param_rejected",
    "Sigc.C05.nonconst_ref_from_value_or_const_rejected", "Sigc.C05.nonconst_method_on_const_object_rejected",
    "Sigc.C05.accepts_bind_at_iff", "Sigc.C05.bind_at_nonconst_ref_from_value_or_const_rejected", "Sigc.C05.bind_at_nonconst_ref_after_bound_rejected",
    "Sigc.C05.incompatible_result_rejected", "Sigc.C05.convertible_accepted",
    "Sigc.C05.erased_call_type_exact",
    "Sigc.C05.explicit_only_result_rejected", "Sigc.C05.explicit_only_type_result_rejected_for_arithmetic",
    "Sigc.C05.explicit_only_result_connection_rejected", "Sigc.C05.acceptsRoute_retOk",
    "Sigc.C05.entry_table_slot_type", "Sigc.C05.entry_points_agree", "Sigc.C05.slot_object_entry_points_agree",
    "Sigc.C05.slot_object_entry_iff", "Sigc.C05.slot_object_forms_alike", "Sigc.C05.same_slot_type_entry",
    "Sigc.C05.entry_accepts_sound", "Sigc.C05.call_accepts_iff", "Sigc.C05.incompatible_slot_object_rejected",
]
TRUSTED = [
    "Lean 4.33.0 kernel; axioms per theorem as audited by #print axioms (subset of propext, Quot.sound, Classical.choice)",
    "the hand-written model lean/Sigc/Types.lean (binds/conv/castOk = my formalisation of [dcl.init.ref], [conv], "
    "[expr.static.cast], [stmt.return] for the 12-base-type x 4-shape universe; conv = *implicit* convertibility, "
    "onlyExplicit = conversions that exist only as static_cast / direct-initialisation; take/fwd/collapse/hop = the "
    "library's plumbing) — tied to the code only by this correspondence",
    "g++ 12 and clang++ 14 with libstdc++ 12 as the oracle for 'compiles'; they must agree with each other",
    "harness/types_gen.py: the rendering of a probe description as C++ (the same description is what the model decides) "
    "and the monitor tables; harness/types_prelude.h",
    "UBSan -fsanitize=function (clang++-14) for the run-time side of the C20 table",
]
ASSUMPTIONS = [
    "universe: base types int,long,double,bool,A,B:A,A*,B*,const A*, and three types whose explicit and implicit "
    "convertibility differ: `enum class E : int`, `struct Xb { explicit operator bool() const; }`, "
    "`struct Xd { explicit operator double() const; }`; declared shapes T,T&,const T&,T&&; functor kinds "
    "free function (&f, ptr_fun), function object (const / non-const operator()), lambda (plain / mutable), "
    "mem_fun(obj,&C::m) with {non-const,const} object x {-,const,volatile,const volatile} method; one adaptor hop "
    "hide / bind / retype (retype static_casts the *arguments*; retype_return, whose purpose is to cast the result, is "
    "not in the universe); routes slot<Sig> s = f, signal<Sig>::connect(f), signal<Sig>::accumulated<Acc>::connect(f), "
    "signal_connect(sig, ...); arities 0-3 (theorems: all arities)",
    "connect entry points: the sixteen members {signal, trackable_signal} x {plain, ::accumulated<Acc>} x {connect, "
    "connect_first} x {const slot_type&, slot_type&&}, each selected by hand (static_cast of the member's address to the "
    "pointer-to-member type with exactly that parameter — which also pins the declared parameter type) or through the call "
    "expression; argument: a slot object `sigc::slot<U> so` (U: result void or an object type, no adaptor around it) as "
    "lvalue / const lvalue / rvalue, or one of the ordinary functor kinds; a slot object is created from a lambda of "
    "literally its own signature",
    "an lvalue of the signal's *own* slot_type handed to the hand-selected slot_type&& overload is rejected (value "
    "category, not typing): the monitor leaves it unclassified and only model == compilers is checked",
    "excluded corner (compilers disagree on the unchanged tree): `const A*&&` parameter facing an `A*&&` signature "
    "parameter (CWG 2352: g++-12 rejects the temporary that clang++-14 and the standard create)",
    "excluded corner (compilers disagree on the unchanged tree): static_cast<const bool&>/<bool&&> of a class with "
    "`explicit operator bool()` (same with double) — only reachable through retype(); clang++-14 accepts ([over.match.ref]), "
    "g++-12 rejects; the model follows the standard",
    "excluded corner: hide() applied under a 0-ary signature (ill-formed; g++ rejects, clang++-14 does not terminate on "
    "make_index_sequence<SIZE_MAX>); the model rejects it",
    "outside the universe: implicit (non-explicit) user-defined conversions, std::unique_ptr / std::optional results "
    "(two are pinned in the corpus), overloaded / templated / variadic functors (one generic-lambda and "
    "one slot-to-slot case are pinned in the corpus), volatile objects, default arguments, array parameters",
    "a value result offered to a void signature is rejected by the code (`return f(...)` in `void call_it`); the statement "
    "does not name this case, so the monitor leaves it unclassified and only model == compilers is checked",
    "signal_connect() deduces R(A...) from both arguments: it is applicable to identical signatures only; the statement's "
    "'accepted' clause is checked for it on identical signatures",
]
PARTIAL = []
EXPLANATION = ("accepts_iff proves, for all arities, that the model accepts exactly when arity, every parameter binding "
               "(against what the library passes: passed_as) and the result conversion hold; the correspondence shows "
               "the model's verdict is the compilers' verdict on the current tree.  entry_points_agree / "
               "entry_accepts_sound prove that each of the sixteen connect / connect_first overloads (table entryDecl) "
               "accepts exactly what slot_type's constructors accept, so that a slot object of another slot type is judged "
               "like a functor with its signature; the probe family 'slot object into entry point' shows the table is "
               "the code's.")

CXX = [("g++", "g++"), ("clang++", "clang++-14")]
STD = ["-std=c++17", "-w"]
BATCH = 24


# --------------------------------------------------------------------------------------
# environment: config header, prelude, PCHs (under /verif/.cache, keyed by the tree's content)
# --------------------------------------------------------------------------------------
class Env:
    def __init__(self):
        self.pre = open(os.path.join(common.VERIF, "harness", "types_prelude.h")).read()
        self.key = common.repo_hash("c05" + self.pre + " ".join(STD))
        self.dir = os.path.join(common.CACHE, "c05_pch_" + self.key)
        self.work = os.path.join(common.CACHE, "c05_work_%d" % os.getpid())
        self.errors = []
        self.pch_s = {}
        self.n = 0
        common.ensure_dir(common.CACHE)
        for d in os.listdir(common.CACHE):     # scratch of runs that were killed: drop after six hours
            full = os.path.join(common.CACHE, d)
            if d.startswith("c05_work_") and time.time() - os.path.getmtime(full) > 6 * 3600:
                shutil.rmtree(full, ignore_errors=True)
        shutil.rmtree(self.work, ignore_errors=True)
        common.ensure_dir(self.work)
        with common.FileLock("c05_pch"):
            for attempt in (0, 1):
                self.errors = []
                if not os.path.exists(os.path.join(self.dir, "ok")):
                    self.build_pch()
                else:
                    os.utime(self.dir)
                if not self.errors and self.check_pch_used():
                    break
                # a cached PCH can be stale although the tree's *content* hash is unchanged (clang also compares
                # the mtimes of the headers): rebuild once from the current tree
                shutil.rmtree(self.dir, ignore_errors=True)

    def build_pch(self):
        common.prune_cache("c05_pch_" + self.key, "c05_pch_", keep=2)
        shutil.rmtree(self.dir, ignore_errors=True)
        common.ensure_dir(self.dir)
        common.gen_config_header(os.path.join(self.dir, "inc"))
        hdr = os.path.join(self.dir, "types_prelude.h")
        open(hdr, "w").write(self.pre)
        for name, cxx, out in (("g++", "g++", "types_prelude.h.gch"), ("clang++", "clang++-14", "types_prelude.pch")):
            t0 = time.time()
            rc, o = common.sh([cxx] + STD + self.inc() + ["-x", "c++-header", hdr, "-o", os.path.join(self.dir, out)])
            self.pch_s[name] = round(time.time() - t0, 2)
            if rc != 0:
                self.errors.append("%s: precompiling <sigc++/sigc++.h> of the current tree failed: %s" % (name, o[-1500:]))
        if not self.errors:
            open(os.path.join(self.dir, "ok"), "w").write("ok")

    def inc(self):
        return ["-I", self.dir, "-I", os.path.join(self.dir, "inc"), "-I", common.REPO]

    def argv(self, cxx, path, pch=True, extra=()):
        a = [cxx] + STD + list(extra) + self.inc()
        if pch and cxx.startswith("clang"):
            a += ["-include-pch", os.path.join(self.dir, "types_prelude.pch")]
        if not pch:
            a = [cxx] + STD + list(extra) + ["-I", os.path.join(self.dir, "inc"), "-I", common.REPO]
        return a + ["-fsyntax-only", path]

    def write(self, text, stem="p"):
        self.n += 1
        path = os.path.join(self.work, "%s%d.cc" % (stem, self.n))
        open(path, "w").write(text)
        return path

    def check_pch_used(self):
        """the g++ PCH is silently ignored when invalid: ask the compiler (-H prints `! <file>.gch` when used);
        clang++ refuses a stale PCH with an error"""
        path = self.write('#include "types_prelude.h"\nint x;\n', "pchk")
        rc, out = common.sh(["g++"] + STD + self.inc() + ["-H", "-fsyntax-only", path])
        used = rc == 0 and re.search(r"^!\s.*types_prelude\.h\.gch", out, re.M) is not None
        rc2, out2 = common.sh(self.argv("clang++-14", path))
        if not used:
            self.errors.append("g++ does not use the precompiled header: " + out[-400:])
        if rc2 != 0:
            self.errors.append("clang++ rejects the precompiled header: " + out2[-400:])
        return used and rc2 == 0

    def close(self):
        shutil.rmtree(self.work, ignore_errors=True)


def model(lines):
    if not lines:
        return []
    rc, out = common.sh([common.driver(), "types"], input="\n".join(lines) + "\n", timeout=600)
    res = out.strip().split("\n") if out.strip() else []
    if rc != 0 or len(res) != len(lines):
        raise RuntimeError("driver failed (rc=%d, %d answers for %d lines): %s" % (rc, len(res), len(lines), out[-300:]))
    return res


def run_parallel(cmds, timeout=120):
    """common.parallel with a timeout that cannot raise (a hanging compiler is reported as rc 124)"""
    import subprocess
    from concurrent.futures import ThreadPoolExecutor

    def one(c):
        key, argv, cwd = c
        try:
            p = subprocess.run(argv, cwd=cwd, stdout=subprocess.PIPE, stderr=subprocess.STDOUT, timeout=timeout,
                               text=True, errors="replace")
            return key, (p.returncode, p.stdout)
        except subprocess.TimeoutExpired:
            return key, (124, "TIMEOUT after %ds: %s" % (timeout, " ".join(argv[-2:])))

    with ThreadPoolExecutor(max_workers=common.NCPU) as ex:
        return dict(ex.map(one, cmds))


def compile_all(env, items, pch=True, extra=()):
    """items: list of (key, path).  Returns {(key, compiler name): (rc, output)}"""
    cmds = []
    for key, path in items:
        for name, cxx in CXX:
            cmds.append(((key, name), env.argv(cxx, path, pch=pch, extra=extra), env.work))
    return run_parallel(cmds)


def error_lines(out, path):
    """line numbers of `path` at which the diagnostics place an error or an instantiation point (`required from
    here` / `requested here`); `note: candidate ...` lines that merely point at a declaration do not count"""
    base = os.path.basename(path)
    out = "\n".join(l for l in out.split("\n")
                    if "In file included from" not in l and
                    ("error" in l or "required from" in l or "requested here" in l))
    return sorted({int(m.group(1)) for m in re.finditer(re.escape(base) + r":(\d+)", out)})


# --------------------------------------------------------------------------------------
# running probes
# --------------------------------------------------------------------------------------
def run_probes(env, probes, infra):
    """Returns list of result dicts (same order): model, why, impl {compiler: accept|reject}, cat, tu."""
    answers = model([G.line(p) for p in probes])
    res = []
    for p, a in zip(probes, answers):
        w = a.split()
        if w[0] not in ("accept", "reject"):
            infra.append("driver answered %r for %s" % (a, G.line(p)))
        res.append({"probe": p, "model": w[0], "why": " ".join(w[1:]), "impl": {}, "cat": G.statement_category(p),
                    "tu": None, "diag": {}})
    pos = [i for i, r in enumerate(res) if r["model"] == "accept"]
    neg = [i for i, r in enumerate(res) if r["model"] != "accept"]
    items = []
    batches = {}
    for b in range(0, len(pos), BATCH):
        idx = pos[b:b + BATCH]
        text, _ = G.tu([probes[i] for i in idx])
        path = env.write(text, "pos")
        batches[path] = idx
        items.append((("batch", path), path))
    singles = {}
    for i in neg:
        text, marks = G.tu([probes[i]])
        path = env.write(text, "neg")
        singles[path] = (i, marks[0], text)
        res[i]["tu"] = text
        items.append((("single", path), path))
    out = compile_all(env, items)
    retry = []
    for path, idx in batches.items():
        for name, _ in CXX:
            rc, _o = out[(("batch", path), name)]
            if rc == 0:
                for i in idx:
                    res[i]["impl"][name] = "accept"
            else:
                for i in idx:
                    retry.append((i, name))
    # a failing batch: compile its members one by one with that compiler
    if retry:
        cmds = []
        rpaths = {}
        for i, name in retry:
            if i not in rpaths:
                text, marks = G.tu([probes[i]])
                rpaths[i] = (env.write(text, "re"), marks[0], text)
            cxx = dict(CXX)[name]
            cmds.append(((i, name), env.argv(cxx, rpaths[i][0]), env.work))
        rout = run_parallel(cmds)
        for (i, name), (rc, o) in rout.items():
            res[i]["impl"][name] = "accept" if rc == 0 else "reject"
            if rc != 0:
                res[i]["tu"] = rpaths[i][2]
                res[i]["diag"][name] = first_errors(o)
                check_marker(res[i], name, o, rpaths[i][0], rpaths[i][1], infra)
    for path, (i, mark, _text) in singles.items():
        for name, _ in CXX:
            rc, o = out[(("single", path), name)]
            res[i]["impl"][name] = "accept" if rc == 0 else "reject"
            if rc != 0:
                res[i]["diag"][name] = first_errors(o)
                check_marker(res[i], name, o, path, mark, infra)
            if rc == 124:
                infra.append("compiler timeout on " + G.line(probes[i]))
    return res


def first_errors(o):
    ls = [l.strip() for l in o.split("\n") if "error" in l]
    return " | ".join(ls[:2])[:400]


def check_marker(r, name, o, path, mark, infra):
    """an expected rejection must be caused by the probe statement (marker line), not by a broken declaration"""
    ls = error_lines(o, path)
    if not ls or any(l != mark for l in ls):
        infra.append("%s: probe fails outside its marker line %d (lines %s): %s :: %s"
                     % (name, mark, ls, G.line(r["probe"]), first_errors(o)))


def classify(results):
    """→ (disagreements, monitor_failures) as case dicts"""
    dis, mon = [], []
    for r in results:
        p = r["probe"]
        impl = r["impl"]
        istr = " ".join("%s=%s" % (n, impl.get(n, "?")) for n, _ in CXX)
        case = {"input": G.line(p), "model": (r["model"] + " " + r["why"]).strip(), "impl": istr,
                "statement_category": r["cat"], "cpp": r["tu"] or G.tu([p])[0], "diagnostics": r["diag"]}
        vs = set(impl.values())
        bad_mon = (r["cat"] == "must_accept" and "reject" in vs) or \
                  (r["cat"].startswith("must_reject") and "accept" in vs)
        if bad_mon:
            c = dict(case)
            if r["cat"] == "must_accept":
                c["detail"] = ("C05 violated: this functor is callable with standard implicit conversions "
                               "(statement: must be accepted) but the library rejects it at compile time (%s)" % istr)
            else:
                c["detail"] = ("C05 violated: statement demands a compile error (%s) but the program compiles (%s)"
                               % (r["cat"].split(":", 1)[1], istr))
            mon.append(c)
        if any(v != r["model"] for v in vs) or len(vs) != 1:
            c = dict(case)
            c["detail"] = "model says %s, compilers say %s" % (case["model"], istr)
            dis.append(c)
    return dis, mon


def fails_like(env, p, want_monitor):
    infra = []
    rs = run_probes(env, [p], infra)
    d, m = classify(rs)
    return bool(m) if want_monitor else bool(d or m)


def shrink(env, p, want_monitor):
    """greedy structural shrinking of a failing probe (fewer positions, no adaptor, simplest route/kind/result)"""
    cur = p
    changed = True
    steps = 0
    while changed and steps < 16:
        changed = False
        cands = []
        if cur.adaptor != "none":
            cands.append(cur.copy(adaptor="none"))
        if cur.route != "slot":
            cands.append(cur.copy(route="slot"))
        if cur.adaptor == "none" and len(cur.sig) == len(cur.fpar):
            for i in range(len(cur.sig)):
                cands.append(cur.copy(sig=cur.sig[:i] + cur.sig[i + 1:], fpar=cur.fpar[:i] + cur.fpar[i + 1:]))
        if (cur.sret, cur.fret) != ("void", "void"):
            cands.append(cur.copy(sret="void", fret="void"))
        if cur.kind not in ("lam",) and cur.route != "sigconn" and cur.adaptor != "retype":
            cands.append(cur.copy(kind="lam"))
        for c in cands:
            steps += 1
            try:
                G.cpp(c)
            except ValueError:
                continue
            if fails_like(env, c, want_monitor):
                cur = c
                changed = True
                break
    return cur


# --------------------------------------------------------------------------------------
# generation
# --------------------------------------------------------------------------------------
def excluded(p):
    """corners kept out of the compiled universe (see ASSUMPTIONS)"""
    if "pcA:r" in p.fpar and "pA:r" in p.sig:
        return True          # CWG 2352: g++-12 and clang++-14 disagree with each other
    if p.adaptor == "retype" and any(G.excluded_cast_pair(f, s.split(":")[0]) for s, f in zip(p.sig, p.fpar)):
        return True          # static_cast<const bool&>(Xb): g++-12 and clang++-14 disagree with each other
    if p.adaptor.startswith("hide") and len(p.sig) == 0:
        return True          # hide() on a 0-ary signature: `size - 1` underflows into make_index_sequence<2^64-1>;
                             # g++ rejects at once, clang++-14 does not terminate (ill-formed either way)
    return False


BASE_WEIGHTS = [(b, 5) for b in G.OLD_BASES] + [("E", 5), ("Xb", 3), ("Xd", 2)]


def gen_base(rng):
    """every old base type with weight 5, the explicit-only types E / Xb / Xd with 5 / 3 / 2 (together 10 of 55)"""
    return rng.weighted(BASE_WEIGHTS)


def gen_param(rng):
    return "%s:%s" % (gen_base(rng), rng.choice(G.SHAPES))


def explicit_only_targets(b):
    """object types that `b` converts to only explicitly"""
    return sorted(t for (s, t) in G.EXPLICIT_ONLY if s == b)


def compatible_params(arg):
    """functor parameter tokens the monitor tables call fine for this documented argument"""
    b, how = arg
    if how == "bound":
        return [t for t in G.ALL_PARAMS if t[-1] in "vc" and (b, t.split(":")[0]) in G.CONVERTIBLE] + [b + ":l"]
    return [t for t in G.ALL_PARAMS if G.position_category(t, b, how) == "ok"]


def doc_args(sig, adaptor):
    args = [G.library_passes(s) for s in sig]
    ad = adaptor.split(":")
    if ad[0] == "hide" and args:
        i = len(args) - 1 if ad[1] == "last" else min(int(ad[1]), len(args) - 1)
        args = args[:i] + args[i + 1:]
    elif ad[0] == "bind":
        bs = [] if ad[2] == "-" else ad[2].split(",")
        i = len(args) if ad[1] == "last" else min(int(ad[1]), len(args))
        args = args[:i] + [(b, "bound") for b in bs] + args[i:]
    return args


def gen_probe(rng, stats):
    arity = rng.weighted([(0, 1), (1, 8), (2, 5), (3, 3)])
    sig = [gen_param(rng) for _ in range(arity)]
    adaptor = rng.weighted([("none", 14), ("hide", 2), ("bind", 2), ("retype", 2)])
    kind = rng.weighted([("fn", 4), ("ptrfun", 2), ("fobj", 2), ("fobjc", 1), ("lam", 4), ("lammut", 1), ("mem", 5)])
    if kind == "mem":
        kind = "mem:%s:%s" % (rng.weighted([("o", 3), ("c", 2)]), rng.weighted([("n", 4), ("c", 4), ("v", 1), ("cv", 1)]))
    route = rng.weighted([("slot", 5), ("connect", 4), ("sigconn", 2), ("accum", 2)])
    if adaptor == "hide":
        if arity == 0 and rng.chance(0.8):
            sig = [gen_param(rng)]
        adaptor = "hide:" + (rng.choice(["last"] + [str(i) for i in range(max(1, len(sig)))]))
        if rng.chance(0.7):   # keep rvalue-reference elements mostly out of the forwarded part
            sig = [s if s[-1] != "r" or rng.chance(0.2) else s[:-1] + "c" for s in sig]
    elif adaptor == "bind":
        nb = rng.weighted([(1, 4), (2, 1)])
        bs = ",".join(gen_base(rng) for _ in range(nb))
        loc = rng.choice(["last"] + [str(i) for i in range(len(sig) + 1)])
        adaptor = "bind:%s:%s" % (loc, bs)
        if rng.chance(0.8):
            sig = [s if s[-1] != "r" else s[:-1] + rng.choice("vlc") for s in sig]
    elif adaptor == "retype":
        if not (kind in ("fn", "ptrfun") or kind.startswith("mem:")):
            kind = "ptrfun"
    if adaptor != "none" and route == "sigconn":
        route = "connect"
    if route == "sigconn" and not (kind == "fn" or kind.startswith("mem:")):
        kind = "fn"
    sret = rng.weighted([("void", 5), ("val", 5)])
    if sret == "val":
        sret = gen_base(rng) + ":v"
    flavour = rng.weighted([("compatible", 9), ("defect", 9), ("random", 3)])
    args = doc_args(sig, adaptor)
    if flavour == "random":
        fpar = [gen_param(rng) for _ in range(len(args) if rng.chance(0.8) else rng.below(4))]
        fret = rng.choice(G.FN_RETS)
    else:
        if adaptor == "retype":
            fpar = []
            for (b, how) in args:
                opts = compatible_params((b, how))
                if rng.chance(0.3):   # genuine downcasts / rvalue casts the adaptor exists for
                    opts = {"A": ["B:l", "B:c"], "pA": ["pB:v"]}.get(b, opts) if how != "rvalue" else opts
                fpar.append(rng.choice(opts))
        else:
            fpar = [rng.choice(compatible_params(a)) for a in args]
        if route == "sigconn" and rng.chance(0.6):
            fpar = list(sig)
        if sret == "void":
            fret = "void"
        else:
            sb = sret.split(":")[0]
            fret = rng.choice([t for t in G.FN_RETS if t != "void" and (t.split(":")[0], sb) in G.CONVERTIBLE])
            if route == "sigconn" and rng.chance(0.6):
                fret = sret
        if flavour == "defect":
            d = rng.weighted([("arity", 3), ("nonconv", 4), ("nonconstref", 4), ("rref", 4), ("constobj", 3),
                              ("result", 4), ("voidness", 2), ("explicitresult", 4), ("explicitparam", 2)])
            stats["defect:" + d] = stats.get("defect:" + d, 0) + 1
            if d == "arity":
                if fpar and rng.chance(0.5):
                    fpar.pop(rng.below(len(fpar)))
                else:
                    fpar.insert(rng.below(len(fpar) + 1), gen_param(rng))
            elif d in ("nonconv", "nonconstref", "rref") and fpar:
                i = rng.below(len(fpar))
                b, how = args[i]
                if d == "nonconv":
                    bad = [t for t in G.ALL_PARAMS if (b, t.split(":")[0]) not in G.CONVERTIBLE]
                elif d == "nonconstref":
                    bad = [t for t in G.ALL_PARAMS if t[-1] == "l" and
                           (how != "lvalue" or (b, t.split(":")[0]) not in G.SAME_OR_DERIVED_OBJECT)]
                else:
                    bad = [t for t in G.ALL_PARAMS if t[-1] == "r"]
                if bad:
                    fpar[i] = rng.choice(bad)
            elif d == "constobj":
                kind = "mem:c:" + rng.choice(["n", "n", "v"])
                if route == "sigconn" and adaptor != "none":
                    route = "connect"
            elif d == "explicitresult":
                # a result that converts to the signature's result type only *explicitly* (scoped enumeration <->
                # arithmetic, explicit operator bool / double): static_cast would do it, `return` must not
                fb, sb = rng.choice(sorted(G.EXPLICIT_ONLY))
                if rng.chance(0.7):   # mostly the direction "exotic functor result into an arithmetic slot result"
                    fb = rng.weighted([("E", 5), ("Xb", 3), ("Xd", 2)])
                    sb = rng.choice(explicit_only_targets(fb))
                sret = sb + ":v"
                fret = fb + ":" + rng.weighted([("v", 4), ("l", 1), ("c", 1)])
            elif d == "explicitparam" and fpar:
                # the same at a parameter position: the argument converts to the functor parameter only explicitly
                # (accepted through retype(), which static_casts; rejected everywhere else)
                cand = [i for i in range(len(fpar)) if explicit_only_targets(args[i][0])]
                if cand:
                    i = rng.choice(cand)
                    fpar[i] = rng.choice(explicit_only_targets(args[i][0])) + ":" + rng.choice("vvcr")
                else:
                    i = rng.below(len(fpar))
                    fpar[i] = rng.choice(G.EXPLICIT_ONLY_BASES) + ":" + rng.choice("vc")
            elif d == "result":
                if sret == "void":
                    sret = gen_base(rng) + ":v"
                sb = sret.split(":")[0]
                bad = [t for t in G.FN_RETS if t != "void" and (t.split(":")[0], sb) not in G.CONVERTIBLE]
                fret = rng.choice(bad) if bad else "void"
            elif d == "voidness":
                if sret == "void":
                    fret = rng.choice([t for t in G.FN_RETS if t != "void"])
                else:
                    fret = "void"
    p = G.Probe(route, adaptor, kind, sret, sig, fret, fpar)
    return p, flavour


def generated_pool(rng, n, stats):
    seen = set()
    out = []
    tries = 0
    while len(out) < n and tries < n * 20:
        tries += 1
        p, fl = gen_probe(rng, stats)
        if excluded(p):
            stats["excluded_corner"] = stats.get("excluded_corner", 0) + 1
            continue
        k = p.key()
        if k in seen:
            continue
        seen.add(k)
        out.append(p)
    return out


ENTRY_DEFECTS = [("arity", 3), ("nonconv", 4), ("nonconstref", 4), ("rref", 3), ("result", 4), ("voidness", 2),
                 ("explicitresult", 3), ("explicitparam", 2)]
ENTRY_FUNCTOR_KINDS = ["lam", "fn", "ptrfun", "fobj", "fobjc", "mem:o:n", "mem:o:c", "mem:c:c"]


def gen_entry_probe(rng, stats):
    """family "slot object into entry point": a signal signature and a second signature U (compatible with it, or with
    one defect, or unrelated, or identical), `sigc::slot<U> so = <lambda>;`, handed as `so` / `std::as_const(so)` /
    `std::move(so)` to one of the sixteen connect entry points (uniform over signal class x accumulated x
    connect/connect_first; the overload is selected by hand half of the time — `c` / `r` equally — and left to the call
    expression otherwise).  One probe in seven hands over an ordinary functor instead of a slot object."""
    fam = rng.choice(G.EP_FAMILIES)
    route = "%s:%s" % (fam, rng.weighted([("any", 2), ("c", 1), ("r", 1)]))
    slotobj = rng.chance(0.86)
    kind = "slotobj:" + rng.choice(G.SLOT_FORMS) if slotobj else rng.choice(ENTRY_FUNCTOR_KINDS)
    arity = rng.weighted([(0, 1), (1, 8), (2, 5), (3, 3)])
    sig = [gen_param(rng) for _ in range(arity)]
    sret = rng.weighted([("void", 5), ("val", 5)])
    if sret == "val":
        sret = gen_base(rng) + ":v"
    rets = G.SIG_RETS if slotobj else G.FN_RETS          # a slot's result is void or an object type
    args = [G.library_passes(s) for s in sig]
    flavour = rng.weighted([("compatible", 8), ("defect", 9), ("identical", 1), ("random", 2)])
    if flavour == "identical":
        fpar, fret = list(sig), sret
    elif flavour == "random":
        fpar = [gen_param(rng) for _ in range(len(args) if rng.chance(0.8) else rng.below(4))]
        fret = rng.choice(rets)
    else:
        fpar = [rng.choice(compatible_params(a)) for a in args]
        if sret == "void":
            fret = "void"
        else:
            sb = sret.split(":")[0]
            fret = rng.choice([t for t in rets if t != "void" and (t.split(":")[0], sb) in G.CONVERTIBLE])
    if flavour == "defect":
        d = rng.weighted(ENTRY_DEFECTS)
        flavour = "defect:" + d
        if d == "arity":
            if fpar and rng.chance(0.5):
                fpar.pop(rng.below(len(fpar)))
            else:
                fpar.insert(rng.below(len(fpar) + 1), gen_param(rng))
        elif d in ("nonconv", "nonconstref", "rref") and fpar:
            i = rng.below(len(fpar))
            b, how = args[i]
            if d == "nonconv":
                bad = [t for t in G.ALL_PARAMS if (b, t.split(":")[0]) not in G.CONVERTIBLE]
            elif d == "nonconstref":
                bad = [t for t in G.ALL_PARAMS if t[-1] == "l" and
                       (how != "lvalue" or (b, t.split(":")[0]) not in G.SAME_OR_DERIVED_OBJECT)]
            else:
                bad = [t for t in G.ALL_PARAMS if t[-1] == "r"]
            fpar[i] = rng.choice(bad)
        elif d == "explicitresult":
            fb = rng.weighted([("E", 5), ("Xb", 3), ("Xd", 2)])
            sret = rng.choice(explicit_only_targets(fb)) + ":v"
            fret = fb + ":v"
        elif d == "explicitparam" and fpar:
            cand = [i for i in range(len(fpar)) if explicit_only_targets(args[i][0])]
            if cand:
                i = rng.choice(cand)
                fpar[i] = rng.choice(explicit_only_targets(args[i][0])) + ":" + rng.choice("vvcr")
            else:
                fpar[rng.below(len(fpar))] = rng.choice(G.EXPLICIT_ONLY_BASES) + ":" + rng.choice("vc")
        elif d == "result":
            if sret == "void":
                sret = gen_base(rng) + ":v"
            sb = sret.split(":")[0]
            bad = [t for t in rets if t != "void" and (t.split(":")[0], sb) not in G.CONVERTIBLE]
            fret = rng.choice(bad) if bad else "void"
        elif d == "voidness":
            if sret == "void":
                fret = rng.choice([t for t in rets if t != "void"])
            else:
                fret = "void"
    stats["entry:" + flavour] = stats.get("entry:" + flavour, 0) + 1
    return G.Probe(route, "none", kind, sret, sig, fret, fpar)


def entry_pool(rng, n, stats):
    seen, out, tries = set(), [], 0
    while len(out) < n and tries < n * 20:
        tries += 1
        p = gen_entry_probe(rng, stats)
        if excluded(p) or p.key() in seen:
            continue
        seen.add(p.key())
        out.append(p)
    return out


def entry_distribution(results):
    """measured, over the probes that were compiled (corpus + generated): how the family "slot object into entry
    point" covers the sixteen entry points and the eight call expressions"""
    d = {"probes": 0, "signal_class": {}, "accumulated": {}, "function": {}, "overload": {}, "entry_point": {},
         "argument": {}, "slot_object_form": {}, "slot_object_of_other_slot_type": 0, "slot_object_of_same_slot_type": 0,
         "model_verdict": {}, "other_slot_type_verdict": {}, "statement_category": {}, "reject_reason": {},
         "slot_object_on_older_routes": 0}
    bump = lambda k, v: d[k].__setitem__(v, d[k].get(v, 0) + 1)
    for r in results:
        p = r["probe"]
        so = p.kind.startswith("slotobj:")
        if not p.route.startswith("ep:"):
            d["slot_object_on_older_routes"] += so
            continue
        _, c, a, f, o = p.route.split(":")
        d["probes"] += 1
        bump("signal_class", {"sig": "signal", "tsig": "trackable_signal"}[c])
        bump("accumulated", a)
        bump("function", {"connect": "connect", "first": "connect_first"}[f])
        bump("overload", {"c": "const slot_type& (by hand)", "r": "slot_type&& (by hand)", "any": "call expression"}[o])
        bump("entry_point", p.route[3:])
        bump("argument", "slot object" if so else "functor " + p.kind.split(":")[0])
        bump("model_verdict", r["model"])
        bump("statement_category", r["cat"].split("(")[0].strip())
        if r["model"] != "accept":
            bump("reject_reason", r["why"])
        if so:
            bump("slot_object_form", {"l": "lvalue", "c": "const lvalue", "r": "rvalue"}[p.kind.split(":")[1]])
            same = tuple(p.sig) == tuple(p.fpar) and p.sret == p.fret
            d["slot_object_of_same_slot_type"] += same
            d["slot_object_of_other_slot_type"] += not same
            if not same:
                bump("other_slot_type_verdict", r["model"])
    return d


def balanced(rng, pool, n):
    """choose n probes from the pool, half expected accept / half expected reject (by the model)"""
    ans = model([G.line(p) for p in pool])
    acc = [p for p, a in zip(pool, ans) if a.startswith("accept")]
    rej = [p for p, a in zip(pool, ans) if not a.startswith("accept")]
    h = n // 2
    acc, rej = rng.shuffle(acc)[:h], rng.shuffle(rej)[:n - h]
    return acc + rej


def explicit_only_distribution(results):
    """measured: where the types E / Xb / Xd occur in the probes that were compiled, and how the result pairs
    (functor result x signature result) are related according to the model (`conv`: implicit / explicit / none)"""
    d = {"probes": len(results), "mentioning_any": 0, "mentioning": {b: 0 for b in G.EXPLICIT_ONLY_BASES},
         "in_result_pair": 0, "in_signature_params": 0, "in_functor_params": 0, "in_bound_args": 0,
         "result_pair_conversion": {}, "explicit_only_result": {"route": {}, "adaptor": {}, "kind": {}, "pair": {},
                                                                "model_verdict": {}, "compilers": {}},
         "explicit_only_param_position": {"total": 0, "through_retype": 0}}
    new = set(G.EXPLICIT_ONLY_BASES)
    base = lambda t: t.split(":")[0]
    pairs = sorted({(base(r["probe"].fret), base(r["probe"].sret)) for r in results
                    if r["probe"].fret != "void" and r["probe"].sret != "void"})
    rel = dict(zip(pairs, model(["conv %s %s" % fs for fs in pairs])))
    for r in results:
        p = r["probe"]
        ad = p.adaptor.split(":")
        bound = ad[2].split(",") if ad[0] == "bind" and ad[2] != "-" else []
        res_b = {base(t) for t in (p.fret, p.sret) if t != "void"}
        sig_b, fp_b = {base(t) for t in p.sig}, {base(t) for t in p.fpar}
        used = (res_b | sig_b | fp_b | set(bound)) & new
        if used:
            d["mentioning_any"] += 1
        for b in used:
            d["mentioning"][b] += 1
        d["in_result_pair"] += bool(res_b & new)
        d["in_signature_params"] += bool(sig_b & new)
        d["in_functor_params"] += bool(fp_b & new)
        d["in_bound_args"] += bool(set(bound) & new)
        if p.fret != "void" and p.sret != "void":
            c = rel[(base(p.fret), base(p.sret))]
            d["result_pair_conversion"][c] = d["result_pair_conversion"].get(c, 0) + 1
            if c == "explicit":
                e = d["explicit_only_result"]
                for k, v in (("route", p.route), ("adaptor", ad[0]), ("kind", p.kind.split(":")[0]),
                             ("pair", "%s->%s" % (base(p.fret), base(p.sret))), ("model_verdict", r["model"]),
                             ("compilers", "/".join(sorted(set(r["impl"].values()))))):
                    e[k][v] = e[k].get(v, 0) + 1
        if ad[0] in ("none", "retype") and len(p.sig) == len(p.fpar):
            n = sum(1 for s_, f_ in zip(p.sig, p.fpar) if (base(s_), base(f_)) in G.EXPLICIT_ONLY)
            if n:
                d["explicit_only_param_position"]["total"] += 1
                d["explicit_only_param_position"]["through_retype"] += ad[0] == "retype"
    return d


def exhaustive_arity1():
    out = []
    for kind in ("fn", "lam", "fobj"):
        for s in G.ALL_PARAMS:
            for f in G.ALL_PARAMS:
                if kind != "fn" and (s.split(":")[0] in G.EXPLICIT_ONLY_BASES or f.split(":")[0] in G.EXPLICIT_ONLY_BASES):
                    continue         # pairs involving E / Xb / Xd: once (free function) — keeps the tier's wall time
                p = G.Probe("slot", "none", kind, "void", [s], "void", [f])
                if not excluded(p):
                    out.append(p)
    return out


def object_method_table():
    out = []
    pairs = [("int:v", "int:v"), ("int:v", "long:c"), ("A:l", "A:l"), ("B:l", "A:l"), ("int:v", "int:l"), ("pB:v", "pcA:v")]
    for k in G.KINDS_MEM:
        for s, f in pairs:
            for route in ("slot", "connect"):
                out.append(G.Probe(route, "none", k, "void", [s], "void", [f]))
        out.append(G.Probe("sigconn", "none", k, "void", ["int:v"], "void", ["int:v"]))
        out.append(G.Probe("sigconn", "none", k, "int:v", ["A:l", "long:c"], "int:v", ["A:l", "long:c"]))
        out.append(G.Probe("slot", "none", k, "void", [], "void", []))
    return out


def result_table():
    out = []
    for kind in ("fn", "lam", "mem:o:n"):
        for fr in G.FN_RETS:
            for sr in G.SIG_RETS:
                out.append(G.Probe("slot", "none", kind, sr, ["int:v"], fr, ["int:v"]))
    return out


# --------------------------------------------------------------------------------------
# corpus
# --------------------------------------------------------------------------------------
def corpus_probes():
    """corpus/C05/*.probes: one driver line per line, optionally `## expect=accept|reject` (pinned by hand)"""
    d = os.path.join(common.VERIF, "corpus", "C05")
    out = []
    if not os.path.isdir(d):
        return out
    for f in sorted(os.listdir(d)):
        if not f.endswith(".probes"):
            continue
        for ln, l in enumerate(open(os.path.join(d, f)), 1):
            l = l.strip()
            if not l or l.startswith("#"):
                continue
            exp = None
            if "##" in l:
                l, c = l.split("##", 1)
                m = re.search(r"expect=(accept|reject)", c)
                exp = m.group(1) if m else None
            out.append((G.parse_line(l.strip()), exp, "%s:%d" % (f, ln)))
    return out


def corpus_cc(env, infra):
    """corpus/C05/*.cc: raw programs outside the grammar with a pinned `// expect: accept|reject` first line"""
    d = os.path.join(common.VERIF, "corpus", "C05")
    cases, items = [], []
    if not os.path.isdir(d):
        return [], 0
    for f in sorted(os.listdir(d)):
        if f.endswith(".cc"):
            txt = open(os.path.join(d, f)).read()
            m = re.match(r"//\s*expect:\s*(accept|reject)", txt)
            if not m:
                infra.append("corpus file without `// expect:` line: " + f)
                continue
            path = env.write(txt, "corp")
            items.append((f, path))
            cases.append((f, m.group(1), txt))
    out = compile_all(env, items)
    bad = []
    for f, exp, txt in cases:
        vs = {n: ("accept" if out[(f, n)][0] == 0 else "reject") for n, _ in CXX}
        if any(v != exp for v in vs.values()):
            bad.append({"input": "corpus/C05/" + f, "model": "pinned " + exp, "expect_compiles": exp == "accept",
                        "impl": " ".join("%s=%s" % kv for kv in sorted(vs.items())), "cpp": txt,
                        "detail": "pinned corpus program: expected %s, compilers say %s" % (exp, vs)})
    return bad, len(cases)


# --------------------------------------------------------------------------------------
# library-free tables, spies, C20 table
# --------------------------------------------------------------------------------------
def table_check(env, kind, infra):
    rows = []
    for p in G.ALL_PARAMS:
        for e in G.EXPRS:
            b, c = e.split(":")
            if G.excluded_pair(p, b, c in ("x", "p")) or (kind == "cast" and G.excluded_cast_pair(p, b)):
                continue
            rows.append((p, e))
    ans = model(["%s %s %s" % (kind, p, e) for p, e in rows])
    rows = [(p, e, a == "true") for (p, e), a in zip(rows, ans)]
    text, marks = G.table_tu(kind, rows)
    path = env.write(text, kind)
    out = compile_all(env, [(kind, path)])
    dis = []
    for name, _ in CXX:
        rc, o = out[(kind, name)]
        if rc != 0:
            ls = [l for l in error_lines(o, path) if l in marks]
            if not ls:
                infra.append("%s table TU does not compile with %s: %s" % (kind, name, o[-600:]))
            for l in ls:
                p, e, v = rows[marks[l]]
                dis.append({"input": "%s %s %s" % (kind, p, e), "model": str(v).lower(),
                            "impl": "%s=%s" % (name, str(not v).lower()),
                            "detail": "formalisation of %s differs from %s for parameter %s and expression %s"
                                      % ("reference binding / conversions" if kind == "binds" else "static_cast",
                                         name, G.cpp_type(p), G.cpp_expr_decl(e)),
                            "cpp": '#include "types_prelude.h"\n' + text.split("\n")[l - 1] + "\n"})
    return rows, dis


def spy_check(env, infra):
    ans = model(["passed " + s for s in G.ALL_PARAMS])
    rows = list(zip(G.ALL_PARAMS, ans))
    text, marks = G.spy_tu(rows)
    path = env.write(text, "spy")
    out = compile_all(env, [("spy", path)])
    dis = []
    for name, _ in CXX:
        rc, o = out[("spy", name)]
        if rc != 0:
            ls = [l for l in error_lines(o, path) if l in marks]
            if not ls:
                infra.append("spy TU does not compile with %s: %s" % (name, o[-600:]))
            for l in ls:
                s, e = rows[marks[l]]
                dis.append({"input": "passed " + s, "model": e, "impl": name + ": a different expression type reaches the functor",
                            "detail": "C05.passed_as: slot<void(%s)> hands the functor something else than %s (%s)"
                                      % (G.cpp_type(s), e, first_errors(o)),
                            "cpp": text})
    return rows, dis


def c20_cases(rng, thorough):
    sigs = [[], ["int:v"], ["A:l"], ["B:c"], ["int:r"], ["double:v", "pcA:v"], ["A:v", "long:l", "pB:c"]]
    for _ in range(12 if thorough else 4):
        sigs.append([gen_param(rng) for _ in range(1 + rng.below(3))])
    cases = []
    for sig in sigs:
        for site in G.SITES:
            for sret in ("void", "int:v", "A:v"):
                cases.append((site, sret, sig))
    return cases


def c20_check(env, ctx, infra):
    """→ (n evaluated, disagreements, monitor failures)"""
    cases = c20_cases(ctx.rng, ctx.thorough)
    ans = model([G.c20_line(*c) for c in cases])
    rows = []
    for (site, sret, sig), a in zip(cases, ans):
        f = dict(x.split("=", 1) for x in a.split())
        rows.append({"site": site, "sret": sret, "sig": sig, "produced": f["produced"], "castback": f["castback"],
                     "equal": f["equal"] == "true", "applies": f["applies"] == "true", "argsok": f["argsok"] == "true"})
    dis, mon = [], []
    for r in rows:
        if r["applies"] and not r["equal"]:
            dis.append({"input": G.c20_line(r["site"], r["sret"], r["sig"]), "model": "types differ", "impl": "-",
                        "detail": "the model's own table is inconsistent (theorem call_through_original_type broken)"})
    app = [r for r in rows if r["applies"]]
    text, marks = G.c20_tu(app)
    path = env.write(text, "c20t")
    out = compile_all(env, [("c20t", path)], pch=False, extra=["-fno-access-control"])
    for name, _ in CXX:
        rc, o = out[("c20t", name)]
        if rc == 0:
            continue
        ls = [l for l in error_lines(o, path) if l in marks]
        if not ls:
            infra.append("C20 table TU does not compile with %s: %s" % (name, o[-800:]))
        for l in ls:
            i, what = marks[l]
            r = app[i]
            case = {"input": G.c20_line(r["site"], r["sret"], r["sig"]),
                    "model": "produced=%s castback=%s" % (r["produced"], r["castback"]), "impl": name + ": static_assert failed: " + what,
                    "cpp": text, "expect_compiles": True}
            if what == "monitor":
                case["detail"] = ("the erased call pointer is produced as %s but cast back to a different function type at call "
                                  "site %s (undefined behaviour: call through a different function type)"
                                  % (G.fnty_cpp(r["produced"]), r["site"]))
                mon.append(case)
            else:
                case["detail"] = "call-type table (%s) differs from the code at site %s" % (what, r["site"])
                dis.append(case)
    # the call sites themselves: does the emission / call compile as the table's `argsok` says?
    ok_rows = [r for r in app if r["argsok"]]
    bad_rows = [r for r in app if not r["argsok"]]
    pre = ('#include "types_prelude.h"\nstruct Acc { using result_type = int; template<typename I> int operator()(I, I) const '
           "{ return 0; } };\nvoid t() {\n")
    items = []
    ptxt = pre + "".join("  { %s }\n" % G.emit_probe(r["site"], r["sret"], r["sig"]) for r in ok_rows) + "}\n"
    ppath = env.write(ptxt, "c20e")
    items.append(("c20e", ppath))
    negs = {}
    for j, r in enumerate(bad_rows):
        t = pre + "  { %s }\n}\n" % G.emit_probe(r["site"], r["sret"], r["sig"])
        negs[j] = (env.write(t, "c20n"), t)
        items.append((("c20n", j), negs[j][0]))
    out = compile_all(env, items)
    for name, cxx in CXX:
        rc, o = out[("c20e", name)]
        if rc != 0:
            dis.append({"input": "c20 call sites (argsok=true batch)", "model": "compiles", "impl": name + "=reject",
                        "cpp": ptxt, "detail": "a call site the table says is well-formed does not compile: " + first_errors(o)})
        for j, r in enumerate(bad_rows):
            rc, o = out[(("c20n", j), name)]
            if rc == 0:
                dis.append({"input": G.c20_line(r["site"], r["sret"], r["sig"]), "model": "call site ill-formed", "impl": name + "=accept",
                            "cpp": negs[j][1], "detail": "the table says this emission does not compile (named rvalue-reference "
                                                        "parameter passed on as an lvalue) but it does"})
    # source scan: every function_pointer_cast in slot.h / signal.h is one of the table's sites
    want = {"functors/slot.h": {"call_type": 1, "hook": 1}, "signal.h": {"call_type": 3}}
    for rel, exp in want.items():
        src = open(os.path.join(common.REPO, "sigc++", rel)).read()
        src = re.sub(r"//[^\n]*", "", re.sub(r"/\*.*?\*/", "", src, flags=re.S))
        got = {}
        for m in re.finditer(r"function_pointer_cast<\s*([^>]+?)\s*>\s*\(", src):
            got[m.group(1)] = got.get(m.group(1), 0) + 1
        got.pop("T_out", None)
        if got != exp:
            dis.append({"input": "source scan sigc++/" + rel, "model": json.dumps(exp, sort_keys=True),
                        "impl": json.dumps(got, sort_keys=True),
                        "detail": "the set of function_pointer_cast<> sites differs from the C20 table (CallSite) of the model"})
    # run-time side: clang -fsanitize=function over all call sites
    src = os.path.join(common.VERIF, "harness", "types_c20_run.cc")
    exe, log = common.build_harness(src, "c05fn", cxx="clang++-14",
                                    flags=["-std=c++17", "-O1", "-g", "-fsanitize=function", "-fno-sanitize-recover=all"])
    san = "not built"
    if exe is None:
        infra.append("types_c20_run.cc does not build with clang++ -fsanitize=function: " + log[-1200:])
    else:
        rc, o = common.sh([exe], timeout=60)
        san = "clean" if rc == 0 and "runtime error" not in o else "report"
        if san != "clean":
            mon.append({"input": "harness/types_c20_run.cc (clang++-14 -fsanitize=function)", "model": "no report (call through the original type)",
                        "impl": "rc=%d" % rc, "detail": "UBSan: " + o.strip()[:700], "cpp": open(src).read()})
    return len(app) * 3 + len(app), dis, mon, san, rows


# --------------------------------------------------------------------------------------
# entry points
# --------------------------------------------------------------------------------------
def correspondence(ctx):
    t0 = time.time()
    infra = []
    env = Env()
    infra.extend(env.errors)
    res = {"evaluations": 0, "distinct_nontrivial": 0, "samples": [], "disagreements": [], "monitor_failures": [],
           "infra_errors": infra, "distribution": {}}
    if env.errors:
        env.close()
        return res
    try:
        dis, mon = [], []
        stats = {}
        # 1. corpus
        corp = corpus_probes()
        cres = run_probes(env, [p for p, _, _ in corp], infra)
        for r, (_p, exp, where) in zip(cres, corp):
            if exp and r["model"] != exp:
                dis.append({"input": G.line(r["probe"]), "model": r["model"], "impl": "pinned " + exp,
                            "detail": "corpus %s pins %s, the model says %s" % (where, exp, r["model"])})
        d, m = classify(cres)
        dis += d
        mon += m
        bad_cc, n_cc = corpus_cc(env, infra)
        mon += bad_cc
        # 2. formalisation tables, spies, C20 table
        brow, d = table_check(env, "binds", infra)
        dis += d
        crow, d = table_check(env, "cast", infra)
        dis += d
        srow, d = spy_check(env, infra)
        dis += d
        n20, d, m, san, rows20 = c20_check(env, ctx, infra)
        dis += d
        mon += m
        t_tables = time.time() - t0
        # 3. generated probes
        n = 3300 if ctx.thorough else 660
        pool = generated_pool(ctx.rng, n * 4, stats)
        probes = balanced(ctx.rng, pool, n)
        n_ep = 480 if ctx.thorough else 96
        probes += balanced(ctx.rng, entry_pool(ctx.rng, n_ep * 4, stats), n_ep)
        if ctx.thorough:
            seen = {p.key() for p in probes}
            for p in exhaustive_arity1() + object_method_table() + result_table():
                if p.key() not in seen:
                    seen.add(p.key())
                    probes.append(p)
        else:
            seen = {p.key() for p in probes}
            for p in object_method_table()[::3]:
                if p.key() not in seen:
                    seen.add(p.key())
                    probes.append(p)
        gres = run_probes(env, probes, infra)
        d, m = classify(gres)
        # shrink the first few failures
        for lst, want_mon in ((m, True), (d, False)):
            for c in lst[:1]:
                try:
                    p0 = G.parse_line(c["input"])
                    p1 = shrink(env, p0, want_mon)
                    if p1.key() != p0.key():
                        rs = run_probes(env, [p1], [])
                        dd, mm = classify(rs)
                        got = (mm if want_mon else (dd or mm))
                        if got:
                            c2 = got[0]
                            c2["shrunk_from"] = c["input"]
                            c.update(c2)
                except Exception as ex:   # shrinking is best effort
                    c["shrink_error"] = str(ex)
        dis += d
        mon += m
        # report first what the property is about: a connection the statement forbids that compiles
        mon.sort(key=lambda c: 0 if str(c.get("statement_category", "")).startswith("must_reject") else 1)
        allres = cres + gres
        # distribution (measured)
        dist = {"route": {}, "kind": {}, "adaptor": {}, "arity": {}, "model_verdict": {}, "reject_reason": {},
                "statement_category": {}, "flavour_defects": {k: v for k, v in sorted(stats.items())}}
        for r in allres:
            p = r["probe"]
            for k, v in (("route", p.route), ("kind", p.kind.split(":")[0]), ("adaptor", p.adaptor.split(":")[0]),
                         ("arity", str(len(p.sig))), ("model_verdict", r["model"]),
                         ("statement_category", r["cat"].split("(")[0].strip())):
                dist[k][v] = dist[k].get(v, 0) + 1
            if r["model"] != "accept":
                dist["reject_reason"][r["why"]] = dist["reject_reason"].get(r["why"], 0) + 1
        dist["explicit_only_types"] = explicit_only_distribution(allres)
        dist["entry_points"] = entry_distribution(allres)
        dist["tables"] = {"binds_rows": len(brow), "binds_true": sum(1 for x in brow if x[2]),
                          "cast_rows": len(crow), "cast_true": sum(1 for x in crow if x[2]),
                          "passed_spies": len(srow), "c20_cases": len(rows20), "corpus_probes": len(corp),
                          "corpus_programs": n_cc, "sanitizer_function_run": san}
        dist["timing_s"] = {"tables_and_c20": round(t_tables, 1), "total": round(time.time() - t0, 1),
                            "pch_build": env.pch_s or "cached"}
        dist["compilers"] = [c for _, c in CXX]
        nontriv = {G.line(r["probe"]) for r in allres
                   if len(r["probe"].sig) >= 1 and not (tuple(r["probe"].sig) == tuple(r["probe"].fpar)
                                                        and r["probe"].sret == r["probe"].fret
                                                        and r["probe"].adaptor == "none")}
        res.update({
            "evaluations": len(allres) + len(brow) + len(crow) + len(srow) + n20 + n_cc,
            "distinct_nontrivial": len(nontriv),
            "rule": "distinct probes with at least one parameter whose functor signature is not literally the "
                    "signal's signature (a conversion, a reference binding or an adaptor is involved); table rows "
                    "and C20 cases are counted in evaluations only",
            "samples": [G.line(r["probe"]) + "  => model %s %s, %s" % (
                r["model"], r["why"], " ".join("%s=%s" % kv for kv in sorted(r["impl"].items())))
                for r in (gres[:3] + gres[-3:])],
            "traces_validated_against_impl": len(allres) + len(brow) + len(crow) + len(srow) + n20,
            "distribution": dist, "disagreements": dis, "monitor_failures": mon,
        })
        return res
    finally:
        env.close()


def search(ctx, disagreements):
    """around every diverging probe: vary each functor parameter over the whole universe, the kind and the result;
    report the neighbours on which the implementation violates the statement (monitor)."""
    env = Env()
    found = []
    try:
        if env.errors:
            return []
        for c in disagreements[:4]:
            if not c.get("input", "").startswith("probe "):
                continue
            p = G.parse_line(c["input"])
            neigh = {}
            for i in range(len(p.fpar)):
                for t in G.ALL_PARAMS:
                    q = p.copy(fpar=p.fpar[:i] + (t,) + p.fpar[i + 1:])
                    neigh[q.key()] = q
            for i in range(len(p.sig)):
                for t in G.ALL_PARAMS:
                    q = p.copy(sig=p.sig[:i] + (t,) + p.sig[i + 1:])
                    neigh[q.key()] = q
            for k in G.KINDS_DIRECT + G.KINDS_MEM + G.KINDS_SLOTOBJ:
                q = p.copy(kind=k)
                neigh[q.key()] = q
            for fr in G.FN_RETS:
                for sr in G.SIG_RETS:
                    q = p.copy(fret=fr, sret=sr)
                    neigh[q.key()] = q
            qs = []
            for q in neigh.values():
                try:
                    G.cpp(q)
                except ValueError:
                    continue
                if not excluded(q) and G.statement_category(q) != "unclassified":
                    qs.append(q)
            qs = ctx.rng.shuffle(qs)[:400]
            rs = run_probes(env, qs, [])
            _d, m = classify(rs)
            for x in m[:1]:
                p1 = shrink(env, G.parse_line(x["input"]), True)
                rs1 = run_probes(env, [p1], [])
                _d1, m1 = classify(rs1)
                y = (m1 or [x])[0]
                y["found_near"] = c["input"]
                found.append(y)
            if found:
                break
        return found
    finally:
        env.close()


def replay(ctx, path):
    """re-run the case stored in a replay file (written by check.py) and print what happens now"""
    data = json.load(open(path))
    case = data.get("case") or (data.get("correspondence_no_longer_checked") or [{}])[0]
    inp = case.get("input", "")
    print("replay of", path)
    print("  input :", inp)
    print("  stored: model=%s impl=%s" % (case.get("model"), case.get("impl")))
    print("  what  :", case.get("detail", data.get("what", "")))
    env = Env()
    try:
        if env.errors:
            print("  infrastructure:", env.errors)
            return 2
        if inp.startswith("probe "):
            p = G.parse_line(inp)
            infra = []
            rs = run_probes(env, [p], infra)
            r = rs[0]
            print("  C++   :")
            for l in G.tu([p])[0].split("\n"):
                print("      " + l)
            print("  now   : model=%s %s  %s  statement=%s" % (
                r["model"], r["why"], " ".join("%s=%s" % kv for kv in sorted(r["impl"].items())), r["cat"]))
            for n, dg in r["diag"].items():
                print("      %s: %s" % (n, dg))
            d, m = classify(rs)
            if m:
                print("  => still violates the statement of C05:", m[0]["detail"])
                return 1
            if d:
                print("  => model and compilers still differ:", d[0]["detail"])
                return 1
            print("  => no longer failing")
            return 0
        if case.get("cpp"):
            pth = env.write(case["cpp"], "replay")
            nopch = "types_prelude.h" not in case["cpp"]
            out = compile_all(env, [("r", pth)], pch=not nopch, extra=["-fno-access-control"] if nopch else [])
            rcs = {}
            for n, _ in CXX:
                rc, o = out[("r", n)]
                rcs[n] = rc
                print("  %s: rc=%d %s" % (n, rc, first_errors(o)))
            if "sanitize=function" in inp:
                infra = []
                _n, d, m, san, _rows = c20_check(env, ctx, infra)
                print("  sanitizer run:", san)
                return 1 if (m or d) else 0
            print("  (stored program compiled again; compare with the stored verdict above)")
            if "expect_compiles" in case:
                want = case["expect_compiles"]
                bad = any((rc == 0) != want for rc in rcs.values())
                print("  => expected to %s: %s" % ("compile" if want else "be rejected", "still failing" if bad else "no longer failing"))
                return 1 if bad else 0
            stored_ok = "accept" in (case.get("impl") or "")
            return 1 if any((rc == 0) == stored_ok for rc in rcs.values()) else 0
        print("  nothing replayable in this file")
        return 2
    finally:
        env.close()
