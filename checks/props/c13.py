"""C13 — emission results: last slot's value, or the accumulator's verdict  (runtime family; engine: props/rt.py, see DESIGN.md §5 C13)"""
import os
import sys
sys.path.insert(0, os.path.dirname(os.path.dirname(os.path.abspath(__file__))))
from runtime import Profile
from props import rt

PID = "C13"
LEVEL = "proof"
MODULE = "Sigc.Props.C13"
EXTRA_MODULES = ("Sigc.Props.Refine", "Sigc.Props.Fuel", "Sigc.Props.SpecK", "Sigc.Props.SpecProps",)   # refinement P ⊑ S', S' ≡ S on runs clear of the known findings, the statements read off S
REQUIRED = ["Sigc.Fuel.terminates", "Sigc.Fuel.runProgram_fuel_independent", "Sigc.Refine.refines", "Sigc.Refine.runProgram_refines", "Sigc.SpecK.model_refines_pure_spec"]
TRUSTED = rt.TRUSTED_RT
ASSUMPTIONS = rt.ASSUMPTIONS_RT + []
PARTIAL = []
KNOWN_IDS = ('K2',)
N_QUICK = 800
N_THOROUGH = 25000
EXPLANATION = ''

def profiles(thorough):
    ops = ["newG", "connfn", "emit", "tryemit", "disc", "blockC", "blockG", "clear", "size?", "newT", "delT", "connected?"]
    acc = Profile(allow_only=ops, nT=2, nG=3, nC=8, flavours=["A", "TA", "A", "I", "TI", "AV", "TAV"], specs={"fn": 6, "trk": 2},
                  body_prob=0.25, body_len=(1, 2), len=(12, 40 if not thorough else 100),
                  w={"connfn": 14, "emit": 14, "blockC": 8, "disc": 4, "delT": 2, "blockG": 1},
                  bw={k: 0 for k in ["connfn", "conn", "clear", "delG", "cpG", "asgG", "masgG", "emit", "tryemit", "callS", "delS",
                                       "discS", "delC", "delK", "discK", "asgS", "mvS", "setS", "mkS", "newT", "cpC", "relK", "mvK",
                                       "newK", "mvG", "blockS", "blockG", "notifyT", "throw", "emptyS?"]})
    return [acc]


def correspondence(ctx):
    return rt.run(ctx, sys.modules[__name__])


def search(ctx, disagreements):
    return rt.search(ctx, sys.modules[__name__], disagreements)


def known(ctx):
    return rt.known(ctx, sys.modules[__name__])


def replay(ctx, path):
    return rt.replay(ctx, sys.modules[__name__], path)
