"""C01 — emission invokes exactly the connected, unblocked slots, once each, in order  (runtime family; engine: props/rt.py, see DESIGN.md §5 C01)"""
import os
import sys
sys.path.insert(0, os.path.dirname(os.path.dirname(os.path.abspath(__file__))))
from runtime import Profile
from props import rt

PID = "C01"
LEVEL = "proof"
MODULE = "Sigc.Props.C01"
EXTRA_MODULES = ("Sigc.Props.Refine", "Sigc.Props.Fuel", "Sigc.Props.SpecK", "Sigc.Props.SpecProps",)   # refinement P ⊑ S', S' ≡ S on runs clear of the known findings, the statements read off S
REQUIRED = ["Sigc.C01.connect_appends", "Sigc.C01.connect_first_prepends", "Sigc.C01.turns_eq_snapshot", "Sigc.C01.turns_are_old_cells", "Sigc.Fuel.terminates", "Sigc.Fuel.runProgram_fuel_independent", "Sigc.Refine.refines", "Sigc.Refine.runProgram_refines", "Sigc.Refine.refines_calls", "Sigc.SpecK.model_refines_pure_spec"]
TRUSTED = rt.TRUSTED_RT
ASSUMPTIONS = rt.ASSUMPTIONS_RT + []
PARTIAL = []
KNOWN_IDS = ('K1',)
N_QUICK = 600
N_THOROUGH = 20000
EXPLANATION = ''

def profiles(thorough):
    sig_ops = ["newG", "connfn", "conn", "mkS", "emit", "tryemit", "clear", "size?", "emptyG?", "blockedG?", "blockG", "disc",
               "connected?", "blockC", "blockedC?", "blockS", "cpC", "delC"]
    flat = Profile(allow_only=sig_ops, nT=0, nG=4, nC=8, specs={"fn": 1}, body_prob=0.0, len=(10, 60),
                   w={"connfn": 12, "emit": 10, "disc": 5, "blockC": 4, "blockG": 2, "clear": 1, "size?": 4})
    reent = Profile(allow_only=sig_ops + ["newK"], nT=0, nG=3, nC=8, nK=3, specs={"fn": 8, "ownK": 1}, body_prob=0.4, len=(10, 60 if not thorough else 200),
                    maxdepth=5 if thorough else 4,
                    w={"connfn": 12, "emit": 10, "disc": 4, "blockC": 3, "size?": 4, "newK": 2},
                    bw={k: 0 for k in ["delT", "notifyT", "delG", "cpG", "asgG", "masgG", "mvG", "callS", "delS", "discS", "delK", "discK",
                                         "asgS", "mvS", "setS", "mkS", "newT", "relK", "mvK", "newK", "emptyS?", "throw"]})
    return [flat, reent, reent]


def correspondence(ctx):
    return rt.run(ctx, sys.modules[__name__])


def search(ctx, disagreements):
    return rt.search(ctx, sys.modules[__name__], disagreements)


def known(ctx):
    return rt.known(ctx, sys.modules[__name__])


def replay(ctx, path):
    return rt.replay(ctx, sys.modules[__name__], path)
