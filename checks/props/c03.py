"""C03 — slots may connect, disconnect, destroy or re-emit during an emission, safely  (runtime family; engine: props/rt.py, see DESIGN.md §5 C03)"""
import os
import sys
sys.path.insert(0, os.path.dirname(os.path.dirname(os.path.abspath(__file__))))
from runtime import Profile
from props import rt

PID = "C03"
LEVEL = "proof"
MODULE = "Sigc.Props.C03"
EXTRA_MODULES = ("Sigc.Props.Refine", "Sigc.Props.Fuel", "Sigc.Props.SpecK", "Sigc.Props.SpecProps", "Sigc.Props.SweepL",)   # refinement P ⊑ S', S' ≡ S on runs clear of the known findings, the statements read off S
REQUIRED = ["Sigc.SweepL.quiescent_clean", "Sigc.SweepL.size_spec", "Sigc.SweepL.no_fuel_error", "Sigc.SweepL.owner_gone_releases", "Sigc.SweepL.nothing_erased_while_executing", "Sigc.SweepL.inv_reachable", "Sigc.C03.safe", "Sigc.C03.safe_inside", "Sigc.C03.frame", "Sigc.C03.frame_spelled_out", "Sigc.C03.emit_restores_exec", "Sigc.C03.quiescent_clean", "Sigc.C03.inv_reachable", "Sigc.C03.owned_not_pinned", "Sigc.Fuel.terminates", "Sigc.Fuel.runProgram_fuel_independent", "Sigc.Refine.refines", "Sigc.Refine.runProgram_refines", "Sigc.SpecK.model_refines_pure_spec"]
TRUSTED = rt.TRUSTED_RT
ASSUMPTIONS = rt.ASSUMPTIONS_RT + []
PARTIAL = []
KNOWN_IDS = ('F6',)
N_QUICK = 800
N_THOROUGH = 20000
EXPLANATION = ''

def profiles(thorough):
    p = Profile(nT=3, nS=3, nG=3, nC=8, nK=2, specs={"fn": 5, "mem": 2, "trk": 2, "trk2": 1, "bref": 1, "nest": 1, "fwd": 1, "ownT": 2, "ownK": 2, "ownG": 2},
                body_prob=0.7, body_len=(1, 5), len=(12, 50 if not thorough else 150), maxdepth=5 if thorough else 4,
                w={"connfn": 14, "emit": 12, "newT": 4, "newG": 4, "conn": 3, "mkS": 3, "size?": 4, "connected?": 4, "delT": 1, "delG": 1},
                bw={"connfn": 6, "disc": 6, "clear": 2, "blockC": 3, "blockG": 1, "delT": 4, "delG": 3, "asgG": 1, "masgG": 1,
                    "cpG": 1, "emit": 5, "tryemit": 1, "throw": 0})
    return [p]


def correspondence(ctx):
    # + one slot list with exact destruction timing: owner functors x connected empty slots (docs/SWEEPL.md)
    return rt.add_sweepl_stage(ctx, rt.run(ctx, sys.modules[__name__]), 'C03')


def search(ctx, disagreements):
    return rt.search(ctx, sys.modules[__name__], disagreements)


def known(ctx):
    return rt.known(ctx, sys.modules[__name__])


def replay(ctx, path):
    return rt.replay(ctx, sys.modules[__name__], path)
