"""C15 — slots are values: copies are independent, moves empty the source  (runtime family; engine: props/rt.py, see DESIGN.md §5 C15)"""
import os
import sys
sys.path.insert(0, os.path.dirname(os.path.dirname(os.path.abspath(__file__))))
from runtime import Profile
from props import rt

PID = "C15"
LEVEL = "proof"
MODULE = "Sigc.Props.C15"
EXTRA_MODULES = ("Sigc.Props.Refine", "Sigc.Props.Fuel", "Sigc.Props.SpecK", "Sigc.Props.SlotG",)   # refinement P ⊑ S', S' ≡ S on runs clear of the known findings
REQUIRED = ["Sigc.SlotG.cpS_blocked", "Sigc.SlotG.mvS_blocked", "Sigc.SlotG.asgS_blocked", "Sigc.SlotG.masgS_blocked", "Sigc.SlotG.rep_held_unique", "Sigc.SlotG.live_count_spec", "Sigc.Fuel.terminates", "Sigc.Fuel.runProgram_fuel_independent", "Sigc.Refine.refines", "Sigc.Refine.runProgram_refines", "Sigc.SpecK.model_refines_pure_spec"]
TRUSTED = rt.TRUSTED_RT
ASSUMPTIONS = rt.ASSUMPTIONS_RT + []
PARTIAL = []
KNOWN_IDS = ()
N_QUICK = 500
N_THOROUGH = 15000
EXPLANATION = ''

def profiles(thorough):
    p = Profile(nT=3, nS=5, nG=2, nC=6, nK=1, specs={"fn": 4, "mem": 2, "trk": 2, "bref": 1, "nest": 2}, body_prob=0.2,
                len=(15, 60 if not thorough else 150),
                w={"mkS": 10, "mkS0": 3, "cpS": 8, "mvS": 6, "asgS": 8, "masgS": 6, "setS": 3, "delS": 4, "discS": 4, "blockS": 5,
                   "blockedS?": 6, "emptyS?": 8, "boolS?": 5, "callS": 8, "conn": 6, "delT": 3, "emit": 4, "live?": 5},
                bw={"discS": 3, "blockS": 3, "asgS": 2, "delT": 2, "throw": 0})
    return [p]


def correspondence(ctx):
    return rt.add_slotg_stage(ctx, rt.run(ctx, sys.modules[__name__]), 'C15')


def search(ctx, disagreements):
    return rt.search(ctx, sys.modules[__name__], disagreements)


def known(ctx):
    return rt.known(ctx, sys.modules[__name__])


def replay(ctx, path):
    return rt.replay(ctx, sys.modules[__name__], path)
