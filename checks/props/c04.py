"""C04 — a connection handle is always safe and tells the truth about its slot  (runtime family; engine: props/rt.py, see DESIGN.md §5 C04)"""
import os
import sys
sys.path.insert(0, os.path.dirname(os.path.dirname(os.path.abspath(__file__))))
from runtime import Profile
from props import rt

PID = "C04"
LEVEL = "proof"
MODULE = "Sigc.Props.C04"
EXTRA_MODULES = ("Sigc.Props.Refine", "Sigc.Props.Fuel", "Sigc.Props.SpecK", "Sigc.Props.SlotG",)   # refinement P ⊑ S', S' ≡ S on runs clear of the known findings
REQUIRED = ["Sigc.SlotG.connected_iff", "Sigc.SlotG.connected_false_forever", "Sigc.SlotG.conn_false_after_delS", "Sigc.SlotG.conn_false_after_move", "Sigc.Fuel.terminates", "Sigc.Fuel.runProgram_fuel_independent", "Sigc.Refine.refines", "Sigc.Refine.runProgram_refines", "Sigc.SpecK.model_refines_pure_spec"]
TRUSTED = rt.TRUSTED_RT
ASSUMPTIONS = rt.ASSUMPTIONS_RT + []
PARTIAL = []
KNOWN_IDS = ()
N_QUICK = 500
N_THOROUGH = 15000
EXPLANATION = ''

def profiles(thorough):
    p = Profile(nT=3, nS=3, nG=3, nC=8, nK=2, specs={"fn": 4, "mem": 2, "trk": 2, "bref": 1, "nest": 1, "ownT": 0, "ownK": 2, "sc": 3},
                body_prob=0.3, len=(15, 60 if not thorough else 150),
                w={"connfn": 10, "conn": 4, "cpC": 6, "asgC": 4, "delC": 3, "newC": 2, "disc": 7, "connected?": 10, "emptyC?": 4,
                   "blockedC?": 3, "blockC": 4, "delT": 3, "clear": 2, "delG": 2, "emit": 5, "size?": 3},
                bw={"disc": 6, "connected?": 5, "cpC": 2, "delC": 2, "delT": 3, "clear": 2, "delG": 2, "blockC": 2, "throw": 0})
    return [p]


def correspondence(ctx):
    return rt.add_slotg_stage(ctx, rt.run(ctx, sys.modules[__name__]), 'C04')


def search(ctx, disagreements):
    return rt.search(ctx, sys.modules[__name__], disagreements)


def known(ctx):
    return rt.known(ctx, sys.modules[__name__])


def replay(ctx, path):
    return rt.replay(ctx, sys.modules[__name__], path)
