"""C16 — trackable notifications fire exactly once, and copies do not inherit them.

Proof side : lean/Sigc/Trk.lean (model), TrkLemmas.lean, Props/C16.lean (theorems).
Correspondence: harness/trk_harness.cc drives real `sigc::trackable` objects (ASan+UBSan+LSan) from the
same textual histories the Lean driver `sigc_model trk` executes; the outputs (deliveries per operation,
then the deliveries of a final teardown) must be equal line by line.
Monitor   : `monitor()` below — the property *statement* evaluated on the implementation's own output:
a plain per-trackable list of pending registrations; nothing of clearing flags, nulled function
pointers, iterators.  It decides whether an input is a real violation.

History text (one per line):   k<k>:r<d>,r<d>,…   body of user callback k (removals on the trackable
being notified; `a<d>.<k>` = add, outside C16's domain, edge stream only)
N<t> new | A<t>.<d>.<k> add | R<t>.<d> remove | C<src>.<dst> copy-ctor | M<src>.<dst> move-ctor |
E<dst>.<src> copy-assign | V<dst>.<src> move-assign | F<t> notify_callbacks | D<t> delete
"""
import json
import os
import subprocess
import sys

sys.path.insert(0, os.path.dirname(os.path.dirname(os.path.abspath(__file__))))
import common  # noqa: E402

PID = "C16"
LEVEL = "proof"
MODULE = "Sigc.Props.C16"
REQUIRED = ["Sigc.C16.exactly_once", "Sigc.C16.remove_during_round", "Sigc.C16.copy_transfers_nothing",
            "Sigc.C16.self_assign_silent", "Sigc.C16.list_empty_after_round",
            "Sigc.C16.add_in_round_safe", "Sigc.C16.add_in_round_once", "Sigc.C16.add_in_round_ignored",
            "Sigc.C16.exactly_once_wide", "Sigc.C16.added_nodup_wide", "Sigc.C16.present2_eq_present_of_domain"]
PARTIAL = []
TRUSTED = [
    "Lean 4 kernel (axioms as audited: propext, Quot.sound, Classical.choice); leanchecker in the thorough tier",
    "the hand-written model lean/Sigc/Trk.lean of sigc++/trackable.{h,cc}: tied to the code only by this "
    "differential run on generated histories (bounded by what the generator reaches, distribution in the evidence)",
    "the trace vocabulary present/inRound/delivered/added (Sigc/Trk.lean) and the Python monitor in "
    "checks/props/c16.py as the meaning of the property statement",
    "harness/trk_harness.cc, g++ 12 / libstdc++ (std::list node stability), ASan/UBSan/LSan",
    "`decide` is used only in non-vacuity examples and the two witness theorems, on closed concrete histories",
]
ASSUMPTIONS = [
    "domain (DESIGN §2/§5): user callbacks only remove registrations of the trackable being notified — no "
    "add_destroy_notify_callback and no nested notify_callbacks() from inside a delivery round (History.Domain; "
    "the witnesses nested_notify_witness / add_in_round_witness show neither can be dropped from exactly-once). "
    "Safety (no error state), at-most-once delivery and the exactly-once statement in its round-aware reading (an add "
    "issued from inside a delivery round on the trackable being notified registers nothing — trackable.cc `if (!clearing_)` — "
    "present2 in Sigc/Trk.lean) are proved on the wider domain History.Domain2 (callbacks remove and add in any mix; only "
    "nested notify_callbacks() excluded): add_in_round_safe / add_in_round_once / add_in_round_ignored / exactly_once_wide; "
    "present2_eq_present_of_domain: on the narrow domain both readings coincide. The generator's edge histories (callbacks "
    "that add) are compared model == library under sanitizers; the monitor does not judge them (the statement does not say "
    "whether such a call registers)",
    "callbacks act on the trackable being notified only; trackable_callback_list::clear() (no caller) is not modelled",
    "operations naming a destroyed trackable are skipped on both sides (no user-level undefined behaviour in histories)",
    "the property does not fix the order of deliveries inside a round; the monitor does not check it "
    "(the model/implementation comparison does, as an implementation detail)",
]
EXPLANATION = ("Theorems: for all histories in the domain the model's trace delivers every registration at most once, "
               "only during a triggering event on its own trackable while it is still registered, and completely by "
               "the end of that event; no error state (iterator invalidation / double delete) is reachable. "
               "Correspondence: model == real library on generated + directed histories under sanitizers; monitor: "
               "the statement itself on the library's output.")

HARNESS_SRC = os.path.join(common.VERIF, "harness", "trk_harness.cc")
CORPUS = os.path.join(common.VERIF, "corpus", "C16")
SAN_ENV = {"ASAN_OPTIONS": "detect_leaks=1:abort_on_error=0:halt_on_error=1:exitcode=23:symbolize=0",
           "UBSAN_OPTIONS": "halt_on_error=1:print_stacktrace=0", "LSAN_OPTIONS": "exitcode=23"}

# --------------------------------------------------------------------------------------
# history representation: (scripts, ops);  scripts: list of list of ('r', d) | ('a', d, k);
# ops: list of tuples (letter, a, b?, c?)
# --------------------------------------------------------------------------------------


def render(scripts, ops):
    ws = []
    for k, body in enumerate(scripts):
        ws.append("k%d:%s" % (k, ",".join(("r%d" % b[1]) if b[0] == "r" else ("a%d.%d" % (b[1], b[2]))
                                          for b in body)))
    for op in ops:
        ws.append(op[0] + ".".join(str(x) for x in op[1:]))
    return " ".join(ws)


ARITY = {"N": 1, "F": 1, "D": 1, "A": 3, "R": 2, "C": 2, "M": 2, "E": 2, "V": 2}


def parse(line):
    """returns (scripts, ops) or None when the line is malformed (both sides then answer parse-error)"""
    scripts, ops = [], []
    try:
        for w in line.split():
            if w[0] == "k":
                ks, body = w[1:].split(":")
                if int(ks) != len(scripts) or not ks.isdigit():
                    return None
                items = []
                for it in body.split(","):
                    if it == "":
                        continue
                    if it[0] == "r":
                        if not it[1:].isdigit():
                            return None
                        items.append(("r", int(it[1:])))
                    elif it[0] == "a":
                        d, k = it[1:].split(".")
                        if not (d.isdigit() and k.isdigit()):
                            return None
                        items.append(("a", int(d), int(k)))
                    else:
                        return None
                scripts.append(items)
            else:
                if w[0] not in ARITY:
                    return None
                parts = w[1:].split(".")
                if len(parts) != ARITY[w[0]] or not all(p.isdigit() for p in parts):
                    return None
                ops.append((w[0],) + tuple(int(p) for p in parts))
    except (ValueError, IndexError):
        return None
    return scripts, ops


def in_domain(scripts):
    """the histories the monitor judges = History.Domain of the model (the property's quantifier: callbacks that
    remove).  Histories whose callbacks also add are compared model == library only: whether an add issued from
    inside a round 'registers' is not decided by the statement (the code drops it; exactly_once_wide proves the
    model's behaviour under that reading), so the monitor does not judge them"""
    return all(b[0] == "r" for body in scripts for b in body)


def in_narrow_domain(scripts):
    return all(b[0] == "r" for body in scripts for b in body)


# --------------------------------------------------------------------------------------
# monitor: the property statement on the implementation's output
# --------------------------------------------------------------------------------------

def triggers(op):
    c = op[0]
    if c in ("D", "F"):
        return [op[1]]
    if c == "E":
        return [op[1]] if op[1] != op[2] else []
    if c == "V":
        return [op[1], op[2]] if op[1] != op[2] else []
    if c == "M":
        return [op[1]]
    return []


def applicable(op, alive):
    c = op[0]
    if c == "N":
        return op[1] not in alive
    if c in ("A", "R", "F", "D"):
        return op[1] in alive
    if c in ("C", "M"):
        return op[1] in alive and op[2] not in alive
    return op[1] in alive and op[2] in alive


def monitor(line, out, stats=None):
    """None if `out` (the implementation's answer to `line`) satisfies C16 as stated, else a description.
    Every registration is delivered exactly once — at the first triggering event (destruction, assignment
    target, move source, notify_callbacks) on its trackable after its add — unless a remove matched it
    before (remove d matches the first registration with data d still registered); a delivery may
    remove registrations of the same trackable; copy construction transfers nothing; self-assignment and
    every non-triggering operation deliver nothing."""
    h = parse(line)
    if h is None:
        return None if out == "parse-error" else "malformed history answered with " + out[:60]
    scripts, ops = h
    if not in_domain(scripts):
        return None  # outside the property's quantifier (add / nested notify inside a round): correspondence only
    if out.startswith("CRASH"):
        return "the library crashed / a sanitizer fired where the property promises a safe delivery round: " + out[:300]
    toks = out.split()
    if "#" not in toks:
        return "no teardown marker in output"
    cut = toks.index("#")
    top = max([0] + [x for op in ops for x in (op[1:2] if op[0] in "AR" else op[1:])])
    all_ops = list(ops) + [("D", t) for t in range(top + 1)]
    all_toks = toks[:cut] + toks[cut + 1:]
    if len(all_toks) != len(all_ops):
        return "output has %d operation tokens for %d operations" % (len(all_toks), len(all_ops))
    alive = set()
    pend = {}     # trackable -> list of registrations [reg, d, k, delivered]
    nreg = 0
    st = stats if stats is not None else {}

    def bump(k, n=1):
        st[k] = st.get(k, 0) + n

    for i, (op, tok) in enumerate(zip(all_ops, all_toks)):
        where = "operation %d (%s)" % (i, op[0] + ".".join(map(str, op[1:])))
        ok = applicable(op, alive)
        if (tok == "x") != (not ok):
            return where + ": %s but the names say it is %sapplicable" % (tok, "" if ok else "not ")
        if not ok:
            bump("skipped_ops")
            continue
        if i < len(ops):
            bump("op_" + op[0])
        obs = [] if tok == "-" else [tuple(int(x) for x in p.split(":")) for p in tok.split(",")]
        c = op[0]
        if c == "N":
            alive.add(op[1]); pend[op[1]] = []
        elif c in ("C", "M"):
            alive.add(op[2]); pend[op[2]] = []
            if c == "C":
                bump("copies_of_nonempty" if pend[op[1]] else "copies_of_empty")
        elif c == "A":
            pend[op[1]].append([nreg, op[2], op[3], False]); nreg += 1
            st["max_list"] = max(st.get("max_list", 0), len(pend[op[1]]))
            if sum(1 for e in pend[op[1]] if e[1] == op[2]) > 1:
                bump("adds_duplicating_data")
        elif c == "R":
            lst = pend[op[1]]
            hit = next((e for e in lst if e[1] == op[2]), None)
            if hit is not None:
                lst.remove(hit); bump("removes_matched_outside_round")
            else:
                bump("removes_unmatched")
        elif c in ("E", "V") and op[1] == op[2]:
            bump("self_assign_nonempty" if pend[op[1]] else "self_assign_empty")
        pos = 0
        for t in triggers(op):
            lst = pend[t]
            bump("rounds"); bump("rounds_nonempty" if lst else "rounds_empty")
            while any(not e[3] for e in lst):
                if pos >= len(obs):
                    miss = [(e[1], e[2]) for e in lst if not e[3]]
                    return where + ": registration(s) %s of trackable %d still registered but not delivered" % (miss, t)
                d, k = obs[pos]
                e = next((e for e in lst if not e[3] and e[1] == d and e[2] == k), None)
                if e is None:
                    return where + (": delivery %d:%d during the event on trackable %d matches no registration that is "
                                    "registered there and undelivered (double delivery, delivery after removal, or "
                                    "someone else's registration)" % (d, k, t))
                e[3] = True
                pos += 1
                bump("deliveries")
                for b in (scripts[k] if k < len(scripts) else []):
                    if b[0] == "a":
                        bump("inround_add_ignored")     # registers nothing: must never be delivered
                        continue
                    hit = next((x for x in lst if x[1] == b[1]), None)
                    if hit is None:
                        bump("inround_remove_unmatched")
                    else:
                        lst.remove(hit)
                        bump("inround_remove_self" if hit is e else
                             "inround_remove_delivered" if hit[3] else "inround_remove_pending")
            pend[t] = []
        if pos < len(obs):
            return where + ": unexpected delivery %s (nothing is registered that this operation may deliver)" % (
                ",".join("%d:%d" % o for o in obs[pos:]))
        if c == "D":
            alive.discard(op[1]); pend.pop(op[1], None)
    return None


# --------------------------------------------------------------------------------------
# runners
# --------------------------------------------------------------------------------------

def run_model(lines):
    if not lines:
        return []
    p = subprocess.run([common.driver(), "trk"], input="\n".join(lines) + "\n", stdout=subprocess.PIPE,
                       stderr=subprocess.PIPE, text=True, timeout=1200)
    out = p.stdout.split("\n")
    if out and out[-1] == "":
        out.pop()
    if len(out) != len(lines):
        raise RuntimeError("model driver answered %d lines for %d cases: %s" % (len(out), len(lines), p.stderr[-400:]))
    return out


def _san_summary(err):
    for l in err.split("\n"):
        if "ERROR:" in l or "runtime error" in l or "SUMMARY" in l:
            return l.strip()[:240]
    return (err.strip().split("\n") or [""])[-1][:240]


MAX_CRASHES_PER_CHUNK = 4     # every crash costs a process start and a sanitizer report
MAX_TIMEOUTS_PER_CHUNK = 2
NOT_RUN = "NOT-RUN"


def _text(x):
    if x is None:
        return ""
    return x.decode("utf-8", "replace") if isinstance(x, bytes) else x


def run_impl_chunk(exe, lines, max_crashes=MAX_CRASHES_PER_CHUNK, tmo_base=10):
    """one harness process per stretch of lines; a crash / hang ends the stretch at the offending line.
    After `max_crashes` crashes (or MAX_TIMEOUTS_PER_CHUNK hangs) the remaining lines are answered NOT-RUN."""
    res = []
    i = 0
    crashes = timeouts = 0
    env = dict(os.environ); env.update(SAN_ENV)
    while i < len(lines):
        if crashes >= max_crashes or timeouts >= MAX_TIMEOUTS_PER_CHUNK:
            res.extend([NOT_RUN] * (len(lines) - i))
            break
        tmo = tmo_base + 0.02 * (len(lines) - i)
        try:
            p = subprocess.run([exe], input="\n".join(lines[i:]) + "\n", stdout=subprocess.PIPE,
                               stderr=subprocess.PIPE, text=True, errors="replace", timeout=tmo, env=env)
            stdout, stderr, rc, hung = p.stdout, p.stderr, p.returncode, False
        except subprocess.TimeoutExpired as ex:
            stdout, stderr, rc, hung = _text(ex.stdout), _text(ex.stderr), -1, True
        out = stdout.split("\n")
        if out and out[-1] == "":
            out.pop()
        out = out[:len(lines) - i]
        res.extend(out)
        i += len(out)
        if i < len(lines):
            if hung:
                timeouts += 1
                res.append("CRASH the harness did not finish this history within %ds (non-termination)" % tmo)
            else:
                crashes += 1
                res.append("CRASH rc=%d %s" % (rc, _san_summary(stderr)))
            i += 1
        elif rc != 0 and not hung:
            # all lines answered but the process failed at exit (LeakSanitizer): find the line by bisection
            lo = len(res) - len(out)
            idx = _bisect_exit(exe, lines[lo:], env)
            if idx is not None:
                res[lo + idx] = "CRASH rc=%d at-exit %s" % (rc, _san_summary(stderr))
    return res


def symbolized_report(exe, line):
    """re-run one crashing history with symbolisation (slow, so only for the reported case)"""
    env = dict(os.environ); env.update(SAN_ENV)
    env["ASAN_OPTIONS"] = env["ASAN_OPTIONS"].replace("symbolize=0", "symbolize=1")
    try:
        p = subprocess.run([exe], input=line + "\n", stdout=subprocess.PIPE, stderr=subprocess.PIPE, text=True,
                           errors="replace", timeout=60, env=env)
    except subprocess.TimeoutExpired:
        return "no report: timeout"
    keep = [l.strip() for l in p.stderr.split("\n") if "ERROR:" in l or "runtime error" in l or
            l.strip().startswith("#") or "SUMMARY" in l]
    return " | ".join(keep[:7])[:900]


def _bisect_exit(exe, lines, env):
    def bad(ls):
        p = subprocess.run([exe], input="\n".join(ls) + "\n", stdout=subprocess.DEVNULL, stderr=subprocess.DEVNULL,
                           text=True, env=env, timeout=1200)
        return p.returncode != 0
    lo, hi = 0, len(lines)
    if not bad(lines):
        return None
    while hi - lo > 1:
        mid = (lo + hi) // 2
        if bad(lines[lo:mid]):
            hi = mid
        else:
            lo = mid
    return lo


def run_impl(exe, lines, jobs=None):
    from concurrent.futures import ThreadPoolExecutor
    jobs = jobs or min(common.NCPU, 16)
    if len(lines) < 200:
        return run_impl_chunk(exe, lines)
    n = (len(lines) + jobs - 1) // jobs
    chunks = [lines[i:i + n] for i in range(0, len(lines), n)]
    with ThreadPoolExecutor(max_workers=jobs) as ex:
        parts = list(ex.map(lambda c: run_impl_chunk(exe, c), chunks))
    return [o for p in parts for o in p]


# --------------------------------------------------------------------------------------
# generator
# --------------------------------------------------------------------------------------

def gen_history(rng, edge=False):
    ntrk = rng.weighted([(1, 3), (2, 4), (3, 3)])
    names = ntrk + (1 if rng.chance(0.5) else 0)          # one spare name for copies / moves
    nd = rng.weighted([(2, 2), (3, 4), (4, 3), (6, 1)])    # small data pool: duplicates and matches are common
    nk = rng.weighted([(1, 1), (2, 3), (3, 3), (5, 2)])
    scripts = []
    for _ in range(nk):
        n = rng.weighted([(0, 3), (1, 4), (2, 3), (3, 2), (5, 1)])
        body = [("r", rng.below(nd)) for _ in range(n)]
        if edge and rng.chance(0.5):
            body.insert(rng.below(len(body) + 1), ("a", rng.below(nd), rng.below(nk)))
        scripts.append(body)
    nops = 10 + rng.below(31)
    ops = []
    alive = set()

    def pick(live):
        pool = sorted(alive) if live else [t for t in range(names) if t not in alive]
        if edge and rng.chance(0.25) or not pool or rng.chance(0.04):
            return rng.below(names + 1)
        return rng.choice(pool)

    for t in range(ntrk):
        if rng.chance(0.8):
            ops.append(("N", t)); alive.add(t)
    while len(ops) < nops:
        c = rng.weighted([("N", 6), ("A", 40), ("R", 12), ("C", 5), ("M", 5), ("E", 6), ("V", 6), ("F", 8), ("D", 5)])
        if c == "N":
            op = ("N", pick(False))
        elif c == "A":
            op = ("A", pick(True), rng.below(nd), rng.below(nk))
        elif c == "R":
            op = ("R", pick(True), rng.below(nd))
        elif c in ("C", "M"):
            op = (c, pick(True), pick(False))
        elif c in ("E", "V"):
            a = pick(True)
            op = (c, a, a if rng.chance(0.3) else pick(True))
        else:
            op = (c, pick(True))
        ops.append(op)
        if applicable(op, alive):
            if c == "N":
                alive.add(op[1])
            elif c in ("C", "M"):
                alive.add(op[2])
            elif c == "D":
                alive.discard(op[1])
    return render(scripts, ops)


MALFORMED = ["N0 Q1", "k1:r1 N0", "N0 A0.1", "k0:z N0", "A0.1.x", "k0:r1 k0:r2 N0", "N0 F0.1", "k0:r1, N0 A0.1.0 F0"]


def gen_big(rng):
    """long lists: the loop must reach end() however long the list is"""
    n = 50 + rng.below(150)
    nd = 2 + rng.below(6)
    scripts = [[("r", rng.below(nd)) for _ in range(rng.below(4))] for _ in range(3)]
    ops = [("N", 0)] + [("A", 0, rng.below(nd), rng.below(3)) for _ in range(n)]
    ops += [("R", 0, rng.below(nd)) for _ in range(rng.below(10))]
    ops.append(rng.choice([("F", 0), ("D", 0), ("M", 0, 1)]))
    return render(scripts, ops)


# --------------------------------------------------------------------------------------
# shrinking
# --------------------------------------------------------------------------------------

def shrink(exe, line, still_bad, budget=600, wall_s=25):
    """greedy one-at-a-time deletion of operations and callback-body items while `still_bad(line, impl, model)`;
    bounded by the number of evaluations and by wall-clock time"""
    import time
    t_end = time.time() + wall_s
    h = parse(line)
    if h is None:
        return line
    scripts, ops = [list(b) for b in h[0]], list(h[1])
    spent = 0
    progress = True
    while progress and spent < budget and time.time() < t_end:
        progress = False
        cands = []
        for i in range(len(ops)):
            cands.append((scripts, ops[:i] + ops[i + 1:]))
        for k in range(len(scripts)):
            for j in range(len(scripts[k])):
                sc = [list(b) for b in scripts]
                del sc[k][j]
                cands.append((sc, ops))
        lines = [render(s, o) for s, o in cands]
        if not lines:
            break
        impl = run_impl_chunk(exe, lines, max_crashes=10 ** 6, tmo_base=3)
        model = run_model(lines)
        spent += len(lines)
        for (s, o), l, im, mo in zip(cands, lines, impl, model):
            if im != NOT_RUN and still_bad(l, im, mo):
                scripts, ops = s, o
                progress = True
                break
    return render(scripts, ops)


def case_dict(line, impl, model, detail):
    return {"input": line, "impl": impl, "model": model, "detail": detail}


# --------------------------------------------------------------------------------------
# the check
# --------------------------------------------------------------------------------------

def corpus_lines():
    res = []
    if os.path.isdir(CORPUS):
        for f in sorted(os.listdir(CORPUS)):
            if f.endswith(".hist"):
                for l in open(os.path.join(CORPUS, f)):
                    l = l.strip()
                    if l and not l.startswith("#"):
                        res.append(l)
    return res


def evaluate(exe, lines):
    """run both sides + monitor; returns (impl, model, stats, disagreements, monitor_failures)"""
    impl = run_impl(exe, lines)
    model = run_model(lines)
    stats = {}
    dis, mon = [], []
    for l, im, mo in zip(lines, impl, model):
        if im == NOT_RUN:
            stats["not_run_after_crash_cap"] = stats.get("not_run_after_crash_cap", 0) + 1
            continue
        m = monitor(l, im, stats)
        if m is not None:
            mon.append(case_dict(l, im, mo, m))
        elif im != mo:
            dis.append(case_dict(l, im, mo, "model and implementation differ"))
    return impl, model, stats, dis, mon


def nontrivial(line, out):
    st = {}
    if monitor(line, out, st) is not None:
        return False
    matched = sum(v for k, v in st.items() if k in ("removes_matched_outside_round", "inround_remove_self",
                                                    "inround_remove_delivered", "inround_remove_pending"))
    return st.get("deliveries", 0) >= 2 and matched >= 1


def correspondence(ctx):
    res = {"evaluations": 0, "distinct_nontrivial": 0, "samples": [], "disagreements": [], "monitor_failures": [],
           "infra_errors": [], "distribution": {}, "traces_validated_against_impl": 0,
           "rule": "a history is non-trivial when, on the implementation's output, at least two registrations are "
                   "delivered and at least one remove (outside or inside a delivery round) matches a registration"}
    exe, log = common.build_harness(HARNESS_SRC, "trk")
    if exe is None:
        res["infra_errors"].append("harness does not build against the current tree: " + log[-1500:])
        return res
    if not os.path.exists(common.driver()):
        res["infra_errors"].append("Lean driver missing: " + common.driver())
        return res
    n = 30000 if ctx.thorough else 800
    corpus = corpus_lines()
    gen = [gen_history(ctx.rng) for _ in range(n)]
    n_edge = max(20, n // 20)
    edge = [gen_history(ctx.rng, edge=True) for _ in range(n_edge)]
    big = [gen_big(ctx.rng) for _ in range(max(5, n // 100))]
    lines = corpus + gen + edge + big + MALFORMED
    try:
        impl, model, stats, dis, mon = evaluate(exe, lines)
    except Exception as ex:  # noqa: BLE001
        res["infra_errors"].append("running the two sides failed: %r" % (ex,))
        return res
    res["evaluations"] = sum(1 for im in impl if im != NOT_RUN)
    res["traces_validated_against_impl"] = res["evaluations"]
    distinct = set(l for l, im in zip(lines, impl) if im != NOT_RUN and nontrivial(l, im))
    res["distinct_nontrivial"] = len(distinct)
    res["samples"] = [{"input": l, "impl": im, "model": mo} for l, im, mo in
                      list(zip(lines, impl, model))[len(corpus):len(corpus) + 3]
                      + list(zip(lines, impl, model))[:2]]
    lens = [len(l.split()) for l in gen]
    stats.update({"corpus_histories": len(corpus), "generated_histories": len(gen), "edge_histories": len(edge),
                  "long_list_histories": len(big), "malformed_lines": len(MALFORMED),
                  "histories_with_add_in_round(model == library only; not judged by the monitor)":
                      sum(1 for l in lines if (parse(l) and not in_narrow_domain(parse(l)[0]))),
                  "out_of_domain_histories(correspondence only)":
                      sum(1 for l in lines if (parse(l) and not in_domain(parse(l)[0]))),
                  "words_per_history_min_avg_max": [min(lens), round(sum(lens) / len(lens), 1), max(lens)],
                  "distinct_histories": len(set(lines))})
    res["distribution"] = dict(sorted(stats.items()))
    # shrink what failed (first few)
    for c in mon[:3]:
        if "did not finish" in c["impl"]:
            continue  # every shrinking step of a hang costs a timeout

        def bad(l, im, mo):
            return monitor(l, im) is not None
        small = shrink(exe, c["input"], bad)
        if small != c["input"]:
            im = run_impl_chunk(exe, [small])[0]
            mo = run_model([small])[0]
            c["original_input"] = c["input"]
            c.update(case_dict(small, im, mo, monitor(small, im) or c["detail"]))
        if c["impl"].startswith("CRASH"):
            c["sanitizer_report"] = symbolized_report(exe, c["input"])
    for c in dis[:3]:
        if "did not finish" in c["impl"]:
            continue

        def bad2(l, im, mo):
            return im != mo and monitor(l, im) is None
        small = shrink(exe, c["input"], bad2)
        if small != c["input"]:
            im = run_impl_chunk(exe, [small])[0]
            mo = run_model([small])[0]
            c["original_input"] = c["input"]
            c.update(case_dict(small, im, mo, "model and implementation differ"))
    res["disagreements"] = dis
    res["monitor_failures"] = mon
    return res


def search(ctx, disagreements):
    """look around diverging histories for one on which the implementation itself violates the statement"""
    exe, _ = common.build_harness(HARNESS_SRC, "trk")
    if exe is None:
        return []
    lines = []
    for c in disagreements[:5]:
        h = parse(c.get("original_input", c["input"]))
        if h is None or "did not finish" in str(c.get("impl")) or not in_domain(h[0]):
            continue  # outside the property's domain no input can violate the statement
        scripts, ops = h
        for _ in range(400):
            o = list(ops)
            for _ in range(1 + ctx.rng.below(3)):
                r = ctx.rng.below(3)
                if r == 0 and o:
                    del o[ctx.rng.below(len(o))]
                elif r == 1 and o:
                    o.insert(ctx.rng.below(len(o) + 1), ctx.rng.choice(o))
                elif o:
                    i, j = ctx.rng.below(len(o)), ctx.rng.below(len(o))
                    o[i], o[j] = o[j], o[i]
            lines.append(render(scripts, o))
    lines += [gen_history(ctx.rng) for _ in range(8000)]
    impl = run_impl(exe, lines)
    found = []
    for l, im in zip(lines, impl):
        if im == NOT_RUN:
            continue
        m = monitor(l, im)
        if m is not None:
            found.append(case_dict(l, im, None, m))
    for c in found[:1]:
        small = shrink(exe, c["input"], lambda l, im, mo: monitor(l, im) is not None)
        im = run_impl_chunk(exe, [small])[0]
        c.update(case_dict(small, im, run_model([small])[0], monitor(small, im) or c["detail"]))
    return found


def replay(ctx, path):
    txt = open(path).read()
    lines = []
    try:
        j = json.loads(txt)
        case = j.get("case") or (j.get("correspondence_no_longer_checked") or [None])[0]
        if case and case.get("input"):
            lines = [case["input"]]
        else:
            print("replay file holds no history (broken obligations: %s)" % j.get("theorems_no_longer_checked"))
            return 1
    except ValueError:
        lines = [l.strip() for l in txt.split("\n") if l.strip() and not l.strip().startswith("#")]
    try:
        ok, log = common.lean_build(MODULE)
    except TypeError:
        ok, log = common.lean_build()
    if not ok:
        print("lake build failed:\n" + log[-800:])
        return 1
    exe, log = common.build_harness(HARNESS_SRC, "trk")
    if exe is None:
        print("harness does not build:\n" + log[-1500:])
        return 1
    impl = run_impl_chunk(exe, lines)
    model = run_model(lines)
    rc = 0
    for l, im, mo in zip(lines, impl, model):
        m = monitor(l, im)
        print("history        : " + l)
        print("implementation : " + im)
        print("model          : " + mo)
        if m is not None:
            print("PROPERTY VIOLATED by the implementation: " + m)
            rc = 1
        elif im != mo:
            print("model and implementation differ (the statement itself is not violated on this input)")
            rc = 1
        elif parse(l) and not in_domain(parse(l)[0]):
            print("ok: implementation == model (history outside C16's domain — add inside a round — so the "
                  "statement does not apply)")
        else:
            print("ok: implementation == model, statement holds")
    return rc
